(* Reads harness lines "<prefix> <name> <sexp>", runs the extracted checks named on the command line
   on every line with the given prefix, prints "<name> <check> <verdict>". *)
module M = Model

let rec pos_of_int n =
  if n = 1 then M.XH else if n land 1 = 0 then M.XO (pos_of_int (n lsr 1)) else M.XI (pos_of_int (n lsr 1))
let n_of_int n = if n = 0 then M.N0 else M.Npos (pos_of_int n)
let rec int_of_pos = function M.XH -> 1 | M.XO p -> 2 * int_of_pos p | M.XI p -> 2 * int_of_pos p + 1
let int_of_n = function M.N0 -> 0 | M.Npos p -> int_of_pos p

let str_of_string s = List.init (String.length s) (fun i -> n_of_int (Char.code s.[i]))

(* s-expression parser over a string, iterative on lists to keep the stack flat *)
let parse (s : String.t) (start : int) : M.sx =
  let n = String.length s in
  let stack : M.sx list list ref = ref [] in
  let cur : M.sx list ref = ref [] in
  let i = ref start in
  let result = ref None in
  while !result = None && !i < n do
    let c = s.[!i] in
    if c = '(' then (stack := !cur :: !stack; cur := []; incr i)
    else if c = ')' then begin
      let l = M.L (List.rev !cur) in
      (match !stack with
       | [] -> failwith "unbalanced"
       | top :: rest -> stack := rest; cur := l :: top);
      incr i;
      if !stack = [] then result := Some l
    end
    else if c >= '0' && c <= '9' then begin
      let v = ref 0 in
      while !i < n && s.[!i] >= '0' && s.[!i] <= '9' do
        v := !v * 10 + (Char.code s.[!i] - 48); incr i
      done;
      cur := M.A (n_of_int !v) :: !cur
    end
    else incr i
  done;
  match !result with Some l -> l | None -> failwith "no s-expression"

let () =
  let prefix = Sys.argv.(1) in
  let checks = Array.to_list (Array.sub Sys.argv 2 (Array.length Sys.argv - 2)) in
  let cnames = List.map (fun c -> (c, str_of_string c)) checks in
  (try
     while true do
       let line = input_line stdin in
       match String.index_opt line ' ' with
       | Some i when String.sub line 0 i = prefix ->
         let j = String.index_from line (i + 1) ' ' in
         let name = String.sub line (i + 1) (j - i - 1) in
         let t = parse line (j + 1) in
         List.iter (fun (c, cn) ->
             let v = (try int_of_n (M.dispatch cn t) with Stack_overflow -> 9) in
             Printf.printf "%s %s %d\n" name c v) cnames
       | _ -> ()
     done
   with End_of_file -> ())
