"""The grammar's user actions (bodies as lalrpop copies them into aidl.rs, whitespace-normalised) -> the hand-written
Coq function of Model/Actions.v that models each, with the names of the bound symbols it takes, in order.
An action body that is not listed here makes the translator fail (the model then stays at the last good Gen/ files)."""
# keys: the body text with comments removed and whitespace collapsed (lalrpop_rs.norm)
USER_ACTIONS = {
    '{ oi.map(|item| ast::Aidl { package: p, imports: vi, declared_parcelables: vdp, item, }) }':
        ('act_OptAidl', ['p', 'vi', 'vdp', 'oi']),
    '{ ast::Package { name, symbol_range: ast::Range::new(lookup, sp1, sp2), full_range: ast::Range::new(lookup, fp1, fp2), } }':
        ('act_Package', ['fp1', 'sp1', 'name', 'sp2', 'fp2']),
    '{ ast::Import { path: v.join("."), name: n.to_owned(), symbol_range: ast::Range::new(lookup, sp1, sp2), full_range: ast::Range::new(lookup, fp1, fp2), } }':
        ('act_Import', ['fp1', 'sp1', 'v', 'n', 'sp2', 'fp2']),
    '{ if v.is_empty() { n.to_owned() } else { format!("{}.{}", v.join("."), n) } }':
        ('act_QualifiedName', ['v', 'n']),
    'Some(ast::Item::Interface(i))':
        ('act_ItemInterface', ['i']),
    'Some(ast::Item::Parcelable(p))':
        ('act_ItemParcelable', ['p']),
    'Some(ast::Item::Enum(e))':
        ('act_ItemEnum', ['e']),
    '{ if let Some(d) = Diagnostic::from_error_recovery("Invalid item", lookup, __0) { diagnostics.push(d); } Ok(None) }':
        ('act_ErrItem', ['__0']),
    '{ let elements: Vec<ast::InterfaceElement> = v.into_iter().flatten().collect(); ast::Interface { oneway: oneway.is_some(), name: s.into(), elements, annotations, doc: javadoc::get_javadoc(input, p0), full_range: ast::Range::new(&lookup, fp1, fp2), symbol_range: ast::Range::new(&lookup, sp1, sp2), } }':
        ('act_Interface', ['p0', 'annotations', 'fp1', 'oneway', 'sp1', 's', 'sp2', 'v', 'fp2']),
    'Some(ast::InterfaceElement::Method(m))':
        ('act_IEMethod', ['m']),
    'Some(ast::InterfaceElement::Const(c))':
        ('act_IEConst', ['c']),
    '{ if let Some(d) = Diagnostic::from_error_recovery("Invalid interface element", lookup, __0) { diagnostics.push(d); } Ok(None) }':
        ('act_ErrIE', ['__0']),
    '{ let elements: Vec<ast::ParcelableElement> = v.into_iter().flatten().collect(); ast::Parcelable { name: s.into(), elements, annotations, doc: javadoc::get_javadoc(input, p0), full_range: ast::Range::new(&lookup, fp1, fp2), symbol_range: ast::Range::new(&lookup, sp1, sp2), } }':
        ('act_Parcelable', ['p0', 'annotations', 'fp1', 'sp1', 's', 'sp2', 'v', 'fp2']),
    'Some(ast::ParcelableElement::Field(f))':
        ('act_PEField', ['f']),
    'Some(ast::ParcelableElement::Const(c))':
        ('act_PEConst', ['c']),
    '{ if let Some(d) = Diagnostic::from_error_recovery("Invalid parcelable element", lookup, __0) { diagnostics.push(d); } Ok(None) }':
        ('act_ErrPE', ['__0']),
    '{ let elements: Vec<ast::EnumElement> = v.into_iter().flatten().collect(); ast::Enum { name: s.into(), elements, annotations, doc: javadoc::get_javadoc(input, p0), full_range: ast::Range::new(&lookup, fp1, fp2), symbol_range: ast::Range::new(&lookup, sp1, sp2), } }':
        ('act_Enum', ['p0', 'annotations', 'fp1', 'sp1', 's', 'sp2', 'v', 'fp2']),
    'Some(el)':
        ('act_SomeEnumElement', ['el']),
    '{ if let Some(d) = Diagnostic::from_error_recovery("Invalid enum element", lookup, __0) { diagnostics.push(d); } Ok(None) }':
        ('act_ErrEE', ['__0']),
    '{ ast::Method { oneway: oneway.is_some(), name: n.to_owned(), return_type: rt, args, annotations, doc: javadoc::get_javadoc(input, p0), transact_code: match v.map(|(ip, s)| (ip, s.parse())) { Some((_, Ok(v))) => Some(v), Some((ip, Err(e))) => { diagnostics.push(Diagnostic { kind: DiagnosticKind::Error, range: ast::Range::new(&lookup, ip, vp2), message: format!("Invalid method transact code: {}", e), context_message: None, hint: None, related_infos: Vec::new(), }); None }, None => None, }, full_range: ast::Range::new(&lookup, fp1, fp2), symbol_range: ast::Range::new(&lookup, sp1, sp2), transact_code_range: ast::Range::new(&lookup, vp1, vp2), oneway_range: ast::Range::new(&lookup, owp1, owp2), } }':
        ('act_Method', ['p0', 'annotations', 'fp1', 'owp1', 'oneway', 'owp2', 'rt', 'sp1', 'n', 'sp2', 'args', 'vp1', 'v', 'vp2', 'fp2']),
    '{ ast::Arg { direction: d, name: n.map(str::to_owned), arg_type: t, symbol_range: ast::Range::new(&lookup, sp1, p2), full_range: ast::Range::new(&lookup, p0, p2), annotations, doc: javadoc::get_javadoc(input, p0), } }':
        ('act_Arg', ['p0', 'd', 'annotations', 't', 'sp1', 'n', 'p2']),
    '{ match d { Some("in") => ast::Direction::In(ast::Range::new(&lookup, p1, p2)), Some("out") => ast::Direction::Out(ast::Range::new(&lookup, p1, p2)), Some("inout") => ast::Direction::InOut(ast::Range::new(&lookup, p1, p2)), None => ast::Direction::Unspecified, _ => unreachable!(), } }':
        ('act_Direction', ['p1', 'd', 'p2']),
    '{ ast::Const { name: n.to_owned(), const_type: t, value: v.to_owned(), annotations, doc: javadoc::get_javadoc(input, p0), full_range: ast::Range::new(&lookup, fp1, fp2), symbol_range: ast::Range::new(&lookup, sp1, sp2), } }':
        ('act_Const', ['p0', 'annotations', 'fp1', 't', 'sp1', 'n', 'sp2', 'v', 'fp2']),
    '{ ast::Field { name: n.to_owned(), field_type: t, value: v, annotations, doc: javadoc::get_javadoc(input, p0), full_range: ast::Range::new(&lookup, fp1, fp2), symbol_range: ast::Range::new(&lookup, sp1, sp2), } }':
        ('act_Field', ['p0', 'annotations', 'fp1', 't', 'sp1', 'n', 'sp2', 'v', 'fp2']),
    '{ ast::EnumElement { name: n.to_owned(), value: v.map(str::to_owned), doc: javadoc::get_javadoc(input, p0), full_range: ast::Range::new(&lookup, fp1, fp2), symbol_range: ast::Range::new(&lookup, sp1, sp2), } }':
        ('act_EnumElement', ['p0', 'fp1', 'sp1', 'n', 'sp2', 'v', 'fp2']),
    'ast::Type::simple_type(n, ast::TypeKind::Void, lookup, p1, p2)':
        ('act_TypeVoid', ['p1', 'n', 'p2']),
    'ast::Type::simple_type(n, ast::TypeKind::Primitive, lookup, p1, p2)':
        ('act_TypePrimitive', ['p1', 'n', 'p2']),
    'ast::Type::simple_type(n, ast::TypeKind::String, lookup, p1, p2)':
        ('act_TypeString', ['p1', 'n', 'p2']),
    'ast::Type::simple_type(n, ast::TypeKind::CharSequence, lookup, p1, p2)':
        ('act_TypeCharSequence', ['p1', 'n', 'p2']),
    '{ ast::Type::array(p, &lookup, sp1, sp2, fp1, fp2) }':
        ('act_TypeArray', ['fp1', 'sp1', 'p', 'sp2', 'fp2']),
    '{ ast::Type::list(p, &lookup, sp1, sp2, fp1, fp2) }':
        ('act_TypeList', ['fp1', 'sp1', 'sp2', 'p', 'fp2']),
    '{ ast::Type::non_generic_list(&lookup, p1, p2) }':
        ('act_TypeRawList', ['p1', 'p2']),
    '{ ast::Type::map(k, v, &lookup, sp1, sp2, fp1, fp2) }':
        ('act_TypeMap', ['fp1', 'sp1', 'sp2', 'k', 'v', 'fp2']),
    '{ ast::Type::non_generic_map(&lookup, p1, p2) }':
        ('act_TypeRawMap', ['p1', 'p2']),
    '{ let range = ast::Range::new(&lookup, p1, p2); ast::Type { name: n.to_owned(), kind: ast::TypeKind::Unresolved, generic_types: vec![], symbol_range: range.clone(), full_range: range, } }':
        ('act_TypeCustom', ['p1', 'n', 'p2']),
    'v.into_iter().flatten().collect()':
        ('act_AnnotationList', ['v']),
    '{ Some(ast::Annotation { name: n.to_owned(), key_values: v.unwrap_or_default().into_iter().collect(), }) }':
        ('act_OptAnnotation', ['n', 'v']),
    '(k.to_owned(), v.map(str::to_owned))':
        ('act_AnnotationParam', ['k', 'v']),
    'v.to_string()':
        ('act_ValueToString', ['v']),
    '"{}".to_string()':
        ('act_ValueEmptyBraces', []),
    '"{...}".to_string()':
        ('act_ValueBraces', []),
    'format!("{a}.{b}")':
        ('act_ValueDotted', ['a', 'b']),
}
