"""further Gen/ files, called by lib/core.regenerate(); returns the list of translator errors"""
import os
from rust_tables import TranslateError, write_if_changed


def regenerate_all(repo, gen_dir, aidl_rs):
    errors = []
    try:
        import serde_attrs
        write_if_changed(os.path.join(gen_dir, "SerdeSpec.v"), serde_attrs.gen_serde_spec(repo))
    except TranslateError as e:
        errors.append(f"translate:SerdeSpec.v: {e}")
    try:
        import javadoc_re
        write_if_changed(os.path.join(gen_dir, "JavadocRe.v"), javadoc_re.gen_javadoc_re(repo))
    except TranslateError as e:
        errors.append(f"translate:JavadocRe.v: {e}")
    try:
        import lalrpop_rs
    except ImportError:
        lalrpop_rs = None
    if lalrpop_rs is not None:
        errors += lalrpop_rs.regenerate(repo, gen_dir, aidl_rs)
    return errors
