#!/usr/bin/env python3
"""Reads the parser that lalrpop generated for the harness build (OUT_DIR/aidl.rs) and writes
   Gen/LexTable.v   -- the lexer's regex table (order = tie-break priority), skip flags, lexer index -> terminal column
   Gen/LrTables.v   -- __ACTION / __EOF_ACTION / __goto / terminal names / productions (pop count, nonterminal, action fn)
   Gen/ParseActions.v -- every __actionN as a Coq function on (start, value, end) triples: lalrpop's own glue
                         (Some/None/vec/push/tuples/@L/@R and the span-computing wrappers) translated mechanically,
                         the grammar's user actions mapped to the hand-written functions of Model/Actions.v
Anything that does not have the expected shape raises TranslateError."""
import re, os, sys
from rust_tables import TranslateError, write_if_changed, matching

ENTRY = "OptAidl"


# ------------------------------------------------------------------ Rust string literals
def rust_unescape(s):
    out = []
    i = 0
    while i < len(s):
        c = s[i]
        if c != "\\":
            out.append(c); i += 1; continue
        n = s[i + 1]
        if n == "u":
            j = s.index("}", i)
            out.append(chr(int(s[i + 3:j], 16))); i = j + 1
        else:
            out.append({"n": "\n", "r": "\r", "t": "\t", "0": "\0", "\\": "\\", '"': '"', "'": "'"}[n]); i += 2
    return "".join(out)


def rust_string_literals(src):
    """yield (literal value, end index) for each "..." literal in src"""
    i = 0
    while True:
        i = src.find('"', i)
        if i < 0:
            return
        j = i + 1
        while src[j] != '"':
            j += 2 if src[j] == "\\" else 1
        yield rust_unescape(src[i + 1:j]), j + 1
        i = j + 1


# ------------------------------------------------------------------ regex syntax -> AST
class RegexParser:
    def __init__(self, s):
        self.s = s
        self.i = 0

    def peek(self):
        return self.s[self.i] if self.i < len(self.s) else None

    def parse(self):
        if self.peek() == "^":
            self.i += 1
        r = self.alt()
        if self.i != len(self.s):
            raise TranslateError(f"regex: trailing input at {self.i} in {self.s!r}")
        return r

    def alt(self):
        branches = [self.seq()]
        while self.peek() == "|":
            self.i += 1
            branches.append(self.seq())
        return branches[0] if len(branches) == 1 else ("alt", branches)

    def seq(self):
        items = []
        while self.peek() is not None and self.peek() not in "|)":
            items.append(self.postfix())
        return ("seq", items)

    def postfix(self):
        a = self.atom()
        while self.peek() in ("*", "+", "?"):
            op = self.peek()
            self.i += 1
            if self.peek() == "?":
                raise TranslateError("lazy quantifiers are not supported")
            a = ({"*": "star", "+": "plus", "?": "opt"}[op], a)
        return a

    def atom(self):
        c = self.peek()
        if c == "(":
            self.i += 1
            if self.s.startswith("?:", self.i):
                self.i += 2
            elif self.peek() == "?":
                raise TranslateError("unsupported group flag")
            r = self.alt()
            if self.peek() != ")":
                raise TranslateError("regex: missing )")
            self.i += 1
            return r
        if c == "[":
            return self.cls()
        if c == "\\":
            self.i += 2
            e = self.s[self.i - 1]
            if e.isalnum():
                raise TranslateError(f"regex escape \\{e} not supported (lalrpop expands classes)")
            return ("class", [(ord(e), ord(e))])
        if c == ".":
            raise TranslateError("regex: `.` not supported")
        if c in "*+?{}":
            raise TranslateError(f"regex: unexpected {c}")
        self.i += 1
        return ("class", [(ord(c), ord(c))])

    def cls(self):
        assert self.s[self.i] == "["
        self.i += 1
        if self.peek() == "^":
            raise TranslateError("negated class not supported (lalrpop expands them)")
        ranges = []

        def one():
            c = self.s[self.i]
            if c == "\\":
                self.i += 2
                e = self.s[self.i - 1]
                if e.isalnum():
                    raise TranslateError(f"class escape \\{e} not supported")
                return ord(e)
            self.i += 1
            return ord(c)
        while self.peek() != "]":
            lo = one()
            if self.peek() == "-" and self.s[self.i + 1] != "]":
                self.i += 1
                hi = one()
            else:
                hi = lo
            ranges.append((lo, hi))
        self.i += 1
        return ("class", ranges)


def re_to_coq(r):
    k = r[0]
    if k == "class":
        return "RClass [" + "; ".join(f"({a}, {b})" for a, b in r[1]) + "]"
    if k == "seq":
        if not r[1]:
            return "REps"
        if len(r[1]) == 1:
            return re_to_coq(r[1][0])
        return "RSeqs [" + "; ".join(re_to_coq(x) for x in r[1]) + "]"
    if k == "alt":
        return "RAlts [" + "; ".join(re_to_coq(x) for x in r[1]) + "]"
    if k == "star":
        return f"RStar ({re_to_coq(r[1])})"
    if k == "plus":
        return f"RPlus ({re_to_coq(r[1])})"
    if k == "opt":
        return f"ROpt ({re_to_coq(r[1])})"
    raise TranslateError(str(r))


def lexer_table(src):
    m = re.search(r"mod __intern_token \{", src)
    if not m:
        raise TranslateError("mod __intern_token not found")
    blk = src[m.end():matching(src, m.end() - 1)]
    m2 = re.search(r"let __strs: &\[\(&str, bool\)\] = &\[", blk)
    if not m2:
        raise TranslateError("__strs table not found")
    arr = blk[m2.end():matching(blk, m2.end() - 1, "[", "]")]
    entries = []
    pos = 0
    for lit, end in rust_string_literals(arr):
        m3 = re.match(r"\s*,\s*(true|false)\s*\)", arr[end:])
        if not m3:
            raise TranslateError("lexer entry without skip flag")
        entries.append((lit, m3.group(1) == "true"))
    if "MatcherBuilder::new(__strs.iter().copied())" not in blk:
        raise TranslateError("unexpected MatcherBuilder construction")
    return entries


def module_block(src, name):
    m = re.search(r"\nmod __parse__" + name + r" \{", src)
    if not m:
        raise TranslateError(f"parser module for {name} not found")
    return src[m.end():matching(src, m.end() - 1)]


def int_array(blk, name):
    m = re.search(r"const " + name + r": &\[i16\] = &\[", blk)
    if not m:
        raise TranslateError(f"{name} not found")
    body = blk[m.end():matching(blk, m.end() - 1, "[", "]")]
    body = re.sub(r"//[^\n]*", "", body)
    return [int(x) for x in re.findall(r"-?\d+", body)]


def goto_table(blk):
    m = re.search(r"fn __goto\(state: i16, nt: usize\) -> i16 \{\s*match nt \{", blk)
    if not m:
        raise TranslateError("__goto not found")
    body = blk[m.end():matching(blk, m.end() - 1)]
    out = {}
    i = 0
    for mm in re.finditer(r"(\d+) => (\d+),|(\d+) => match state \{(.*?)\n\s*\},", body, re.S):
        if mm.group(1) is not None:
            out[int(mm.group(1))] = ([], int(mm.group(2)))
        else:
            cases = []
            default = None
            for arm in re.finditer(r"([\d\s|.=]+|_) => (\d+),", mm.group(4)):
                pat = arm.group(1).strip()
                tgt = int(arm.group(2))
                if pat == "_":
                    default = tgt
                else:
                    states = []
                    for alt in pat.split("|"):
                        alt = alt.strip()
                        if "..=" in alt:
                            a, b = alt.split("..=")
                            states += list(range(int(a), int(b) + 1))
                        else:
                            states.append(int(alt))
                    cases.append((states, tgt))
            if default is None:
                raise TranslateError("__goto: inner match without default")
            out[int(mm.group(3))] = (cases, default)
    if "_ => 0," not in body and not re.search(r"_ => 0\s*,?\s*$", body.strip()):
        raise TranslateError("__goto: unexpected default")
    return out


def terminals(blk):
    m = re.search(r"const __TERMINAL: &\[&str\] = &\[", blk)
    body = blk[m.end():matching(blk, m.end() - 1, "[", "]")]
    names = []
    for mm in re.finditer(r'r###"(.*?)"###', body):
        names.append(mm.group(1))
    return names


def token_to_integer(blk):
    m = re.search(r"fn __token_to_integer<", blk)
    body = blk[m.end():]
    body = body[:body.index("fn __token_to_symbol")]
    pairs = [(int(a), int(b)) for a, b in re.findall(r"Token\((\d+), _\) if true => Some\((\d+)\),", body)]
    if not pairs:
        raise TranslateError("__token_to_integer: no arms")
    return pairs


def reductions(blk):
    """production index -> dict(pop, nt, action, kind, comment, variants)"""
    prods = {}
    # plain __reduceN functions
    for m in re.finditer(r"pub\(crate\) fn __reduce(\d+)<.*?\) -> \(usize, usize\)\s*\{\n(.*?)\n    \}\n", blk, re.S):
        n = int(m.group(1))
        body = m.group(2)
        cm = re.search(r"//\s*(.*?)\s*=>\s*ActionFn\((\d+)\);", body)
        pops = re.findall(r"let __sym(\d+) = __pop_Variant(\d+)\(__symbols\);", body)
        ret = re.search(r"\((\d+), (\d+)\)\s*$", body.strip())
        call = re.search(r"super::__action(\d+)::<>\(lookup, diagnostics, input, (.*?)\);", body, re.S)
        if not (cm and ret and call):
            raise TranslateError(f"__reduce{n}: unexpected shape")
        args = [a.strip() for a in call.group(2).split(",") if a.strip()]
        k = int(ret.group(1))
        if k != len(pops):
            raise TranslateError(f"__reduce{n}: pop count mismatch")
        if k == 0:
            if args != ["&__start", "&__end"] or "__lookahead_start.cloned().or_else(|| __symbols.last().map(|s| s.2.clone())).unwrap_or_default()" not in body:
                raise TranslateError(f"__reduce{n}: unexpected empty production")
        else:
            if args != [f"__sym{i}" for i in range(k)]:
                raise TranslateError(f"__reduce{n}: unexpected argument order {args}")
            if f"let __start = __sym0.0.clone();" not in body or f"let __end = __sym{k - 1}.2.clone();" not in body:
                raise TranslateError(f"__reduce{n}: unexpected span")
        push = re.search(r"__symbols\.push\(\(__start, __Symbol::Variant(\d+)\(__nt\), __end\)\);", body)
        if not push:
            raise TranslateError(f"__reduce{n}: push not found")
        prods[n] = {"pop": k, "nt": int(ret.group(2)), "action": int(call.group(1)), "kind": "normal", "comment": cm.group(1),
                    "pops": [int(v) for _, v in pops], "push": int(push.group(1))}
        if [int(i) for i, _ in pops] != list(range(k - 1, -1, -1)):
            raise TranslateError(f"__reduce{n}: symbols not popped last-to-first")
    # arms written inline in __reduce: fallible (error) productions and the accept production
    m = re.search(r"pub\(crate\) fn __reduce<", blk)
    dis = blk[m.end():]
    dis = dis[:dis.index("fn __symbol_type_mismatch")]
    for mm in re.finditer(r"\n            (\d+) => \{\n(.*?)\n            \}", dis, re.S):
        n = int(mm.group(1)); body = mm.group(2)
        if re.match(r"\s*__reduce\d+\(", body):
            continue
        cm = re.search(r"//\s*(.*?)\s*=>\s*ActionFn\((\d+)\);", body)
        if "return Some(Ok(__nt));" in body:
            pv = re.search(r"let __sym0 = __pop_Variant(\d+)\(__symbols\);", body)
            prods[n] = {"pop": 1, "nt": None, "action": int(cm.group(2)), "kind": "accept", "comment": cm.group(1),
                        "pops": [int(pv.group(1))], "push": None}
        elif "Err(e) => return Some(Err(e))," in body:
            ret = re.search(r"\((\d+), (\d+)\)\s*$", body.strip())
            if "let __sym0 = __pop_Variant1(__symbols);" not in body or int(ret.group(1)) != 1:
                raise TranslateError(f"reduce arm {n}: unexpected fallible production")
            push = re.search(r"__symbols\.push\(\(__start, __Symbol::Variant(\d+)\(__nt\), __end\)\);", body)
            prods[n] = {"pop": 1, "nt": int(ret.group(2)), "action": int(cm.group(2)), "kind": "fallible", "comment": cm.group(1),
                        "pops": [1], "push": int(push.group(1))}
        else:
            raise TranslateError(f"reduce arm {n}: unexpected shape")
    tail = dis[dis.rindex("_ => panic!"):]
    want = ["__states.truncate(__states_len - __pop_states);", "let __next_state = __goto(__state, __nonterminal);", "__states.push(__next_state);"]
    for w in want:
        if w not in tail:
            raise TranslateError("__reduce: unexpected epilogue")
    idx = sorted(prods)
    if idx != list(range(len(idx))):
        raise TranslateError("productions are not numbered contiguously")
    return [prods[i] for i in idx]


# ------------------------------------------------------------------ Rust types -> vty
def split_type_args(s):
    out = []; depth = 0; cur = ""
    for c in s:
        if c in "<(":
            depth += 1
        elif c in ">)":
            depth -= 1
        if c == "," and depth == 0:
            out.append(cur.strip()); cur = ""
        else:
            cur += c
    if cur.strip():
        out.append(cur.strip())
    return out


def rust_type(t):
    t = t.strip()
    if t == "&'input str":
        return "TTok"
    if t == "usize":
        return "TLoc"
    if t == "String":
        return "TString"
    if t.startswith("__lalrpop_util::ErrorRecovery<") or t.startswith("__state_machine::ErrorRecovery<"):
        return "TErr"
    m = re.fullmatch(r"(?:core::option::)?Option<(.*)>", t, re.S)
    if m:
        return f"(TOpt {rust_type(m.group(1))})"
    m = re.fullmatch(r"(?:alloc::vec::)?Vec<(.*)>", t, re.S)
    if m:
        return f"(TVec {rust_type(m.group(1))})"
    m = re.fullmatch(r"Result<(.*),\s*__lalrpop_util::ParseError<.*>>", t, re.S)
    if m:
        return rust_type(split_type_args(m.group(1) + "," )[0]) if False else rust_type(m.group(1))
    if t.startswith("(") and t.endswith(")"):
        parts = [rust_type(x) for x in split_type_args(t[1:-1])]
        if parts == ["TString", "(TOpt TString)"]:
            return "TKV"
        return "(TTuple [" + "; ".join(parts) + "])"
    m = re.fullmatch(r"ast::(\w+)", t)
    if m:
        return f'(TAst "{m.group(1)}")'
    raise TranslateError(f"unknown Rust type {t!r}")


def symbol_variants(blk):
    m = re.search(r"pub\(crate\) enum __Symbol<'input>\s*\{", blk)
    if not m:
        raise TranslateError("__Symbol not found")
    body = blk[m.end():matching(blk, m.end() - 1)]
    out = []
    for line in [l.strip() for l in body.split("\n") if l.strip()]:
        mm = re.fullmatch(r"Variant(\d+)\((.*)\),", line)
        if not mm or int(mm.group(1)) != len(out):
            raise TranslateError(f"__Symbol: unexpected line {line!r}")
        out.append(rust_type(mm.group(2)))
    return out


# ------------------------------------------------------------------ actions
def split_actions(src):
    parts = re.split(r"\n(?=#\[allow\(unused_variables\)\]\nfn __action\d+<)", src)
    acts = {}
    for p in parts[1:]:
        m = re.match(r"#\[allow\(unused_variables\)\]\nfn __action(\d+)<\s*'input,\s*'err,\s*>\(\s*(.*?)\n\) -> (.*?)\n\{\n(.*?)\n\}\n", p, re.S)
        if not m:
            raise TranslateError("unparsable action: " + p[:120])
        n = int(m.group(1))
        params = m.group(2)
        pre = "lookup: &line_col::LineColLookup<'input>,\n    diagnostics: &'err mut Vec<Diagnostic>,\n    input: &'input str,"
        if not params.startswith(pre):
            raise TranslateError(f"__action{n}: unexpected leading parameters")
        rest = params[len(pre):].strip()
        plist = []
        if rest:
            for line in [l.strip() for l in rest.split("\n") if l.strip()]:
                mm = re.match(r"\(_, (mut )?(\w+), _\): \(usize, (.*), usize\),$", line)
                if mm:
                    plist.append(("bind", mm.group(2), rust_type(mm.group(3))))
                    continue
                mm = re.match(r"(__\d+): \(usize, (.*), usize\),$", line)
                if mm:
                    plist.append(("triple", mm.group(1), rust_type(mm.group(2))))
                    continue
                if line in ("__lookbehind: &usize,", "__lookahead: &usize,"):
                    plist.append(("look", line.split(":")[0], None))
                    continue
                raise TranslateError(f"__action{n}: unexpected parameter {line!r}")
        acts[n] = {"params": plist, "ret": m.group(3).strip(), "ret_ty": rust_type(re.sub(r"\s+", " ", m.group(3).strip())), "body": m.group(4)}
    return acts


def strip_comments(s):
    """remove // and /* */ comments (nested, as Rust allows), leaving string, raw-string and char literals alone: a comment
    is not code, so an action body that differs only by one is the same action"""
    out, i, n = [], 0, len(s)
    while i < n:
        c = s[i]
        if c == '"':
            j = i + 1
            while j < n and s[j] != '"':
                j += 2 if s[j] == "\\" else 1
            out.append(s[i:j + 1]); i = j + 1
        elif c == "r" and re.match(r'r#*"', s[i:]) and (i == 0 or not (s[i - 1].isalnum() or s[i - 1] == "_")):
            h = re.match(r'r(#*)"', s[i:]).group(1)
            j = s.find('"' + h, i + 2 + len(h))
            j = n if j < 0 else j + 1 + len(h)
            out.append(s[i:j]); i = j
        elif c == "'" and re.match(r"'(\\.[^']*|[^'\\])'", s[i:]):
            j = i + re.match(r"'(\\.[^']*|[^'\\])'", s[i:]).end()
            out.append(s[i:j]); i = j
        elif s.startswith("//", i):
            j = s.find("\n", i)
            i = n if j < 0 else j
        elif s.startswith("/*", i):
            depth, j = 1, i + 2
            while j < n and depth:
                if s.startswith("/*", j):
                    depth += 1; j += 2
                elif s.startswith("*/", j):
                    depth -= 1; j += 2
                else:
                    j += 1
            out.append(" "); i = j
        else:
            out.append(c); i += 1
    return "".join(out)


def norm(s):
    return re.sub(r"\s+", " ", strip_comments(s)).strip()


# lalrpop's own glue, recognised by (normalised) body text: body -> Coq expression over the bound names
GLUE = {
    "__0": ("GId", ["__0"]),
    "v": ("GId", ["v"]),
    "Some(__0)": ("GSome", ["__0"]),
    "None": ("GNone", []),
    "alloc::vec![]": ("GVecNil", []),
    "alloc::vec![__0]": ("GVecOne", ["__0"]),
    "{ let mut v = v; v.push(e); v }": ("GPush", ["v", "e"]),
    "match e { None => v, Some(e) => { v.push(e); v } }": ("GPushOpt", ["v", "e"]),
    "(__0, __1)": ("GTuple2", ["__0", "__1"]),
    "__lookbehind.clone()": ("GBehind", []),
    "__lookahead.clone()": ("GAhead", []),
}


def load_user_actions():
    """normalised body text -> (Coq function, parameter names in the order the Coq function takes them)"""
    import user_actions
    out = {}
    for k, v in user_actions.USER_ACTIONS.items():
        k2 = norm(k)               # the keys are written as the bodies appear in the source, comments included
        if k2 in out and out[k2] != v:
            raise TranslateError(f"user action table: two entries for {k2[:80]}")
        out[k2] = v
    return out


def action_to_coq(n, a, acts, user):
    """returns the Coq term of the action's definition (adef)"""
    params = a["params"]
    body = norm(a["body"])
    looks = [p for p in params if p[0] == "look"]
    names = [p[1] for p in params if p[0] != "look"]
    nargs = len(names)
    if looks and nargs:
        raise TranslateError(f"__action{n}: both lookaround and symbols")
    if body in GLUE or body in user:
        pos = {}
        for i, p in enumerate([q for q in params if q[0] == "bind"]):
            if p[1] != "_":
                pos[p[1]] = i
        if body in GLUE:
            kind, order = GLUE[body]
            return f"AGlue {kind} {nargs} [" + "; ".join(str(pos[x]) for x in order) + "]"
        fn, order = user[body]
        missing = [x for x in order if x not in pos]
        if missing:
            raise TranslateError(f"__action{n}: user action {fn} expects parameters {missing}")
        return f"AUser U{fn[3:]} {nargs} [" + "; ".join(str(pos[x]) for x in order) + "]"
    if not all(p[0] in ("triple", "look") for p in params):
        raise TranslateError(f"__action{n}: unknown action body: {body[:160]}")
    # a wrapper: straight-line code computing spans and calling other actions -> data
    env = {f"__{i}": f"AArg {i}" for i in range(nargs)}
    loc = {}
    steps = []
    text = a["body"]
    stmts = [norm(s) for s in re.split(r";\n", text) if s.strip()]
    final = None
    pending = {}
    ntemps = 0
    for st in stmts:
        m = re.fullmatch(r"let (__(?:start|end)\d+) = (__\w+)\.(0|2)\.clone\(\)", st)
        if m:
            loc[m.group(1)] = ("LStart" if m.group(3) == "0" else "LEnd") + f" ({env[m.group(2)]})"
            continue
        m = re.fullmatch(r"let (__(?:start|end)\d+) = (__lookbehind|__lookahead)\.clone\(\)", st)
        if m:
            loc[m.group(1)] = "LBehind" if m.group(2) == "__lookbehind" else "LAhead"
            continue
        m = re.fullmatch(r"let (__temp\d+) = __action(\d+)\( lookup, diagnostics, input, (.*?),? \)", st)
        if m:
            callee = int(m.group(2))
            if callee >= n:
                raise TranslateError(f"__action{n} calls __action{callee}: not an earlier action")
            cargs = [x.strip() for x in m.group(3).split(",") if x.strip()]
            if cargs and cargs[0].startswith("&__start"):
                if len(cargs) != 2 or not cargs[1].startswith("&__end"):
                    raise TranslateError(f"__action{n}: unexpected lookaround call")
                pending[m.group(1)] = (callee, None, cargs[0][1:], cargs[1][1:])
            else:
                pending[m.group(1)] = (callee, [env[x] for x in cargs], None, None)
            continue
        m = re.fullmatch(r"let (__temp\d+) = \((__start\d+), (__temp\d+), (__end\d+)\)", st)
        if m:
            t = m.group(1)
            if t != m.group(3) or t not in pending:
                raise TranslateError(f"__action{n}: unexpected temp construction")
            callee, cargs, ls, le = pending.pop(t)
            if cargs is None and (ls != m.group(2) or le != m.group(4)):
                raise TranslateError(f"__action{n}: lookaround call with other bounds than the temp's span")
            argtxt = "None" if cargs is None else "(Some [" + "; ".join(cargs) + "])"
            steps.append(f"WS ({loc[m.group(2)]}) ({loc[m.group(4)]}) {callee}%N {argtxt}")
            env[t] = f"ATemp {ntemps}"
            ntemps += 1
            continue
        m = re.fullmatch(r"__action(\d+)\( lookup, diagnostics, input, (.*?),? \)", st)
        if m:
            callee = int(m.group(1))
            if callee >= n:
                raise TranslateError(f"__action{n} calls __action{callee}: not an earlier action")
            cargs = [x.strip() for x in m.group(2).split(",") if x.strip()]
            final = (callee, [env[x] for x in cargs])
            continue
        raise TranslateError(f"__action{n}: unrecognised statement {st[:120]!r}")
    if final is None or pending:
        raise TranslateError(f"__action{n}: no final call / dangling temp")
    return f"AWrap (W {nargs} [" + "; ".join(steps) + f"] {final[0]}%N [" + "; ".join(final[1]) + "])"


def order_actions(acts):
    """callee-before-caller order"""
    deps = {n: set(int(x) for x in re.findall(r"__action(\d+)\(", a["body"])) for n, a in acts.items()}
    done, out = set(), []

    def visit(n, stack=()):
        if n in done:
            return
        if n in stack:
            raise TranslateError("recursive actions")
        for d in sorted(deps[n]):
            visit(d, stack + (n,))
        done.add(n); out.append(n)
    for n in sorted(acts):
        visit(n)
    return out


# ------------------------------------------------------------------ output
def gen_lex_table(src, blk):
    entries = lexer_table(src)
    tti = token_to_integer(blk)
    out = ["(* GENERATED by translate/lalrpop_rs.py from the lalrpop output (OUT_DIR/aidl.rs) -- do not edit *)",
           "From AidlV Require Import Lib.Regex.", "",
           "(* (regex, skip) in the order of __intern_token::new_builder: the index is the tie-break priority *)",
           "Definition gen_lex_table : list (re * bool) :=\n  [ " +
           ";\n    ".join(f"({re_to_coq(RegexParser(r).parse())}, {'true' if sk else 'false'})" for r, sk in entries) + " ].", "",
           "(* __token_to_integer: lexer index -> terminal column *)",
           "Definition gen_token_to_integer (i : N) : option N :=\n  match i with\n" +
           "\n".join(f"  | {a} => Some {b}" for a, b in tti) + "\n  | _ => None\n  end.", ""]
    return "\n".join(out)


def automaton_facts(blk, action, eof, goto, prods, names, ncols, nstates):
    """grammar symbols of every production's right-hand side (parsed from lalrpop's production comments), the accessing
    symbol of every state and its predecessor states (computed here from the tables).  All three are only CLAIMS:
    Proofs/Automaton.v re-checks them against the tables by computation."""
    lhs_of = {}
    for p in prods:
        name = p["comment"].split(" = ")[0].strip() if " = " in p["comment"] else p["comment"].split(" =")[0].strip()
        if p["nt"] is not None:
            if lhs_of.setdefault(name, p["nt"]) != p["nt"]:
                raise TranslateError(f"nonterminal {name} has two indices")
    term = {n: i for i, n in enumerate(names)}

    def sym(tok):
        tok = tok.strip()
        if tok == "error":
            return "SErr"
        if tok in term:
            return f"ST {term[tok]}"
        if tok in lhs_of:
            return f"SNT {lhs_of[tok]}"
        raise TranslateError(f"unknown grammar symbol {tok!r}")

    def split_rhs(r):
        # symbols are separated by ", " at nesting depth 0 of ( ) < >
        out, depth, cur = [], 0, ""
        i = 0
        while i < len(r):
            c = r[i]
            if c == '"':
                j = r.index('"', i + 1)
                cur += r[i:j + 1]; i = j + 1; continue
            if c in "(<":
                depth += 1
            elif c in ")>":
                depth -= 1
            if c == "," and depth == 0:
                out.append(cur); cur = ""; i += 1; continue
            cur += c; i += 1
        if cur.strip():
            out.append(cur)
        return [x.strip() for x in out]
    rhs = []
    for p in prods:
        c = p["comment"]
        body = c.split("=", 1)[1].strip() if "=" in c else ""
        # the nonterminal name itself may contain "=" (e.g. ("=" <Value>)?): split at the first " = " outside quotes/parens
        depth = 0; k = None; i = 0
        while i < len(c):
            ch = c[i]
            if ch == '"':
                i = c.index('"', i + 1) + 1; continue
            if ch in "(<":
                depth += 1
            elif ch in ")>":
                depth -= 1
            elif ch == "=" and depth == 0:
                k = i; break
            i += 1
        body = c[k + 1:].strip()
        syms = [sym(x) for x in split_rhs(body)] if body else []
        if len(syms) != p["pop"]:
            raise TranslateError(f"production {c!r}: {len(syms)} symbols in the comment, {p['pop']} popped")
        rhs.append(syms)
    # the transitions that can actually occur: least fixpoint over shifts and over gotos after reductions
    # (the goto function's default arms also answer for states where the nonterminal can never be reduced to)
    def goto_of(t, nt):
        cases, default = goto[nt]
        for states, tgt in cases:
            if t in states:
                return tgt
        return default
    acc = [None] * nstates
    preds = [set() for _ in range(nstates)]
    live = {0}
    edges = set()

    def add_edge(t, x, tgt):
        if (t, tgt) in edges:
            return False
        if acc[tgt] is None:
            acc[tgt] = x
        elif acc[tgt] != x:
            raise TranslateError(f"state {tgt} is entered by {acc[tgt]} and by {x}")
        edges.add((t, tgt)); preds[tgt].add(t); live.add(tgt)
        return True
    changed = True
    while changed:
        changed = False
        for s in sorted(live):
            row = action[s * ncols:(s + 1) * ncols]
            reduces = set()
            for c, a in enumerate(row):
                if a > 0:
                    changed |= add_edge(s, "SErr" if c == ncols - 1 else f"ST {c}", a - 1)
                elif a < 0:
                    reduces.add(-(a + 1))
            if eof[s] < 0:
                reduces.add(-(eof[s] + 1))
            for r in reduces:
                p = prods[r]
                if p["kind"] == "accept":
                    continue
                back = {s}
                for _ in range(p["pop"]):
                    back = set(t for b in back for t in preds[b])
                for t in back:
                    changed |= add_edge(t, f"SNT {p['nt']}", goto_of(t, p["nt"]))
    out = ["(* CLAIMS re-checked by Proofs/Automaton.v: right-hand sides, accessing symbols, predecessors *)",
           "Definition gen_prod_rhs : list (list gsym) :=\n  [ " + ";\n    ".join("[" + "; ".join(r) + "]" for r in rhs) + " ]%N.",
           "Definition gen_accessing : list (option gsym) :=\n  [ " + "; ".join("None" if a is None else f"Some ({a})" for a in acc) + " ]%N.",
           "Definition gen_preds : list (list N) :=\n  [ " + ";\n    ".join("[" + "; ".join(str(x) for x in sorted(set(p))) + "]" for p in preds) + " ]%N.",
           f"Definition gen_nnt : nat := {max(goto) + 1}%nat."]
    return "\n".join(out)


def gen_lr_tables(blk):
    action = int_array(blk, "__ACTION")
    eof = int_array(blk, "__EOF_ACTION")
    names = terminals(blk)
    ncols = len(names) + 1
    if len(action) % ncols != 0 or len(action) // ncols != len(eof):
        raise TranslateError(f"table dimensions: {len(action)} actions, {ncols} columns, {len(eof)} states")
    m = re.search(r"__ACTION\[\(state as usize\) \* (\d+) \+ integer\]", blk)
    if not m or int(m.group(1)) != ncols:
        raise TranslateError("__action indexing")
    m = re.search(r"fn error_action\(&self, state: i16\) -> i16 \{\s*__action\(state, (\d+) - 1\)", blk)
    if not m or int(m.group(1)) != ncols:
        raise TranslateError("error_action column")
    if not re.search(r"fn uses_error_recovery\(&self\) -> bool \{\s*true", blk):
        raise TranslateError("uses_error_recovery")
    if not re.search(r"fn start_state\(&self\) -> Self::StateIndex \{\s*0", blk) or \
            not re.search(r"fn start_location\(&self\) -> Self::Location \{\s*Default::default\(\)", blk):
        raise TranslateError("start state / location")
    goto = goto_table(blk)
    prods = reductions(blk)
    nstates = len(eof)
    rows = [action[i * ncols:(i + 1) * ncols] for i in range(nstates)]

    def z(x):
        return str(x) if x >= 0 else f"({x})"
    out = ["(* GENERATED by translate/lalrpop_rs.py from the lalrpop output (OUT_DIR/aidl.rs) -- do not edit *)",
           "From Coq Require Import ZArith.", "From AidlV Require Import Lib.Str Model.Vty.", "Local Open Scope Z_scope.", "",
           f"Definition gen_ncols : nat := {ncols}%nat.   (* terminals + the error column *)",
           f"Definition gen_nstates : nat := {nstates}%nat.",
           "Definition gen_action_rows : list (list Z) :=\n  [ " + ";\n    ".join("[" + "; ".join(z(x) for x in r) + "]" for r in rows) + " ].",
           "Definition gen_eof_action : list Z := [" + "; ".join(z(x) for x in eof) + "].", "",
           "Definition gen_terminals : list string :=\n  [ " + "; ".join('"' + n.replace('"', '""') + '"' for n in names) + " ]%string.", ""]
    g = ["Definition gen_goto (state nt : N) : N :=\n  match nt with"]
    for nt in sorted(goto):
        cases, default = goto[nt]
        if not cases:
            g.append(f"  | {nt}%N => {default}%N")
        else:
            g.append(f"  | {nt}%N => match state with")
            for states, tgt in cases:
                g.append("      | " + " | ".join(f"{s}%N" for s in states) + f" => {tgt}%N")
            g.append(f"      | _ => {default}%N\n      end")
    g.append("  | _ => 0%N\n  end.")
    out.append("\n".join(g)); out.append("")
    out.append("(* per production: (symbols popped, nonterminal, action function, kind: 0 normal / 1 fallible `error` alternative / 2 accept) *)")
    out.append("Definition gen_productions : list (nat * N * N * N) :=\n  [ " + ";\n    ".join(
        f"({p['pop']}%nat, {p['nt'] if p['nt'] is not None else 0}%N, {p['action']}%N, {{'normal': 0, 'fallible': 1, 'accept': 2}}%N)".replace(
            "{'normal': 0, 'fallible': 1, 'accept': 2}", str({'normal': 0, 'fallible': 1, 'accept': 2}[p['kind']]))
        for p in prods) + " ].")
    out.append("")
    out.append("(* the value type of every __Symbol variant; tokens are Variant0, the error symbol Variant1 *)")
    out.append("Definition gen_variants : list vty :=\n  [ " + ";\n    ".join(symbol_variants(blk)) + " ].")
    out.append("")
    out.append("(* per production: the variants popped (first symbol first) and the variant pushed (None: the accept production) *)")
    out.append("Definition gen_prod_types : list (list nat * option nat) :=\n  [ " + ";\n    ".join(
        "([" + "; ".join(str(v) for v in reversed(p["pops"])) + "]%nat, " + (f"Some {p['push']}%nat" if p["push"] is not None else "None") + ")"
        for p in prods) + " ].")
    out.append("")
    out.append(automaton_facts(blk, action, eof, goto, prods, names, ncols, nstates))
    out.append("")
    out.append("(* the productions as lalrpop printed them *)")
    out.append("Definition gen_production_text : list string :=\n  [ " + ";\n    ".join('"' + p["comment"].replace('"', '""') + '"' for p in prods) + " ]%string.")
    return "\n".join(out) + "\n"


def gen_parse_actions(src):
    acts = split_actions(src)
    user = load_user_actions()
    out = ["(* GENERATED by translate/lalrpop_rs.py from the lalrpop output (OUT_DIR/aidl.rs) -- do not edit *)",
           "From AidlV Require Import Model.Wrappers.", "Local Open Scope nat_scope.", ""]
    table, sigs = [], []
    for n in sorted(acts):
        table.append(f"({n}%N, {action_to_coq(n, acts[n], acts, user)})")
        ptys = [p[2] for p in acts[n]["params"] if p[0] != "look"]
        sigs.append(f"({n}%N, ([" + "; ".join(ptys) + f"], {acts[n]['ret_ty']}))")
    out.append("(* every __actionN, in order: lalrpop glue, a user action of the grammar, or a span-computing wrapper -- all as data *)")
    out.append("Definition gen_actions : list (N * adef) :=\n  [ " + ";\n    ".join(table) + " ].\n")
    out.append("(* parameter and result types, from the Rust signatures *)")
    out.append("Definition gen_action_sigs : list (N * (list vty * vty)) :=\n  [ " + ";\n    ".join(sigs) + " ].\n")
    return "\n".join(out)


def regenerate(repo, gen_dir, aidl_rs):
    errors = []
    if not aidl_rs or not os.path.exists(aidl_rs):
        return ["translate:lalrpop: generated aidl.rs not found (harness not built)"]
    src = open(aidl_rs).read()
    try:
        blk = module_block(src, ENTRY)
    except TranslateError as e:
        return [f"translate:lalrpop: {e}"]
    for name, fn in (("LexTable.v", lambda: gen_lex_table(src, blk)), ("LrTables.v", lambda: gen_lr_tables(blk)),
                     ("ParseActions.v", lambda: gen_parse_actions(src))):
        try:
            write_if_changed(os.path.join(gen_dir, name), fn())
        except TranslateError as e:
            errors.append(f"translate:{name}: {e}")
    return errors


if __name__ == "__main__":
    import glob
    f = sorted(glob.glob("/verif/.cache/target/debug/build/aidl-parser-*/out/aidl.rs"), key=os.path.getmtime)[-1]
    print(regenerate("/repo", sys.argv[1] if len(sys.argv) > 1 else "/tmp/gen_out", f))
