#!/usr/bin/env python3
"""Reads the parser that lalrpop generated for the harness build (OUT_DIR/aidl.rs) and writes
   Gen/LexTable.v   -- the lexer's regex table (order = tie-break priority), skip flags, lexer index -> terminal column
   Gen/LrTables.v   -- __ACTION / __EOF_ACTION / __goto / terminal names / productions (pop count, nonterminal, action fn)
   Gen/ParseActions.v -- every __actionN as a Coq function on (start, value, end) triples: lalrpop's own glue
                         (Some/None/vec/push/tuples/@L/@R and the span-computing wrappers) translated mechanically,
                         the grammar's user actions mapped to the hand-written functions of Model/Actions.v
Anything that does not have the expected shape raises TranslateError."""
import re, os, sys
from rust_tables import TranslateError, write_if_changed, matching

ENTRY = "OptAidl"


# ------------------------------------------------------------------ Rust string literals
def rust_unescape(s):
    out = []
    i = 0
    while i < len(s):
        c = s[i]
        if c != "\\":
            out.append(c); i += 1; continue
        n = s[i + 1]
        if n == "u":
            j = s.index("}", i)
            out.append(chr(int(s[i + 3:j], 16))); i = j + 1
        else:
            out.append({"n": "\n", "r": "\r", "t": "\t", "0": "\0", "\\": "\\", '"': '"', "'": "'"}[n]); i += 2
    return "".join(out)


def rust_string_literals(src):
    """yield (literal value, end index) for each "..." literal in src"""
    i = 0
    while True:
        i = src.find('"', i)
        if i < 0:
            return
        j = i + 1
        while src[j] != '"':
            j += 2 if src[j] == "\\" else 1
        yield rust_unescape(src[i + 1:j]), j + 1
        i = j + 1


# ------------------------------------------------------------------ regex syntax -> AST
class RegexParser:
    def __init__(self, s):
        self.s = s
        self.i = 0

    def peek(self):
        return self.s[self.i] if self.i < len(self.s) else None

    def parse(self):
        if self.peek() == "^":
            self.i += 1
        r = self.alt()
        if self.i != len(self.s):
            raise TranslateError(f"regex: trailing input at {self.i} in {self.s!r}")
        return r

    def alt(self):
        branches = [self.seq()]
        while self.peek() == "|":
            self.i += 1
            branches.append(self.seq())
        return branches[0] if len(branches) == 1 else ("alt", branches)

    def seq(self):
        items = []
        while self.peek() is not None and self.peek() not in "|)":
            items.append(self.postfix())
        return ("seq", items)

    def postfix(self):
        a = self.atom()
        while self.peek() in ("*", "+", "?"):
            op = self.peek()
            self.i += 1
            if self.peek() == "?":
                raise TranslateError("lazy quantifiers are not supported")
            a = ({"*": "star", "+": "plus", "?": "opt"}[op], a)
        return a

    def atom(self):
        c = self.peek()
        if c == "(":
            self.i += 1
            if self.s.startswith("?:", self.i):
                self.i += 2
            elif self.peek() == "?":
                raise TranslateError("unsupported group flag")
            r = self.alt()
            if self.peek() != ")":
                raise TranslateError("regex: missing )")
            self.i += 1
            return r
        if c == "[":
            return self.cls()
        if c == "\\":
            self.i += 2
            e = self.s[self.i - 1]
            if e.isalnum():
                raise TranslateError(f"regex escape \\{e} not supported (lalrpop expands classes)")
            return ("class", [(ord(e), ord(e))])
        if c == ".":
            raise TranslateError("regex: `.` not supported")
        if c in "*+?{}":
            raise TranslateError(f"regex: unexpected {c}")
        self.i += 1
        return ("class", [(ord(c), ord(c))])

    def cls(self):
        assert self.s[self.i] == "["
        self.i += 1
        if self.peek() == "^":
            raise TranslateError("negated class not supported (lalrpop expands them)")
        ranges = []

        def one():
            c = self.s[self.i]
            if c == "\\":
                self.i += 2
                e = self.s[self.i - 1]
                if e.isalnum():
                    raise TranslateError(f"class escape \\{e} not supported")
                return ord(e)
            self.i += 1
            return ord(c)
        while self.peek() != "]":
            lo = one()
            if self.peek() == "-" and self.s[self.i + 1] != "]":
                self.i += 1
                hi = one()
            else:
                hi = lo
            ranges.append((lo, hi))
        self.i += 1
        return ("class", ranges)


def re_to_coq(r):
    k = r[0]
    if k == "class":
        return "RClass [" + "; ".join(f"({a}, {b})" for a, b in r[1]) + "]"
    if k == "seq":
        if not r[1]:
            return "REps"
        if len(r[1]) == 1:
            return re_to_coq(r[1][0])
        return "RSeqs [" + "; ".join(re_to_coq(x) for x in r[1]) + "]"
    if k == "alt":
        return "RAlts [" + "; ".join(re_to_coq(x) for x in r[1]) + "]"
    if k == "star":
        return f"RStar ({re_to_coq(r[1])})"
    if k == "plus":
        return f"RPlus ({re_to_coq(r[1])})"
    if k == "opt":
        return f"ROpt ({re_to_coq(r[1])})"
    raise TranslateError(str(r))


def lexer_table(src):
    m = re.search(r"mod __intern_token \{", src)
    if not m:
        raise TranslateError("mod __intern_token not found")
    blk = src[m.end():matching(src, m.end() - 1)]
    m2 = re.search(r"let __strs: &\[\(&str, bool\)\] = &\[", blk)
    if not m2:
        raise TranslateError("__strs table not found")
    arr = blk[m2.end():matching(blk, m2.end() - 1, "[", "]")]
    entries = []
    pos = 0
    for lit, end in rust_string_literals(arr):
        m3 = re.match(r"\s*,\s*(true|false)\s*\)", arr[end:])
        if not m3:
            raise TranslateError("lexer entry without skip flag")
        entries.append((lit, m3.group(1) == "true"))
    if "MatcherBuilder::new(__strs.iter().copied())" not in blk:
        raise TranslateError("unexpected MatcherBuilder construction")
    return entries


def module_block(src, name):
    m = re.search(r"\nmod __parse__" + name + r" \{", src)
    if not m:
        raise TranslateError(f"parser module for {name} not found")
    return src[m.end():matching(src, m.end() - 1)]


def int_array(blk, name):
    m = re.search(r"const " + name + r": &\[i16\] = &\[", blk)
    if not m:
        raise TranslateError(f"{name} not found")
    body = blk[m.end():matching(blk, m.end() - 1, "[", "]")]
    body = re.sub(r"//[^\n]*", "", body)
    return [int(x) for x in re.findall(r"-?\d+", body)]


def goto_table(blk):
    m = re.search(r"fn __goto\(state: i16, nt: usize\) -> i16 \{\s*match nt \{", blk)
    if not m:
        raise TranslateError("__goto not found")
    body = blk[m.end():matching(blk, m.end() - 1)]
    out = {}
    i = 0
    for mm in re.finditer(r"(\d+) => (\d+),|(\d+) => match state \{(.*?)\n\s*\},", body, re.S):
        if mm.group(1) is not None:
            out[int(mm.group(1))] = ([], int(mm.group(2)))
        else:
            cases = []
            default = None
            for arm in re.finditer(r"([\d\s|.=]+|_) => (\d+),", mm.group(4)):
                pat = arm.group(1).strip()
                tgt = int(arm.group(2))
                if pat == "_":
                    default = tgt
                else:
                    states = []
                    for alt in pat.split("|"):
                        alt = alt.strip()
                        if "..=" in alt:
                            a, b = alt.split("..=")
                            states += list(range(int(a), int(b) + 1))
                        else:
                            states.append(int(alt))
                    cases.append((states, tgt))
            if default is None:
                raise TranslateError("__goto: inner match without default")
            out[int(mm.group(3))] = (cases, default)
    if "_ => 0," not in body and not re.search(r"_ => 0\s*,?\s*$", body.strip()):
        raise TranslateError("__goto: unexpected default")
    return out


def terminals(blk):
    m = re.search(r"const __TERMINAL: &\[&str\] = &\[", blk)
    body = blk[m.end():matching(blk, m.end() - 1, "[", "]")]
    names = []
    for mm in re.finditer(r'r###"(.*?)"###', body):
        names.append(mm.group(1))
    return names


def token_to_integer(blk):
    m = re.search(r"fn __token_to_integer<", blk)
    body = blk[m.end():]
    body = body[:body.index("fn __token_to_symbol")]
    pairs = [(int(a), int(b)) for a, b in re.findall(r"Token\((\d+), _\) if true => Some\((\d+)\),", body)]
    if not pairs:
        raise TranslateError("__token_to_integer: no arms")
    return pairs


def reductions(blk):
    """production index -> dict(pop, nt, action, kind, comment, variants)"""
    prods = {}
    # plain __reduceN functions
    for m in re.finditer(r"pub\(crate\) fn __reduce(\d+)<.*?\) -> \(usize, usize\)\s*\{\n(.*?)\n    \}\n", blk, re.S):
        n = int(m.group(1))
        body = m.group(2)
        cm = re.search(r"//\s*(.*?)\s*=>\s*ActionFn\((\d+)\);", body)
        pops = re.findall(r"let __sym(\d+) = __pop_Variant(\d+)\(__symbols\);", body)
        ret = re.search(r"\((\d+), (\d+)\)\s*$", body.strip())
        call = re.search(r"super::__action(\d+)::<>\(lookup, diagnostics, input, (.*?)\);", body, re.S)
        if not (cm and ret and call):
            raise TranslateError(f"__reduce{n}: unexpected shape")
        args = [a.strip() for a in call.group(2).split(",") if a.strip()]
        k = int(ret.group(1))
        if k != len(pops):
            raise TranslateError(f"__reduce{n}: pop count mismatch")
        if k == 0:
            if args != ["&__start", "&__end"] or "__lookahead_start.cloned().or_else(|| __symbols.last().map(|s| s.2.clone())).unwrap_or_default()" not in body:
                raise TranslateError(f"__reduce{n}: unexpected empty production")
        else:
            if args != [f"__sym{i}" for i in range(k)]:
                raise TranslateError(f"__reduce{n}: unexpected argument order {args}")
            if f"let __start = __sym0.0.clone();" not in body or f"let __end = __sym{k - 1}.2.clone();" not in body:
                raise TranslateError(f"__reduce{n}: unexpected span")
        prods[n] = {"pop": k, "nt": int(ret.group(2)), "action": int(call.group(1)), "kind": "normal", "comment": cm.group(1)}
    # arms written inline in __reduce: fallible (error) productions and the accept production
    m = re.search(r"pub\(crate\) fn __reduce<", blk)
    dis = blk[m.end():]
    dis = dis[:dis.index("fn __symbol_type_mismatch")]
    for mm in re.finditer(r"\n            (\d+) => \{\n(.*?)\n            \}", dis, re.S):
        n = int(mm.group(1)); body = mm.group(2)
        if re.match(r"\s*__reduce\d+\(", body):
            continue
        cm = re.search(r"//\s*(.*?)\s*=>\s*ActionFn\((\d+)\);", body)
        if "return Some(Ok(__nt));" in body:
            prods[n] = {"pop": 1, "nt": None, "action": int(cm.group(2)), "kind": "accept", "comment": cm.group(1)}
        elif "Err(e) => return Some(Err(e))," in body:
            ret = re.search(r"\((\d+), (\d+)\)\s*$", body.strip())
            if "let __sym0 = __pop_Variant1(__symbols);" not in body or int(ret.group(1)) != 1:
                raise TranslateError(f"reduce arm {n}: unexpected fallible production")
            prods[n] = {"pop": 1, "nt": int(ret.group(2)), "action": int(cm.group(2)), "kind": "fallible", "comment": cm.group(1)}
        else:
            raise TranslateError(f"reduce arm {n}: unexpected shape")
    tail = dis[dis.rindex("_ => panic!"):]
    want = ["__states.truncate(__states_len - __pop_states);", "let __next_state = __goto(__state, __nonterminal);", "__states.push(__next_state);"]
    for w in want:
        if w not in tail:
            raise TranslateError("__reduce: unexpected epilogue")
    idx = sorted(prods)
    if idx != list(range(len(idx))):
        raise TranslateError("productions are not numbered contiguously")
    return [prods[i] for i in idx]


# ------------------------------------------------------------------ actions
def split_actions(src):
    parts = re.split(r"\n(?=#\[allow\(unused_variables\)\]\nfn __action\d+<)", src)
    acts = {}
    for p in parts[1:]:
        m = re.match(r"#\[allow\(unused_variables\)\]\nfn __action(\d+)<\s*'input,\s*'err,\s*>\(\s*(.*?)\n\) -> (.*?)\n\{\n(.*?)\n\}\n", p, re.S)
        if not m:
            raise TranslateError("unparsable action: " + p[:120])
        n = int(m.group(1))
        params = m.group(2)
        pre = "lookup: &line_col::LineColLookup<'input>,\n    diagnostics: &'err mut Vec<Diagnostic>,\n    input: &'input str,"
        if not params.startswith(pre):
            raise TranslateError(f"__action{n}: unexpected leading parameters")
        rest = params[len(pre):].strip()
        plist = []
        if rest:
            for line in [l.strip() for l in rest.split("\n") if l.strip()]:
                mm = re.match(r"\(_, (mut )?(\w+), _\): \(usize, (.*), usize\),$", line)
                if mm:
                    plist.append(("bind", mm.group(2)))
                    continue
                mm = re.match(r"(__\d+): \(usize, (.*), usize\),$", line)
                if mm:
                    plist.append(("triple", mm.group(1)))
                    continue
                if line in ("__lookbehind: &usize,", "__lookahead: &usize,"):
                    plist.append(("look", line.split(":")[0]))
                    continue
                raise TranslateError(f"__action{n}: unexpected parameter {line!r}")
        acts[n] = {"params": plist, "ret": m.group(3).strip(), "body": m.group(4)}
    return acts


def norm(s):
    return re.sub(r"\s+", " ", s).strip()


# lalrpop's own glue, recognised by (normalised) body text: body -> Coq expression over the bound names
GLUE = {
    "__0": "{__0}",
    "v": "{v}",
    "Some(__0)": "VOpt (Some {__0})",
    "None": "VOpt None",
    "alloc::vec![]": "VVec []",
    "alloc::vec![__0]": "VVec [{__0}]",
    "{ let mut v = v; v.push(e); v }": "vec_push {v} {e}",
    "match e { None => v, Some(e) => { v.push(e); v } }": "vec_push_opt {v} {e}",
    "(__0, __1)": "VTuple [{__0}; {__1}]",
    "__lookbehind.clone()": "VLoc lookbehind",
    "__lookahead.clone()": "VLoc lookahead",
}


def load_user_actions():
    """normalised body text -> (Coq function, parameter names in the order the Coq function takes them)"""
    import user_actions
    return user_actions.USER_ACTIONS


def action_to_coq(n, a, acts, user):
    params = a["params"]
    body = norm(a["body"])
    looks = [p for p in params if p[0] == "look"]
    names = [p[1] for p in params if p[0] != "look"]
    # positional names a0.. for the triples the action receives
    header = f"Definition action{n} (cx : ctx) (lookbehind lookahead : N) (args : list triple) : sem * list diag :=\n"
    nargs = len(names)
    pat = "[" + "; ".join(f"a{i}" for i in range(nargs)) + "]"
    if looks and nargs:
        raise TranslateError(f"__action{n}: both lookaround and symbols")
    if body in GLUE or body in user:
        # a base action: lalrpop glue or a user action
        env = {p[1]: f"(tval a{i})" for i, p in enumerate([q for q in params if q[0] == "bind"])}
        if body in GLUE:
            tmpl = GLUE[body]
            expr = re.sub(r"\{(\w+)\}", lambda m: env[m.group(1)], tmpl)
            return header + f"  match args with\n  | {pat} => ({expr}, [])\n  | _ => (VBad, [])\n  end.\n"
        if body in user:
            fn, order = user[body]
            missing = [x for x in order if x not in env and x not in ("__start", "__end")]
            if missing:
                raise TranslateError(f"__action{n}: user action {fn} expects parameters {missing}")
            call = fn + " cx " + " ".join(env[x] for x in order)
            return header + f"  match args with\n  | {pat} => {call}\n  | _ => (VBad, [])\n  end.\n"
        raise TranslateError(f"__action{n}: unknown action body: {body[:160]}")
    if not all(p[0] in ("triple", "look") for p in params):
        raise TranslateError(f"__action{n}: unknown action body: {body[:160]}")
    # a wrapper: straight-line code computing spans and calling other actions
    lines = []
    env = {f"__{i}": f"a{i}" for i in range(nargs)}
    text = a["body"]
    stmts = [norm(s) for s in re.split(r";\n", text) if s.strip()]
    diags = []
    final = None
    for st in stmts:
        m = re.fullmatch(r"let (__(?:start|end)\d+) = (__\w+)\.(0|2)\.clone\(\)", st)
        if m:
            src = env[m.group(2)]
            lines.append(f"      let {m.group(1)[2:]} := {'tstart' if m.group(3) == '0' else 'tend'} {src} in")
            continue
        m = re.fullmatch(r"let (__(?:start|end)\d+) = (__lookbehind|__lookahead)\.clone\(\)", st)
        if m:
            lines.append(f"      let {m.group(1)[2:]} := {m.group(2)[2:]} in")
            continue
        m = re.fullmatch(r"let (__temp\d+) = __action(\d+)\( lookup, diagnostics, input, (.*?),? \)", st)
        if m:
            callee = int(m.group(2))
            cargs = [x.strip() for x in m.group(3).split(",") if x.strip()]
            t = m.group(1)[2:]
            if cargs and cargs[0].startswith("&__start"):
                if len(cargs) != 2 or not cargs[1].startswith("&__end"):
                    raise TranslateError(f"__action{n}: unexpected lookaround call")
                lines.append(f"      let '({t}v, {t}d) := action{callee} cx {cargs[0][3:]} {cargs[1][3:]} [] in")
            else:
                lines.append(f"      let '({t}v, {t}d) := action{callee} cx lookbehind lookahead [{'; '.join(env[x] for x in cargs)}] in")
            diags.append(f"{t}d")
            env[m.group(1) + "#raw"] = f"{t}v"
            continue
        m = re.fullmatch(r"let (__temp\d+) = \((__start\d+), (__temp\d+), (__end\d+)\)", st)
        if m:
            t = m.group(1)[2:]
            lines.append(f"      let {t} := ({m.group(2)[2:]}, {t}v, {m.group(4)[2:]}) in")
            env[m.group(1)] = t
            continue
        m = re.fullmatch(r"__action(\d+)\( lookup, diagnostics, input, (.*?),? \)", st)
        if m:
            callee = int(m.group(1))
            cargs = [x.strip() for x in m.group(2).split(",") if x.strip()]
            final = f"action{callee} cx lookbehind lookahead [{'; '.join(env[x] for x in cargs)}]"
            continue
        raise TranslateError(f"__action{n}: unrecognised statement {st[:120]!r}")
    if final is None:
        raise TranslateError(f"__action{n}: no final call")
    dl = " ++ ".join(diags + ["fd"]) if diags else "fd"
    return (header + f"  match args with\n  | {pat} =>\n" + "\n".join(lines) +
            f"\n      let '(fv, fd) := {final} in (fv, {dl})\n  | _ => (VBad, [])\n  end.\n")


def order_actions(acts):
    """callee-before-caller order"""
    deps = {n: set(int(x) for x in re.findall(r"__action(\d+)\(", a["body"])) for n, a in acts.items()}
    done, out = set(), []

    def visit(n, stack=()):
        if n in done:
            return
        if n in stack:
            raise TranslateError("recursive actions")
        for d in sorted(deps[n]):
            visit(d, stack + (n,))
        done.add(n); out.append(n)
    for n in sorted(acts):
        visit(n)
    return out


# ------------------------------------------------------------------ output
def gen_lex_table(src, blk):
    entries = lexer_table(src)
    tti = token_to_integer(blk)
    out = ["(* GENERATED by translate/lalrpop_rs.py from the lalrpop output (OUT_DIR/aidl.rs) -- do not edit *)",
           "From AidlV Require Import Lib.Regex.", "",
           "(* (regex, skip) in the order of __intern_token::new_builder: the index is the tie-break priority *)",
           "Definition gen_lex_table : list (re * bool) :=\n  [ " +
           ";\n    ".join(f"({re_to_coq(RegexParser(r).parse())}, {'true' if sk else 'false'})" for r, sk in entries) + " ].", "",
           "(* __token_to_integer: lexer index -> terminal column *)",
           "Definition gen_token_to_integer (i : N) : option N :=\n  match i with\n" +
           "\n".join(f"  | {a} => Some {b}" for a, b in tti) + "\n  | _ => None\n  end.", ""]
    return "\n".join(out)


def gen_lr_tables(blk):
    action = int_array(blk, "__ACTION")
    eof = int_array(blk, "__EOF_ACTION")
    names = terminals(blk)
    ncols = len(names) + 1
    if len(action) % ncols != 0 or len(action) // ncols != len(eof):
        raise TranslateError(f"table dimensions: {len(action)} actions, {ncols} columns, {len(eof)} states")
    m = re.search(r"__ACTION\[\(state as usize\) \* (\d+) \+ integer\]", blk)
    if not m or int(m.group(1)) != ncols:
        raise TranslateError("__action indexing")
    m = re.search(r"fn error_action\(&self, state: i16\) -> i16 \{\s*__action\(state, (\d+) - 1\)", blk)
    if not m or int(m.group(1)) != ncols:
        raise TranslateError("error_action column")
    if not re.search(r"fn uses_error_recovery\(&self\) -> bool \{\s*true", blk):
        raise TranslateError("uses_error_recovery")
    if not re.search(r"fn start_state\(&self\) -> Self::StateIndex \{\s*0", blk) or \
            not re.search(r"fn start_location\(&self\) -> Self::Location \{\s*Default::default\(\)", blk):
        raise TranslateError("start state / location")
    goto = goto_table(blk)
    prods = reductions(blk)
    nstates = len(eof)
    rows = [action[i * ncols:(i + 1) * ncols] for i in range(nstates)]

    def z(x):
        return str(x) if x >= 0 else f"({x})"
    out = ["(* GENERATED by translate/lalrpop_rs.py from the lalrpop output (OUT_DIR/aidl.rs) -- do not edit *)",
           "From Coq Require Import ZArith.", "From AidlV Require Import Lib.Str.", "Local Open Scope Z_scope.", "",
           f"Definition gen_ncols : nat := {ncols}%nat.   (* terminals + the error column *)",
           f"Definition gen_nstates : nat := {nstates}%nat.",
           "Definition gen_action_rows : list (list Z) :=\n  [ " + ";\n    ".join("[" + "; ".join(z(x) for x in r) + "]" for r in rows) + " ].",
           "Definition gen_eof_action : list Z := [" + "; ".join(z(x) for x in eof) + "].", "",
           "Definition gen_terminals : list string :=\n  [ " + "; ".join('"' + n.replace('"', '""') + '"' for n in names) + " ]%string.", ""]
    g = ["Definition gen_goto (state nt : N) : N :=\n  match nt with"]
    for nt in sorted(goto):
        cases, default = goto[nt]
        if not cases:
            g.append(f"  | {nt}%N => {default}%N")
        else:
            g.append(f"  | {nt}%N => match state with")
            for states, tgt in cases:
                g.append("      | " + " | ".join(f"{s}%N" for s in states) + f" => {tgt}%N")
            g.append(f"      | _ => {default}%N\n      end")
    g.append("  | _ => 0%N\n  end.")
    out.append("\n".join(g)); out.append("")
    out.append("(* per production: (symbols popped, nonterminal, action function, kind: 0 normal / 1 fallible `error` alternative / 2 accept) *)")
    out.append("Definition gen_productions : list (nat * N * N * N) :=\n  [ " + ";\n    ".join(
        f"({p['pop']}%nat, {p['nt'] if p['nt'] is not None else 0}%N, {p['action']}%N, {{'normal': 0, 'fallible': 1, 'accept': 2}}%N)".replace(
            "{'normal': 0, 'fallible': 1, 'accept': 2}", str({'normal': 0, 'fallible': 1, 'accept': 2}[p['kind']]))
        for p in prods) + " ].")
    out.append("")
    out.append("(* the productions as lalrpop printed them *)")
    out.append("Definition gen_production_text : list string :=\n  [ " + ";\n    ".join('"' + p["comment"].replace('"', '""') + '"' for p in prods) + " ]%string.")
    return "\n".join(out) + "\n"


def gen_parse_actions(src):
    acts = split_actions(src)
    user = load_user_actions()
    out = ["(* GENERATED by translate/lalrpop_rs.py from the lalrpop output (OUT_DIR/aidl.rs) -- do not edit *)",
           "From AidlV Require Import Model.Actions.", ""]
    for n in order_actions(acts):
        out.append(action_to_coq(n, acts[n], acts, user))
    out.append("Definition gen_action (n : N) : ctx -> N -> N -> list triple -> sem * list diag :=\n  match n with")
    for n in sorted(acts):
        out.append(f"  | {n}%N => action{n}")
    out.append("  | _ => fun _ _ _ _ => (VBad, [])\n  end.\n")
    return "\n".join(out)


def regenerate(repo, gen_dir, aidl_rs):
    errors = []
    if not aidl_rs or not os.path.exists(aidl_rs):
        return ["translate:lalrpop: generated aidl.rs not found (harness not built)"]
    src = open(aidl_rs).read()
    try:
        blk = module_block(src, ENTRY)
    except TranslateError as e:
        return [f"translate:lalrpop: {e}"]
    for name, fn in (("LexTable.v", lambda: gen_lex_table(src, blk)), ("LrTables.v", lambda: gen_lr_tables(blk)),
                     ("ParseActions.v", lambda: gen_parse_actions(src))):
        try:
            write_if_changed(os.path.join(gen_dir, name), fn())
        except TranslateError as e:
            errors.append(f"translate:{name}: {e}")
    return errors


if __name__ == "__main__":
    import glob
    f = sorted(glob.glob("/verif/.cache/target/debug/build/aidl-parser-*/out/aidl.rs"), key=os.path.getmtime)[-1]
    print(regenerate("/repo", sys.argv[1] if len(sys.argv) > 1 else "/tmp/gen_out", f))
