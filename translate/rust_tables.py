#!/usr/bin/env python3
"""Translate the decision tables of /repo/src/validation.rs and /repo/src/ast.rs into Coq (Gen/ValTables.v,
Gen/Builtins.v).  The translator recognises a narrow shape (a `match` on `type_.kind` whose arms are
TypeKind patterns) and refuses anything else: TranslateError -> the caller reports a broken obligation."""
import re, sys, os

class TranslateError(Exception):
    pass

CATS = [
    ("CPrimitive", ("Primitive", None)), ("CVoid", ("Void", None)), ("CArray", ("Array", None)),
    ("CMap", ("Map", None)), ("CList", ("List", None)), ("CString", ("String", None)),
    ("CCharSequence", ("CharSequence", None)),
    ("CIBinder", ("AndroidType", "IBinder")), ("CFileDescriptor", ("AndroidType", "FileDescriptor")),
    ("CParcelFileDescriptor", ("AndroidType", "ParcelFileDescriptor")),
    ("CParcelableHolder", ("AndroidType", "ParcelableHolder")),
    ("CInterface", ("ResolvedItem", "Interface")), ("CParcelable", ("ResolvedItem", "Parcelable")),
    ("CEnum", ("ResolvedItem", "Enum")), ("CForward", ("ResolvedItem", "ForwardDeclaredParcelable")),
    ("CUnknownImport", ("ResolvedItem", "UnknownImport")), ("CUnresolved", ("Unresolved", None)),
]

def strip_comments(src):
    out = []; i = 0; n = len(src)
    while i < n:
        c = src[i]
        if c == '"':
            j = i + 1
            while j < n and src[j] != '"':
                j += 2 if src[j] == '\\' else 1
            out.append(src[i:j + 1]); i = j + 1
        elif src.startswith('//', i):
            j = src.find('\n', i)
            i = n if j < 0 else j
        elif src.startswith('/*', i):
            j = src.find('*/', i + 2)
            i = n if j < 0 else j + 2
        else:
            out.append(c); i += 1
    return ''.join(out)

def matching(src, i, open_c='{', close_c='}'):
    """index of the bracket matching src[i]"""
    assert src[i] == open_c, (src[i - 20:i + 20])
    depth = 0; n = len(src)
    while i < n:
        c = src[i]
        if c == '"':
            i += 1
            while src[i] != '"':
                i += 2 if src[i] == '\\' else 1
        elif c == open_c:
            depth += 1
        elif c == close_c:
            depth -= 1
            if depth == 0:
                return i
        i += 1
    raise TranslateError("unbalanced brackets")

def fn_body(src, name):
    m = re.search(r'\bfn\s+' + re.escape(name) + r'\s*(<[^>]*>)?\s*\(', src)
    if not m:
        raise TranslateError(f"function {name} not found")
    i = src.index('{', matching(src, m.end() - 1, '(', ')'))
    j = matching(src, i)
    return src[i + 1:j]

def match_arms(body, scrutinee_re):
    m = re.search(r'\bmatch\s+' + scrutinee_re + r'\s*\{', body)
    if not m:
        raise TranslateError("match on the type kind not found")
    i = m.end() - 1
    j = matching(body, i)
    s = body[i + 1:j]
    arms = []; k = 0; n = len(s)
    while True:
        while k < n and s[k] in ' \t\r\n,':
            k += 1
        if k >= n:
            break
        # pattern up to => at depth 0
        depth = 0; p0 = k
        while k < n:
            c = s[k]
            if c in '([{': depth += 1
            elif c in ')]}': depth -= 1
            elif depth == 0 and s.startswith('=>', k):
                break
            k += 1
        if k >= n:
            raise TranslateError("arm without =>")
        pat = s[p0:k].strip(); k += 2
        while s[k] in ' \t\r\n':
            k += 1
        if s[k] == '{':
            e = matching(s, k)
            rhs = s[k:e + 1]; k = e + 1
        else:
            depth = 0; r0 = k
            while k < n:
                c = s[k]
                if c == '"':
                    k += 1
                    while s[k] != '"':
                        k += 2 if s[k] == '\\' else 1
                elif c in '([{': depth += 1
                elif c in ')]}': depth -= 1
                elif c == ',' and depth == 0:
                    break
                k += 1
            rhs = s[r0:k].strip()
        arms.append((pat, rhs))
    return arms

def split_top(s, sep):
    parts = []; depth = 0; cur = []
    for c in s:
        if c in '([{': depth += 1
        elif c in ')]}': depth -= 1
        if c == sep and depth == 0:
            parts.append(''.join(cur)); cur = []
        else:
            cur.append(c)
    parts.append(''.join(cur))
    return [p.strip() for p in parts]

def pat_matches(pat, cat):
    """does the Rust pattern (one alternative) match category (variant, sub)?"""
    variant, sub = cat
    pat = pat.strip()
    if ' if ' in pat:
        raise TranslateError(f"guarded pattern not supported: {pat}")
    if pat == '_':
        return True
    m = re.fullmatch(r'(?:ast::)?TypeKind::(\w+)\s*(\((.*)\))?', pat, re.S)
    if not m:
        raise TranslateError(f"unrecognised pattern: {pat}")
    v, _, inner = m.group(1), m.group(2), m.group(3)
    if v != variant:
        if v not in {c[1][0] for c in CATS}:
            raise TranslateError(f"unknown TypeKind variant {v}")
        return False
    if inner is None:
        if variant in ("AndroidType", "ResolvedItem"):
            raise TranslateError(f"tuple variant without payload: {pat}")
        return True
    args = split_top(inner, ',')
    if args and args[-1] == '':
        args.pop()
    if variant == "AndroidType":
        if len(args) != 1: raise TranslateError(pat)
        last = args[0]; enum = "AndroidTypeKind"
    elif variant == "ResolvedItem":
        if len(args) != 2 or args[0] != '_': raise TranslateError(f"unsupported ResolvedItem pattern {pat}")
        last = args[1]; enum = "ResolvedItemKind"
    else:
        raise TranslateError(pat)
    for alt in split_top(last, '|'):
        if alt == '_':
            return True
        m2 = re.fullmatch(r'(?:ast::)?' + enum + r'::(\w+)', alt)
        if not m2:
            raise TranslateError(f"unrecognised sub-pattern {alt}")
        if m2.group(1) == sub:
            return True
    return False

def first_arm(arms, cat):
    for pat, rhs in arms:
        for alt in split_top(pat, '|'):
            if pat_matches(alt, cat):
                return rhs
    raise TranslateError(f"no arm for {cat}")

REQ = {"DirectionRequired": "ReqRequired", "CanOnlyBeInOrUnspecified": "ReqInOrNone",
       "CanOnlyBeInOrInOut": "ReqInOrInout", "CannotBeAnArg": "ReqNever", "NoRequirement": "ReqNone"}

def req_of(rhs):
    r = rhs.strip()
    if r.startswith('{'):
        r = r[1:-1].strip()
    m = re.fullmatch(r'RequirementForArgDirection::(\w+)\s*(\(\s*"[^"]*"\s*,?\s*\))?', r, re.S)
    if not m or m.group(1) not in REQ:
        raise TranslateError(f"unrecognised requirement {rhs!r}")
    return REQ[m.group(1)]

def bool_of(rhs, allow_multi=False):
    r = rhs.strip()
    if r in ('true', 'false'):
        return r
    if allow_multi and r.startswith('{') and 'multi-dimensional' in r and re.search(r'\breturn\s*;', r) and 'diagnostics.push' in r:
        return 'multi'
    raise TranslateError(f"unrecognised verdict {rhs!r}")

def check_handlers(src):
    """the fixed parts of check_method_args / check_*_element that the model hand-copies: verify their shape"""
    body = fn_body(src, 'check_array_element')
    if not re.search(r'if\s*!ok\s*\{\s*diagnostics\.push', body):
        raise TranslateError("check_array_element: `if !ok { push }` not found")
    for f in ('check_list_element', 'check_map_value'):
        if not re.search(r'if\s*!ok\s*\{\s*diagnostics\.push', fn_body(src, f)):
            raise TranslateError(f"{f}: `if !ok {{ push }}` not found")
    key = fn_body(src, 'check_map_key')
    norm = re.sub(r'\s+', ' ', key)
    if 'if !matches!(type_.kind, ast::TypeKind::String if type_.name == "String") { diagnostics.push(' not in norm:
        raise TranslateError("check_map_key: guard is not `!matches!(kind, String if name == \"String\")`")

def gen_val_tables(repo):
    src = strip_comments(open(os.path.join(repo, 'src/validation.rs')).read())
    check_handlers(src)
    out = ["(* GENERATED by translate/rust_tables.py from src/validation.rs -- do not edit *)",
           "From AidlV Require Import Model.Category.", ""]
    arms = match_arms(fn_body(src, 'get_requirement_for_arg_direction'), r'type_\.kind')
    out.append("Definition gen_requirement (c : category) : requirement :=\n  match c with")
    for name, cat in CATS:
        out.append(f"  | {name} => {req_of(first_arm(arms, cat))}")
    out.append("  end.\n")
    arms = match_arms(fn_body(src, 'check_array_element'), r'type_\.kind')
    out.append("Definition gen_array (c : category) : array_verdict :=\n  match c with")
    for name, cat in CATS:
        v = bool_of(first_arm(arms, cat), allow_multi=True)
        out.append("  | %s => %s" % (name, {'true': 'AOk', 'false': 'ABad', 'multi': 'AMulti'}[v]))
    out.append("  end.\n")
    for fn, d in (('check_list_element', 'gen_list_ok'), ('check_map_value', 'gen_mapval_ok')):
        arms = match_arms(fn_body(src, fn), r'type_\.kind')
        out.append(f"Definition {d} (c : category) : bool :=\n  match c with")
        for name, cat in CATS:
            out.append(f"  | {name} => {bool_of(first_arm(arms, cat))}")
        out.append("  end.\n")
    out.append('(* check_map_key: !matches!(kind, TypeKind::String if name == "String") *)')
    out.append('Definition gen_mapkey_ok (c : category) (name : str) : bool :=\n'
               '  match c with CString => str_eqb name (lit "String") | _ => false end.\n')
    return '\n'.join(out)

AK = [("IBinder", "AIBinder"), ("FileDescriptor", "AFileDescriptor"),
      ("ParcelFileDescriptor", "AParcelFileDescriptor"), ("ParcelableHolder", "AParcelableHolder")]

def gen_builtins(repo):
    src = strip_comments(open(os.path.join(repo, 'src/ast.rs')).read())
    m = re.search(r'impl\s+AndroidTypeKind\s*\{', src)
    if not m: raise TranslateError("impl AndroidTypeKind not found")
    impl = src[m.end() - 1: matching(src, m.end() - 1) + 1]
    allb = fn_body(impl, 'get_all')
    order = re.findall(r'Self::(\w+)', allb)
    if sorted(order) != sorted(k for k, _ in AK) or len(order) != 4:
        raise TranslateError(f"get_all: unexpected variants {order}")
    def table(fn, conv):
        body = fn_body(impl, fn)
        arms = match_arms(body, r'self')
        res = {}
        for k, _ in AK:
            for pat, rhs in arms:
                alts = [a.strip() for a in split_top(pat, '|')]
                if any(a == '_' or re.fullmatch(r'(AndroidTypeKind|Self)::' + k, a) for a in alts):
                    res[k] = conv(rhs); break
            else:
                raise TranslateError(f"{fn}: no arm for {k}")
        return res
    def sconv(r):
        m = re.fullmatch(r'"([^"\\]*)"', r.strip())
        if not m: raise TranslateError(f"string literal expected: {r}")
        return m.group(1)
    def bconv(r):
        if r.strip() not in ('true', 'false'): raise TranslateError(r)
        return r.strip()
    names = table('get_name', sconv); qn = table('get_qualified_name', sconv); cq = table('can_be_qualified', bconv)
    # shape of the three finders
    for fn, needle in (('from_name', 'at.get_name() == name'),
                       ('from_qualified_name', 'at.get_qualified_name() == qualified_name')):
        b = re.sub(r'\s+', ' ', fn_body(impl, fn))
        if 'Self::get_all() .into_iter() .find(|at| ' + needle + ')' not in b:
            raise TranslateError(f"{fn}: unexpected body")
    ck = dict(AK)
    out = ["(* GENERATED by translate/rust_tables.py from src/ast.rs (AndroidTypeKind) -- do not edit *)",
           "From AidlV Require Import Model.Ast.", "",
           "Definition gen_all_android : list akind := [" + '; '.join(ck[k] for k in order) + "].", ""]
    for d, t, f in (("gen_android_name", names, lambda v: f'lit "{v}"'),
                    ("gen_android_qname", qn, lambda v: f'lit "{v}"'),
                    ("gen_can_be_qualified", cq, lambda v: v)):
        ty = 'bool' if d == 'gen_can_be_qualified' else 'str'
        out.append(f"Definition {d} (a : akind) : {ty} :=\n  match a with")
        for k, c in AK:
            out.append(f"  | {c} => {f(t[k])}")
        out.append("  end.\n")
    return '\n'.join(out)

def write_if_changed(path, text):
    old = open(path).read() if os.path.exists(path) else None
    if old != text:
        with open(path, 'w') as f:
            f.write(text)
        return True
    return False

if __name__ == '__main__':
    repo = sys.argv[1] if len(sys.argv) > 1 else '/repo'
    outdir = sys.argv[2] if len(sys.argv) > 2 else os.path.join(os.path.dirname(__file__), '..', 'coq', 'Gen')
    try:
        write_if_changed(os.path.join(outdir, 'ValTables.v'), gen_val_tables(repo))
        write_if_changed(os.path.join(outdir, 'Builtins.v'), gen_builtins(repo))
    except TranslateError as e:
        print("TRANSLATE-ERROR:", e)
        sys.exit(2)
