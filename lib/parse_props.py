"""props entries and Python oracles for the parse-level properties (C01-C04, C14, C18)"""
import gens, oracles
from props import P, TB_COMMON

TB_PARSE = TB_COMMON + [
    "translate/lalrpop_rs.py: the lexer table, LR tables and every __actionN are read back from the lalrpop output of the harness build",
    "modelled rather than verified: regex crate (anchored leftmost-first matching), lalrpop-util lexer and state machine (re-implemented "
    "in Gallina from their 0.19.8 source), line-col (the lookup's answers are taken from the implementation per character and "
    "checked against the specification), unicode-segmentation (not modelled)",
]
ASSUME_PARSE = [
    "the table-driven parser model (Model/Lexer.v, LrDriver.v, Wrappers.v, Actions.v, Javadoc.v + Gen/) equals Parser::add_content on every input of "
    "the run: tree, every range, every diagnostic with kind, label and related ranges (corr_parse_shape; the wording is compared under C20); "
    "this is checked, not proved",
]


def o_C01(case, p):
    return oracles.check_C04_generic(p)


def o_C02(case, p):
    if case.get("doc") is None:
        return None
    r = oracles.check_mirror(case["doc"], p["fr"]["ast"], check_docs=(case["style"] in ("safe", "space", "min")))
    if r:
        return r
    return oracles.check_C03_result(p, True)


def o_C03(case, p):
    return oracles.check_C03_result(p, case.get("wf"))


def o_C04(case, p):
    return oracles.check_C04_generic(p) or oracles.check_C04_exact(p)


def o_C14(case, p):
    seen = case.setdefault("_seen", {})
    seen[p["fr"]["id"]] = p
    if len(seen) == 2:
        r = oracles.check_C14(case, seen)
        case["_seen"] = {}
        return r
    return None


def q_C14(case, p):
    """after validate(): the well-formed siblings are still there, in order and unchanged (compared with the validated baseline)"""
    seen = case.setdefault("_seenq", {})
    seen[p["fr"]["id"]] = p
    if len(seen) < 2:
        return None
    a, b = seen["a"], seen["b"]
    case["_seenq"] = {}
    if b["fr"]["ast"] is None or a["fr"]["ast"] is None:
        return None            # judged at the parse stage
    good = [oracles.erase(m) for m in b["fr"]["ast"]["item"]["members"]]
    got = [oracles.erase(m) for m in a["fr"]["ast"]["item"]["members"]]
    if not oracles.subsequence(good, got):
        return ("after validation the well-formed siblings are lost or changed: "
                f"{[(m['name'], m.get('oneway')) for m in got]} vs {[(m['name'], m.get('oneway')) for m in good]}")
    return None


def known_C14(case, f, known):
    """a failure of the C14 oracle that belongs to the recorded class -> the KNOWN-FINDING text; anything else -> None"""
    ks = [k for k in known if k.get("check") == "oracle"]
    if not ks or f.get("check") != "oracle" or not gens.known_C14_shape(case):
        return None
    d = f.get("detail", "")
    if d.startswith("well-formed siblings lost or changed") or (d.startswith("syntax Error at") and "outside the malformed member" in d):
        return f"{ks[0].get('site', '')} {ks[0].get('class', '')} (witness: {ks[0].get('witness', '')})"
    return None


def o_C18(case, p):
    if case.get("doc") is not None:
        return oracles.check_mirror(case["doc"], p["fr"]["ast"], check_docs=True)
    if case.get("expect_doc"):
        a = p["fr"]["ast"]
        if a is None:
            return "arrangement document did not parse"
        name, want = case["expect_doc"]
        for m in a["item"]["members"]:
            if m["name"] == name:
                if m["doc"] != want:
                    return f"doc of `{name}` is {m['doc']!r}, expected {want!r} ({case.get('note')})"
            elif m["name"] == "last" and m["doc"] is not None:
                return f"doc attached to the following member: {m['doc']!r}"
        return None
    return None


def dist_parse(cases):
    import collections
    c = collections.Counter()
    for x in cases:
        c["wf=" + str(x.get("wf"))] += 1
        c["style=" + str(x.get("style"))] += 1
        c["files=" + str(len(x.get("files", [])))] += 1
    return dict(c)


PARSE_PROPS = {
    "C01": P(["Model/LrDriver.v", "Proofs/Totality.v", "Proofs/ParserState.v", "Proofs/Typing.v", "Proofs/Ainfer.v", "Proofs/UserTyped.v",
              "Proofs/Automaton.v", "Proofs/LexerSafe.v", "Proofs/StackInv.v", "Proofs/DriverSafe.v", "Proofs/StackProp.v", "Proofs/ArityOk.v",
              "Proofs/LexProgress.v", "Proofs/RegexFuel.v", "Proofs/Termination.v", "Proofs/EndToEnd.v", "Properties/C01.v"], [],
             gens.gen_C01,
             "hand-picked crashers of the pinned tree + character soups, token soups, mutated/truncated documents, multi-byte characters and "
             "Unicode whitespace injected into gaps/comments/docs/strings, sets of up to 6 partly malformed files, generic nesting to depth "
             "64, inputs up to 20 KB (64 KiB in thorough); every case runs under catch_unwind with a per-shard timeout",
             runs=[("parse", "P", ["corr_parse_shape"]), ("validate", "V", ["corr_C01_ids"]), ("history", "H", [])],
             x_checks=["keys", "determinism", "history"],
             py_oracle=o_C01, trusted_base=TB_PARSE, assumptions=ASSUME_PARSE + ["native stack depth and running time are observed (no abort, no timeout), not proved"],
             distribution=dist_parse),
    "C02": P(["Model/LrDriver.v", "Proofs/Sim.v", "Proofs/Hom.v", "Proofs/UserHom.v", "Proofs/Lockstep.v", "Proofs/LexProgress.v", "Properties/C02.v"], [], gens.gen_C02,
             "abstract documents over all item/member/type/value/annotation forms (types nested to depth 4, trailing commas), each rendered "
             "in 4 layouts (minimal separators; single spaces; wild: Unicode whitespace, CRLF, line/block comments with arbitrary text; safe); "
             "the tree must mirror the abstract document (names, kinds, structure, directions, flags, codes, values, annotations) in "
             "every layout",
             runs=[("parse", "P", ["corr_parse_shape"])], py_oracle=o_C02, rerender=gens.rerender, post=gens.post_C02, x_checks=["layout_tokens"],
             trusted_base=TB_PARSE, assumptions=ASSUME_PARSE + ["the abstract-document printer and mirror oracle (lib/gen.py, lib/oracles.py) state what 'mirrors' means"],
             distribution=dist_parse),
    "C03": P(["Model/LrDriver.v", "Proofs/Totality.v", "Proofs/Master.v", "Proofs/RegexLang.v", "Proofs/LexerSafe.v", "Proofs/Keywords.v",
              "Proofs/Words.v", "Proofs/Typing.v", "Proofs/UserTyped.v", "Proofs/Automaton.v", "Proofs/DriverSafe.v", "Proofs/Grammar.v", "Proofs/FirstSets.v", "Properties/C03.v"], [], gens.gen_C03,
             "well-formed documents (must be accepted silently), documents malformed by construction (keyword or reserved word as item / "
             "member / package name, missing package, two items, trailing text: must carry an Error), token-level mutations and soups "
             "(no tree => Error; no keyword stored as identifier), lexical corner cases; validation must keep every parse-stage diagnostic",
             runs=[("parse", "P", ["corr_parse_shape"]), ("validate", "V", ["spec_C03_kept"])], py_oracle=o_C03,
             trusted_base=TB_PARSE, assumptions=ASSUME_PARSE, distribution=dist_parse),
    "C04": P(["Model/LrDriver.v", "Proofs/Totality.v", "Proofs/RangesOk.v", "Proofs/RangesOrd.v", "Proofs/StackProp.v", "Proofs/ArityOk.v", "Proofs/DiagSites.v", "Proofs/RangesOrdVal.v", "Properties/C04.v"], [], gens.gen_C04,
             "well-formed documents x 4 layouts (+ multi-byte / Unicode-whitespace injection) and malformed inputs; for every reported range: "
             "ordered, inside the file, on character boundaries, line/column = the lookup's answer, the lookup itself checked against the "
             "specification; every name range covers exactly the name as written, full ranges run from first to last token, children inside "
             "parents, siblings increasing; syntax diagnostics cover exactly the offending token",
             runs=[("parse", "P", ["corr_parse_shape"]), ("validate", "V", ["spec_C04_validation"])], py_oracle=o_C04,
             trusted_base=TB_PARSE, assumptions=ASSUME_PARSE, distribution=dist_parse),
    "C14": P(["Model/LrDriver.v", "Proofs/DriverSafe.v", "Proofs/Grammar.v", "Properties/C14.v"], [], gens.gen_C14,
             "well-formed items with 1-5 members; at every member position a garbage token string (1-9 tokens over the full vocabulary "
             "without ; { } and, in enums, without ,) followed by the terminator; the same document without it as baseline; a case counts "
             "when the garbage is not itself accepted as a member",
             runs=[("parsev", "P", ["corr_parse_shape"])], py_oracle=o_C14, q_oracle=q_C14, known_recogniser=known_C14,
             trusted_base=TB_PARSE, assumptions=ASSUME_PARSE + ["KNOWN FINDING: in an enum body a malformed member that opens an annotation "
             "parenthesis without closing it absorbs its own terminating comma and the following elements (theorem C14_known); only that "
             "exact class is tolerated"], distribution=dist_parse),
    "C18": P(["Model/Javadoc.v", "Proofs/Javadoc.v", "Proofs/JavadocGap.v", "Properties/C18.v"], [], gens.gen_C18,
             "generated documents with doc comments (paragraphs, lines, @tags; star / plain / one-line decoration; LF and CRLF; ASCII, accented, "
             "CJK, emoji words) on items, members, enum elements and arguments, rendered with ASCII whitespace and ordinary comments "
             "without '/' or '*' in the gaps; plus 36 explicit arrangements (none / ordinary / line comment / doc / doc then ordinary / two "
             "docs / doc before annotations / doc of the previous member / CRLF gap)",
             runs=[("parse", "P", ["corr_parse_shape"])], py_oracle=o_C18, rerender=gens.rerender,
             trusted_base=TB_PARSE, assumptions=ASSUME_PARSE, distribution=dist_parse),
}
