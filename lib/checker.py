"""The verdict logic of ./check <property> <tier> (DESIGN.md section 3.6)."""
import os, sys, time, json, random, re, subprocess, hashlib
import core, gen, props

QUICK_BUDGET_S = 170


def log(*a):
    print(*a, flush=True)


# ------------------------------------------------------------------ obligations (theorems)
PARSE_CHECKS = {"corr_parse", "corr_parse_shape", "corr_C20", "spec_C20"}
NO_VALIDATION_MODEL = PARSE_CHECKS | {"corr_C12", "corr_C15", "corr_C16", "corr_C19"}


def coq_closure(files):
    """the .v files (relative to coq/) that the given files import, transitively"""
    seen, todo = set(), list(files)
    while todo:
        f = todo.pop()
        if f in seen or not os.path.exists(os.path.join(core.COQ, f)):
            continue
        seen.add(f)
        src = re.sub(r"\(\*.*?\*\)", "", open(os.path.join(core.COQ, f)).read(), flags=re.S)
        for m in re.finditer(r"From\s+AidlV\s+Require\s+(?:Import|Export)\s+([^.]*(?:\.[A-Za-z_][^.\s]*)*)\s*\.", src):
            for mod in m.group(1).split():
                todo.append(mod.replace(".", "/") + ".v")
    return seen


def gen_deps(P):
    """the regenerated files this property's theorems and correspondence checks rest on"""
    deps = {os.path.basename(f) for f in coq_closure(P["coq_files"]) if f.startswith("Gen/")}
    checks = {c for _, _, cs in P["runs"] for c in cs}
    if checks & PARSE_CHECKS:
        deps |= {"LexTable.v", "LrTables.v", "ParseActions.v", "JavadocRe.v"}
    if any(c.startswith("corr_") and c not in NO_VALIDATION_MODEL for c in checks) or \
            any(c.startswith("spec_C0") or c in ("spec_C10", "spec_C17_refs") for c in checks):
        deps |= {"ValTables.v", "Builtins.v"}
    if "corr_C19" in checks:
        deps |= {"SerdeSpec.v"}
    return deps


def check_obligations(prop, P):
    """build the property's Coq targets; returns (obligations, broken list, assumptions)"""
    broken = []
    t_errors = core.regenerate()
    deps = gen_deps(P)
    # a translator that no longer understands the source breaks only the properties resting on what it regenerates
    broken += [e for e in t_errors if any(e.startswith(f"translate:{d}") for d in deps)
               or (e.startswith("translate:lalrpop") and "LrTables.v" in deps)]
    bad = core.hygiene()
    broken += [f"hygiene:{b}" for b in bad]
    targets = [f[:-2] + ".vo" for f in P["coq_files"]] + ["Run/Harness.vo"]
    ok, out = core.coq_make(targets)
    theorems = []
    assumptions = {}
    if not ok:
        for m in re.finditer(r'File "\./([^"]+)", line (\d+)[^\n]*\n(?:.*\n)?Error:([^\n]*(?:\n(?!make)[^\n]*){0,6})', out):
            broken.append(f"coq:{m.group(1)}:{m.group(2)}: {m.group(3).strip()[:400]}")
        if not any(b.startswith("coq:") for b in broken):
            broken.append("coq: " + out[-800:])
    # Print Assumptions of the property theorems: recompile the property file (cheap) and read its output
    for pf in P["coq_files"]:
        if not pf.startswith("Properties/"):
            continue
        src = open(os.path.join(core.COQ, pf)).read()
        names = re.findall(r"^(?:Theorem|Lemma|Corollary)\s+(\w+)", src, flags=re.M)
        theorems += names
        rc, o = core.sh(["coqc", "-Q", ".", "AidlV", pf], cwd=core.COQ, timeout=900)
        if rc != 0:
            if not any(pf in b for b in broken):
                broken.append(f"coq:{pf}: " + o[-600:])
            continue
        flat = o
        closed = len(re.findall(r"Closed under the global context", flat))
        axioms = re.findall(r"^Axioms:\n((?:.+\n)+)", flat, flags=re.M)
        n_print = len(re.findall(r"^Print Assumptions", src, flags=re.M))
        assumptions[pf] = {"print_assumptions": n_print, "closed": closed, "axioms": axioms}
        allowed = P.get("allowed_axioms", [])
        for ax in axioms:
            for line in ax.strip().split("\n"):
                nm = line.split(":")[0].strip()
                if nm and not line.startswith(" ") and nm not in allowed:
                    broken.append(f"axiom:{pf}:{nm}")
        if closed + len(axioms) < n_print:
            broken.append(f"assumptions:{pf}: {n_print} Print Assumptions, {closed} closed")
    return theorems, broken, assumptions


# ------------------------------------------------------------------ running cases
def run_cases(prop, P, cases, tag):
    """returns list of findings: dict(case, kind in {'spec','corr','impl','decode'}, check, detail)"""
    findings = []
    byname = {c["name"]: c for c in cases}
    stats = {"harness_lines": 0}
    all_xs = []
    for mode, prefix, checks in P["runs"]:
        big = [c for c in cases if c.get("nomodel")]
        if big:
            # inputs too large for the extracted model's quadratic position lookups: implementation only
            _, xs_big = core.run_harness(mode, big, f"{prop}{tag}big")
            for name, chk, verdict, detail in xs_big:
                if verdict != "ok" and (chk.split(":")[0] in P.get("x_checks", []) or chk in ("panic", "abort")):
                    findings.append({"case": name.split(":")[0], "kind": "impl", "check": chk, "detail": detail})
        outs, xs = core.run_harness(mode, [c for c in cases if not c.get("nomodel")], f"{prop}{tag}")
        all_xs += xs
        for name, chk, verdict, detail in xs:
            base = name.split(":")[0]
            if verdict != "ok" and (chk.split(":")[0] in P.get("x_checks", []) or chk in ("panic", "abort")):
                if chk in ("panic", "abort") and not P.get("panic_is_violation", True):
                    findings.append({"case": base, "kind": "harness", "check": chk, "detail": detail})
                else:
                    findings.append({"case": base, "kind": "impl", "check": chk, "detail": detail})
        if checks:
            res, errs = core.run_model(outs, prefix, checks)
            for e in errs:
                findings.append({"case": None, "kind": "runner", "check": "runner", "detail": e})
            if os.environ.get("VERIF_TIER_EFFECTIVE") == "thorough" and tag == "":
                # self-check of the evaluation path: recompute a sample of verdicts inside Coq (vm_compute)
                import crosscheck
                for e in crosscheck.crosscheck(prop, outs, prefix, checks):
                    findings.append({"case": None, "kind": "runner", "check": "extraction-crosscheck", "detail": e})
                stats["vm_compute_crosschecked"] = stats.get("vm_compute_crosschecked", 0) + 10
            for chk in checks:
                stats["harness_lines"] += len(res[chk])
                for name, v in res[chk].items():
                    if v != 0:
                        kind = "decode" if v in (2, 3, 9) else "known" if v == 4 else ("spec" if chk.startswith("spec_") else "corr")
                        findings.append({"case": name.split(":")[0], "kind": kind, "check": chk, "detail": f"verdict {v} on {name}"})
        stats.setdefault("outs", []).extend(outs)
        if P.get("py_oracle") and prefix == "P":
            import sx
            n_or = 0
            for o in outs:
                with open(o, errors="replace") as fh:
                    for line in fh:
                        if line.startswith("P "):
                            name, pl = sx.pline(line)
                            case = byname.get(name.split(":")[0])
                            n_or += 1
                            try:
                                err = P["py_oracle"](case, pl)
                            except Exception as ex:  # an oracle crash is a machinery problem, reported as such
                                err = None
                                findings.append({"case": name.split(":")[0], "kind": "harness", "check": "oracle-exception", "detail": repr(ex)[:300]})
                            if err:
                                findings.append({"case": name.split(":")[0], "kind": "spec", "check": "oracle", "detail": err[:500]})
                        elif line.startswith("Q ") and P.get("q_oracle"):
                            # what validate() returned for the same file (harness mode `parsev`)
                            name, pl = sx.pline(line)
                            case = byname.get(name.split(":")[0])
                            n_or += 1
                            try:
                                err = P["q_oracle"](case, pl)
                            except Exception as ex:
                                err = None
                                findings.append({"case": name.split(":")[0], "kind": "harness", "check": "oracle-exception", "detail": repr(ex)[:300]})
                            if err:
                                findings.append({"case": name.split(":")[0], "kind": "spec", "check": "oracle", "detail": err[:500]})
            stats["oracle_evaluations"] = stats.get("oracle_evaluations", 0) + n_or
        if P.get("post"):
            f2, st2 = P["post"](cases, all_xs)
            findings += f2
            stats.update(st2)
    return findings, stats


def still_fails(prop, P, case, check, kind):
    f, _ = run_cases(prop, P, [case], "shrink")
    return any(x["check"] == check and x["kind"] == kind for x in f)


TOKEN_RE = re.compile(r"(\s+|/\*.*?\*/|//[^\n]*\n?|[;{}(),<>=\[\]])", re.S)


def shrink_doc(prop, P, case, check, kind, budget_s=40):
    """cases that carry their abstract document: drop members / arguments / annotations / docs and re-render"""
    import copy
    t0 = time.time()
    best = case

    def variants(d):
        for i in range(len(d["members"])):
            v = copy.deepcopy(d); del v["members"][i]; yield v
        for i, m in enumerate(d["members"]):
            for j in range(len(m.get("args", []))):
                v = copy.deepcopy(d); del v["members"][i]["args"][j]; yield v
            if m.get("annotations"):
                v = copy.deepcopy(d); v["members"][i]["annotations"] = []; yield v
            if m.get("doc"):
                v = copy.deepcopy(d); v["members"][i]["doc"] = None; yield v
        for k in ("imports", "declared"):
            for i in range(len(d[k])):
                v = copy.deepcopy(d); del v[k][i]; yield v
        if d.get("annotations"):
            v = copy.deepcopy(d); v["annotations"] = []; yield v
        if d.get("doc"):
            v = copy.deepcopy(d); v["doc"] = None; yield v
    changed = True
    while changed and time.time() - t0 < budget_s:
        changed = False
        for v in variants(best["doc"]):
            cand = P["rerender"](best, v)
            if still_fails(prop, P, cand, check, kind):
                best = cand
                changed = True
                break
    return best


def shrink(prop, P, case, check, kind, budget_s=40):
    """delta debugging over files, then over text chunks of each file"""
    if case.get("doc") is not None and P.get("rerender"):
        return shrink_doc(prop, P, case, check, kind, budget_s)
    if case.get("wf") is not None or case.get("expect_doc") or case.get("extent") or case.get("doc") is not None:
        return case        # the oracle's ground truth is tied to this exact text
    t0 = time.time()
    best = dict(case)
    if "files" in best and best["files"] and not best.get("ops"):
        # drop whole files
        changed = True
        while changed and time.time() - t0 < budget_s:
            changed = False
            for i in range(len(best["files"])):
                cand = dict(best, files=best["files"][:i] + best["files"][i + 1:])
                if cand["files"] and still_fails(prop, P, cand, check, kind):
                    best = cand
                    changed = True
                    break
        # drop chunks
        for fi in range(len(best["files"])):
            fid, text = best["files"][fi]
            chunks = [c for c in TOKEN_RE.split(text) if c != ""]
            n = 2
            while len(chunks) >= 2 and time.time() - t0 < budget_s:
                size = max(1, len(chunks) // n)
                reduced = False
                for start in range(0, len(chunks), size):
                    cand_chunks = chunks[:start] + chunks[start + size:]
                    files = list(best["files"])
                    files[fi] = (fid, "".join(cand_chunks))
                    cand = dict(best, files=files)
                    if still_fails(prop, P, cand, check, kind):
                        chunks = cand_chunks
                        best = cand
                        n = max(n - 1, 2)
                        reduced = True
                        break
                if not reduced:
                    if size == 1:
                        break
                    n = min(n * 2, len(chunks))
    if "ops" in best and best.get("ops"):
        changed = True
        while changed and time.time() - t0 < budget_s:
            changed = False
            for i in range(len(best["ops"])):
                cand = dict(best, ops=best["ops"][:i] + best["ops"][i + 1:])
                if cand["ops"] and still_fails(prop, P, cand, check, kind):
                    best = cand
                    changed = True
                    break
    return best


def case_json(c):
    out = {"name": c["name"]}
    # everything the oracles read from a case (labels, the abstract document, the malformed member's extent, ...) goes
    # into the replay file, so that a replay judges the input exactly as the run did
    for k, v in c.items():
        if k in ("name", "files", "ops") or k.startswith("_") or v is None:
            continue
        try:
            json.dumps(v)
        except (TypeError, ValueError):
            continue
        out[k] = v
    if c.get("files"):
        out["files"] = [[fid, text] for fid, text in c["files"]]
    if c.get("ops"):
        out["ops"] = [[(x.decode("latin-1") if isinstance(x, bytes) else x) for x in op] for op in c["ops"]]
    return out


def load_corpus(prop):
    d = os.path.join(core.VERIF, "corpus", prop)
    out = []
    if os.path.isdir(d):
        for f in sorted(os.listdir(d)):
            if f.endswith(".json"):
                j = json.load(open(os.path.join(d, f)))
                c = {"name": "corpus_" + re.sub(r"\W", "_", f[:-5])}
                if "files" in j:
                    c["files"] = [(a, b) for a, b in j["files"]]
                if "ops" in j:
                    c["ops"] = [tuple(o) for o in j["ops"]]
                out.append(c)
    return out


# ------------------------------------------------------------------ main
def main(argv):
    prop = argv[1]
    tier = argv[2] if len(argv) > 2 and not argv[2].startswith("--") else os.environ.get("VERIF_TIER", "quick")
    replay = None
    if "--replay" in argv:
        replay = argv[argv.index("--replay") + 1]
    seed = int(os.environ.get("VERIF_SEED", "0") or 0)
    os.environ["VERIF_TIER_EFFECTIVE"] = tier
    P = props.PROPS[prop]
    t0 = time.time()
    violations = []          # (replay path, suffix)
    broken = []

    # 1. build: harness against /repo's working tree, Gen/, Coq targets, extracted runner
    try:
        core.build_harness()
    except core.BuildError as e:
        # the repository no longer builds: nothing can be shown to hold
        path = core.write_replay(prop, {"property": prop, "broken": "build of /repo with hooks failed", "detail": e.detail[-3000:]})
        log(f"VIOLATION property={prop} replay={path} no-failing-input-found")
        finish(prop, tier, seed, P, t0, 1, {"obligations": 0, "discharged": 0}, [], [], ["cargo build failed"], {})
        return 1
    theorems, broken, assumptions = check_obligations(prop, P)
    runner_ok = True
    try:
        hv = os.path.join(core.COQ, "Run", "Harness.vo")
        if not os.path.exists(core.RUNNER_BIN) or (os.path.exists(hv) and os.path.getmtime(hv) > os.path.getmtime(core.RUNNER_BIN)) \
                or os.path.getmtime(os.path.join(core.VERIF, "runner", "driver.ml")) > os.path.getmtime(core.RUNNER_BIN):
            core.build_runner()
    except core.BuildError as e:
        runner_ok = os.path.exists(core.RUNNER_BIN)
        broken.append(f"runner:{e.stage}: {e.detail[-400:]}")

    # 2./3. cases: replay | corpus + generated
    rng = random.Random(seed * 1000003 + int(hashlib.sha1(prop.encode()).hexdigest()[:6], 16))
    if replay:
        j = json.load(open(replay))
        cj = j.get("case", j)
        c = {"name": "replay"}
        if "files" in cj:
            c["files"] = [(a, b) for a, b in cj["files"]]
        if "ops" in cj:
            c["ops"] = [tuple(o) for o in cj["ops"]]
        for k, v in cj.items():
            if k not in ("name", "files", "ops"):
                c[k] = v
        cases = [c]
    else:
        cases = load_corpus(prop) + P["gen"](rng, tier)
    findings, stats = ([], {}) if not runner_ok else run_cases(prop, P, cases, "")
    byname = {c["name"]: c for c in cases}

    # 4. verdict
    known = [k for k in core.known_findings() if k.get("property") == prop]
    recognise = P.get("known_recogniser")
    spec_fail = [f for f in findings if f["kind"] in ("spec", "impl")]
    corr_fail = [f for f in findings if f["kind"] in ("corr", "decode", "runner", "harness")]
    reported_known = set()
    seen_cases = set()
    for f in spec_fail:
        if f["case"] in seen_cases:
            continue
        seen_cases.add(f["case"])
        case = byname.get(f["case"])
        if recognise and case is not None:
            k = recognise(case, f, known)
            if k:
                reported_known.add(k)
                continue
        if len(violations) >= 1:
            continue
        small = shrink(prop, P, case, f["check"], f["kind"]) if case is not None and not replay else case
        path = core.write_replay(prop, {"property": prop, "check": f["check"], "kind": f["kind"], "detail": f["detail"],
                                        "case": case_json(small) if small else None,
                                        "original_case": case_json(case) if case else None,
                                        "command": f"./check {prop} --replay <this file>"})
        violations.append((path, ""))
    if not violations and (broken or corr_fail):
        # an obligation or the correspondence no longer checks; the spec oracle found no failing input in
        # corpus + generated stream: extended search with further seeds, then report what broke
        found = None
        if runner_ok and not replay:
            for extra in range(1, P.get("extra_search_rounds", 3) + 1):
                if time.time() - t0 > P.get("search_budget_s", 120):
                    break
                rng2 = random.Random(seed * 7919 + extra)
                more = P["gen"](rng2, tier)
                for c in more:
                    c["name"] = f"x{extra}_" + c["name"]
                f2, _ = run_cases(prop, P, more, f"x{extra}")
                sf = [f for f in f2 if f["kind"] in ("spec", "impl")]
                if sf:
                    bn = {c["name"]: c for c in more}
                    case = bn.get(sf[0]["case"])
                    small = shrink(prop, P, case, sf[0]["check"], sf[0]["kind"]) if case else None
                    found = core.write_replay(prop, {"property": prop, "check": sf[0]["check"], "kind": sf[0]["kind"],
                                                     "detail": sf[0]["detail"], "case": case_json(small) if small else None,
                                                     "broken": broken, "command": f"./check {prop} --replay <this file>"})
                    break
        if found:
            violations.append((found, ""))
        else:
            ex = None
            if corr_fail and corr_fail[0]["case"] in byname:
                ex = case_json(byname[corr_fail[0]["case"]])
            path = core.write_replay(prop, {"property": prop, "broken_obligations": broken,
                                            "broken_correspondence": [dict(f) for f in corr_fail[:5]],
                                            "example_case_where_model_and_code_differ": ex,
                                            "note": "no input was found on which the property itself fails"})
            violations.append((path, " no-failing-input-found"))
    # occurrences of a recorded known class (verdict 4): listed -> KNOWN-FINDING, not listed -> violation
    known_hits = [f for f in findings if f["kind"] == "known"]
    if known_hits:
        listed = [k for k in known if k.get("check") == known_hits[0]["check"]]
        if listed:
            reported_known.add(f"{listed[0].get('site', '')} {listed[0].get('class', '')} (reproduced on {len(known_hits)} "
                               f"inputs of this run, e.g. case {known_hits[0]['case']})")
        elif not violations:
            case = byname.get(known_hits[0]["case"])
            path = core.write_replay(prop, {"property": prop, "check": known_hits[0]["check"], "kind": "unlisted-known-class",
                                            "case": case_json(case) if case else None})
            violations.append((path, ""))
    for k in sorted(reported_known):
        log(f"KNOWN-FINDING: property={prop} {k}")
    for path, suffix in violations:
        log(f"VIOLATION property={prop} replay={path}{suffix}")

    n_obl = len(theorems) + len(P.get("extra_obligations", []))
    discharged = n_obl if not any(b.startswith(("coq:", "axiom:", "assumptions:", "hygiene:", "translate:")) for b in broken) else max(0, n_obl - len(broken))
    finish(prop, tier, seed, P, t0, len(violations), {"obligations": n_obl, "discharged": discharged}, cases, findings,
           broken, assumptions, theorems, stats)
    return 1 if violations else 0


def finish(prop, tier, seed, P, t0, nviol, obl, cases, findings, broken, assumptions, theorems=(), stats=None):
    stats = stats or {}
    distinct = set()
    for c in cases:
        key = json.dumps(case_json(c), sort_keys=True)
        if P.get("nontrivial", lambda c: True)(c):
            distinct.add(hashlib.sha1(key.encode()).hexdigest())
    samples = [case_json(c) for c in cases[:2]]
    for s in samples:
        for f in s.get("files", []):
            if len(f[1]) > 600:
                f[1] = f[1][:600] + "…"
    coverage = {
        "obligations": obl["obligations"], "discharged": obl["discharged"],
        "checker_cmd": "cd /verif/coq && coq_makefile -f _CoqProject -o Makefile && make " + " ".join(f[:-2] + ".vo" for f in P["coq_files"]),
        "trusted_base": P["trusted_base"],
        "theorems": list(theorems), "print_assumptions": assumptions, "broken": broken,
        "evaluations": len(cases), "distinct_nontrivial": len(distinct),
        "rule": P["rule"] + getattr(P["gen"], "rule_suffix", ""), "samples": samples if samples else [{"note": "no cases run"}],
        "correspondence_checks": [c for _, _, cs in P["runs"] for c in cs],
        "implementation_checks": P.get("x_checks", []),
        "findings": [dict(f) for f in findings[:10]],
        "harness_lines_compared": stats.get("harness_lines", 0),
        "distribution": P.get("distribution", lambda cs: {})(cases),
        "run_stats": {k: v for k, v in stats.items() if k != "outs"},
    }
    if P["level"] == "other":
        coverage["explanation"] = ("No theorem decides this property yet. Decided by oracles on the implementation's output over generated inputs "
                                   "(" + P["rule"][:300] + ") and by the exact correspondence of the implementation with the Coq parser model.")
    core.write_evidence(prop, tier, seed, P["level"], coverage, time.time() - t0, nviol, P["assumptions"])


if __name__ == "__main__":
    sys.exit(main(sys.argv))
