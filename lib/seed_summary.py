#!/usr/bin/env python3
"""seeded/SUMMARY.md from seeded/*/meta.json (written by lib/seedtest.py detect)"""
import os, json, glob, re
VERIF = os.path.dirname(os.path.dirname(os.path.abspath(__file__)))
LATEST = {}
lp = os.path.join(VERIF, "seeded", "own_property_latest.log")
if os.path.exists(lp):
    for line in open(lp):
        if " | " in line:
            LATEST[line.split()[0]] = line.split(" | ", 1)[1]
rows = []
for mp in sorted(glob.glob(os.path.join(VERIF, "seeded", "*", "meta.json"))):
    m = json.load(open(mp))
    name = m["name"]
    notes = os.path.join(os.path.dirname(mp), "notes.md")
    title = ""
    if os.path.exists(notes):
        for line in open(notes):
            line = line.strip()
            if line.startswith("#"):
                title = re.sub(r"^#+\s*", "", line)
                title = re.sub(r"^C\d\d\s*/\s*(m\d|mutation \d)\s*[-–—:]*\s*", "", title, flags=re.I)
                break
    det = m.get("detection", {})
    caught = sorted(p for p, r in det.items() if r["exit"] == 1 and any(l.startswith("VIOLATION") and "no-failing-input-found" not in l for l in r["lines"]))
    noinput = sorted(p for p, r in det.items() if r["exit"] == 1 and p not in caught)
    tgt = m["property"]
    first = "replay" if tgt in caught else ("no-failing-input-found" if tgt in noinput else ("not flagged" if tgt in det else "-"))
    # the latest run of the own property's quick check with the patch applied (seeded/own_property_latest.log, one line per change)
    verdict = first
    if name in LATEST:
        l = LATEST[name]
        verdict = "not flagged" if "VIOLATION" not in l else ("no-failing-input-found" if "no-failing-input-found" in l else "replay")
        if "KNOWN-FINDING" in l and verdict == "replay":
            verdict = "replay (next to the KNOWN-FINDING line)"
    caught = [p for p in caught if p != tgt]
    noinput = [p for p in noinput if p != tgt]
    rows.append((name, tgt, title[:110], verdict, caught, noinput, m.get("confirmed", {})))
out = ["# Seeded changes and which checks catch them", "",
       "Every change compiles, passes the existing suite unchanged and fails its own demonstration (`demo.rs`) — confirmed in a scratch worktree",
       "(`meta.json.confirmed`). Detection = `./check Cxx quick` with the patch applied to /repo (then undone): all 20 properties for the first four",
       "rounds (the two right-hand columns), the own property for the later ones. The `own property` column is the *latest* run of the own",
       "property's quick check (after the corrections described in DESIGN.md I.8; `own_property_latest.log`), the logs of all runs are `detect_round*.log`.",
       "`replay` = VIOLATION with a failing input; `nfi` = VIOLATION … no-failing-input-found (a proof obligation or a correspondence broke).", "",
       "| change | what it does | own property | other properties: replay | other properties: nfi |", "|---|---|---|---|---|"]
for name, tgt, title, verdict, caught, noinput, conf in rows:
    oc = " ".join(p for p in caught if p != tgt) or "–"
    on = " ".join(p for p in noinput if p != tgt) or "–"
    out.append(f"| {name} | {title} | **{verdict}** | {oc} | {on} |")
n = len(rows)
out += ["", f"{n} changes; own property reports a replay for {sum(1 for r in rows if r[3].startswith('replay'))}, "
        f"no-failing-input-found for {sum(1 for r in rows if r[3] == 'no-failing-input-found')}, nothing for {sum(1 for r in rows if r[3] == 'not flagged')}."]
open(os.path.join(VERIF, "seeded", "SUMMARY.md"), "w").write("\n".join(out) + "\n")
print("\n".join(out[-3:]))
