"""Self-check of the evaluation path (thorough tier): the verdicts of the extracted OCaml runner are recomputed inside Coq
with vm_compute on a sample of harness lines; any disagreement is reported as a broken obligation (extraction is part of
the trusted base, this narrows it)."""
import os, subprocess
import core


def sample_lines(outs, prefix, k=10, maxlen=6000):
    lines = []
    for o in outs:
        try:
            with open(o, errors="replace") as f:
                for line in f:
                    if line.startswith(prefix + " ") and len(line) < maxlen:
                        p = line.rstrip("\n").split(" ", 2)
                        if len(p) == 3:
                            lines.append((p[1], p[2]))
        except OSError:
            pass
    lines.sort(key=lambda x: len(x[1]))
    # the shortest ones and a spread of the rest
    step = max(1, len(lines) // k)
    return lines[::step][:k]


def crosscheck(prop, outs, prefix, checks, k=10):
    """returns list of disagreement descriptions"""
    if not checks:
        return []
    lines = sample_lines(outs, prefix, k)
    if not lines:
        return []
    os.makedirs(core.WORK, exist_ok=True)
    path = os.path.join(core.WORK, f"{prop}.xcheck.{prefix}.out")
    with open(path, "w") as f:
        for name, sexp in lines:
            f.write(f"{prefix} {name} {sexp}\n")
    res_ml, errs = core.run_model([path], prefix, checks)
    res_vm, errs2 = core.coq_eval(f"{prop}_{prefix}", lines, checks, timeout=1200)
    bad = [f"extraction-crosscheck: {e[:300]}" for e in errs + errs2]
    for c in checks:
        for name, _ in lines:
            a, b = res_ml.get(c, {}).get(name), res_vm.get(c, {}).get(name)
            if a is None or b is None or a != b:
                bad.append(f"extraction-crosscheck: {c} on {name}: extracted runner says {a}, vm_compute says {b}")
    return bad
