"""Per-property case generators (deterministic in the rng passed in)."""
import itertools, random
import gen


def nm(name, files):
    return {"name": name, "files": files}


SUPPORT = [("s_itf", "package p;interface Itf{}"), ("s_par", "package p;parcelable Par{int x;}"),
           ("s_en", "package p;enum En{A,B}")]
HEAD = "package m;import p.Itf;import p.Par;import p.En;import q.Unk;parcelable Fwd;"
# the 17 categories as they can be written in source (given SUPPORT + HEAD)
LEAVES = {
    "CPrimitive": "int", "CVoid": "void", "CString": "String", "CCharSequence": "CharSequence",
    "CIBinder": "IBinder", "CFileDescriptor": "FileDescriptor", "CParcelFileDescriptor": "ParcelFileDescriptor",
    "CParcelableHolder": "ParcelableHolder", "CInterface": "Itf", "CParcelable": "Par", "CEnum": "En",
    "CForward": "Fwd", "CUnknownImport": "Unk", "CUnresolved": "Nope",
}
CONTAINERS = {"CArray": "int[]", "CMap": "Map<String,String>", "CList": "List<String>"}
ALL17 = dict(LEAVES, **CONTAINERS)


def project(main, extra=()):
    return SUPPORT + list(extra) + [("main", main)]


# ------------------------------------------------------------------ C07
def gen_C07(rng, tier):
    cases = []
    k = 0
    for cname, src in ALL17.items():
        for d in ["", "in ", "out ", "inout "]:
            for mow in [False, True]:
                for iow in [False, True]:
                    for pos in range(3):
                        args = ["int a0", "in String a1", "in Par a2"]
                        args[pos] = f"{d}{src} x"
                        body = f"{'oneway ' if mow else ''}void f({','.join(args)});"
                        main = HEAD + f"{'oneway ' if iow else ''}interface I{{{body}}}"
                        cases.append(nm(f"ex{k}", project(main)))
                        k += 1
    n = 300 if tier == "quick" else 4000
    for i in range(n):
        fs = gen.gen_project(rng)
        cases.append(nm(f"r{i}", gen.render_project(fs, rng)))
    return cases


# ------------------------------------------------------------------ C08
def shapes(depth, keys=("String", "int", "Nope", "Par")):
    if depth == 0:
        return list(ALL17_LEAFSRC) + ["List", "Map"]
    sub = shapes(depth - 1, keys)
    out = list(sub)
    out += [s + "[]" for s in sub]
    out += [f"List<{s}>" for s in sub]
    out += [f"Map<{k},{s}>" for k in keys for s in sub]
    out += [f"Map<{s},String>" for s in sub[:25]]
    return list(dict.fromkeys(out))


ALL17_LEAFSRC = list(LEAVES.values())


def gen_C08(rng, tier):
    cases = []
    sh = shapes(2)
    if tier != "quick":
        extra = shapes(3)
        rng2 = random.Random(rng.random())
        sh = sh + rng2.sample(extra, min(len(extra), 12000))
    k = 0
    per = 12
    for i in range(0, len(sh), per):
        chunk = sh[i:i + per]
        pos = (i // per) % 4
        if pos == 0:
            main = HEAD + "parcelable P{" + "".join(f"{t} f{j};" for j, t in enumerate(chunk)) + "}"
        elif pos == 1:
            main = HEAD + "interface I{" + "".join(f"{t} m{j}();" for j, t in enumerate(chunk)) + "}"
        elif pos == 2:
            main = HEAD + "interface I{" + "".join(f"void m{j}(in {t} a);" for j, t in enumerate(chunk)) + "}"
        else:
            main = HEAD + "parcelable P{" + "".join(f"const {t} K{j}=1;" for j, t in enumerate(chunk)) + "}"
        cases.append(nm(f"ex{k}", project(main)))
        k += 1
    n = 300 if tier == "quick" else 4000
    for i in range(n):
        fs = gen.gen_project(rng)
        cases.append(nm(f"r{i}", gen.render_project(fs, rng)))
    return cases


# ------------------------------------------------------------------ C10
def gen_C10(rng, tier):
    cases = []
    rets = list(ALL17.values())
    k = 0
    for iow in [False, True]:
        # one method: all returns x oneway
        for mow in [False, True]:
            for r in rets:
                main = HEAD + f"{'oneway ' if iow else ''}interface I{{{'oneway ' if mow else ''}{r} f();}}"
                cases.append(nm(f"ex{k}", project(main)))
                k += 1
        # up to 3 methods over a smaller return set, with constants mixed in
        small = ["void", "int", "Par", "Nope"]
        for n in (2, 3):
            for combo in itertools.product([(o, r) for o in (False, True) for r in small], repeat=n):
                if tier == "quick" and n == 3 and rng.random() > 0.25:
                    continue
                ms = "".join(f"{'oneway ' if o else ''}{r} f{j}();" + ("const int K%d=1;" % j if j == 0 else "")
                             for j, (o, r) in enumerate(combo))
                main = HEAD + f"{'oneway ' if iow else ''}interface I{{{ms}}}"
                cases.append(nm(f"ex{k}", project(main)))
                k += 1
    # oneway keyword with annotations / trivia before it (the keyword's range)
    for i, pre in enumerate(["@A ", "@A() /*c*/ ", "/** d */ ", "// c\n", "@A\n\t", ""]):
        main = HEAD + "oneway interface I{" + pre + "oneway void f();" + pre + "void g();}"
        cases.append(nm(f"kw{i}", project(main)))
    n = 300 if tier == "quick" else 4000
    for i in range(n):
        fs = gen.gen_project(rng)
        cases.append(nm(f"r{i}", gen.render_project(fs, rng)))
    return cases


# ------------------------------------------------------------------ C05 / C06
def gen_projects(rng, tier, n_quick=1500, n_thorough=20000):
    cases = []
    # hand-picked naming relations
    fixed = [
        [("a", "package p;import q.Foo;parcelable P{Foo a;q.Foo b;XFoo c;Foo.X d;p.q.Foo e;}"), ("b", "package q;parcelable Foo{}")],
        [("a", "package p;import a.Foo;import b.Foo;parcelable P{Foo f;b.Foo g;a.Foo h;}")],
        [("a", "package p;import a.b.Foo;import b.Foo;parcelable P{b.Foo f;Foo g;}"), ("b", "package b;enum Foo{A}")],
        [("a", "package p;import android.os.IBinder;import android.os.ParcelFileDescriptor;import java.os.FileDescriptor;"
               "import android.os.ParcelableHolder;parcelable P{IBinder a;ParcelFileDescriptor b;FileDescriptor c;ParcelableHolder d;"
               "android.os.IBinder e;android.os.ParcelFileDescriptor f;os.IBinder g;}")],
        [("a", "package p;parcelable P{IBinder a;ParcelFileDescriptor b;FileDescriptor c;ParcelableHolder d;android.os.IBinder e;"
               "android.os.ParcelFileDescriptor f;java.os.FileDescriptor g;XIBinder h;}")],
        [("a", "package p;parcelable Foo;parcelable q.Bar;parcelable Foo;parcelable P{Foo a;Bar b;q.Bar c;}")],
        [("a", "package p;import q.Foo;parcelable Foo;parcelable P{Foo a;}")],
        [("a", "package p;import q.Foo;import r.Foo;parcelable Foo;parcelable P{int a;}")],
        [("a", "package p;import q.Foo;parcelable P{Map<String,List<Foo[]>> a;}"), ("b", "package q;interface Foo{}")],
        [("a", "package p;import p.I;interface J{void f(in I x);}"), ("b", "package p;interface I{}"), ("c", "package p;parcelable I{}")],
        [("a", "package android.os;interface IBinder{}"), ("b", "package p;import android.os.IBinder;parcelable P{IBinder a;android.os.IBinder b;}")],
        [("a", "package android.os;interface ParcelFileDescriptor{}"), ("b", "package p;import android.os.ParcelFileDescriptor;parcelable P{ParcelFileDescriptor a;android.os.ParcelFileDescriptor b;}")],
    ]
    for i, f in enumerate(fixed):
        cases.append(nm(f"fixed{i}", f))
    n = n_quick if tier == "quick" else n_thorough
    for i in range(n):
        fs = gen.gen_project(rng)
        cases.append(nm(f"r{i}", gen.render_project(fs, rng)))
    return cases
