"""Per-property case generators (deterministic in the rng passed in)."""
import itertools, random, re
import gen


def nm(name, files):
    return {"name": name, "files": files}


SUPPORT = [("s_itf", "package p;interface Itf{}"), ("s_par", "package p;parcelable Par{int x;}"),
           ("s_en", "package p;enum En{A,B}")]
HEAD = "package m;import p.Itf;import p.Par;import p.En;import q.Unk;parcelable Fwd;"
# the 17 categories as they can be written in source (given SUPPORT + HEAD)
LEAVES = {
    "CPrimitive": "int", "CVoid": "void", "CString": "String", "CCharSequence": "CharSequence",
    "CIBinder": "IBinder", "CFileDescriptor": "FileDescriptor", "CParcelFileDescriptor": "ParcelFileDescriptor",
    "CParcelableHolder": "ParcelableHolder", "CInterface": "Itf", "CParcelable": "Par", "CEnum": "En",
    "CForward": "Fwd", "CUnknownImport": "Unk", "CUnresolved": "Nope",
}
CONTAINERS = {"CArray": "int[]", "CMap": "Map<String,String>", "CList": "List<String>"}
ALL17 = dict(LEAVES, **CONTAINERS)


def project(main, extra=()):
    return SUPPORT + list(extra) + [("main", main)]


# ------------------------------------------------------------------ C07
def gen_C07(rng, tier):
    cases = []
    k = 0
    for cname, src in ALL17.items():
        for d in ["", "in ", "out ", "inout "]:
            for mow in [False, True]:
                for iow in [False, True]:
                    for pos in range(3):
                        args = ["int a0", "in String a1", "in Par a2"]
                        args[pos] = f"{d}{src} x"
                        body = f"{'oneway ' if mow else ''}void f({','.join(args)});"
                        main = HEAD + f"{'oneway ' if iow else ''}interface I{{{body}}}"
                        cases.append(nm(f"ex{k}", project(main)))
                        k += 1
    # user types that share their simple name with a built-in: the direction rules follow what the import / forward declaration says
    shadow = [
        ("package com.acme.model;parcelable ParcelableHolder{}", "import com.acme.model.ParcelableHolder;", "ParcelableHolder"),
        ("package com.acme.model;enum ParcelFileDescriptor{A}", "import com.acme.model.ParcelFileDescriptor;", "ParcelFileDescriptor"),
        ("package com.acme.model;interface IBinder{}", "import com.acme.model.IBinder;", "IBinder"),
        (None, "import com.vendor.io.ParcelFileDescriptor;", "ParcelFileDescriptor"),
        (None, "parcelable IBinder;", "IBinder"),
        (None, "parcelable FileDescriptor;", "FileDescriptor"),
        (None, "parcelable x.y.Foo;", "x.y.Foo"),
        (None, "parcelable x.y.Foo;", "y.Foo"),
        (None, "parcelable x.y.Foo;parcelable Foo;", "Foo"),
    ]
    # an argument named like an earlier one of the same method is still an argument: every category x direction once more
    for cname, src in ALL17.items():
        for d in ["", "in ", "out ", "inout "]:
            for mow, iow in [(False, False), (True, False), (False, True)]:
                body = f"{'oneway ' if mow else ''}void f(in int[] x,{d}{src} x);"
                cases.append(nm(f"dup{k}", project(HEAD + f"{'oneway ' if iow else ''}interface I{{{body}}}")))
                k += 1
    for j, (defn, pre, ty) in enumerate(shadow):
        for iow in (False, True):
            body = "".join(f"void m{k}({d}{ty} x);" for k, d in enumerate(["", "in ", "out ", "inout "]))
            files = ([("d", defn)] if defn else []) + [("main", f"package p;{pre}{'oneway ' if iow else ''}interface I{{{body}}}")]
            cases.append(nm(f"sh{j}_{int(iow)}", files))
    n = 300 if tier == "quick" else 4000
    for i in range(n):
        fs = gen.gen_project(rng)
        cases.append(nm(f"r{i}", gen.render_project(fs, rng)))
    return cases


# ------------------------------------------------------------------ C08
def shapes(depth, keys=("String", "int", "Nope", "Par")):
    if depth == 0:
        return list(ALL17_LEAFSRC) + ["List", "Map"]
    sub = shapes(depth - 1, keys)
    out = list(sub)
    out += [s + "[]" for s in sub]
    out += [f"List<{s}>" for s in sub]
    out += [f"Map<{k},{s}>" for k in keys for s in sub]
    out += [f"Map<{s},String>" for s in sub[:25]]
    return list(dict.fromkeys(out))


ALL17_LEAFSRC = list(LEAVES.values())


BUILTIN_NAMED = [
    [("a", "package p;parcelable ParcelableHolder;parcelable P{ParcelableHolder[] a;List<ParcelableHolder> b;Map<String,ParcelableHolder> c;}")],
    [("a", "package p;parcelable FileDescriptor;parcelable IBinder;parcelable P{List<FileDescriptor> a;Map<String,FileDescriptor> b;IBinder[] c;}")],
    [("a", "package com.x;interface IBinder{}"), ("b", "package p;import com.x.IBinder;parcelable P{IBinder[] a;List<IBinder> b;Map<String,IBinder> c;}")],
    [("a", "package com.x;enum FileDescriptor{A}"), ("b", "package p;import com.x.FileDescriptor;parcelable P{Map<String,FileDescriptor> a;FileDescriptor[] b;List<FileDescriptor> c;}")],
    [("a", "package com.x;parcelable ParcelFileDescriptor{}"), ("b", "package p;import com.x.ParcelFileDescriptor;interface I{void f(in ParcelFileDescriptor[] a, in List<ParcelFileDescriptor> b);}")],
]


def gen_C08(rng, tier):
    cases = []
    sh = shapes(2)
    extra = shapes(3)
    rng2 = random.Random(rng.random())
    sh = sh + rng2.sample(extra, min(len(extra), 900 if tier == "quick" else 12000))
    k = 0
    per = 12
    for i in range(0, len(sh), per):
        chunk = sh[i:i + per]
        pos = (i // per) % 4
        if pos == 0:
            main = HEAD + "parcelable P{" + "".join(f"{t} f{j};" for j, t in enumerate(chunk)) + "}"
        elif pos == 1:
            main = HEAD + "interface I{" + "".join(f"{t} m{j}();" for j, t in enumerate(chunk)) + "}"
        elif pos == 2:
            main = HEAD + "interface I{" + "".join(f"void m{j}(in {t} a);" for j, t in enumerate(chunk)) + "}"
        else:
            main = HEAD + "parcelable P{" + "".join(f"const {t} K{j}=1;" for j, t in enumerate(chunk)) + "}"
        cases.append(nm(f"ex{k}", project(main)))
        k += 1
    # user types sharing their simple name with a built-in (forward-declared, or imported from a non-Android package) as elements
    for j, files in enumerate(BUILTIN_NAMED):
        cases.append(nm(f"bn{j}", files))
    n = 300 if tier == "quick" else 4000
    for i in range(n):
        fs = gen.gen_project(rng)
        cases.append(nm(f"r{i}", gen.render_project(fs, rng)))
    return cases


# ------------------------------------------------------------------ C10
def o_C10(case, p):
    """parse-stage tree vs the abstract document, oneway flags only (item and methods, in order)"""
    d = case.get("doc") if case else None
    if d is None:
        return None
    a = p["fr"]["ast"]
    if a is None:
        return "no tree for a well-formed interface"
    want = [(m["name"], bool(m["oneway"])) for m in d["members"] if m["m"] == "method"]
    got = [(m["name"], bool(m["oneway"])) for m in a["item"]["members"] if m.get("m") == "method"]
    if bool(a["item"]["oneway"]) != bool(d["oneway"]):
        return f"interface oneway flag {a['item']['oneway']} but the text says {d['oneway']}"
    if got != want:
        return f"methods and their oneway keywords: tree {got}, text {want}"
    return None


def gen_C10(rng, tier):
    cases = []
    rets = list(ALL17.values())
    k = 0
    for iow in [False, True]:
        # one method: all returns x oneway
        for mow in [False, True]:
            for r in rets:
                main = HEAD + f"{'oneway ' if iow else ''}interface I{{{'oneway ' if mow else ''}{r} f();}}"
                cases.append(nm(f"ex{k}", project(main)))
                k += 1
        # up to 3 methods over a smaller return set, with constants mixed in
        small = ["void", "int", "Par", "Nope"]
        for n in (2, 3):
            for combo in itertools.product([(o, r) for o in (False, True) for r in small], repeat=n):
                if tier == "quick" and n == 3 and rng.random() > 0.25:
                    continue
                ms = "".join(f"{'oneway ' if o else ''}{r} f{j}();" + ("const int K%d=1;" % j if j == 0 else "")
                             for j, (o, r) in enumerate(combo))
                main = HEAD + f"{'oneway ' if iow else ''}interface I{{{ms}}}"
                cases.append(nm(f"ex{k}", project(main)))
                k += 1
    # duplicate-named (overloaded) methods: the void rule must still be applied to each
    for i, (iow, ms) in enumerate(itertools.product([False, True], [
            "void f(); oneway int f();", "oneway int f(); oneway String f(); void g();", "int f(); int f();",
            "const int K=1; oneway int f(); oneway int f();"])):
        cases.append(nm(f"dup{i}", project(HEAD + f"{'oneway ' if iow else ''}interface I{{{ms}}}")))
    # what the text declares oneway is what the tree says (the keyword survives any layout around it)
    for i in range(60 if tier == "quick" else 600):
        d = gen.gen_doc(rng, kind="interface", opts={"pdoc": 0.1, "nmembers": rng.choice([1, 2, 3, 4])})
        text, _ = gen.render(gen.tokens(d), random.Random(rng.randrange(1 << 30)), "wild")
        cases.append({"name": f"ow{i}", "files": [("f", text)], "doc": d})
    # oneway keyword with annotations / trivia before it (the keyword's range)
    for i, pre in enumerate(["@A ", "@A() /*c*/ ", "/** d */ ", "// c\n", "@A\n\t", ""]):
        main = HEAD + "oneway interface I{" + pre + "oneway void f();" + pre + "void g();}"
        cases.append(nm(f"kw{i}", project(main)))
    n = 300 if tier == "quick" else 4000
    for i in range(n):
        fs = gen.gen_project(rng)
        cases.append(nm(f"r{i}", gen.render_project(fs, rng)))
    return cases


# ------------------------------------------------------------------ C05 / C06
def gen_projects(rng, tier, n_quick=1500, n_thorough=20000):
    cases = []
    # hand-picked naming relations
    fixed = [
        [("a", "package p;import q.Foo;parcelable P{Foo a;q.Foo b;XFoo c;Foo.X d;p.q.Foo e;}"), ("b", "package q;parcelable Foo{}")],
        [("a", "package p;import a.Foo;import b.Foo;parcelable P{Foo f;b.Foo g;a.Foo h;}")],
        [("a", "package p;import a.b.Foo;import b.Foo;parcelable P{b.Foo f;Foo g;}"), ("b", "package b;enum Foo{A}")],
        [("a", "package p;import android.os.IBinder;import android.os.ParcelFileDescriptor;import java.os.FileDescriptor;"
               "import android.os.ParcelableHolder;parcelable P{IBinder a;ParcelFileDescriptor b;FileDescriptor c;ParcelableHolder d;"
               "android.os.IBinder e;android.os.ParcelFileDescriptor f;os.IBinder g;}")],
        [("a", "package p;parcelable P{IBinder a;ParcelFileDescriptor b;FileDescriptor c;ParcelableHolder d;android.os.IBinder e;"
               "android.os.ParcelFileDescriptor f;java.os.FileDescriptor g;XIBinder h;}")],
        [("a", "package p;parcelable Foo;parcelable q.Bar;parcelable Foo;parcelable P{Foo a;Bar b;q.Bar c;}")],
        [("a", "package p;import q.Foo;parcelable Foo;parcelable P{Foo a;}")],
        [("a", 'package p;@Backing(type="") enum E{A=1,B}'), ("b", 'package p;@Backing(type="int") enum F{A}'),
         ("c", 'package p;@Backing() enum G{A}'), ("d", 'package p;@Backing(type="byte") @Backing(type="") enum H{A}')],
        [("a", "package p;import q.Foo;import r.Foo;parcelable Foo;parcelable P{int a;}")],
        [("a", "package p;import q.Foo;parcelable P{Map<String,List<Foo[]>> a;}"), ("b", "package q;interface Foo{}")],
        [("a", "package p;import p.I;interface J{void f(in I x);}"), ("b", "package p;interface I{}"), ("c", "package p;parcelable I{}")],
        [("a", "package android.os;interface IBinder{}"), ("b", "package p;import android.os.IBinder;parcelable P{IBinder a;android.os.IBinder b;}")],
        [("a", "package p;import q.Foo;import q.Bar;import q.Foo;import q.Foo;import q.Foo;parcelable Foo;interface I{}")],
        [("a", "package p;import a.b.AuditEvent;import p.Event;interface I{void f(in Event e, in List<Event> l, in Event[] a);}"),
         ("b", "package p;parcelable Event{}"), ("c", "package a.b;parcelable AuditEvent{}")],
        [("a", "package p;import a.XFoo;import z.Foo;parcelable P{Foo a; XFoo b;}"), ("b", "package z;enum Foo{A}"), ("c", "package a;interface XFoo{}")],
        [("a", "package p; /** */ interface I { /***/ void f(/** */ int a); /** * */ const int K = 1; }")],
        [("a", "package com.acme.\n   telemetry . /* x */ model; parcelable Sample {}"),
         ("b", "package p; import com.acme.telemetry.model.Sample; interface I { void f(in Sample s, in com . acme.telemetry.model . Sample t); }")],
        [("a", "package android.os;interface ParcelFileDescriptor{}"), ("b", "package p;import android.os.ParcelFileDescriptor;parcelable P{ParcelFileDescriptor a;android.os.ParcelFileDescriptor b;}")],
        # forward declarations with a package path resolve nothing (not even with the file's own package), next to a plain twin
        [("a", "package my.pkg;parcelable my.pkg.Foo;parcelable P{Foo a;Map<String,List<Foo>> b;my.pkg.Foo c;}"), ("b", "package my.pkg;parcelable Foo{}")],
        [("a", "package p;parcelable Foo;parcelable x.y.Foo;parcelable P{Foo a;x.y.Foo b;y.Foo c;}")],
        [("a", "package p;import pkg.Name;parcelable Name;parcelable P{List<Name> a;Map<String,Name> b;Name[] c;}"), ("b", "package pkg;enum Name{A}")],
        [("a", "package alpha;import beta.Node;parcelable Node{Node a;beta.Node b;List<Node> c;}"), ("b", "package beta;enum Node{A}")],
        # near misses of the suffix rule: the name repeated, and more qualification than the import has
        [("a", "package p;import pkg.FooFoo;import x.a.Fooa.Foo;parcelable P{Foo a;a.Foo b;FooFoo c;}"), ("b", "package pkg;parcelable FooFoo{}")],
        [("a", "package p;import zzz.Data;import aaa.DataDataData;parcelable P{Data a;List<Data> b;Map<String,Data[]> c;}"),
         ("b", "package zzz;enum Data{A}"), ("c", "package aaa;interface DataDataData{}")],
        [("a", "package p;import lib.Thing;import android.os.ParcelFileDescriptor;parcelable P{outer.lib.Thing a;my.android.os.ParcelFileDescriptor b;}"),
         ("b", "package lib;parcelable Thing{}")],
        # names broken over three and more lines (a position on a middle line is inside the name)
        [("a", "package com.\n  acme.\n  deep.\n  pkg;\nimport com.\n example.\n Foo;\nparcelable P {\n  com.\n   example.\n    Foo a;\n}"),
         ("b", "package com.example; parcelable Foo {}")],
        # types nested far deeper than the random stream goes (every level must be visited, found and resolved)
        [("a", "package p;import q.Foo;parcelable P{" + "List<" * 12 + "Foo" + ">" * 12 + " a;" + "Map<String," * 11 + "Foo[]" + ">" * 11 + " b;Foo" + "[]" * 11 + " c;}"),
         ("b", "package q;parcelable Foo{}")],
        [("a", "package p;interface I{void f(in " + "List<" * 10 + "Map<String,Nope[]>" + ">" * 10 + " x, in List<Map<String,int[]>>" + "[]" * 10 + " y);}")],
        # a recovered syntax error directly in front of a member that starts with an unknown / imported type (the syntax Error
        # sits on the very token the type's name range covers)
        [("a", "package p; interface I { void first()\n Bar second(); Known third() }"), ("b", "package p; parcelable Known {}")],
        [("a", "package p; import q.Known; parcelable P { int a = {1, 2}\r\n XKnown b; Known c; }"), ("b", "package q; parcelable Known {}")],
        [("a", "package p; interface I { void f() = 3\n Listing g(); const int K = 1 Nope h(); }")],
        # user types that share their simple name with a built-in, reached through a non-Android import or a forward declaration,
        # as container elements: the import / declaration decides what the name denotes
        [("a", "package p;parcelable ParcelableHolder;parcelable P{ParcelableHolder[] a;List<ParcelableHolder> b;Map<String,ParcelableHolder> c;}")],
        [("a", "package p;parcelable FileDescriptor;parcelable IBinder;parcelable P{List<FileDescriptor> a;Map<String,FileDescriptor> b;IBinder[] c;}")],
        [("a", "package com.x;interface IBinder{}"), ("b", "package p;import com.x.IBinder;parcelable P{IBinder[] a;List<IBinder> b;Map<String,IBinder> c;}")],
        [("a", "package com.x;enum FileDescriptor{A}"), ("b", "package p;import com.x.FileDescriptor;parcelable P{Map<String,FileDescriptor> a;FileDescriptor[] b;List<FileDescriptor> c;}")],
        [("a", "package com.x;parcelable ParcelFileDescriptor{}"), ("b", "package p;import com.x.ParcelFileDescriptor;interface I{void f(in ParcelFileDescriptor[] a, in List<ParcelFileDescriptor> b);}")],
    ]
    for i, f in enumerate(fixed):
        cases.append(nm(f"fixed{i}", f))
    n = n_quick if tier == "quick" else n_thorough
    for i in range(n):
        fs = gen.gen_project(rng)
        cases.append(nm(f"r{i}", gen.render_project(fs, rng)))
    return cases


# ------------------------------------------------------------------ C11
def gen_C11(rng, tier):
    cases = []
    fixed = [
        # several diagnostics on one line, out of emission order
        [("a", "package p; import q.A; import q.B; parcelable P { Map<int, X1> a; X2[] b; List<X3> c; Map<X4,X5> d; }")],
        [("a", "package p;import a.Foo;import b.Foo;import c.Foo;parcelable Foo;parcelable P{Foo f;}")],
        [("a", "package p;interface X{}"), ("b", "package p;parcelable X{}"), ("c", "package p;enum X{A}"),
         ("d", "package q;import p.X;interface I{void f(X a, in X b, out X c);}")],
        [("a", "package p; interface I { void f( ; }"), ("b", "package p; parcelable {"), ("c", "")],
        [("a", "package p;import q.Z;import q.Y;import q.Z;import q.W;parcelable Y;parcelable W;parcelable Y;interface I{}")],
        [("a", "package p;import omega.inner.Item;import alpha.inner.Item;import mid.inner.Item;parcelable P{inner.Item a;List<inner.Item> b;Item c;}"),
         ("b", "package alpha.inner;parcelable Item{}"), ("c", "package omega.inner;enum Item{A}")],
        [("a", "package p;interface I{void a()=11;void b()=12;void c()=13;void d()=14;void e();void f();}")],
    ]
    for i, f in enumerate(fixed):
        cases.append(nm(f"fixed{i}", f))
    n = 1200 if tier == "quick" else 15000
    for i in range(n):
        fs = gen.gen_project(rng)
        files = gen.render_project(fs, rng)
        # sometimes squeeze everything on one line, sometimes break a file so that it has no tree
        if rng.random() < 0.3:
            files = [(fid, " ".join(t.split())) if "//" not in t else (fid, t) for fid, t in files]
        if rng.random() < 0.15 and files:
            k = rng.randrange(len(files))
            fid, t = files[k]
            cut = rng.randrange(len(t) + 1)
            files[k] = (fid, t[:cut] + rng.choice(["", "}", ";;", "@", "#"]) + (t[cut + 3:] if rng.random() < 0.5 else ""))
        if rng.random() < 0.15 and len(files) > 1:
            # duplicate key with another kind
            fid, t = files[0]
            d = dict(fs[0][1])
            d2 = gen.gen_doc(rng, d["package"], d["name"], rng.choice(["interface", "parcelable", "enum"]))
            files.append(("dup", gen.render(gen.tokens(d2), rng, "space")[0]))
        cases.append(nm(f"r{i}", files))
    return cases


# ------------------------------------------------------------------ C12
CONTENTS = ["package p;interface A{void f(in B b);}", "package p;parcelable B{int x;}",
            "package p;import p.B;interface A{B g();}", "package p; interface {",
            "package p;parcelable A{int y;}", "package q;import p.A;import p.B;interface U{void f(A a, B b, out A c);}",
            "package p;enum B{X}",
            # same tree (same byte layout), different syntax diagnostics; no tree at all, with different errors
            "package p;interface A{/*xxxxxx*/void f(in B b);}", "package p;interface A{int ;     void f(in B b);}",
            "", "}", "package p;"]
BOM_FILE = "\ufeffpackage p;parcelable B{int x;}"


def gen_C12(rng, tier):
    cases = []
    ids = ["i0", "i1", "i2"]
    alphabet = [("add", i, c) for i in ids for c in CONTENTS] + [("remove", i) for i in ids] + [("validate",)] + \
               [("addfile", i, "ok", CONTENTS[1]) for i in ids[:1]] + [("addfile", ids[0], "missing"), ("addfile", ids[1], "bad", b"\xff\xfepackage"),
                ("addfile", ids[0], "ok", BOM_FILE)]
    maxlen = 2 if tier == "quick" else 3
    k = 0
    import itertools
    for L in range(1, maxlen + 1):
        for seq in itertools.product(alphabet, repeat=L):
            cases.append({"name": f"ex{k}", "ops": list(seq)})
            k += 1
    # an id whose path is not canonical (`sub/../i0` names the same file as `i0` on disk, but it is another id)
    odd = "sub/../i0"
    for seq in [[("addfile", odd, "ok", CONTENTS[1])], [("add", odd, CONTENTS[0]), ("addfile", odd, "ok", CONTENTS[1])],
                [("addfile", odd, "ok", CONTENTS[1]), ("remove", odd)], [("addfile", "i0", "ok", CONTENTS[0]), ("addfile", odd, "ok", CONTENTS[1]), ("validate",)],
                [("addfile", odd, "ok", CONTENTS[1]), ("add", "i0", CONTENTS[2]), ("remove", "i0"), ("validate",)]]:
        cases.append({"name": f"nc{k}", "ops": seq})
        k += 1
    # short random histories over the small pool (same key under several ids, same id changing kind), validate in between
    for i in range(700 if tier == "quick" else 10000):
        ops = []
        for _ in range(rng.choice([3, 4, 5, 6, 8])):
            r = rng.random()
            if r < 0.5:
                ops.append(("add", rng.choice(ids), rng.choice(CONTENTS)))
            elif r < 0.65:
                ops.append(("remove", rng.choice(ids)))
            elif r < 0.9:
                ops.append(("validate",))
            elif r < 0.95:
                ops.append(("addfile", rng.choice(ids + ["sub/../i0", "sub/../sub/../i1"]), "ok", rng.choice(CONTENTS + [BOM_FILE])))
            else:
                ops.append(("addfile", rng.choice(ids), "bad", b"\xff\xfe"))
        cases.append({"name": f"sp{i}", "ops": ops})
    # from every reachable abstract state: prefix that builds the state, then every op (length up to 4 in total)
    n = 400 if tier == "quick" else 6000
    for i in range(n):
        L = rng.choice([3, 4, 4, 6, 10, 20, 40])
        fs = gen.gen_project(rng)
        texts = [t for _, t in gen.render_project(fs, rng)] + CONTENTS
        pids = ["f%d" % j for j in range(rng.randint(2, 6))]
        ops = []
        for _ in range(L):
            r = rng.random()
            if r < 0.45:
                ops.append(("add", rng.choice(pids), rng.choice(texts)))
            elif r < 0.62:
                ops.append(("remove", rng.choice(pids + ["absent"])))
            elif r < 0.8:
                ops.append(("validate",))
            elif r < 0.9:
                ops.append(("addfile", rng.choice(pids), "ok", rng.choice(texts)))
            elif r < 0.95:
                ops.append(("addfile", rng.choice(pids), "missing"))
            else:
                ops.append(("addfile", rng.choice(pids), "bad", b"\xc3\x28 package p;"))
        cases.append({"name": f"r{i}", "ops": ops})
    return cases


# ------------------------------------------------------------------ C13
def gen_C13(rng, tier):
    """pairs <k>_base / <k>_pN: the same target file `t` in two projects that agree on the facts t imports"""
    cases = []
    # the target forward-declares (with a package path) or merely names what an unrelated file defines; it imports nothing
    fx = [("package p; parcelable q.Foo; interface I { void f(in Foo a, in q.Foo b, in List<Foo> c); }", "package q; parcelable Foo {}"),
          ("package p; parcelable q.Foo; parcelable P { Foo a; q.Foo b; }", "package q; enum Foo { A }"),
          ("package p; parcelable Foo; interface I { void f(in Foo a); }", "package p; interface Foo {}"),
          ("package p; import ext.model.Blob; interface I { void f(Blob b); }", "package app.util; parcelable ext.model.Blob; interface IOther { void g(); }")]
    for j, (t, other) in enumerate(fx):
        cases.append(nm(f"fx{j}_base", [("t", t)]))
        cases.append(nm(f"fx{j}_p0", [("t", t), ("o", other)]))
    n = 250 if tier == "quick" else 3000
    for i in range(n):
        fs = gen.gen_project(rng)
        if not fs:
            continue
        files = gen.render_project(fs, rng)
        tgt_doc = fs[0][1]
        tgt = files[0]
        others = list(zip(fs[1:], files[1:]))
        imported = set(tgt_doc["imports"])
        base = [("t", tgt[1])] + [(fid, t) for (_, (fid, t)) in zip(fs[1:], files[1:])]
        cases.append(nm(f"c{i}_base", base))
        # p0: add an unrelated file
        extra = gen.gen_doc(rng, "zz.unrelated", "Zz" + str(i), None)
        cases.append(nm(f"c{i}_p0", base + [("zz", gen.render(gen.tokens(extra), rng, "space")[0])]))
        # p1: remove a file that t does not import (and that does not share a key with an imported one)
        keep = []
        removed = False
        for (fid, d), (_, text) in others:
            key = d["package"] + "." + d["name"]
            if not removed and key not in imported:
                removed = True
                continue
            keep.append((fid, text))
        cases.append(nm(f"c{i}_p1", [("t", tgt[1])] + keep))
        # p2: rewrite body / imports / docs of every other file keeping package, name and kind
        rew = []
        for (fid, d), (_, text) in others:
            d2 = gen.gen_doc(rng, d["package"], d["name"], d["kind"], None, [rng.choice(["x.Y", "p.Foo"])] if rng.random() < 0.5 else [])
            rew.append((fid, gen.render(gen.tokens(d2), rng, rng.choice(["space", "wild"]))[0]))
        cases.append(nm(f"c{i}_p2", [("t", tgt[1])] + rew))
        # p3: a malformed member (recovered syntax error) inside the body of every other file: same key, same kind, still a tree
        bad = []
        for (fid, d), (_, text) in others:
            junk = "= 3, " if d["kind"] == "enum" else "int ; "
            bad.append((fid, text.replace("{", "{ " + junk, 1)))
        cases.append(nm(f"c{i}_p3", [("t", tgt[1])] + bad))
        # control: change the kind of an imported file (result MAY change; only counted)
        ctl = []
        for (fid, d), (_, text) in others:
            key = d["package"] + "." + d["name"]
            if key in imported:
                kinds = [k for k in ["interface", "parcelable", "enum"] if k != d["kind"]]
                d2 = gen.gen_doc(rng, d["package"], d["name"], rng.choice(kinds))
                ctl.append((fid, gen.render(gen.tokens(d2), rng, "space")[0]))
            else:
                ctl.append((fid, text))
        cases.append(nm(f"c{i}_ctl", [("t", tgt[1])] + ctl))
    return cases


def post_C13(cases, xs):
    """compare the digest of file `t` between <k>_base and <k>_pN"""
    h = {}
    for name, chk, verdict, detail in xs:
        if chk == "hash:t":
            h[name] = detail
    findings = []
    stats = {"pairs": 0, "control_changed": 0, "controls": 0, "histories": 0}
    # the same contents reached through a history (other kinds first, imported files removed again): same results
    allh = {}
    for name, chk, verdict, detail in xs:
        if chk.startswith("hash:"):
            allh.setdefault(name, {})[chk] = detail
    for name, d in allh.items():
        if name.endswith("_h") and name[:-2] in allh:
            stats["histories"] += 1
            if allh[name[:-2]] != d:
                findings.append({"case": name, "kind": "impl", "check": "perturb", "partner": name[:-2],
                                 "detail": "results differ between the project built fresh and the same contents reached through a history"})
    for name, v in h.items():
        if name.endswith("_base"):
            k = name[:-5]
            for suffix in ("_p0", "_p1", "_p2", "_p3"):
                o = h.get(k + suffix)
                if o is None:
                    continue
                stats["pairs"] += 1
                if o != v:
                    findings.append({"case": k + suffix, "kind": "impl", "check": "perturb", "partner": name,
                                     "detail": f"result of file t differs between {name} and {k + suffix}"})
            o = h.get(k + "_ctl")
            if o is not None:
                stats["controls"] += 1
                if o != v:
                    stats["control_changed"] += 1
    return findings, stats


# ------------------------------------------------------------------ syntax-level generators (C20, later C01-C04, C14)
VOCAB = ["package", "import", "interface", "parcelable", "enum", "oneway", "const", "in", "out", "inout", "void", "int",
         "String", "CharSequence", "List", "Map", "true", "false", "Foo", "x", "p.q", "@A", "7", "1.5", '"s"',
         ";", ",", "{", "}", "(", ")", "[", "]", "<", ">", "=", ".", "-", "class", "do", "double", "#", "é",
         "PACKAGE", "INTERFACE", "INTEGER", "BOOLEAN", "IDENT", "FLOAT"]


def mutate_tokens(rng, toks):
    """toks: list of strings; 1-3 random token-level edits"""
    toks = list(toks)
    for _ in range(rng.choice([1, 1, 2, 3])):
        if not toks:
            break
        r = rng.random()
        i = rng.randrange(len(toks))
        if r < 0.3:
            toks.insert(i, rng.choice(VOCAB))
        elif r < 0.55:
            del toks[i]
        elif r < 0.85:
            toks[i] = rng.choice(VOCAB)
        else:
            j = rng.randrange(len(toks))
            toks[i], toks[j] = toks[j], toks[i]
    return toks


def join_tokens(toks, rng=None, style="space"):
    return gen.render([gen.Tok(t) for t in toks], rng, style)[0]


def gen_C20(rng, tier):
    cases = []
    n = 120 if tier == "quick" else 1500
    k = 0
    fixed = ["", "package", "package p", "package p;", "package p; interface", "package p; interface I {", "package p; interface I { x }",
             "package p; interface I { void f( }", "package p; enum E { A = }", "package p; parcelable P { int ; }",
             "package p; interface I {} interface J {}", "interface I {}", "package p; import q; interface I {}",
             "package p; interface I { void f() = -1; }", "package p; parcelable P { int x = 1. ; }",
             "package p; @Ann(key = 1 ; interface I {}", "package p; @Ann(key = 1", "package p; interface I { @A(k=true x) void f(); }",
             "PACKAGE a.b;", "package p; oneway INTERFACE I {}", "package p; interface I { void f() = INTEGER; }",
             "package p; @Ann(k = BOOLEAN) interface I {}"]
    # long offending tokens with multi-byte text (string literals, floats in Unicode digits), recovered and not recovered
    for ch in ["\u00e9", "\u6f22", "\U0001F600", "x"]:
        for ln in (20, 70, 79, 90, 140):
            lit = '"' + ch * ln + '"'
            fixed += [f"package p; interface I {{ void f() {lit}; void g(); }}", f"package p; parcelable P {{ int x {lit} y; }}",
                      f"package p; {lit} interface I {{}}", f"package p; enum E {{ A {lit}, B }}"]
    for ln in (30, 85):
        num = "\u0663" * ln + ".\u0665"
        fixed += [f"package p; interface I {{ void f() {num}; }}", f"package p; interface I {{ const int K = 1 {num}; }}"]
    for t in fixed:
        cases.append(nm(f"fixed{k}", [("f", t)]))
        k += 1
    for i in range(n):
        d = gen.gen_doc(rng)
        toks = [t.text for t in gen.tokens(d)]
        cuts = sorted(set(rng.randrange(len(toks) + 1) for _ in range(6)))
        for c in cuts:
            tail = rng.choice([[], [], [rng.choice(VOCAB)], [rng.choice(VOCAB), rng.choice(VOCAB)]])
            text = join_tokens(toks[:c] + tail, rng, rng.choice(["space", "space", "wild"]))
            cases.append(nm(f"p{k}", [("f", text)]))
            k += 1
        for _ in range(3):
            text = join_tokens(mutate_tokens(rng, toks), rng, "space")
            cases.append(nm(f"m{k}", [("f", text)]))
            k += 1
    return cases


# ------------------------------------------------------------------ C01-C04: arbitrary and malformed text
SOUP_CHARS = list("abcxyzIPE019_ \t\n\r;,{}()[]<>=.-+@\"/*#$%&'\\:?|~^`!") + \
    ["\u00e9", "\u00df", "\u65e5", "\U0001f600", "\u0085", "\u00a0", "\u1680", "\u2003", "\u2028", "\u2029", "\u3000", "\x0b", "\x0c", "\x00",
     "\u0661", "\uff12", "\u0301", "\u200d", "\ufeff"]
INJECT = ["\u00e9", "\u65e5\u672c", "\U0001f600", "\u3000", "\u00a0", "\u2003", "\u0085", "\r\n", "\t", "\u2028", "\u0301", "Gr\u00f6\u00dfe", "\U0001f468\u200d\U0001f469\u200d\U0001f466"]


def char_soup(rng, n):
    return "".join(rng.choice(SOUP_CHARS) for _ in range(n))


def token_soup(rng, n):
    return " ".join(rng.choice(VOCAB) for _ in range(n))


def inject_unicode(rng, text):
    """insert multi-byte characters / unicode whitespace at token gaps, inside comments, docs and strings"""
    out = []
    i = 0
    n = len(text)
    while i < n:
        c = text[i]
        out.append(c)
        if c in " \n\t" and rng.random() < 0.15:
            out.append(rng.choice(["\u3000", "\u00a0", "\u2003", "\u0085", "\u2028", "\r\n"]))
        elif c == '"' and rng.random() < 0.5:
            out.append(rng.choice(INJECT[:3]))
        elif text.startswith("/*", i) and rng.random() < 0.7:
            out.append("*" if text.startswith("/**", i) else "")
        elif c == "*" and i > 0 and text[i - 1] in "/*" and rng.random() < 0.5:
            out.append(rng.choice(INJECT))
        i += 1
    return "".join(out)


def gen_malformed(rng, tier, n_quick=1500, n_thorough=20000):
    """single-file cases: soups, mutated documents, unicode injection, truncations"""
    cases = []
    fixed = ["", " ", "\n", "package", "/**é*/", "package p; /**é*/ interface I {}", "package p; /** Größe der Sache */ interface I {}",
             "package p; interface I { void f() =　9999999999; }", "package p; interface I { void f() =9999999999; }",
             "package p; interface I { void f() = /* c */ 99999999999999999999; }",
             "package p; interface I　{\u0085}", "package p; interface I { void f(); ", "\"", "/*", "/**", "/** */", "//",
             "package p; parcelable P { String s = \"é\n\"; }", "package p; interface I { /**/ void f(); /***/ void g(); /** */ void h(); }",
             "package p; enum E { A = \"x\", /** d */ B, }", "package p; interface I { void f(in  int x); }",
             "package ١; interface I {}", "package p; parcelable P { int x = ١٢; }", "﻿package p; interface I {}",
             "package p; interface I { void f() = 1 }", "package p; interface I { const int X = ; void g(); }",
             "package p; interface I {} }", "package p; interface I {} interface J {}", "package p; @ interface I {}",
             "package p; interface I { @A(x=1,) void f(@B int a, @C() in String b,); }",
             "package p; interface I { void f(); } // trailing", "package p; interface I { void f(); } /* unterminated"]
    for i, t in enumerate(fixed):
        cases.append(nm(f"fixed{i}", [("f", t)]))
    n = n_quick if tier == "quick" else n_thorough
    for i in range(n):
        r = rng.random()
        if r < 0.15:
            t = char_soup(rng, rng.choice([1, 3, 10, 40, 200]))
        elif r < 0.3:
            t = token_soup(rng, rng.choice([1, 3, 8, 30]))
        else:
            d = gen.gen_doc(rng, opts={"pdoc": 0.4})
            toks = [x.text for x in gen.tokens(d)]
            r2 = rng.random()
            if r2 < 0.35:
                toks = mutate_tokens(rng, toks)
            t = join_tokens(toks, rng, rng.choice(["space", "min", "wild"]))
            if r2 > 0.65:
                t = inject_unicode(rng, t)
            if rng.random() < 0.15:
                cut = rng.randrange(len(t) + 1)
                t = t[:cut]
            if rng.random() < 0.1:
                k = rng.randrange(len(t) + 1)
                t = t[:k] + rng.choice(SOUP_CHARS) + t[k:]
        cases.append(nm(f"m{i}", [("f", t)]))
    return cases


# ------------------------------------------------------------------ documents that carry their abstract form
def doc_case(name, d, style, rseed, wf=True):
    text, _ = gen.render(gen.tokens(d), random.Random(rseed), style)
    return {"name": name, "files": [("f", text)], "doc": d, "style": style, "rseed": rseed, "wf": wf}


def rerender(case, d):
    c = doc_case(case["name"], d, case["style"], case["rseed"], case.get("wf"))
    return c


def gen_wellformed(rng, tier, n_quick=500, n_thorough=8000, pdoc=0.2, styles=("min", "space", "wild", "safe")):
    """every document rendered in several layouts"""
    cases = []
    n = n_quick if tier == "quick" else n_thorough
    for i in range(n):
        d = gen.gen_doc(rng, opts={"pdoc": pdoc})
        for st in styles:
            cases.append(doc_case(f"d{i}_{st}", d, st, rng.randrange(1 << 30)))
    return cases


# known-malformed families (C03): keyword / reserved word as a name, no package, several items, trailing text
def gen_known_malformed(rng, n):
    cases = []
    kw = sorted(set(gen.KEYWORDS + gen.RESERVED))
    for i in range(n):
        d = gen.gen_doc(rng, opts={"pdoc": 0.0, "nmembers": rng.choice([1, 2, 3])})
        toks = [t.text for t in gen.tokens(d)]
        fam = rng.choice(["kwname", "nopackage", "twoitems", "trailing", "kwmember", "kwpackage", "uniident", "uniident", "dotvalue", "bracevalue"])
        if fam == "kwname":
            k = toks.index("{") - 1
            toks[k] = rng.choice(kw)
        elif fam == "nopackage":
            toks = toks[toks.index(";") + 1:]
        elif fam == "twoitems":
            toks = toks + ["interface", "Second", "{", "}"]
        elif fam == "trailing":
            toks = toks + [rng.choice(["x", ";", "}", "1", "@A", "package"])]
        elif fam == "kwpackage":
            toks[1] = rng.choice(kw)
        elif fam == "dotvalue":
            # a value must be a literal, a brace list or exactly Name.MEMBER: longer dotted paths, a trailing or doubled dot are not values
            k = toks.index("{")
            bad = rng.choice([["a", ".", "b", ".", "C"], ["pkg", ".", "E", ".", "X", ".", "Y"], ["E", "."], ["E", ".", ".", "X"], [".", "X"]])
            toks = toks[:k + 1] + ["const", "int", "BADV", "="] + bad + [";"] + toks[k + 1:]
            if "enum" in toks[:k]:
                continue
        elif fam == "bracevalue":
            # `{ v+ (, v)* ,? }`: once a comma has been used every further element needs one; `{,}`, `{1,,2}`, a leading comma are no lists
            k = toks.index("{")
            bad = rng.choice([["{", "1", ",", "2", "3", "}"], ["{", "1", ",", "2", ",", "3", "4", "}"], ["{", '"a"', ",", '"b"', '"c"', "}"],
                              ["{", "{", "1", ",", "2", "3", "}", "}"], ["{", ",", "}"], ["{", "1", ",", ",", "2", "}"], ["{", ",", "1", "}"]])
            if "enum" in toks[:k]:
                continue
            toks = toks[:k + 1] + ["const", "int", "BADV", "="] + bad + [";"] + toks[k + 1:]
        elif fam == "uniident":
            # a letter, digit or mark outside ASCII glued to an identifier (item, member, argument, type, package segment ...):
            # identifiers are ASCII, so the document is lexically malformed
            idx = [j for j, t in enumerate(toks) if re.fullmatch(r"[A-Za-z_][A-Za-z0-9_]*", t) and t not in kw
                   and t not in ("String", "List", "Map", "CharSequence", "true", "false")]
            if not idx:
                continue
            j = rng.choice(idx)
            ch = rng.choice(["é", "ß", "λ", "日", "١", "７", "ı", "а", "\u0301", "ǅ"])
            pos = rng.randrange(1, len(toks[j]) + 1)
            toks[j] = toks[j][:pos] + ch + toks[j][pos:]
        else:
            # a keyword where a member name is expected
            # (not a value: `= true ;`, `= Foo.BAR ;` are followed by `;` too, and replacing a value by `false` is well-formed)
            idx = [j for j, t in enumerate(toks) if j > toks.index("{") and j + 1 < len(toks) and toks[j + 1] in ("(", ";", "=")
                   and toks[j - 1] not in ("=", ".") and re.fullmatch(r"[A-Za-z_]\w*", t)]
            if not idx:
                continue
            toks[rng.choice(idx)] = rng.choice(kw)
        text = join_tokens(toks, rng, rng.choice(["space", "min", "wild"]))
        cases.append({"name": f"k{i}_{fam}", "files": [("f", text)], "wf": False, "note": fam})
    return cases


# ------------------------------------------------------------------ C14: one malformed member
GARBAGE = [t for t in VOCAB if t not in (";", "{", "}", "#", "é")]


def known_C14_shape(case):
    """the recorded class (known_findings.txt): an enum body whose malformed member opens an annotation parenthesis and never closes
    it -- `@X ( B ,` -- so that the member's own terminator, the comma, is read as an annotation-parameter separator"""
    g = case.get("garbage") or []
    if not case.get("enum"):
        return False
    for i in range(len(g) - 1):
        if g[i].startswith("@") and g[i + 1] == "(" and ")" not in g[i + 2:]:
            return True
    return False


def c14_case(name, head_text, groups_text, k, garbage, enum, rng, style="space"):
    """a C14 case from token texts: groups_text = the good members (each with its terminator), garbage = the malformed member"""
    term = "," if enum else ";"
    head = [gen.Tok(t) for t in head_text]
    groups = [[gen.Tok(t) for t in g] for g in groups_text]
    bad = [gen.Tok(t) for t in garbage] + [gen.Tok(term)]
    a_toks = head + [t for g in groups[:k] for t in g] + bad + [t for g in groups[k:] for t in g] + [gen.Tok("}")]
    b_toks = head + [t for g in groups for t in g] + [gen.Tok("}")]
    seed = rng.randrange(1 << 30)
    ta, spans = gen.render(a_toks, random.Random(seed), style)
    tb, _ = gen.render(b_toks, random.Random(seed), "space")
    g0 = len(head) + sum(len(g) for g in groups[:k])
    extent = (spans[g0][0], spans[g0 + len(bad) - 1][1])
    return {"name": name, "files": [("a", ta), ("b", tb)], "extent": extent, "k": k, "garbage": list(garbage), "enum": enum,
            "nmembers": len(groups), "note": " ".join(garbage) + " " + term}


def gen_C14(rng, tier):
    cases = []
    # the recorded finding and its neighbours first (the neighbours must NOT fail: a closed parenthesis, the same garbage in an
    # interface, an annotation without parenthesis)
    eh = ["package", "p", ";", "enum", "E", "{"]
    eg = [["A", ","], ["C", ","], ["D", ","]]
    cases.append(c14_case("kf_enum_open_paren", eh, eg, 1, ["@X", "(", "B"], True, rng))
    cases.append(c14_case("kf_enum_open_paren_kv", eh, eg, 1, ["@X", "(", "B", "=", "1"], True, rng))
    cases.append(c14_case("kf_enum_open_paren_first", eh, eg, 0, ["@X", "("], True, rng))
    cases.append(c14_case("nb_enum_closed_paren", eh, eg, 1, ["@X", "(", "B", ")", "=", "="], True, rng))
    cases.append(c14_case("nb_enum_no_paren", eh, eg, 1, ["@X", "="], True, rng))
    # one member, very many errors: every second identifier restarts a member and is recovered again
    long_ids = [w for j in range(30) for w in ("a%d" % j, "b%d" % j)]
    cases.append(c14_case("long_member_iface", ["package", "p", ";", "interface", "I", "{"],
                          [["void", "a", "(", ")", ";"], ["void", "c", "(", ")", ";"]], 1, long_ids, False, rng))
    cases.append(c14_case("long_member_parc", ["package", "p", ";", "parcelable", "P", "{"],
                          [["int", "a", ";"], ["int", "c", ";"]], 1, long_ids + ["x"], False, rng))
    ih = ["package", "p", ";", "interface", "I", "{"]
    ig = [["void", "a", "(", ")", ";"], ["void", "c", "(", ")", ";"], ["void", "d", "(", ")", ";"]]
    cases.append(c14_case("nb_iface_open_paren", ih, ig, 1, ["@X", "(", "B"], False, rng))
    n = 500 if tier == "quick" else 8000
    i = 0
    while len(cases) < n:
        i += 1
        d = gen.gen_doc(rng, opts={"pdoc": 0.15, "nmembers": rng.choice([1, 2, 3, 4, 5])})
        toks = gen.tokens(d)
        texts = [t.text for t in toks]
        ob = texts.index("{", texts.index(d["name"]))
        head = toks[:ob + 1]
        enum = d["kind"] == "enum"
        term = "," if enum else ";"
        groups = []
        for m in d["members"]:
            g = gen.member_tokens(m)
            groups.append(g + ([gen.Tok(",")] if enum else []))
        k = rng.randrange(len(groups) + 1)          # position of the malformed member among the good ones
        pool = [t for t in GARBAGE if not (enum and t == ",")]
        if rng.random() < 0.25:
            # exhaustive-ish short garbage
            garbage = [rng.choice(pool) for _ in range(rng.choice([1, 2, 3]))]
        else:
            garbage = [rng.choice(pool) for _ in range(rng.choice([1, 2, 4, 6, 9]))]
        if rng.random() < 0.06:
            garbage = garbage[:rng.randrange(len(garbage) + 1)] + ["@Ann", "("] + [rng.choice(pool) for _ in range(rng.choice([0, 1, 3]))]
        bad = [gen.Tok(t) for t in garbage] + [gen.Tok(term)]
        a_toks = head + [t for g in groups[:k] for t in g] + bad + [t for g in groups[k:] for t in g] + [gen.Tok("}")]
        b_toks = head + [t for g in groups for t in g] + [gen.Tok("}")]
        style = rng.choice(["space", "space", "safe"])
        seed = rng.randrange(1 << 30)
        ta, spans = gen.render(a_toks, random.Random(seed), style)
        tb, _ = gen.render(b_toks, random.Random(seed), "space")
        g0 = len(head) + sum(len(g) for g in groups[:k])
        extent = (spans[g0][0], spans[g0 + len(bad) - 1][1])
        cases.append({"name": f"g{i}", "files": [("a", ta), ("b", tb)], "extent": extent, "k": k, "garbage": garbage, "enum": enum,
                      "nmembers": len(groups), "note": " ".join(garbage) + " " + term})
    return cases


# ------------------------------------------------------------------ C01: sets of files, large and deep inputs
def gen_C01(rng, tier):
    cases = gen_malformed(rng, tier, 1200, 20000)
    # sets of up to 6 files, some malformed
    n = 200 if tier == "quick" else 3000
    for i in range(n):
        fs = gen.gen_project(rng)
        files = gen.render_project(fs, rng)
        for k in range(len(files)):
            if rng.random() < 0.3:
                fid, t = files[k]
                files[k] = (fid, inject_unicode(rng, t) if rng.random() < 0.5 else join_tokens(mutate_tokens(rng, t.split()), rng, "space"))
        cases.append(nm(f"s{i}", files))
    # deep generic nesting and large inputs
    for depth in ([8, 32, 64] if tier == "quick" else [8, 16, 32, 48, 64]):
        t = "String"
        for k in range(depth):
            t = rng.choice([f"List<{t}>", f"Map<String,{t}>", f"{t}[]"])
        cases.append(nm(f"deep{depth}", [("f", f"package p; parcelable P {{ {t} x; }}")]))
    sizes = [4000, 20000] if tier == "quick" else [4000, 20000, 65536]
    for sz in sizes:
        parts = ["package p; interface I {"]
        k = 0
        while sum(len(x) for x in parts) < sz:
            parts.append(f"/** doc {k} é */ void m{k}(in int a{k}, out List<String> b) = {k};")
            k += 1
        parts.append("}")
        cases.append(dict(nm(f"big{sz}", [("f", "\n".join(parts))]), nomodel=sz > 6000))
        cases.append(dict(nm(f"bigsoup{sz}", [("f", char_soup(rng, sz // 4))]), nomodel=sz > 6000))
    # histories: one result per id currently in the parser, after adds, replacements, removals (also of files that have no
    # tree) and validations in between; compared with a fresh parser after every step
    no_tree = ["", "garbage", "package p;", "package p; interface {", "interface I {}", "package p; interface I { void f(; }"]
    for i in range(250 if tier == "quick" else 4000):
        fs = gen.gen_project(rng)
        texts = [t for _, t in gen.render_project(fs, rng)] + no_tree
        pids = ["f%d" % j for j in range(rng.randint(2, 5))]
        ops = []
        for _ in range(rng.choice([3, 4, 6, 10])):
            r = rng.random()
            if r < 0.45:
                ops.append(("add", rng.choice(pids), rng.choice(texts if rng.random() < 0.6 else no_tree)))
            elif r < 0.7:
                ops.append(("remove", rng.choice(pids)))
            else:
                ops.append(("validate",))
        ops.append(("validate",))
        cases.append({"name": f"h{i}", "ops": ops})
    return cases


def gen_C02(rng, tier):
    return gen_wellformed(rng, tier, 350, 6000, pdoc=0.2)


def gen_C03(rng, tier):
    cases = gen_wellformed(rng, tier, 120, 2000, pdoc=0.1, styles=("min", "wild"))
    cases += gen_known_malformed(rng, 500 if tier == "quick" else 8000)
    m = gen_malformed(rng, tier, 800, 12000)
    for c in m:
        c["wf"] = None
    cases += m
    # lexical corner cases
    lex = ["package p; interface doubles { void f(); }", "package p; interface I { void inout2(in int in_); }",
           "package p; interface I { void f(Listing x, int_ y, Maps z); }", "package p; parcelable P { int x = 1.; }",
           "package p; parcelable P { String s = \"unterminated; }", "package p; /* unterminated", "package p; interface I { void f() = -1; }",
           "package p; interface I { void do(); }", "package p; interface I { void f(int double); }", "package p.class; interface I {}",
           "package p; import a.new.B; interface I {}", "package p; enum E { true }", "package p; interface I { @in void f(); }",
           "package p; interface I { void f(@A(for=1) int x); }", "package p; parcelable P { if.x y; }"]
    for i, t in enumerate(lex):
        cases.append({"name": f"lex{i}", "files": [("f", t)], "wf": True if (i < 3 or "@in" in t) else False})
    return cases


def gen_C04(rng, tier):
    cases = gen_wellformed(rng, tier, 250, 4000, pdoc=0.2)
    for c in list(cases):
        if c["style"] in ("space", "safe") and rng.random() < 0.5:
            c2 = dict(c, name=c["name"] + "_u")
            c2["files"] = [("f", inject_unicode(rng, c["files"][0][1]))]
            c2["doc"] = None
            cases.append(c2)
    m = gen_malformed(rng, tier, 600, 10000)
    cases += m
    return cases


def gen_C18(rng, tier):
    """documents with doc comments in the arrangements of the property's quantifier, safe layouts"""
    cases = []
    n = 400 if tier == "quick" else 6000
    for i in range(n):
        d = gen.gen_doc(rng, opts={"pdoc": 0.6})
        cases.append(doc_case(f"d{i}", d, rng.choice(["safe", "safe", "space", "min"]), rng.randrange(1 << 30)))
    # explicit arrangements around one member
    docs = [" simple ", "\n * two\n * lines\n ", "\r\n * para one\r\n *\r\n * para two\r\n * @param x the é\r\n ", " 日本語 \U0001f600 "]
    exp = ["simple", "two lines", "para one\npara two\n@param x the é", "日本語 \U0001f600"]
    arrangements = [
        ("none", "{C}", None), ("ordinary", "/* plain */ {C}", None), ("line", "// plain\n{C}", None),
        ("doc", "/**{D}*/ {C}", 0), ("doc_then_ordinary", "/**{D}*/ /* plain */ // more\n {C}", 0),
        ("two_docs", "/** first */ /**{D}*/ {C}", 0), ("doc_annot", "/**{D}*/ @A @B(x=1) {C}", 0),
        ("prev_member", "/**{D}*/ void prev(); {C}", None), ("doc_crlf", "/**{D}*/\r\n\r\n\t{C}", 0),
    ]
    k = 0
    for name, tmpl, has in arrangements:
        for j, dtext in enumerate(docs):
            body = tmpl.replace("{D}", dtext).replace("{C}", "void target();")
            cases.append({"name": f"arr{k}", "files": [("f", "package p; interface I { void first(); " + body + " void last(); }")],
                          "expect_doc": ("target", exp[j] if has is not None else None), "note": name})
            k += 1
    return cases


# ------------------------------------------------------------------ the same projects, reached through a history
ITEM_RE = re.compile(r"\b(interface|parcelable|enum)\s+([A-Za-z_][A-Za-z0-9_]*)")
PKG_RE = re.compile(r"\bpackage\s+([A-Za-z_][A-Za-z0-9_.]*)\s*;")
IMPORT_RE = re.compile(r"\bimport\s+([A-Za-z_][A-Za-z0-9_.]*)\s*;")


def historize(files, rng):
    """operations that end with exactly these contents but pass through other states first: items that later change
    kind (same id, same key), files defining an imported key that are removed again, validations in between.
    The last step is either a removal or a replacement, with nothing after it but the final validate()."""
    final, order = {}, []
    for fid, t in files:
        if fid not in final:
            order.append(fid)
        final[fid] = t
    keys = set()
    for t in final.values():
        m, pk = ITEM_RE.search(t), PKG_RE.search(t)
        if m and pk:
            keys.add(pk.group(1) + "." + m.group(2))
    ops = []
    variant = rng.choice(["replace", "remove", "mix"])
    replaced = []
    for fid in order:
        t = final[fid]
        m, pk = ITEM_RE.search(t), PKG_RE.search(t)
        r = rng.random()
        if m and pk and variant != "remove" and r < 0.7:
            other = rng.choice([k for k in ("interface", "parcelable", "enum") if k != m.group(1)])
            ops.append(("add", fid, f"package {pk.group(1)}; {other} {m.group(2)} {{}}"))
            replaced.append(fid)
        elif r < 0.85:
            ops.append(("add", fid, t))
    extras = []
    if variant != "replace":
        for fid in order:
            for q in IMPORT_RE.findall(final[fid]):
                if q not in keys and "." in q and rng.random() < 0.8:
                    pkg, name = q.rsplit(".", 1)
                    xid = f"x{len(extras)}"
                    extras.append(xid)
                    keys.add(q)
                    ops.append(("add", xid, f"package {pkg}; {rng.choice(['interface', 'parcelable', 'enum'])} {name} {{}}"))
    rest = [fid for fid in order if fid not in replaced]
    rng.shuffle(rest)
    for fid in rest:
        ops.append(("add", fid, final[fid]))
    ops.append(("validate",))
    if variant == "mix":
        for xid in extras:
            ops.append(("remove", xid))
        extras = []
        ops.append(("validate",))
    for fid in replaced:
        ops.append(("add", fid, final[fid]))
    if extras:
        ops.append(("validate",))
        for xid in extras:
            ops.append(("remove", xid))
    return ops


def with_histories(gen_fn, every=3):
    """also run every n-th multi-purpose case as a history that ends in the same project"""
    def g(rng, tier):
        cases = gen_fn(rng, tier)
        hrng = random.Random(rng.randrange(1 << 30))
        extra = []
        for i, c in enumerate(cases):
            if i % every == 0 and c.get("files") and not c.get("ops"):
                fids = [f for f, _ in c["files"]]
                if len(set(fids)) != len(fids):
                    continue
                h = dict(c, name=c["name"] + "_h", ops=historize(c["files"], hrng))
                extra.append(h)
        return cases + extra
    g.rule_suffix = (f"; one case in {every} also runs as a history that ends in the same contents (items first added under the same id and "
                     "key with another kind, files defining an imported key added and removed again, validate() in between; the last step "
                     "before the final validate() is a replacement or a removal)")
    return g


# ------------------------------------------------------------------ C17: what the qualified names should be, read off the text
def gen_C16(rng, tier):
    cases = gen_projects(rng, tier, 250, 4000)
    # columns beyond 2^16 (a minified file, or a very long comment before the code on the same line): the harness probes a sparse
    # set of positions plus every position inside a symbol's name
    pad = "x" * 66000
    cases.append(nm("longline1", [("f", "package a.b; /* " + pad + " */ interface IFoo { void bar(in int q); const int K = 1; }")]))
    cases.append(nm("longline2", [("f", "package a.b;\n/* " + pad + " */ interface IFoo {\n    void bar(in int q);\n}\n")]))
    cases.append(nm("longline3", [("f", "package a.b;\n// " + pad + "\ninterface IFoo { void bar(in int q); /* " + pad + " */ int baz(); }\n")]))
    return cases


def expected_names(text):
    """(dotted package name, package.Name) by a reading of the text that is independent of the library: comments out,
    the package clause with all white space removed, the name after the item keyword"""
    t = re.sub(r"/\*.*?\*/", " ", text, flags=re.S)
    t = re.sub(r"//[^\n\r]*", " ", t)
    m = re.search(r"\bpackage\b(.*?);", t, flags=re.S)
    it = re.search(r"\b(?:interface|parcelable|enum)\s+([A-Za-z_][A-Za-z0-9_]*)\s*\{", t)
    if not m or not it:
        return None
    pkg = re.sub(r"\s+", "", m.group(1))
    if not re.fullmatch(r"[A-Za-z_][A-Za-z0-9_]*(\.[A-Za-z_][A-Za-z0-9_]*)*", pkg):
        return None
    return pkg, pkg + "." + it.group(1)


def post_C17(cases, xs):
    byname = {c["name"]: c for c in cases}
    findings, n = [], 0
    for name, chk, verdict, detail in xs:
        kind, _, fid = chk.partition(":")
        if kind not in ("itemq", "pkgq") or name not in byname:
            continue
        texts = [t for f, t in byname[name].get("files", []) if f == fid]
        if not texts:
            continue
        exp = expected_names(texts[-1])
        if exp is None:
            continue
        n += 1
        got = bytes.fromhex(detail).decode("utf-8", errors="replace")
        want = exp[0] if kind == "pkgq" else exp[1]
        if got != want:
            findings.append({"case": name, "kind": "spec", "check": kind,
                             "detail": f"file {fid}: the {'package' if kind == 'pkgq' else 'item'} symbol's qualified name is {got!r}, the text says {want!r}"})
    return findings, {"qualified_names_compared": n}


# ------------------------------------------------------------------ C02: layouts of one document lex to the same tokens
def post_C02(cases, xs):
    """the hypothesis of C02_tree_is_a_function_of_the_tokens, checked on the layout variants of every generated document:
    the (regenerated) lexer model cuts them into the same tokens"""
    import core, os, re as _re
    groups = {}
    for c in cases:
        m = _re.fullmatch(r"(d\d+)_(\w+)", c["name"])
        if m and c.get("files"):
            groups.setdefault(m.group(1), []).append(c)
    lines, names = [], {}
    for g, cs in groups.items():
        base = cs[0]
        for other in cs[1:]:
            nm = f"{base['name']}~{other['name']}"
            names[nm] = other["name"]

            def enc(t):
                return "(" + " ".join(str(ord(ch)) for ch in t) + ")"
            lines.append(f"Q {nm} ({enc(base['files'][0][1])} {enc(other['files'][0][1])})")
    if not lines:
        return [], {"layout_pairs": 0}
    os.makedirs(core.WORK, exist_ok=True)
    path = os.path.join(core.WORK, "C02.layout_pairs.out")
    with open(path, "w") as f:
        f.write("\n".join(lines) + "\n")
    res, errs = core.run_model([path], "Q", ["spec_C02_lexsim"])
    findings = [{"case": None, "kind": "runner", "check": "runner", "detail": e} for e in errs]
    for nm, v in res["spec_C02_lexsim"].items():
        if v != 0:
            findings.append({"case": names.get(nm, nm), "kind": "spec", "check": "layout_tokens",
                             "detail": f"two layouts of one document do not lex to the same token sequence ({nm})"})
    return findings, {"layout_pairs": len(lines)}
