"""Python-side oracles evaluated on the implementation's own output (decoded by lib/sx.py).
They state what the properties say, independently of the Coq model; the Coq model is compared separately."""
import re
import sx

WS = set("\t\n\x0b\x0c\r \u0085\u00a0\u1680\u2000\u2001\u2002\u2003\u2004\u2005\u2006\u2007\u2008\u2009\u200a\u2028\u2029\u202f\u205f\u3000")
KEYWORDS = {"package", "import", "interface", "parcelable", "enum", "oneway", "const", "in", "out", "inout", "void",
            "byte", "short", "int", "long", "float", "double", "boolean", "char", "String", "CharSequence", "List", "Map",
            "true", "false"}
RESERVED = {"break", "case", "catch", "char", "class", "continue", "default", "do", "double", "else", "enum", "false", "float",
            "for", "goto", "if", "int", "long", "new", "private", "protected", "public", "return", "short", "static", "switch",
            "this", "throw", "true", "try", "void", "volatile", "while"}


class Src:
    def __init__(self, text, lc):
        self.text = text
        self.b = text.encode("utf-8")
        self.lc = lc
        # byte offset -> char index for every boundary
        self.idx = {}
        off = 0
        for i, ch in enumerate(text):
            self.idx[off] = i
            off += len(ch.encode("utf-8"))
        self.idx[off] = len(text)

    def slice(self, r):
        return self.b[r.s:r.e].decode("utf-8", errors="replace")


def skip_trivia(s):
    """strip leading whitespace and comments"""
    i = 0
    n = len(s)
    while i < n:
        if s[i] in WS:
            i += 1
        elif s.startswith("//", i):
            j = i
            while j < n and s[j] not in "\n\r":
                j += 1
            i = j
        elif s.startswith("/*", i):
            j = s.find("*/", i + 2)
            if j < 0:
                break
            i = j + 2
        else:
            break
    return s[i:]


def strip_all_trivia(s):
    out = []
    while s:
        t = skip_trivia(s)
        if not t:
            break
        out.append(t[0])
        s = t[1:]
    return "".join(out)


# ------------------------------------------------------------------ collecting ranges
def type_ranges(t, acc):
    acc.append(("type.sym", t["sym"])); acc.append(("type.full", t["full"]))
    for g in t["generics"]:
        type_ranges(g, acc)


def tree_ranges(a):
    acc = [("package.sym", a["package"]["sym"]), ("package.full", a["package"]["full"])]
    for i in a["imports"] + a["declared"]:
        acc += [("import.sym", i["sym"]), ("import.full", i["full"])]
    it = a["item"]
    acc += [("item.sym", it["sym"]), ("item.full", it["full"])]
    for m in it["members"]:
        acc += [("member.sym", m["sym"]), ("member.full", m["full"])]
        if m["m"] == "method":
            acc += [("method.code_range", m["code_range"]), ("method.oneway_range", m["oneway_range"])]
            type_ranges(m["ret"], acc)
            for x in m["args"]:
                acc += [("arg.sym", x["sym"]), ("arg.full", x["full"])]
                if x["dir_range"]:
                    acc.append(("arg.dir", x["dir_range"]))
                type_ranges(x["type"], acc)
        elif m["m"] in ("const", "field"):
            type_ranges(m["type"], acc)
    return acc


# ------------------------------------------------------------------ C04: well-formedness of every range
def range_wf(src, r):
    if not (0 <= r.s <= r.e <= len(src.b)):
        return f"offsets {r.s}..{r.e} not ordered inside the file (len {len(src.b)})"
    for off, l, c in ((r.s, r.sl, r.sc), (r.e, r.el, r.ec)):
        if off not in src.idx:
            return f"offset {off} is not a character boundary"
        if src.lc[src.idx[off]] != (l, c):
            return f"line/col {(l, c)} at offset {off} differs from the lookup's {src.lc[src.idx[off]]}"
    return None


def simple_cp(ch):
    o = ord(ch)
    return (o < 0x300 and ch not in "\r\n") or 0x3040 <= o <= 0x9fff or 0xac00 <= o <= 0xd7a3 or o == 0x3000 \
        or 0x2000 <= o <= 0x200a or o in (0x1680, 0x2028, 0x2029, 0x202f, 0x205f) or 0x1f600 <= o <= 0x1f64f


def table_ok(src):
    """the lookup table itself: line = 1 + newlines before; column = 1 + clusters since the line start
    (checked where every character of the line prefix is a cluster by itself)"""
    line, col, simple = 1, 1, True
    for i, ch in enumerate(src.text):
        l, c = src.lc[i]
        if l != line:
            return f"line {l} at char {i}, expected {line}"
        if simple and c != col:
            return f"column {c} at char {i}, expected {col}"
        if ch == "\n":
            line += 1; col = 1; simple = True
        else:
            col += 1
            if not simple_cp(ch):
                simple = False
    l, c = src.lc[len(src.text)]
    if l != line or (simple and c != col):
        return f"line/col {(l, c)} at the end, expected {(line, col)}"
    return None


def check_C04_generic(p):
    src = Src(p["src"], p["lc"])
    e = table_ok(src)
    if e:
        return "lookup table: " + e
    fr = p["fr"]
    for d in fr["diags"]:
        for r in [d["range"]] + d["related"]:
            e = range_wf(src, r)
            if e:
                return f"diagnostic {d['msg'][:40]!r}: {e}"
        # a syntax diagnostic covers exactly the offending token
        if d["ctx"] in ("unrecognized token", "extra token"):
            # the message quotes the token between backticks (the token itself may contain a backtick: compare literally)
            covered = src.slice(d["range"])
            quoted = "token `" + covered + "`"
            if not ((quoted + ".") in d["msg"] or d["msg"].endswith(quoted)):
                m = re.search(r"token `(.*)`", d["msg"].split("\n")[0])
                return f"syntax diagnostic range {d['range']} covers {covered!r}, message names {m.group(1) if m else None!r}"
            if d["range"].s == d["range"].e:
                return "syntax diagnostic on a token has an empty range"
        if d["ctx"] in ("invalid token", "unrecognized EOF") and d["range"].s != d["range"].e:
            return f"{d['ctx']}: range {d['range']} is not empty"
        if d["ctx"] == "unrecognized EOF":
            rest = src.b[d["range"].s:].decode("utf-8", errors="replace")
            if skip_trivia(rest) != "":
                return f"unrecognized EOF at {d['range'].s} but text follows"
        if d["ctx"] == "invalid token":
            before = src.b[:d["range"].s].decode("utf-8", errors="replace")
    if fr["ast"]:
        for what, r in tree_ranges(fr["ast"]):
            e = range_wf(src, r)
            if e:
                return f"{what}: {e}"
    return None


# ------------------------------------------------------------------ C04: names exact, full ranges, nesting
def inside(a, b):
    return b.s <= a.s and a.e <= b.e


def check_type(src, t, path):
    k = t["kind"][0]
    txt = src.slice(t["sym"])
    if k in (0, 1, 5, 6):
        if txt != t["name"]:
            return f"{path}: name range covers {txt!r}, name is {t['name']!r}"
        if (t["full"].s, t["full"].e) != (t["sym"].s, t["sym"].e):
            return f"{path}: full range differs from the name range of a simple type"
    elif k in (7, 8, 9):
        if strip_all_trivia(txt) != t["name"] or txt[:1] in WS or txt[-1:] in WS:
            return f"{path}: name range covers {txt!r}, name is {t['name']!r}"
        if (t["full"].s, t["full"].e) != (t["sym"].s, t["sym"].e):
            return f"{path}: full range differs from the name range of a named type"
    elif k in (3, 4):
        if txt != t["name"] or t["name"] not in ("List", "Map"):
            return f"{path}: name range covers {txt!r}, expected the keyword {t['name']}"
        full = src.slice(t["full"])
        if t["generics"]:
            if not (full.startswith(t["name"]) and full.endswith(">") and t["full"].s == t["sym"].s):
                return f"{path}: full range {full!r} is not the generic type"
        elif (t["full"].s, t["full"].e) != (t["sym"].s, t["sym"].e):
            return f"{path}: raw {t['name']} full range differs from the keyword"
    elif k == 2:
        if len(t["generics"]) != 1:
            return f"{path}: array with {len(t['generics'])} element types"
        el = t["generics"][0]
        if (t["sym"].s, t["sym"].e) != (el["full"].s, el["full"].e):
            return f"{path}: array name range {t['sym']} is not its element type {el['full']}"
        if not (t["full"].s == el["full"].s and src.slice(t["full"]).endswith("]")):
            return f"{path}: array full range {src.slice(t['full'])!r}"
    if not inside(t["sym"], t["full"]):
        return f"{path}: name range outside full range"
    prev_end = None
    for i, g in enumerate(t["generics"]):
        if not inside(g["full"], t["full"]):
            return f"{path}: generic {i} outside its parent"
        if prev_end is not None and g["full"].s < prev_end:
            return f"{path}: generics overlap / out of order"
        prev_end = g["full"].e
        e = check_type(src, g, path + f"<{i}>")
        if e:
            return e
    return None


def starts_after_trivia(src, r, prefixes):
    s = skip_trivia(src.slice(r))
    return any(s.startswith(p) for p in prefixes)


def ends_at_last_token(src, r, terminators):
    """the full range runs to the construct's last token: either it includes the terminator, or the terminator is the
    next token after it (only whitespace/comments in between)"""
    full = src.slice(r).rstrip()
    if any(full.endswith(t) for t in terminators):
        return True
    rest = skip_trivia(src.b[r.e:].decode("utf-8", errors="replace"))
    return any(rest.startswith(t) for t in terminators)


def check_C04_exact(p):
    fr = p["fr"]
    a = fr["ast"]
    if not a:
        return None
    src = Src(p["src"], p["lc"])
    pk = a["package"]
    if strip_all_trivia(src.slice(pk["sym"])) != pk["name"]:
        return f"package: name range covers {src.slice(pk['sym'])!r}"
    if not src.slice(pk["full"]).startswith("package") or not inside(pk["sym"], pk["full"]):
        return f"package: full range {src.slice(pk['full'])!r}"
    prev = pk["full"].e
    for kind, lst, kw in (("import", a["imports"], "import"), ("declared parcelable", a["declared"], "parcelable")):
        for i in lst:
            q = (i["path"] + "." if i["path"] else "") + i["name"]
            if strip_all_trivia(src.slice(i["sym"])) != q:
                return f"{kind}: name range covers {src.slice(i['sym'])!r}, name is {q!r}"
            if not starts_after_trivia(src, i["full"], [kw]) or not inside(i["sym"], i["full"]):
                return f"{kind}: full range {src.slice(i['full'])!r}"
            if i["full"].s < prev:
                return f"{kind}: overlaps the previous statement"
            prev = i["full"].e
    it = a["item"]
    if src.slice(it["sym"]) != it["name"]:
        return f"item: name range covers {src.slice(it['sym'])!r}, name is {it['name']!r}"
    if not starts_after_trivia(src, it["full"], ["oneway", it["kind"]]) or not src.slice(it["full"]).endswith("}"):
        return f"item: full range does not run from the keyword to the closing brace: {src.slice(it['full'])[:40]!r}"
    if not inside(it["sym"], it["full"]) or it["full"].s < prev:
        return "item: ranges not nested / overlapping the header"
    prev = it["sym"].e
    for mi, m in enumerate(it["members"]):
        path = f"member {mi} ({m['name']})"
        if src.slice(m["sym"]) != m["name"]:
            return f"{path}: name range covers {src.slice(m['sym'])!r}"
        if not inside(m["sym"], m["full"]) or not inside(m["full"], it["full"]):
            return f"{path}: ranges not nested"
        if m["full"].s < prev:
            return f"{path}: overlaps the previous sibling"
        prev = m["full"].e
        full = src.slice(m["full"])
        if m["m"] == "method":
            e = check_type(src, m["ret"], path + " return type")
            if e:
                return e
            if not inside(m["ret"]["full"], m["full"]) or m["ret"]["full"].e > m["sym"].s:
                return f"{path}: return type not before the name inside the method"
            if not starts_after_trivia(src, m["full"], ["oneway", src.slice(m["ret"]["full"])]):
                return f"{path}: full range starts with {skip_trivia(full)[:20]!r}"
            tail = full.rstrip()
            if not (tail.endswith(")") or tail.endswith(";") or tail[-1:].isdigit()):
                return f"{path}: full range ends with {full[-10:]!r}"
            if not ends_at_last_token(src, m["full"], [";"]):
                return f"{path}: full range does not reach the method's last token: {full[-20:]!r}"
            ow = src.slice(m["oneway_range"])
            if strip_all_trivia(ow) not in ("", "oneway"):
                return f"{path}: oneway range covers {ow!r}"
            if m["code"] is not None:
                code = strip_all_trivia(src.slice(m["code_range"]))
                if not re.fullmatch(r"=\d+", code) or int(code[1:]) != m["code"]:
                    return f"{path}: transact code range covers {code!r}, code is {m['code']}"
            pa = m["sym"].e
            for ai, x in enumerate(m["args"]):
                ap = path + f" arg {ai}"
                if x["name"] is not None:
                    if src.slice(x["sym"]) != x["name"]:
                        return f"{ap}: name range covers {src.slice(x['sym'])!r}, name is {x['name']!r}"
                elif not (x["sym"].s == x["sym"].e == x["type"]["full"].e):
                    return f"{ap}: unnamed argument's name range {x['sym']} is not empty at the type's end"
                if x["dir"] and src.slice(x["dir_range"]) != x["dir"]:
                    return f"{ap}: direction range covers {src.slice(x['dir_range'])!r}"
                e = check_type(src, x["type"], ap + " type")
                if e:
                    return e
                if not (inside(x["type"]["full"], x["full"]) and inside(x["sym"], x["full"]) and inside(x["full"], m["full"])):
                    return f"{ap}: ranges not nested"
                if x["full"].s < pa:
                    return f"{ap}: overlaps the previous argument"
                pa = x["full"].e
        elif m["m"] in ("const", "field"):
            e = check_type(src, m["type"], path + " type")
            if e:
                return e
            if not inside(m["type"]["full"], m["full"]) or m["type"]["full"].e > m["sym"].s:
                return f"{path}: type not before the name inside the member"
            want = ["const"] if m["m"] == "const" else [src.slice(m["type"]["full"])]
            if not starts_after_trivia(src, m["full"], want):
                return f"{path}: full range starts with {skip_trivia(full)[:20]!r}"
            if not ends_at_last_token(src, m["full"], [";"]):
                return f"{path}: full range does not reach the member's last token: {full[-20:]!r}"
        else:
            if not starts_after_trivia(src, m["full"], [m["name"]]):
                return f"{path}: full range starts with {skip_trivia(full)[:20]!r}"
            if not ends_at_last_token(src, m["full"], [",", "}"]):
                return f"{path}: full range does not reach the element's last token: {full[-20:]!r}"
    return None


# ------------------------------------------------------------------ C03: identifiers, verdicts
def identifiers(a):
    out = []
    out += a["package"]["name"].split(".")
    for i in a["imports"] + a["declared"]:
        out += (i["path"].split(".") if i["path"] else []) + [i["name"]]
    it = a["item"]
    out.append(it["name"])

    def ty(t):
        if t["kind"][0] in (7, 8, 9):
            out.extend(t["name"].split("."))
        for g in t["generics"]:
            ty(g)

    def ann(l):
        for n, kvs in l:
            for k, _ in kvs:
                out.append(k)
    ann(it["annotations"])
    for m in it["members"]:
        out.append(m["name"])
        ann(m.get("annotations", []))
        if m["m"] == "method":
            ty(m["ret"])
            for x in m["args"]:
                if x["name"]:
                    out.append(x["name"])
                ty(x["type"]); ann(x["annotations"])
        elif m["m"] in ("const", "field"):
            ty(m["type"])
    return out


def check_C03_result(p, well_formed=None):
    """a result without a tree carries an Error; no stored identifier is a keyword / reserved word;
    a document known to be well-formed has a tree and no syntax diagnostic; one known to be malformed has an Error"""
    fr = p["fr"]
    errors = [d for d in fr["diags"] if d["error"]]
    if fr["ast"] is None and not errors:
        return "no tree and no Error diagnostic"
    if fr["ast"]:
        for ident in identifiers(fr["ast"]):
            if ident in KEYWORDS or ident in RESERVED:
                return f"identifier {ident!r} stored in the tree is a keyword / reserved word"
            if not re.fullmatch(r"[A-Za-z_][A-Za-z0-9_]*", ident):
                return f"stored identifier {ident!r} is not an identifier"
    if well_formed is True:
        syntax = [d for d in fr["diags"] if d["ctx"] in ("unrecognized token", "unrecognized EOF", "invalid token", "extra token")]
        if fr["ast"] is None or syntax:
            return "well-formed document reported with syntax errors: " + "; ".join(d["msg"][:60] for d in fr["diags"][:2])
    if well_formed is False and not errors:
        return "malformed document reported without any Error"
    return None


# ------------------------------------------------------------------ C02 / C18: the tree mirrors the abstract document
def exp_type(t):
    k = t[0]
    if k == "prim":
        return (t[1], 0, [])
    if k == "void":
        return ("void", 1, [])
    if k == "string":
        return ("String", 5, [])
    if k == "charseq":
        return ("CharSequence", 6, [])
    if k == "custom":
        return (t[1], 9, [])
    if k == "list":
        return ("List", 4, [] if t[1] is None else [exp_type(t[1])])
    if k == "map":
        return ("Map", 3, [] if t[1] is None else [exp_type(t[1][0]), exp_type(t[1][1])])
    if k == "array":
        return ("Array", 2, [exp_type(t[1])])
    raise ValueError(t)


def cmp_type(e, a, path):
    if (e[0], e[1]) != (a["name"], a["kind"][0]) or len(e[2]) != len(a["generics"]):
        return f"{path}: expected type {e[0]}/{e[1]}/{len(e[2])} generics, got {a['name']}/{a['kind'][0]}/{len(a['generics'])}"
    for i, (x, y) in enumerate(zip(e[2], a["generics"])):
        r = cmp_type(x, y, path + f"<{i}>")
        if r:
            return r
    return None


def exp_annotations(toks):
    out = []
    i = 0
    ts = [t.text for t in toks]
    while i < len(ts):
        name = ts[i]; i += 1
        kvs = {}
        if i < len(ts) and ts[i] == "(":
            i += 1
            while ts[i] != ")":
                k = ts[i]; i += 1
                v = None
                if ts[i] == "=":
                    v = ts[i + 1]; i += 2
                kvs[k] = v
                if ts[i] == ",":
                    i += 1
            i += 1
        out.append((name, sorted(kvs.items())))
    return out


def exp_value(toks):
    ts = [t.text for t in toks]
    if ts[0] == "{":
        return "{}" if len(ts) == 2 else "{...}"
    if len(ts) == 3 and ts[1] == ".":
        return ts[0] + "." + ts[2]
    return ts[0]


def qsplit(q):
    return (q.rsplit(".", 1)[0], q.rsplit(".", 1)[1]) if "." in q else ("", q)


def check_mirror(d, a, check_docs=True):
    """d: abstract document of lib/gen.py; a: the implementation's tree (sx.aidl).  Positions are not compared."""
    if a is None:
        return "no tree for a well-formed document"
    if a["package"]["name"] != d["package"]:
        return f"package {a['package']['name']!r} != {d['package']!r}"
    for what, exp, act in (("imports", d["imports"], a["imports"]), ("declared parcelables", d["declared"], a["declared"])):
        if [qsplit(q) for q in exp] != [(i["path"], i["name"]) for i in act]:
            return f"{what}: {[(i['path'], i['name']) for i in act]} != {exp}"
    it = a["item"]
    if (it["kind"], it["name"], it["oneway"]) != (d["kind"], d["name"], d["oneway"]):
        return f"item {(it['kind'], it['name'], it['oneway'])} != {(d['kind'], d['name'], d['oneway'])}"
    if it["annotations"] != exp_annotations(d["annotations"]):
        return f"item annotations {it['annotations']} != {exp_annotations(d['annotations'])}"
    if check_docs and it["doc"] != (d["doc"][1] if d["doc"] else None):
        return f"item doc {it['doc']!r} != {(d['doc'][1] if d['doc'] else None)!r}"
    if len(it["members"]) != len(d["members"]):
        return f"{len(it['members'])} members, expected {len(d['members'])}"
    for i, (e, m) in enumerate(zip(d["members"], it["members"])):
        path = f"member {i}"
        if e["m"] != m["m"] or e["name"] != m["name"]:
            return f"{path}: {m['m']} {m['name']!r}, expected {e['m']} {e['name']!r}"
        if check_docs and m["doc"] != (e["doc"][1] if e.get("doc") else None):
            return f"{path}: doc {m['doc']!r} != {(e['doc'][1] if e.get('doc') else None)!r}"
        if e["m"] != "elem" and m["annotations"] != exp_annotations(e["annotations"]):
            return f"{path}: annotations {m['annotations']} != {exp_annotations(e['annotations'])}"
        if e["m"] == "method":
            if m["oneway"] != e["oneway"]:
                return f"{path}: oneway {m['oneway']}"
            r = cmp_type(exp_type(e["ret"]), m["ret"], path + " return")
            if r:
                return r
            want = int(e["code"]) if e["code"] is not None and int(e["code"]) < 2 ** 32 else None
            if m["code"] != want:
                return f"{path}: transact code {m['code']} != {want}"
            if len(m["args"]) != len(e["args"]):
                return f"{path}: {len(m['args'])} args"
            for j, (ea, x) in enumerate(zip(e["args"], m["args"])):
                if (x["dir"], x["name"]) != (ea["dir"], ea["name"]):
                    return f"{path} arg {j}: {(x['dir'], x['name'])} != {(ea['dir'], ea['name'])}"
                r = cmp_type(exp_type(ea["type"]), x["type"], f"{path} arg {j}")
                if r:
                    return r
                if x["annotations"] != exp_annotations(ea["annotations"]):
                    return f"{path} arg {j}: annotations"
                if check_docs and x["doc"] != (ea["doc"][1] if ea.get("doc") else None):
                    return f"{path} arg {j}: doc {x['doc']!r} != {(ea['doc'][1] if ea.get('doc') else None)!r}"
        elif e["m"] == "const":
            r = cmp_type(exp_type(e["type"]), m["type"], path)
            if r:
                return r
            if m["value"] != exp_value(e["value"]):
                return f"{path}: value {m['value']!r} != {exp_value(e['value'])!r}"
        elif e["m"] == "field":
            r = cmp_type(exp_type(e["type"]), m["type"], path)
            if r:
                return r
            want = exp_value(e["value"]) if e["value"] is not None else None
            if m["value"] != want:
                return f"{path}: value {m['value']!r} != {want!r}"
        else:
            want = e["value"][0].text if e["value"] is not None else None
            if m["value"] != want:
                return f"{path}: value {m['value']!r} != {want!r}"
    return None


def erase(x):
    """a tree without positions (and, optionally compared separately, docs): Rng objects -> None"""
    if isinstance(x, sx.Rng):
        return None
    if isinstance(x, dict):
        return {k: erase(v) for k, v in x.items()}
    if isinstance(x, (list, tuple)):
        return [erase(v) for v in x]
    return x


def erase_docs(x):
    if isinstance(x, dict):
        return {k: (None if k == "doc" else erase_docs(v)) for k, v in x.items()}
    if isinstance(x, list):
        return [erase_docs(v) for v in x]
    return x


# ------------------------------------------------------------------ C14: a malformed member costs only itself
def subsequence(small, big):
    it = iter(big)
    return all(any(x == y for y in it) for x in small)


SYNTAX_CTX = ("unrecognized token", "unrecognized EOF", "invalid token", "extra token")


def check_C14(case, seen):
    """seen: {'a': P line of the document with the malformed member, 'b': the same document without it}"""
    a, b = seen["a"], seen["b"]
    if b["fr"]["ast"] is None or any(d["error"] for d in b["fr"]["diags"]):
        return "baseline document (without the malformed member) is not accepted: " + "; ".join(d["msg"][:50] for d in b["fr"]["diags"][:2])
    ta = a["fr"]["ast"]
    good = [erase(m) for m in b["fr"]["ast"]["item"]["members"]]
    errs = [d for d in a["fr"]["diags"] if d["error"]]
    if ta is not None and not errs and len(ta["item"]["members"]) > len(good):
        return None            # the "garbage" happened to be a well-formed member: nothing to judge
    if ta is None:
        return "no tree although only one member is malformed"
    got = [erase(m) for m in ta["item"]["members"]]
    if not subsequence(good, got):
        return f"well-formed siblings lost or changed: {[m['name'] for m in got]} vs {[m['name'] for m in good]}"
    if erase({k: v for k, v in ta.items() if k != 'item'}) != erase({k: v for k, v in b['fr']['ast'].items() if k != 'item'}):
        return "the header (package / imports) changed"
    if not errs:
        return "no Error although a member is malformed"
    lo, hi = case["extent"]
    for d in errs:
        if d["ctx"] in SYNTAX_CTX or d["ctx"] is None:
            if not (lo <= d["range"].s and d["range"].e <= hi):
                return f"syntax Error at {d['range']} outside the malformed member's extent {lo}..{hi}: {d['msg'][:60]!r}"
    return None
