"""The harness's S-expressions in Python (atoms = ints, lists = python lists) with accessors for the tree layout
of harness/src/sx.rs, used by the Python-side oracles (C02, C04, C14, C18)."""


def parse(s, i=0):
    """parse one s-expression starting at s[i]; returns (value, next index)"""
    n = len(s)
    stack = []
    cur = None
    while i < n:
        c = s[i]
        if c == "(":
            stack.append(cur)
            cur = []
            i += 1
        elif c == ")":
            done = cur
            cur = stack.pop()
            i += 1
            if cur is None:
                return done, i
            cur.append(done)
        elif c.isdigit():
            j = i
            while j < n and s[j].isdigit():
                j += 1
            cur.append(int(s[i:j]))
            i = j
        else:
            i += 1
    raise ValueError("unbalanced s-expression")


def text(x):
    return "".join(map(chr, x))


def opt(x):
    return x[0] if x else None


def otext(x):
    return text(x[0]) if x else None


class Rng:
    __slots__ = ("s", "e", "sl", "sc", "el", "ec")

    def __init__(self, x):
        self.s, self.sl, self.sc, self.e, self.el, self.ec = x

    def __repr__(self):
        return f"{self.s}..{self.e}"


def ty(x):
    return {"name": text(x[0]), "kind": x[1], "generics": [ty(g) for g in x[2]], "sym": Rng(x[3]), "full": Rng(x[4])}


def annots(x):
    return [(text(a[0]), [(text(k), otext(v)) for k, v in a[1]]) for a in x]


def direction(x):
    return {0: "in", 1: "out", 2: "inout", 3: None}[x[0]], (Rng(x[1]) if len(x) > 1 else None)


def arg(x):
    d, dr = direction(x[0])
    return {"dir": d, "dir_range": dr, "name": otext(x[1]), "type": ty(x[2]), "annotations": annots(x[3]), "doc": otext(x[4]),
            "sym": Rng(x[5]), "full": Rng(x[6])}


def method(x):
    return {"m": "method", "oneway": bool(x[0]), "name": text(x[1]), "ret": ty(x[2]), "args": [arg(a) for a in x[3]],
            "annotations": annots(x[4]), "code": opt(x[5]), "doc": otext(x[6]), "sym": Rng(x[7]), "full": Rng(x[8]),
            "code_range": Rng(x[9]), "oneway_range": Rng(x[10])}


def const(x):
    return {"m": "const", "name": text(x[0]), "type": ty(x[1]), "value": text(x[2]), "annotations": annots(x[3]),
            "doc": otext(x[4]), "sym": Rng(x[5]), "full": Rng(x[6])}


def field(x):
    return {"m": "field", "name": text(x[0]), "type": ty(x[1]), "value": otext(x[2]), "annotations": annots(x[3]),
            "doc": otext(x[4]), "sym": Rng(x[5]), "full": Rng(x[6])}


def enum_elem(x):
    return {"m": "elem", "name": text(x[0]), "value": otext(x[1]), "doc": otext(x[2]), "sym": Rng(x[3]), "full": Rng(x[4])}


def item(x):
    if x[0] == 0:
        return {"kind": "interface", "oneway": bool(x[1]), "name": text(x[2]),
                "members": [const(e[1]) if e[0] == 0 else method(e[1]) for e in x[3]],
                "annotations": annots(x[4]), "doc": otext(x[5]), "full": Rng(x[6]), "sym": Rng(x[7])}
    if x[0] == 1:
        return {"kind": "parcelable", "oneway": False, "name": text(x[1]),
                "members": [const(e[1]) if e[0] == 0 else field(e[1]) for e in x[2]],
                "annotations": annots(x[3]), "doc": otext(x[4]), "full": Rng(x[5]), "sym": Rng(x[6])}
    return {"kind": "enum", "oneway": False, "name": text(x[1]), "members": [enum_elem(e) for e in x[2]],
            "annotations": annots(x[3]), "doc": otext(x[4]), "full": Rng(x[5]), "sym": Rng(x[6])}


def imp(x):
    return {"path": text(x[0]), "name": text(x[1]), "sym": Rng(x[2]), "full": Rng(x[3])}


def aidl(x):
    return {"package": {"name": text(x[0][0]), "sym": Rng(x[0][1]), "full": Rng(x[0][2])},
            "imports": [imp(i) for i in x[1]], "declared": [imp(i) for i in x[2]], "item": item(x[3])}


def diag(x):
    return {"error": bool(x[0]), "range": Rng(x[1]), "ctx": otext(x[2]), "related": [Rng(r) for r in x[3]], "msg": text(x[4])}


def file_result(x):
    return {"id": text(x[0]), "ast": aidl(x[1][0]) if x[1] else None, "diags": [diag(d) for d in x[2]]}


def pline(line):
    """P <name> (src lc fr expected)"""
    _, name, rest = line.split(" ", 2)
    v, _ = parse(rest)
    return name, {"src": text(v[0]), "lc": [tuple(p) for p in v[1]], "fr": file_result(v[2]),
                  "expected": [[text(t) for t in vec] for vec in v[3]]}
