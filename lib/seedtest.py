#!/usr/bin/env python3
"""Seeded-change bookkeeping.
  seedtest.py confirm <seed_dir>...      : in a scratch worktree: suite passes with the patch, demo passes without / fails with it
  seedtest.py detect <seed_dir> <Cxx>... : apply to /repo, run the given checks (quick), undo; record who caught it
Results go to /verif/seeded/<name>/ (patch.diff, demo.rs, meta.json)."""
import os, sys, subprocess, json, shutil, time
VERIF = os.path.dirname(os.path.dirname(os.path.abspath(__file__)))
WT = "/tmp/wt_confirm"
ENV = dict(os.environ, CARGO_NET_OFFLINE="true", CARGO_TARGET_DIR="/tmp/seed_target")


def sh(cmd, cwd=None, timeout=1800):
    p = subprocess.run(cmd, shell=True, cwd=cwd, env=ENV, stdout=subprocess.PIPE, stderr=subprocess.STDOUT, text=True, timeout=timeout)
    return p.returncode, p.stdout


def seed_name(d):
    parts = os.path.normpath(d).split(os.sep)
    if parts[-2].startswith("seed2_"):          # second wave: m1/m2 are kept as m3/m4
        return parts[-2].replace("seed2_", "") + "_m" + str(int(parts[-1][1:]) + 2)
    if parts[-2].startswith("seed8_"):          # eighth wave: m11
        return parts[-2].replace("seed8_", "") + "_m" + str(int(parts[-1][1:]) + 10)
    if parts[-2].startswith("seed7_"):          # seventh wave: m10
        return parts[-2].replace("seed7_", "") + "_m" + str(int(parts[-1][1:]) + 9)
    if parts[-2].startswith("seed6_"):          # sixth wave: m9
        return parts[-2].replace("seed6_", "") + "_m" + str(int(parts[-1][1:]) + 8)
    if parts[-2].startswith("seed5_"):          # fifth wave: m8
        return parts[-2].replace("seed5_", "") + "_m" + str(int(parts[-1][1:]) + 7)
    if parts[-2].startswith("seed4_"):          # fourth wave: m7
        return parts[-2].replace("seed4_", "") + "_m" + str(int(parts[-1][1:]) + 6)
    if parts[-2].startswith("seed3_"):          # third wave: m5/m6
        return parts[-2].replace("seed3_", "") + "_m" + str(int(parts[-1][1:]) + 4)
    return parts[-2].replace("seed_", "") + "_" + parts[-1]


def meta_path(name):
    return os.path.join(VERIF, "seeded", name, "meta.json")


def load_meta(name):
    p = meta_path(name)
    return json.load(open(p)) if os.path.exists(p) else {}


def save(name, d, meta):
    out = os.path.join(VERIF, "seeded", name)
    os.makedirs(out, exist_ok=True)
    shutil.copy(os.path.join(d, "patch.diff"), os.path.join(out, "patch.diff"))
    shutil.copy(os.path.join(d, "demo.rs"), os.path.join(out, "demo.rs"))
    if os.path.exists(os.path.join(d, "notes.md")):
        shutil.copy(os.path.join(d, "notes.md"), os.path.join(out, "notes.md"))
    json.dump(meta, open(meta_path(name), "w"), indent=1)


def confirm(d):
    name = seed_name(d)
    if not os.path.isdir(WT):
        rc, out = sh(f"git -C /repo worktree add --detach {WT} HEAD")
        assert rc == 0, out
    sh("git checkout -- . && git clean -fdq", cwd=WT)
    meta = load_meta(name)
    meta.update({"name": name, "property": name.split("_")[0], "source": "independent sub-agent, given only the property text"})
    # demo on the clean tree
    shutil.copy(os.path.join(d, "demo.rs"), os.path.join(WT, "tests", "seed_demo.rs"))
    rc0, out0 = sh("cargo test --offline --test seed_demo 2>&1 | tail -15", cwd=WT)
    clean_ok = "test result: ok" in out0
    rc, out = sh(f"git apply {os.path.join(d, 'patch.diff')}", cwd=WT)
    applied = rc == 0
    rc1, out1 = sh("cargo test --offline 2>&1 | grep -E 'test result|FAILED|panicked' | head -20", cwd=WT)
    results = [l for l in out1.split("\n") if l.startswith("test result")]
    suite_ok = applied and len(results) >= 4 and all("ok." in l and " 0 failed" in l for l in results if "seed_demo" not in l) \
        and sum("failed" in l and " 0 failed" not in l for l in results) == 1
    demo_fails = any(" 0 failed" not in l for l in results)
    # precise: run the suite without the demo file
    os.remove(os.path.join(WT, "tests", "seed_demo.rs"))
    rc2, out2 = sh("cargo test --offline 2>&1 | grep -E '^test result' ", cwd=WT)
    suite_ok = applied and all(" 0 failed" in l for l in out2.strip().split("\n")) and out2.count("test result") >= 3
    sh("git checkout -- . && git clean -fdq", cwd=WT)
    meta["confirmed"] = {"patch_applies": applied, "demo_passes_on_clean_tree": clean_ok, "demo_fails_with_patch": demo_fails,
                         "existing_suite_passes_with_patch": suite_ok,
                         "ran": ["cargo test --offline --test seed_demo (clean)", "git apply patch.diff", "cargo test --offline (patched, with and without the demo)"]}
    meta["kept"] = bool(applied and clean_ok and demo_fails and suite_ok)
    notes = os.path.join(d, "notes.md")
    if os.path.exists(notes):
        meta["needs_to_manifest"] = open(notes).read()[:1500]
    save(name, d, meta)
    print(name, meta["confirmed"], "KEPT" if meta["kept"] else "REJECTED", flush=True)


def detect(d, props):
    name = seed_name(d)
    meta = load_meta(name)
    rc, out = sh(f"git -C /repo status --porcelain")
    assert out.strip() == "", "/repo not clean: " + out
    rc, out = sh(f"git -C /repo apply {os.path.join(d, 'patch.diff')}")
    assert rc == 0, out
    det = meta.setdefault("detection", {})
    env = dict(os.environ, CARGO_NET_OFFLINE="true")
    env.pop("CARGO_TARGET_DIR", None)

    def one(p):
        t = time.time()
        pr = subprocess.run(f"./check {p} quick", shell=True, cwd=VERIF, env=env, stdout=subprocess.PIPE, stderr=subprocess.STDOUT, text=True, timeout=3000)
        rc, out = pr.returncode, pr.stdout
        lines = [l for l in out.split("\n") if l.startswith(("VIOLATION", "KNOWN-FINDING"))]
        return p, {"exit": rc, "lines": lines, "wall_s": round(time.time() - t, 1)}
    try:
        # build once (harness, regenerated tables, whatever of the Coq development still compiles, runner), then the checks in parallel
        subprocess.run("./setup.sh", shell=True, cwd=VERIF, env=env, stdout=subprocess.PIPE, stderr=subprocess.STDOUT, text=True, timeout=3000)
        from concurrent.futures import ThreadPoolExecutor
        with ThreadPoolExecutor(max_workers=4) as ex:
            for p, r in ex.map(one, props):
                det[p] = r
                print(name, p, r["exit"], r["lines"][:2], flush=True)
    finally:
        sh("git -C /repo checkout -- .")
    meta["caught_by"] = sorted(p for p, r in det.items() if r["exit"] == 1 and any(l.startswith("VIOLATION") and "no-failing-input-found" not in l for l in r["lines"]))
    meta["flagged_without_input_by"] = sorted(p for p, r in det.items() if r["exit"] == 1 and p not in meta["caught_by"])
    save(name, d, meta)


if __name__ == "__main__":
    if sys.argv[1] == "confirm":
        for d in sys.argv[2:]:
            confirm(d)
    else:
        detect(sys.argv[2], sys.argv[3:])
