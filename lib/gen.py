"""Deterministic generators: abstract AIDL documents, token streams, layouts, projects, histories.
Every random choice derives from the random.Random instance passed in."""
import random

PRIMS = ["byte", "short", "int", "long", "float", "double", "boolean", "char"]
BUILTINS = ["IBinder", "FileDescriptor", "ParcelFileDescriptor", "ParcelableHolder"]
BUILTIN_Q = ["android.os.IBinder", "java.os.FileDescriptor", "android.os.ParcelFileDescriptor",
             "android.os.ParcelableHolder"]
KEYWORDS = ["package", "import", "interface", "parcelable", "enum", "oneway", "const", "inout", "in", "out",
            "void", "String", "CharSequence", "List", "Map", "true", "false"] + PRIMS
RESERVED = ["break", "case", "catch", "class", "continue", "default", "do", "else", "for", "goto", "if",
            "new", "private", "protected", "public", "return", "static", "switch", "this", "throw", "try",
            "volatile", "while"]
PKGS = ["p", "q", "p.q", "com.x", "a.b.c", "other.pkg", "pkg"]
NAMES = ["Foo", "Bar", "Baz", "XFoo", "FooX", "FooFoo", "Foo2", "Qux", "IFoo", "Listing", "int_", "inout2", "Maps", "_x"]
MEMBERS = ["a", "b", "c", "get", "set", "value", "x1", "doIt", "in_", "outer", "String_", "f", "g", "type", "match", "mod", "ref", "self", "use", "impl", "fn", "def", "var", "final", "native", "abstract"]
OTHER_LANG = ["type", "match", "mod", "ref", "self", "use", "where", "loop", "impl", "fn", "let", "move", "mut", "pub", "super",
              "trait", "unsafe", "struct", "crate", "dyn", "extern", "async", "await", "as", "Self", "def", "lambda", "yield", "with",
              "is", "not", "and", "or", "None", "var", "val", "fun", "object", "when", "typeof", "func", "go", "chan", "select",
              "namespace", "using", "template", "typedef", "union", "virtual", "final", "native", "synchronized", "abstract",
              "extends", "implements", "instanceof", "long_", "boolean_"]
WS = [" ", "  ", "\t", "\n", "\r\n", "\n\n", " \n ", "\u0085", "\u00a0", "\u1680", "\u2000", "\u2003",
      "\u200a", "\u2028", "\u2029", "\u202f", "\u205f", "\u3000", "\x0b", "\x0c", "\r"]
WORDS = ["alpha", "beta", "Größe", "naïve", "日本語", "문서", "😀", "x", "the", "value", "of", "🙂🙃", "é", "ß"]


class Tok:
    """one token with the role it plays (used to compute expected ranges and erased trees)"""
    __slots__ = ("text", "role")

    def __init__(self, text, role=None):
        self.text = text
        self.role = role

    def __repr__(self):
        return f"Tok({self.text!r})"


# ------------------------------------------------------------------ types
def gen_type(rng, names, depth=0, allow_void=False, maxdepth=4):
    """abstract type: ('prim',n) ('void',) ('string',) ('charseq',) ('custom',qname) ('list',T|None)
    ('map',(K,V)|None) ('array',T)"""
    r = rng.random()
    if depth >= maxdepth:
        r = r * 0.62
    if allow_void and r < 0.08:
        return ("void",)
    if r < 0.18:
        return ("prim", rng.choice(PRIMS))
    if r < 0.28:
        return ("string",)
    if r < 0.32:
        return ("charseq",)
    if r < 0.62:
        return ("custom", rng.choice(names))
    if r < 0.74:
        return ("list", None if rng.random() < 0.2 else gen_type(rng, names, depth + 1, rng.random() < 0.05, maxdepth))
    if r < 0.86:
        if rng.random() < 0.2:
            return ("map", None)
        k = ("string",) if rng.random() < 0.7 else gen_type(rng, names, depth + 1, False, maxdepth)
        return ("map", (k, gen_type(rng, names, depth + 1, rng.random() < 0.05, maxdepth)))
    return ("array", gen_type(rng, names, depth + 1, rng.random() < 0.05, maxdepth))


def type_tokens(t):
    k = t[0]
    if k == "prim":
        return [Tok(t[1])]
    if k == "void":
        return [Tok("void")]
    if k == "string":
        return [Tok("String")]
    if k == "charseq":
        return [Tok("CharSequence")]
    if k == "custom":
        out = []
        for i, seg in enumerate(t[1].split(".")):
            if i:
                out.append(Tok("."))
            out.append(Tok(seg))
        return out
    if k == "list":
        if t[1] is None:
            return [Tok("List")]
        return [Tok("List"), Tok("<")] + type_tokens(t[1]) + [Tok(">")]
    if k == "map":
        if t[1] is None:
            return [Tok("Map")]
        return [Tok("Map"), Tok("<")] + type_tokens(t[1][0]) + [Tok(",")] + type_tokens(t[1][1]) + [Tok(">")]
    if k == "array":
        return type_tokens(t[1]) + [Tok("["), Tok("]")]
    raise ValueError(t)


# ------------------------------------------------------------------ values / annotations / docs
def gen_value(rng, depth=0):
    r = rng.random()
    if r < 0.3:
        return [Tok(str(rng.choice([0, 1, 7, 42, 123456, 4294967295, 99999999999])))]
    if r < 0.45:
        return [Tok(rng.choice(["1.5", "-1", "+2.5f", ".5", "3f", "-0.25", "١٢"]))]
    if r < 0.6:
        return [Tok('"' + rng.choice(["", "hello", "a b", "é 日本", "// not a comment", "/* x */", "x;y", "\\", "C:\\temp\\", "a\\b",
                                     "it's", "{1, 2}", "\\n", "tab\there\\"]) + '"')]
    if r < 0.7:
        return [Tok(rng.choice(["true", "false"]))]
    if r < 0.78:
        return [Tok("{"), Tok("}")]
    if r < 0.9 and depth < 2:
        out = [Tok("{")]
        for _ in range(rng.randint(1, 2)):
            out += gen_value(rng, depth + 1)
        for _ in range(rng.randint(0, 2)):
            out += [Tok(",")] + gen_value(rng, depth + 1)
        if rng.random() < 0.3:
            out.append(Tok(","))
        return out + [Tok("}")]
    return [Tok(rng.choice(NAMES)), Tok("."), Tok(rng.choice(MEMBERS))]


def gen_simple_value(rng):
    return [Tok(rng.choice(["1", "42", "-1", "2.5", '"s"', '"a,b"', "true", "false", "0", '""']))]


def gen_annotations(rng, p=0.15):
    out = []
    while rng.random() < p:
        out.append(Tok("@" + rng.choice(["nullable", "utf8InCpp", "Backing", "VintfStability", "A_1"])))
        if out[-1].text == "@Backing" and rng.random() < 0.4:
            out += [Tok("("), Tok("type"), Tok("="), Tok(rng.choice(['""', '"byte"', '"int"', '"long"'])), Tok(")")]
        elif rng.random() < 0.5:
            out.append(Tok("("))
            n = rng.randint(0, 3)
            # sometimes parameter names that differ only by case (distinct keys all the same)
            keys = rng.sample(["name", "Name", "NAME", "level", "Level"], n) if rng.random() < 0.3 else None
            for i in range(n):
                out.append(Tok(keys[i] if keys else rng.choice(MEMBERS) + str(i)))
                if rng.random() < 0.7:
                    out += [Tok("=")] + gen_simple_value(rng)
                if i + 1 < n or rng.random() < 0.3:
                    out.append(Tok(","))
            out.append(Tok(")"))
    return out


def gen_doc_text(rng):
    """(comment text, expected normalised documentation)"""
    nl = rng.choice(["\n", "\r\n"])
    paras = []
    for _ in range(rng.randint(1, 3)):
        lines = []
        for _ in range(rng.randint(1, 3)):
            lines.append(" ".join(rng.choice(WORDS) for _ in range(rng.randint(1, 4))))
        paras.append(lines)
    tags = []
    for _ in range(rng.randint(0, 2)):
        tags.append("@" + rng.choice(["param", "return", "see"]) + " " + " ".join(rng.choice(WORDS) for _ in range(rng.randint(1, 3))))
    style = rng.choice(["star", "plain", "oneline"])
    if style == "oneline" and len(paras) == 1 and len(paras[0]) == 1 and not tags:
        return " " + paras[0][0] + " ", paras[0][0]
    if style == "oneline" and len(paras) == 1 and len(paras[0]) == 1:
        # everything on one line: text, then the @tag clauses (each clause still starts a new line of the documentation)
        return " " + paras[0][0] + " " + " ".join(tags) + " ", paras[0][0] + "".join("\n" + t for t in tags)
    dec = " * " if style == "star" else "   "
    blank = " *" if style == "star" else ""
    body = nl
    for i, pl in enumerate(paras):
        if i:
            body += blank + nl
        for ln in pl:
            body += dec + ln + nl
    for t in tags:
        body += dec + t + nl
    body += " "
    expected = "\n".join(" ".join(pl) for pl in paras)
    for t in tags:
        expected += "\n" + t
    return body, expected


# ------------------------------------------------------------------ documents
def gen_doc(rng, package=None, name=None, kind=None, names=None, imports=None, declared=None, opts=None):
    """abstract document as a dict; `names` is the pool of type names used in references"""
    opts = opts or {}
    package = package or rng.choice(PKGS)
    name = name or rng.choice(NAMES)
    kind = kind or rng.choice(["interface", "interface", "parcelable", "enum"])
    names = names or (NAMES + BUILTINS)
    d = {"package": package, "imports": imports or [], "declared": declared or [], "kind": kind, "name": name,
         "oneway": kind == "interface" and rng.random() < 0.25, "annotations": gen_annotations(rng, 0.1),
         "members": [], "doc": None}
    if rng.random() < opts.get("pdoc", 0.1):
        d["doc"] = gen_doc_text(rng)
    n = rng.choice([0, 1, 2, 3, 4, 6]) if "nmembers" not in opts else opts["nmembers"]
    used = []
    for i in range(n):
        mname = rng.choice(MEMBERS) if rng.random() < 0.3 else rng.choice(MEMBERS) + str(i)
        used.append(mname)
        mdoc = gen_doc_text(rng) if rng.random() < opts.get("pdoc", 0.1) else None
        if kind == "interface":
            if rng.random() < 0.2:
                d["members"].append({"m": "const", "name": mname, "type": gen_type(rng, names), "value": gen_value(rng),
                                     "annotations": gen_annotations(rng), "doc": mdoc})
            else:
                args = []
                for j in range(rng.choice([0, 1, 1, 2, 3])):
                    args.append({"dir": rng.choice([None, None, "in", "out", "inout"]),
                                 "type": gen_type(rng, names), "name": None if rng.random() < 0.2 else "a" + str(j),
                                 "annotations": gen_annotations(rng, 0.08),
                                 "doc": gen_doc_text(rng) if rng.random() < opts.get("pdoc", 0.1) * 0.5 else None})
                code = None
                mode = opts.get("codes", rng.choice(["none", "none", "all", "mixed"]))
                if mode == "all" or (mode == "mixed" and rng.random() < 0.5):
                    code = rng.choice(["1", "2", "3", "007", "7", "4294967295", "0", str(i + 10), "010", "08", "0019", "0777"])
                d["members"].append({"m": "method", "name": mname, "oneway": rng.random() < 0.2,
                                     "ret": gen_type(rng, names, allow_void=True) if rng.random() < 0.6 else ("void",),
                                     "args": args, "code": code, "annotations": gen_annotations(rng), "doc": mdoc,
                                     "trailing_comma": bool(args) and rng.random() < 0.1})
        elif kind == "parcelable":
            if rng.random() < 0.2:
                d["members"].append({"m": "const", "name": mname, "type": gen_type(rng, names), "value": gen_value(rng),
                                     "annotations": gen_annotations(rng), "doc": mdoc})
            else:
                d["members"].append({"m": "field", "name": mname, "type": gen_type(rng, names),
                                     "value": gen_value(rng) if rng.random() < 0.3 else None,
                                     "annotations": gen_annotations(rng), "doc": mdoc})
        else:
            d["members"].append({"m": "elem", "name": mname.upper(), "value": gen_simple_value(rng) if rng.random() < 0.5 else None,
                                 "annotations": gen_annotations(rng, 0.05), "doc": mdoc})
    d["enum_trailing_comma"] = kind == "enum" and n > 0 and rng.random() < 0.4
    return d


def doc_tok(doc):
    """the doc comment as a pseudo token (rendered as trivia)"""
    return Tok("/**" + doc[0] + "*/", "doc")


def qname_tokens(q):
    out = []
    for i, seg in enumerate(q.split(".")):
        if i:
            out.append(Tok("."))
        out.append(Tok(seg))
    return out


def tokens(d):
    """token stream of a document (doc comments appear as pseudo tokens with role 'doc')"""
    out = [Tok("package")] + qname_tokens(d["package"]) + [Tok(";")]
    for q in d["imports"]:
        out += [Tok("import")] + qname_tokens(q) + [Tok(";")]
    for q in d["declared"]:
        out += [Tok("parcelable")] + qname_tokens(q) + [Tok(";")]
    if d["doc"]:
        out.append(doc_tok(d["doc"]))
    out += d["annotations"]
    if d["oneway"]:
        out.append(Tok("oneway"))
    out += [Tok(d["kind"]), Tok(d["name"]), Tok("{")]
    ms = d["members"]
    for i, m in enumerate(ms):
        out += member_tokens(m)
        if d["kind"] == "enum" and (i + 1 < len(ms) or d["enum_trailing_comma"]):
            out.append(Tok(","))
    out.append(Tok("}"))
    return out


def member_tokens(m):
    out = []
    if m.get("doc"):
        out.append(doc_tok(m["doc"]))
    out += m["annotations"]
    if m["m"] == "method":
        if m["oneway"]:
            out.append(Tok("oneway"))
        out += type_tokens(m["ret"]) + [Tok(m["name"]), Tok("(")]
        for j, a in enumerate(m["args"]):
            if a.get("doc"):
                out.append(doc_tok(a["doc"]))
            if a["dir"]:
                out.append(Tok(a["dir"]))
            out += a["annotations"] + type_tokens(a["type"])
            if a["name"]:
                out.append(Tok(a["name"]))
            if j + 1 < len(m["args"]) or m.get("trailing_comma"):
                out.append(Tok(","))
        out.append(Tok(")"))
        if m["code"] is not None:
            out += [Tok("="), Tok(m["code"])]
        out.append(Tok(";"))
    elif m["m"] == "const":
        out += [Tok("const")] + type_tokens(m["type"]) + [Tok(m["name"]), Tok("=")] + m["value"] + [Tok(";")]
    elif m["m"] == "field":
        out += type_tokens(m["type"]) + [Tok(m["name"])]
        if m["value"] is not None:
            out += [Tok("=")] + m["value"]
        out.append(Tok(";"))
    elif m["m"] == "elem":
        out.append(Tok(m["name"]))
        if m["value"] is not None:
            out += [Tok("=")] + m["value"]
    return out


# ------------------------------------------------------------------ layout
def wordlike(c):
    return c.isalnum() or c == "_" or ord(c) > 127


def needs_sep(a, b):
    if not a or not b:
        return False
    if wordlike(a[-1]) and (wordlike(b[0]) or b[0] == "@" and False):
        return True
    if a[-1].isdigit() and b[0] == ".":
        return True
    if a[-1] == "." and b[0].isdigit():
        return True
    if a[-1] == "/" and b[0] in "/*":
        return True
    return False


SAFE_WS = [" ", "  ", "\t", "\n", "\r\n", "\n\n", " \n ", "\n\t"]


def gen_trivia(rng, style, must):
    """a trivia string (whitespace / comments). style: 'min' | 'space' | 'wild' | 'safe'
    ('safe': ASCII whitespace and ordinary comments whose text has no '/' or '*': the class of C18's quantifier)"""
    if style == "min":
        return " " if must else ""
    if style == "space":
        return " "
    if style == "safe":
        out = ""
        for _ in range(rng.choice([0, 1, 1, 2, 3])):
            r = rng.random()
            if r < 0.6:
                out += rng.choice(SAFE_WS)
            elif r < 0.8:
                out += "/*" + rng.choice(["", " c ", "x;y{}", " \u00e9\u65e5\u672c ", "\n multi\n line ", " @x "]) + "*/"
            else:
                out += "//" + rng.choice(["", " c", " x;y{}", " \u00e9\U0001f600", " @tag"]) + rng.choice(["\n", "\r\n", "\n\n"])
        if must and out == "":
            out = rng.choice(SAFE_WS)
        return out
    out = ""
    n = rng.choice([0, 1, 1, 1, 2, 3])
    for _ in range(n):
        r = rng.random()
        if r < 0.6:
            out += rng.choice(WS)
        elif r < 0.8:
            out += "/*" + rng.choice(["", " c ", "x;y{}", " é日本 ", "* a *", "\n multi\n line ", " @x "]) + "*/"
        else:
            out += "//" + rng.choice(["", " c", " x;y{}", " é😀", " /* not */", " /** doc? */"]) + rng.choice(["\n", "\r\n", "\n\n", "\r", "\r\r\n"])
    if must and out == "":
        out = rng.choice(WS)
    return out


def render(toks, rng=None, style="space"):
    """text + the byte span of every token"""
    rng = rng or random.Random(0)
    text = gen_trivia(rng, style, False) if style in ("wild", "safe") else ""
    spans = []
    prev = ""
    for i, t in enumerate(toks):
        if i:
            must = needs_sep(prev, t.text)
            sep = gen_trivia(rng, style, must)
            # a trivia that ends in a comment opener must not merge with the next token; ours never do
            text += sep
        start = len(text.encode("utf-8"))
        text += t.text
        spans.append((start, len(text.encode("utf-8"))))
        prev = t.text
    if style in ("wild", "safe"):
        text += gen_trivia(rng, style, False)
    if style == "wild" and rng.random() < 0.2:
        text += rng.choice(["// end", "//", " // last line, no newline", "/* eof */"])     # nothing after the last comment
    return text, spans


# ------------------------------------------------------------------ projects
def gen_project(rng, opts=None):
    """list of (id, abstract doc); names chosen to collide and nearly collide"""
    opts = opts or {}
    nfiles = rng.choice([1, 2, 2, 3, 3, 4, 5, 6])
    heads = []
    for i in range(nfiles):
        pkg = rng.choice(PKGS[:4]) if rng.random() < 0.8 else rng.choice(PKGS)
        name = rng.choice(NAMES[:6]) if rng.random() < 0.8 else rng.choice(NAMES + BUILTINS)
        kind = rng.choice(["interface", "parcelable", "enum"])
        heads.append((pkg, name, kind))
    keys = [p + "." + n for p, n, _ in heads]
    files = []
    for i, (pkg, name, kind) in enumerate(heads):
        cand = list(keys) + [rng.choice(PKGS) + "." + rng.choice(NAMES) for _ in range(2)] + BUILTIN_Q
        cand += [k.rsplit(".", 1)[0] + ".X" + k.rsplit(".", 1)[1] for k in keys[:2]]
        imports = []
        for _ in range(rng.choice([0, 1, 2, 3, 4, 5])):
            imports.append(rng.choice(cand))
        if imports and rng.random() < 0.25:
            imports.append(rng.choice(imports))
        declared = []
        for _ in range(rng.choice([0, 0, 0, 1, 2])):
            r = rng.random()
            if r < 0.6:
                declared.append(rng.choice(NAMES[:6]))
            elif r < 0.8 and imports:
                declared.append(rng.choice(imports).rsplit(".", 1)[1])
            else:
                declared.append(rng.choice(PKGS) + "." + rng.choice(NAMES[:6]))
        if declared and rng.random() < 0.3:
            declared.append(rng.choice(declared))
        # names used in type references: simple names of imports, partial and full qualifications, near misses, builtins
        pool = list(BUILTINS) + ["android.os.ParcelFileDescriptor", "android.os.IBinder"]
        for q in imports + keys:
            segs = q.split(".")
            pool.append(segs[-1])
            pool.append(q)
            if len(segs) > 2:
                pool.append(".".join(segs[-2:]))
            pool.append("X" + segs[-1])
            if rng.random() < 0.15:
                pool.append("zz." + q)              # more qualification than the import has: not that import
                pool.append(segs[-1] + segs[-1])    # the simple name twice: not that import either
        pool += [d.split(".")[-1] for d in declared] + declared + ["Unknown", "other.pkg.Foo"]
        d = gen_doc(rng, pkg, name, kind, pool, imports, declared, opts)
        files.append(("f%d" % i, d))
    return files


def render_project(files, rng, style=None):
    out = []
    for fid, d in files:
        st = style or rng.choice(["space", "space", "min", "wild"])
        text, _ = render(tokens(d), rng, st)
        out.append((fid, text))
    return out
