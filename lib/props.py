"""Registry: per property, what is proved (Coq files), what is compared (harness modes / checks), how cases are made."""
import itertools, random
import gen, gens

TB_COMMON = [
    "Coq 8.16.1 kernel (coqc); vm_compute for finite facts; no native_compute",
    "translate/*.py (Rust tables -> coq/Gen/*.v), cross-checked by the correspondence",
    "extraction to OCaml with ExtrOcamlBasic only (Extract Inductive bool/option/list/prod/unit/sumbool/sumor; no Extract Constant), OCaml 4.13.1, runner/driver.ml",
    "Rust harness + S-expression printer (harness/src), Coq decoders Run/Sx.v, generators lib/gen.py",
    "modelled rather than verified: std HashMap/HashSet as lists (membership/lookup/min only), Vec::sort_by_key as a stable insertion sort, message wording not modelled",
]
ASSUME_VALID = [
    "the hand-written Coq model (Model/Validation.v) corresponds to src/validation.rs: checked on every run on the generated cases, not proved",
    "trees fed to the validation model are the implementation's own parse-stage trees (hook verif_parse_results)",
]


def nm(name, files):
    return {"name": name, "files": files}


def iface(members, oneway=False, imports=(), head="package p;"):
    return head + "".join(f"import {i};" for i in imports) + ("oneway " if oneway else "") + "interface I{" + "".join(members) + "}"


# ------------------------------------------------------------------ C09
def gen_C09(rng, tier):
    cases = []
    names = ["a", "b", "c"]
    codes = [None, "1", "2", "3"]
    alphabet = [(n, c) for n in names for c in codes]
    maxlen = 3 if tier == "quick" else 4

    PARAMS = ["", "int x", "in String s", "int x, int y", "in int[] v", "long x"]
    BADPARAMS = ["int[] v", "out int x", "inout String s", "ParcelableHolder h", "in Nope n"]     # methods with errors of their own still count

    def render(seq, consts_at=(), params=None, pre=None, oneway=False):
        ms = []
        for i, (n, c) in enumerate(seq):
            if i in consts_at:
                ms.append(f"const int K{i}={i};" if i % 2 else f"const int {n}={i};")     # also a constant named like the method
            ps = params[i] if params else ""
            ms.append(f"{pre[i] if pre else 'void'} {n}({ps})" + (f"={c}" if c is not None else "") + ";")
        return iface(ms, oneway=oneway)
    k = 0
    for L in range(1, maxlen + 1):
        for seq in itertools.product(alphabet, repeat=L):
            cases.append(nm(f"ex{k}", [("f", render(seq))]))
            k += 1
    nrand = 600 if tier == "quick" else 6000
    for i in range(nrand):
        L = rng.choice([4, 5, 5, 6, 8, 12])
        seq = []
        for _ in range(L):
            n = rng.choice(names + ["d", "e", "A", "B", "Send", "send"])      # names are case-sensitive: a / A are two names
            c = rng.choice([None, None, "1", "2", "3", "007", "7", "0", "00", "4294967295", "4294967296", "99999999999"])
            seq.append((n, c))
        consts = {j for j in range(L) if rng.random() < 0.2}
        # "overloads": the same name with different parameter lists is still the same name
        params = [rng.choice(PARAMS) for _ in range(L)] if rng.random() < 0.5 else None
        cases.append(nm(f"r{i}", [("f", render(seq, consts, params))]))
    # methods that carry an error of their own (bad argument, oneway with a result): every sequence of length <= 2 with each
    # position spoiled in turn, plus random longer ones
    for L in (2, 3):
        for seq in itertools.product(alphabet, repeat=L):
            if L == 3 and rng.random() > (0.1 if tier == "quick" else 1.0):
                continue
            for bad in range(L):
                kind = (k + bad) % 3
                params = [BADPARAMS[(k + j) % len(BADPARAMS)] if (j == bad and kind == 0) else "" for j in range(L)]
                pre = ["oneway int" if (j == bad and kind == 1) else ("int" if kind == 2 and j == bad else "void") for j in range(L)]
                cases.append(nm(f"bad{k}", [("f", render(seq, params=params, pre=pre, oneway=(kind == 2)))]))
                k += 1
    # a constant named like a method in front of every sequence of length <= 2
    for L in (1, 2):
        for seq in itertools.product(alphabet, repeat=L):
            cases.append(nm(f"cn{k}", [("f", render(seq, consts_at=(0,)))]))
            k += 1
    # names differing by case only: exhaustive to length 3 over {a, A} x codes
    alpha2 = [(n, c) for n in ("a", "A") for c in (None, "1", "2")]
    for L in (2, 3):
        for seq in itertools.product(alpha2, repeat=L):
            cases.append(nm(f"cs{k}", [("f", render(seq))]))
            k += 1
    # every sequence of length <= 2 once more with differing parameter lists
    for L in (2, 3):
        for seq in itertools.product(alphabet, repeat=L):
            if L == 3 and rng.random() > (0.15 if tier == "quick" else 1.0):
                continue
            cases.append(nm(f"ov{k}", [("f", render(seq, (), [PARAMS[j % len(PARAMS)] for j in range(L)]))]))
            k += 1
    return cases


def P(coq_files, checks, gen_fn, rule, level="proof", **kw):
    d = {"coq_files": coq_files, "runs": [("validate", "V", checks)], "x_checks": [], "gen": gen_fn, "level": level,
         "rule": rule, "trusted_base": TB_COMMON, "assumptions": ASSUME_VALID}
    d.update(kw)
    return d


MASTER = ["Spec/Master.v", "Proofs/Master.v"]

PROPS = {
    "C09": {
        "coq_files": ["Spec/Methods.v", "Proofs/Methods.v", "Properties/C09.v"],
        "runs": [("validate", "V", ["corr_C09", "spec_C09"])],
        "x_checks": [],
        "gen": gen_C09,
        "level": "proof",
        "rule": "exhaustive method sequences over 3 names x {no code,1,2,3} up to length 3 (quick) / 4 (thorough), plus random "
                "sequences of length 4-12 with zero-padded, large and overflowing codes and interleaved constants; a case is "
                "non-trivial when distinct as (files) text; every case has at least one method",
        "trusted_base": TB_COMMON,
        "assumptions": ASSUME_VALID,
    },
    "C05": P(["Spec/Scoping.v", "Proofs/Scoping.v"] + MASTER + ["Properties/C05.v"], ["corr_C05", "spec_C05"],
             gens.with_histories(gens.gen_projects),
             "hand-picked naming relations (ambiguous imports, partial qualification, built-ins imported or not, duplicate keys) + "
             "random projects of 1-6 files with adversarially similar names, references in all four positions nested to depth 4"),
    "C06": P(["Spec/Scoping.v", "Proofs/Scoping.v"] + MASTER + ["Properties/C06.v"], ["corr_C06", "spec_C06"],
             gens.with_histories(gens.gen_projects),
             "same project stream as C05: import lists with duplicates, unresolvable, resolvable-unused, used only deep inside "
             "generics, built-in imports; forward declarations qualified/unqualified, duplicated, shadowed by imports"),
    "C07": P(["Spec/Categories.v", "Proofs/Direction.v"] + MASTER + ["Properties/C07.v"], ["corr_C07", "spec_C07"],
             gens.with_histories(gens.gen_C07),
             "exhaustive: 17 type categories (multi-file support project) x {none,in,out,inout} x method oneway x interface "
             "oneway x 3 argument positions = 816 cases; plus random projects"),
    "C08": P(["Spec/Elements.v", "Proofs/Elements.v"] + MASTER + ["Properties/C08.v"], ["corr_C08", "spec_C08"],
             gens.with_histories(gens.gen_C08, every=5),
             "exhaustive container shapes to nesting depth 2 over all 17 leaf categories (depth 3: sample of 12000 in thorough), "
             "12 per file, rotating through field / return / argument / constant position; plus random projects"),
    "C10": P(["Spec/Oneway.v", "Proofs/Oneway.v"] + MASTER + ["Properties/C10.v"], ["corr_C10", "spec_C10"],
             gens.with_histories(gens.gen_C10, every=5),
             "exhaustive: interface oneway x method oneway x 17 return categories; 2-3 methods over {void,int,Par,Nope} x oneway "
             "with constants mixed in (3 methods sampled 25% in quick); oneway keyword after annotations/comments; random projects; "
             "generated interfaces in wild layouts (comments ended by LF, CRLF or a lone CR before the keyword): the oneway keywords "
             "the text spells are the flags of the parse-stage tree",
             runs=[("validate", "V", ["corr_C10", "spec_C10"]), ("parse", "P", [])], py_oracle=gens.o_C10),
    "C15": P(["Model/Traverse.v", "Spec/Nodes.v", "Proofs/Traverse.v", "Properties/C15.v"], [],
             lambda rng, tier: gens.gen_projects(rng, tier, 400, 6000),
             "hand-picked + random projects (all item kinds, member mixes, types nested to depth 4), validated; for each file with a "
             "tree: the three levels' visit sequences, filter/find for every symbol kind, every name (plus an absent one) and every "
             "'k-th visited' predicate incl. one past the end; walk_types/walk_methods/walk_args",
             runs=[("traverse", "T", ["corr_C15", "spec_C15"])],
             assumptions=["the hand-written Coq model (Model/Traverse.v) corresponds to src/traverse.rs and src/symbol.rs: checked on every run, not proved",
                          "FnMut visitor closures modelled as state-passing functions"]),
    "C16": P(["Model/Traverse.v", "Spec/Nodes.v", "Proofs/Traverse.v", "Properties/C16.v"], [],
             lambda rng, tier: gens.gen_C16(rng, tier),
             "hand-picked + random projects in all layouts (multi-line, CRLF, multi-byte text and Unicode whitespace before names) and three "
             "documents with lines longer than 2^16 columns (sparse positions + every position inside a name); "
             "for each file with a tree, find_symbol_at_line_col at every character position (plus one past each line end, a line "
             "past the end and (0,0)) x the three levels",
             runs=[("lookup", "L", ["corr_C16", "spec_C16"])],
             assumptions=["model of traverse.rs tied to the code by the correspondence; line/column pairs are the library's own (C04 checks them)"]),
    "C17": P(["Model/Traverse.v", "Spec/Nodes.v", "Proofs/Names.v", "Properties/C17.v"], [],
             lambda rng, tier: gens.gen_projects(rng, tier, 400, 6000),
             "hand-picked + random multi-file projects (also with white space, line breaks and comments inside dotted names): every item "
             "kind x package depth x referencing position; names and qualified names of every visited symbol (T lines), the item's and the "
             "package's qualified name against the dotted names read off the text, and for every reference resolved to an item the "
             "existence of a file whose item symbol carries that key (V lines)",
             runs=[("traverse", "T", ["spec_C17_names", "corr_C15"]), ("validate", "V", ["spec_C17_refs"])],
             x_checks=["itemq", "pkgq"], post=gens.post_C17,
             assumptions=["model of symbol.rs tied to the code by the correspondence",
                          "the dotted package name and 'package.Name' are read off the source text by lib/gens.expected_names (comments out, "
                          "white space removed), independently of the library"]),
    "C11": P(["Proofs/Pipeline.v", "Proofs/Locality.v"] + MASTER + ["Properties/C11.v"], ["spec_C11_sorted", "corr_validate"],
             gens.gen_C11,
             "hand-picked (several diagnostics on one line, ambiguous imports, duplicate keys of different kinds, files without a "
             "tree) + random projects, some squeezed onto one line / broken / with a duplicate key; each project validated twice, "
             "rebuilt in up to 4 other insertion orders and in another thread (fresh hash seeds each time) and compared",
             x_checks=["determinism", "keys"],
             assumptions=ASSUME_VALID + ["separate threads and fresh parser instances are exercised by the harness; separate processes "
                                         "are not modelled (the library has no global state: checked syntactically by lib/static_checks.py)"]),
    "C12": P(["Model/ParserState.v", "Proofs/ParserState.v", "Properties/C12.v"], [],
             gens.gen_C12,
             "exhaustive operation sequences to length 2 (quick) / 3 (thorough) over {add(3 ids x 4 contents), remove(3 ids), validate, "
             "add_file ok/missing/invalid UTF-8}, plus random histories of length 3-40 over generated projects; after EVERY step the "
             "real parser's validate() is compared with a fresh parser holding the abstract map, and its key set with the model's",
             runs=[("history", "H", ["corr_C12"])], x_checks=["history"],
             assumptions=["Model/ParserState.v corresponds to src/parser.rs (checked on key sets per step); parse is a parameter of the theorems",
                          "add_file exercised with real temporary files (existing, missing, invalid UTF-8)"]),
    "C13": P(["Proofs/Locality.v"] + MASTER + ["Properties/C13.v"], ["corr_validate"],
             gens.with_histories(gens.gen_C13),
             "random projects; target = first file; perturbations of the rest: add an unrelated file, remove a non-imported file, "
             "rewrite body/imports/docs of every other file keeping package, name and kind, put a malformed (recovered) member into every "
             "other file's body; the digest of the target's result "
             "(tree + diagnostics incl. messages) must not change; kind changes of imported files are run as negative control and counted",
             x_checks=["perturb"], post=gens.post_C13),
    "C20": P(["Model/Diag.v", "Proofs/Diag.v", "Properties/C20.v"], [],
             gens.gen_C20,
             "hand-picked error points + for each generated document 6 token-level prefixes followed by nothing / one / two tokens of the "
             "full vocabulary (incl. unlexable characters) and 3 token-level mutations; for every syntax error that carries an "
             "expectation vector (hook) the names read back from the message are compared with the vector (sizes 0-15); a case is "
             "non-trivial when distinct",
             runs=[("parse", "P", ["spec_C20", "corr_C20", "corr_parse"])],
             assumptions=["the formatter model (Model/Diag.v) corresponds to expected_token_str: checked on every message of the run",
                          "the expectation vector is the one recorded by the verif-hooks recorder in from_parse_error",
                          "KNOWN FINDING: names are dropped for vectors of 3 or more (theorem C20_known); only that exact class is tolerated"]),
    "C19": P(["Model/SerdeBase.v", "Gen/SerdeSpec.v", "Model/Serde.v", "Proofs/Serde.v", "Properties/C19.v"], [],
             lambda rng, tier: gens.gen_projects(rng, tier, 800, 10000),
             "hand-picked + random multi-file projects (all type kinds incl. resolved items and built-ins, all optional fields present "
             "and absent, oneway methods, annotations with parameters, docs, values); every tree straight from parsing and after "
             "validation goes through ron::to_string / ron::from_str and is compared with ==; the Coq model round-trips the same trees",
             runs=[("serde", "S", ["corr_C19"])], x_checks=["serde"],
             assumptions=["the model stops at serde's data model: serde_derive's expansion and the RON text layer are modelled / exercised, not verified",
                          "field attributes are regenerated from src/ast.rs on every run (translate/serde_attrs.py)"]),
}

import parse_props  # noqa: E402
PROPS.update(parse_props.PARSE_PROPS)
