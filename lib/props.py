"""Registry: per property, what is proved (Coq files), what is compared (harness modes / checks), how cases are made."""
import itertools, random
import gen

TB_COMMON = [
    "Coq 8.16.1 kernel (coqc); vm_compute for finite facts; no native_compute",
    "translate/*.py (Rust tables -> coq/Gen/*.v), cross-checked by the correspondence",
    "extraction to OCaml with ExtrOcamlBasic only (Extract Inductive bool/option/list/prod/unit/sumbool/sumor; no Extract Constant), OCaml 4.13.1, runner/driver.ml",
    "Rust harness + S-expression printer (harness/src), Coq decoders Run/Sx.v, generators lib/gen.py",
    "modelled rather than verified: std HashMap/HashSet as lists (membership/lookup/min only), Vec::sort_by_key as a stable insertion sort, message wording not modelled",
]
ASSUME_VALID = [
    "the hand-written Coq model (Model/Validation.v) corresponds to src/validation.rs: checked on every run on the generated cases, not proved",
    "trees fed to the validation model are the implementation's own parse-stage trees (hook verif_parse_results)",
]


def nm(name, files):
    return {"name": name, "files": files}


def iface(members, oneway=False, imports=(), head="package p;"):
    return head + "".join(f"import {i};" for i in imports) + ("oneway " if oneway else "") + "interface I{" + "".join(members) + "}"


# ------------------------------------------------------------------ C09
def gen_C09(rng, tier):
    cases = []
    names = ["a", "b", "c"]
    codes = [None, "1", "2", "3"]
    alphabet = [(n, c) for n in names for c in codes]
    maxlen = 3 if tier == "quick" else 4

    def render(seq, consts_at=()):
        ms = []
        for i, (n, c) in enumerate(seq):
            if i in consts_at:
                ms.append(f"const int K{i}={i};")
            ms.append(f"void {n}()" + (f"={c}" if c is not None else "") + ";")
        return iface(ms)
    k = 0
    for L in range(1, maxlen + 1):
        for seq in itertools.product(alphabet, repeat=L):
            cases.append(nm(f"ex{k}", [("f", render(seq))]))
            k += 1
    nrand = 600 if tier == "quick" else 6000
    for i in range(nrand):
        L = rng.choice([4, 5, 5, 6, 8, 12])
        seq = []
        for _ in range(L):
            n = rng.choice(names + ["d", "e"])
            c = rng.choice([None, None, "1", "2", "3", "007", "7", "0", "00", "4294967295", "4294967296", "99999999999"])
            seq.append((n, c))
        consts = {j for j in range(L) if rng.random() < 0.2}
        cases.append(nm(f"r{i}", [("f", render(seq, consts))]))
    return cases


PROPS = {
    "C09": {
        "coq_files": ["Spec/Methods.v", "Proofs/Methods.v", "Properties/C09.v"],
        "runs": [("validate", "V", ["corr_C09", "spec_C09"])],
        "x_checks": [],
        "gen": gen_C09,
        "level": "proof",
        "rule": "exhaustive method sequences over 3 names x {no code,1,2,3} up to length 3 (quick) / 4 (thorough), plus random "
                "sequences of length 4-12 with zero-padded, large and overflowing codes and interleaved constants; a case is "
                "non-trivial when distinct as (files) text; every case has at least one method",
        "trusted_base": TB_COMMON,
        "assumptions": ASSUME_VALID,
    },
}
