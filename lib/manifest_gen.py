#!/usr/bin/env python3
"""Rewrites /verif/MANIFEST.json from the table below (keeps it schema-valid)."""
import json, os, sys
VERIF = os.path.dirname(os.path.dirname(os.path.abspath(__file__)))

NOTE = ("trusted: Coq 8.16.1 kernel; the hand-written Gallina model of the code (tied to /repo by the correspondence run on "
        "every check, not by proof); regenerated tables (translate/*.py); extraction with ExtrOcamlBasic only; Rust harness, "
        "OCaml driver, generators. Std hash containers modelled as lists; message wording not modelled.")

CLAIMS = {
    "C05": ("proof", "Coq theorems: the model's resolution of a written name equals the scoping rules of the statement (C05_rules); every "
            "type node at every depth is re-kinded and exactly the nodes left unresolved get one Error (C05_depth, C05_no_silent); "
            "whole-file result = specified tree + specified diagnostics (C05_file); import matching is sound/complete and near "
            "misses never match. Model tied to the code by differential runs on generated multi-file projects.",
            "Coq proof (structural induction over nested type trees, list invariants) + differential correspondence"),
    "C06": ("proof", "Coq theorems: the import and forward-declaration passes emit a permutation of the per-statement specification "
            "(first-occurrence based, exactly one diagnostic per declaration, at most one per import), 'used' = some type node at "
            "any depth resolves to the key; lifted to the whole-file result. Correspondence on generated projects.",
            "Coq proof (induction with a first-occurrence invariant, permutations) + differential correspondence"),
    "C07": ("proof", "Coq theorems: the requirement table regenerated from validation.rs equals the statement's table for all 17 categories; "
            "per argument exactly expected_dir_errors Errors on the direction range; pipeline order (kind after resolution, oneway "
            "after propagation). Correspondence exhaustive over category x direction x oneway flags x position, plus random projects.",
            "Coq proof (finite case analysis on regenerated tables, pipeline theorem) + exhaustive differential correspondence"),
    "C08": ("proof", "Coq theorems: regenerated element tables equal the statement's tables; check_containers over grammar-shaped trees "
            "equals the structural specification over every container at every depth and cannot hit an arity panic. Correspondence "
            "exhaustive over container shapes to depth 2 (3 sampled in thorough).",
            "Coq proof (nested induction on type trees) + bounded-exhaustive differential correspondence"),
    "C09": ("proof", "Coq theorems: for every method sequence the model of check_methods emits exactly the prefix-based specification "
            "(C09_methods) and unique names with no/unique codes give none of the three diagnostics (C09_clean). Correspondence "
            "exhaustive over short sequences, random long ones.",
            "Coq proof (induction with a state invariant) + differential correspondence"),
    "C10": ("proof", "Coq theorems: set_up_oneway = (propagated tree, one Warning per redundant keyword); flags after propagation are "
            "interface-or-method; nothing else changes; the void rule is judged after propagation (pipeline theorem). "
            "Correspondence exhaustive over interface/method oneway x 17 return categories.",
            "Coq proof + exhaustive differential correspondence"),
}
CLAIMS.update({
    "C11": ("proof", "Coq theorems: the item-key environment, every file's tree and ordered diagnostic list, and the whole validate() result do "
            "not depend on the order in which files are held (C11_environment/_file/_validate: permutation invariance, incl. "
            "duplicate keys); diagnostics are sorted by start offset and the sort is stable. In the repaired code no hash container is "
            "iterated, so the model has no order oracle left. Separate threads/instances are exercised by the harness (repeat, "
            "re-insert in other orders, other thread); separate processes are not modelled.",
            "Coq proof (permutation invariance of a fold with a commutative merge, sortedness/stability) + repetition/shuffling harness"),
    "C12": ("proof", "Coq theorem (refinement): for every operation sequence and every parse function and file system, the parser state "
            "equals that of a fresh parser holding the abstract id->content map, hence validate() agrees (C12_history); map laws for "
            "replace/remove; validate is pure; failing add_file changes nothing. The real Parser is driven through the same histories "
            "and compared after every step with a fresh Parser and with the model's key set.",
            "Coq refinement proof to an abstract map + history-driven differential testing"),
    "C13": ("proof", "Coq theorem: validate_file consults the environment only at the qualified names of the file's own imports "
            "(C13_local), lifted to projects (C13_project), with a computed negative control. The implementation is exercised with "
            "project perturbations that keep those facts and its result digest compared.",
            "Coq proof (locality of environment lookups) + perturbation testing of the implementation"),
    "C15": ("proof", "Coq theorem: for every (stateful, possibly breaking) visitor the model of walk_symbols_with_control_flow behaves as running "
            "the visitor over the plain node list symbols(level, tree) -- hence filter = filter, find = first match for every predicate "
            "incl. the package, levels are the stated sub-sequences, every type at every depth with array elements first. Model tied to "
            "traverse.rs/symbol.rs by comparing visit sequences, filter/find results for kind/name/k-th predicates on generated trees.",
            "Coq proof (monadic laws, nested induction on type trees) + differential correspondence"),
    "C16": ("proof", "Coq theorems: range_contains is inclusive containment in the lexicographic (line, column) order; position lookup returns "
            "the first symbol of the level whose range contains the position, or nothing (C16_lookup/_found/_none). Correspondence at "
            "every character position of generated documents x three levels.",
            "Coq proof + exhaustive-per-document differential correspondence"),
    "C17": ("proof", "Coq theorems: the item symbol's qualified name is package.Name = the registration key for all three kinds; a reference "
            "that the scoping rules resolve to an interface/parcelable/enum carries the key of a project file whose item symbol has "
            "exactly that qualified name and kind (C17_reference); member/import/package names as stated. Names compared on every "
            "visited symbol of generated multi-file projects.",
            "Coq proof + differential correspondence"),
})
CLAIMS.update({
    "C19": ("proof", "Coq theorems at the level of serde's data model: a struct field comes back, written or skipped, whenever its skip predicate "
            "agrees with its missing-field default (C19_field); with the attribute tables regenerated from ast.rs every tree round-trips "
            "(C19_roundtrip, nested induction with fuel = tree depth, no hypotheses). The real library round-trips every parsed and "
            "validated tree of the run through RON and compares with ==; the model round-trips the same trees.",
            "Coq proof over regenerated serde attribute tables + RON round trip of the implementation",
            NOTE + " RON text layer and serde_derive's expansion are modelled, not verified."),
    "C20": ("proof", "Coq theorems about the formatter as it is: names interpolated = the whole vector below three names, = the vector minus exactly "
            "v[len-2] from three on (C20_known), never anything outside the vector (C20_nothing_extra), and the text is built from exactly "
            "those names. The defect is a recorded known finding (the test suite pins the truncated wording). The check compares, for "
            "every syntax error of the run, the names read back from the real message with the expectation vector recorded by the hook "
            "and tolerates only that exact class.",
            "Coq proof of the formatter's law in known-finding form + hook-based differential check"),
})
PARSE_NOTE = NOTE + (" The table-driven parser model (lexer, LR driver with error recovery, every action function, javadoc scanner) is "
                     "regenerated/transcribed from the lalrpop output of the build under test and must equal add_content exactly "
                     "(tree, all ranges, all diagnostics with messages) on every input of the run.")
CLAIMS.update({
    "C01": ("proof", "Coq theorems, for every source text and the regenerated lexer, LR and action tables: add_content always stores a "
            "result (C01_parse_total) -- the parser never panics (C01_parse_partial, C01_reductions_typed: a typed-stack invariant whose "
            "table-specific parts are finite checks computed by Coq over all 256 states and 210 productions) and its loops never exhaust "
            "their fuel (C01_loops_terminate: no run of reductions exceeds a bound computed from the tables, recovery's accepts simulation "
            "keeps its promise, every dropped token shortens the text; C01_inner_loops_fuel_immaterial, C01_lexer_fuel_immaterial, "
            "C01_regex_fuel_immaterial); validation of grammar-shaped trees "
            "cannot panic (C01_validation_total) and every tree the parser stores is grammar-shaped (C01_parsed_tree_is_grammar_shaped, "
            "C01_parsed_tree_validates), so validate over any set of held files -- and after any history of add_content / remove / add_file / "
            "validate (C01_any_history) -- returns one result per file tagged with its id (C01_total, C01_ids); one slot per id after any history (C01_slots); every position is a character boundary inside the text "
            "(C01_positions_partial). The theorems are about the Gallina model: the regenerated tables plus the hand-written transcription of "
            "lalrpop-util's lexer and driver, the user actions and validation, tied to the code by the exact correspondence of every run; the "
            "regex engine and line-col are modelled; native stack depth and running time are observed, not proved. Also decided by running: "
            "exact parser model vs implementation on soups, mutated documents, Unicode injection, multi-file sets, histories, deep nesting "
            "and large inputs under catch_unwind and a timeout.",
            "Coq proof (typed-stack safety invariant and termination of the table-driven parser over the regenerated tables, validation totality, bookkeeping, position soundness) + exact differential correspondence + crash/timeout harness",
            PARSE_NOTE),
    "C02": ("proof", "PARTIAL proof. Coq theorem C02_tree_is_a_function_of_the_tokens: two texts that the regenerated lexer cuts into the same tokens "
            "(same table entry and text; offsets, whitespace, line endings, comments free) give trees that are equal once ranges and "
            "documentation are erased -- a lockstep simulation of two runs of the table-driven parser (through error recovery), resting on "
            "the fact, proved for every generated and user action, that erasure is a homomorphism of the actions. NOT proved: that trivia "
            "between two tokens leaves the token sequence unchanged, and that the tree mirrors the abstract document; those are decided by "
            "the mirror oracle (implementation's tree vs the abstract document each test was rendered from, 4 layouts per document) and "
            "the exact correspondence of the implementation with the parser model.",
            "Coq proof (tree modulo positions/docs is a function of the token sequence) + generator-based mirror oracle + exact differential correspondence",
            PARSE_NOTE),
    "C03": ("proof", "PARTIAL proof. Coq theorems, for every text and the regenerated tables: a stored result without a tree carries an Error "
            "(C03_no_silent_failure); no user-chosen identifier stored in a tree -- package/import segment, item, member, argument, enum "
            "element, annotation-parameter name, user type name segment at any depth -- is an AIDL keyword or reserved Java/C++ word "
            "(C03_names_never_keywords; at the lexer: C03_ident_never_keyword, C03_token_not_later_word); validation never drops a diagnostic "
            "(C03_kept, C03_kept_all); a result without an Error diagnostic means the text's token sequence is derivable from the start "
            "symbol of the regenerated grammar, hence a malformed document always gets an Error (C03_no_error_means_wellformed, "
            "C03_malformed_is_loud); every derivable token sequence starts with the package keyword (FIRST of the regenerated grammar, closure-checked), so "
            "a text that omits the package always gets an Error (C03_wellformed_starts_with_package, C03_no_package_is_loud). NOT proved: the converse, well-formed => no syntax diagnostic (completeness of the LALR tables). "
            "Decided by running: documents well-formed / malformed by construction, mutations and soups, lexical corner cases, "
            "against the oracles 'well-formed => silent', 'malformed-by-construction => Error', plus exact correspondence with the parser model.",
            "Coq proof (Error-free => derivable in the regenerated grammar, loud failure, identifiers never keywords, diagnostic preservation) + construction-based oracles + exact differential correspondence",
            PARSE_NOTE),
    "C04": ("proof", "PARTIAL proof. Coq theorems: every position of everything add_content stores -- every range of every tree node, every syntax "
            "diagnostic -- is the lookup's answer at a character boundary inside the text (C04_stored_positions: all texts, any tables); "
            "every diagnostic validation adds to a stored tree sits, with its related ranges, on the range of a node of that tree "
            "(C04_validation_on_nodes); every range of every stored tree node and syntax diagnostic has start <= end (C04_ranges_ordered: "
            "the stack's symbols occupy consecutive stretches of the text and an abstract run of every production's action, computed by Coq "
            "over the regenerated action table, shows positions are passed on in text order); every node's full range contains its name range "
            "and every range of its descendants (C04_ranges_nested); sibling full ranges are disjoint and increasing "
            "(C04_siblings_disjoint_increasing); the diagnostics validation adds are ordered as well "
            "(C04_validated_diagnostics_ordered); Position::new is sound (C04_position, C04_range_partial, C04_boundary). NOT proved: "
            "exactness of name and full ranges. Those are decided by text-based oracles on "
            "the implementation's output (name range covers exactly the name as written, full ranges first-to-last token, children inside "
            "parents, siblings increasing, syntax diagnostics on exactly the offending token, validation diagnostics on a node's range, the "
            "lookup table checked against the line/column specification) and by exact correspondence with the parser model.",
            "Coq proof (position soundness) + text-based range oracles + exact differential correspondence",
            PARSE_NOTE),
    "C14": ("proof", "PARTIAL proof. Coq theorems, for every text and the regenerated tables: a text whose token sequence is not derivable from "
            "the start symbol -- what a malformed member makes it -- always gets at least one Error (C14_malformed_is_reported); once error "
            "recovery has left its mark (an error symbol on the stack or an Error pushed) no later outcome is silent "
            "(C14_recovery_is_never_silent); recovery never panics and keeps the stack well typed (C01_parse_partial). KNOWN FINDING "
            "(known_findings.txt; Coq witness C14_known): in an enum body a malformed member that opens an annotation parenthesis without "
            "closing it absorbs its terminating comma and the following elements; only that class is tolerated. NOT proved: that the "
            "tree still holds every well-formed sibling and that every syntax Error lies inside the member's extent. Those are decided by "
            "an oracle on the implementation -- random garbage members at every position of generated items: a tree exists, the well-formed "
            "siblings are a subsequence of the members, at least one Error, every syntax Error inside the garbage's extent -- and by the "
            "exact correspondence with the table-driven Coq parser model (which reproduces lalrpop's recovery, dropped tokens included).",
            "Coq proof (a malformed text always gets an Error; recovery is never silent; no panic) + garbage-member oracle + exact differential correspondence; one known finding",
            PARSE_NOTE),
    "C18": ("proof", "PARTIAL proof. Coq theorems: for any text before, any comment text without '/' not starting with '*' (any Unicode), and any blank "
            "gap -- also a gap that contains ordinary block comments and line comments (C18_locate_gap, C18_attach_gap) -- the back-scan "
            "returns exactly the comment's text and get_javadoc its normalisation (C18_locate, C18_attach); a construct "
            "preceded by a non-comment on its line has no documentation (C18_none_partial). The normaliser (its three regular expressions "
            "are regenerated from src/javadoc.rs) is decided by the generator-based oracle (expected text per construct, 36 explicit "
            "arrangements) and exact correspondence.",
            "Coq proof (state-machine induction over the reversed text) + generator-based documentation oracle + exact differential correspondence",
            PARSE_NOTE),
})
PENDING = {}

def main():
    props = [json.loads(l)["id"] for l in open(os.path.join(VERIF, "properties.jsonl"))]
    extra = {}
    try:
        sys.path.insert(0, os.path.join(VERIF, "lib"))
        import manifest_claims
        extra = manifest_claims.CLAIMS
        PENDING.update(getattr(manifest_claims, "PENDING", {}))
    except ImportError:
        pass
    claims = dict(CLAIMS, **extra)
    checks = []
    for pid in props:
        if pid not in claims:
            continue
        level, text, tech = claims[pid][:3]
        note = claims[pid][3] if len(claims[pid]) > 3 else NOTE
        checks.append({
            "property_id": pid, "quick_cmd": f"./check {pid} quick", "thorough_cmd": f"./check {pid} thorough",
            "evidence_file": f"/verif/evidence/{pid}.json", "replay_cmd_template": f"./check {pid} --replay {{path}}",
            "engine": "coq-model", "level_claimed": {"category": level, "text": text, "design_ref": f"DESIGN.md section 5 {pid}"},
            "level_note": note, "technique": tech})
    m = {
        "version": 1, "setup_cmd": "./setup.sh",
        "hooks": {"guard": "cargo feature verif-hooks (off by default)",
                  "enable": "harness/Cargo.toml depends on aidl-parser = { path = \"/repo\", features = [\"verif-hooks\"] }",
                  "baseline_off_cmd": "cd /repo && cargo test --workspace --no-fail-fast --offline",
                  "source_commits": ["b15e9e8"], "add_only": True},
        "engines": [{"name": "coq-model", "path": "coq/", "serves_properties": [c["property_id"] for c in checks],
                     "kind_free_text": "Coq 8.16 model + theorems (coq/), Rust harness (harness/), extracted OCaml runner (runner/), python orchestration (check, lib/)"}],
        "checks": checks,
        "not_applicable": [{"property_id": p, "reason": PENDING.get(p, "check under construction in this session; claimed once its machinery is committed")}
                           for p in props if p not in claims],
        "notes": "All checks: ./check <id> quick|thorough [--replay file]; see DESIGN.md. Fixes of genuine defects are the `fix:` commits in /repo listed in known_findings.txt.",
    }
    json.dump(m, open(os.path.join(VERIF, "MANIFEST.json"), "w"), indent=1)

if __name__ == "__main__":
    main()
