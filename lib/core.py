"""Orchestration shared by all checks: build, harness runs, Coq evaluation of cases, verdicts, evidence."""
import os, sys, subprocess, time, json, hashlib, re, shutil
from concurrent.futures import ThreadPoolExecutor

VERIF = os.path.dirname(os.path.dirname(os.path.abspath(__file__)))
REPO = os.environ.get("VERIF_REPO", "/repo")
COQ = os.path.join(VERIF, "coq")
WORK = os.path.join(VERIF, "work")
CACHE = os.path.join(VERIF, ".cache")
HARNESS_BIN = os.path.join(CACHE, "target", "debug", "aidl-verif-harness")
ENV = dict(os.environ, CARGO_NET_OFFLINE="true")

sys.path.insert(0, os.path.join(VERIF, "translate"))


def sh(cmd, timeout=1800, cwd=None, env=None):
    p = subprocess.run(cmd, shell=isinstance(cmd, str), cwd=cwd, env=env or ENV, timeout=timeout,
                       stdout=subprocess.PIPE, stderr=subprocess.STDOUT, text=True, errors="replace")
    return p.returncode, p.stdout


# ------------------------------------------------------------------ build steps
class BuildError(Exception):
    def __init__(self, stage, detail):
        super().__init__(f"{stage}: {detail[-2000:]}")
        self.stage = stage
        self.detail = detail


def build_harness():
    """cargo build of the harness against /repo's working tree (hooks on)"""
    hdir = os.path.join(VERIF, "harness")
    lock_src = os.path.join(REPO, "Cargo.lock")
    rc, out = sh(["cargo", "build", "--offline", "--target-dir", os.path.join(CACHE, "target")], cwd=hdir, timeout=1500)
    if rc != 0:
        raise BuildError("cargo-build", out)
    return out


def generated_aidl_rs():
    """the aidl.rs that lalrpop generated for the harness build (newest)"""
    best = None
    bdir = os.path.join(CACHE, "target", "debug", "build")
    if os.path.isdir(bdir):
        for d in os.listdir(bdir):
            p = os.path.join(bdir, d, "out", "aidl.rs")
            if d.startswith("aidl-parser-") and os.path.exists(p):
                if best is None or os.path.getmtime(p) > os.path.getmtime(best):
                    best = p
    return best


def regenerate():
    """rewrite coq/Gen/*.v from /repo (only when changed). Returns list of translator errors."""
    errors = []
    import rust_tables
    gen = os.path.join(COQ, "Gen")
    for name, fn in (("ValTables.v", rust_tables.gen_val_tables), ("Builtins.v", rust_tables.gen_builtins)):
        try:
            rust_tables.write_if_changed(os.path.join(gen, name), fn(REPO))
        except rust_tables.TranslateError as e:
            errors.append(f"translate:{name}: {e}")
    try:
        import extra_translators
        errors += extra_translators.regenerate_all(REPO, gen, generated_aidl_rs())
    except ImportError:
        pass
    return errors


def coq_make(targets=None, timeout=2400):
    """full .vo build through coq_makefile (never -vos). Returns (ok, log)."""
    if not os.path.exists(os.path.join(COQ, "Makefile")) or \
            os.path.getmtime(os.path.join(COQ, "Makefile")) < os.path.getmtime(os.path.join(COQ, "_CoqProject")):
        rc, out = sh("coq_makefile -f _CoqProject -o Makefile", cwd=COQ)
        if rc != 0:
            return False, out
    cmd = ["make", "-j16", "-k"] + (targets or [])
    rc, out = sh(cmd, cwd=COQ, timeout=timeout)
    return rc == 0, out


FORBIDDEN = re.compile(r"\b(Admitted|admit|Axiom|Parameter|Conjecture|Abort All)\b|Unset\s+Guard|bypass_check|type-in-type|Admit Obligations")


def hygiene():
    """no Admitted/Axiom/... anywhere in the development (comments excluded crudely by stripping (* *))"""
    bad = []
    for root, _, files in os.walk(COQ):
        for f in files:
            if f.endswith(".v"):
                src = open(os.path.join(root, f), errors="replace").read()
                src = re.sub(r"\(\*.*?\*\)", "", src, flags=re.S)
                for m in FORBIDDEN.finditer(src):
                    bad.append(f"{os.path.relpath(os.path.join(root, f), COQ)}: {m.group(0)}")
    return bad


def vo_ok(path_v):
    vo = os.path.join(COQ, path_v[:-2] + ".vo")
    return os.path.exists(vo)


def assumptions_of(prop_file_log):
    """parse `Print Assumptions` output captured in the make log of a Properties file"""
    return prop_file_log


# ------------------------------------------------------------------ cases
def write_cases(path, cases):
    with open(path, "w") as f:
        for c in cases:
            f.write(f"CASE {c['name']}\n")
            for fid, text in c.get("files", []):
                f.write(f"FILE {fid} {text.encode('utf-8').hex()}\n")
            for op in c.get("ops", []):
                if op[0] == "add":
                    f.write(f"OP ADD {op[1]} {op[2].encode('utf-8').hex()}\n")
                elif op[0] == "remove":
                    f.write(f"OP REMOVE {op[1]}\n")
                elif op[0] == "validate":
                    f.write("OP VALIDATE\n")
                elif op[0] == "addfile":
                    if op[2] == "missing":
                        f.write(f"OP ADDFILE {op[1]} missing\n")
                    else:
                        data = op[3] if isinstance(op[3], bytes) else op[3].encode("utf-8")
                        f.write(f"OP ADDFILE {op[1]} {op[2]} {data.hex()}\n")
            f.write("END\n")


RUNNER_DIR = os.path.join(CACHE, "runner")
RUNNER_BIN = os.path.join(RUNNER_DIR, "runner")


def build_runner():
    """extract the executable model (Run/Extract.v) and compile the OCaml driver around it"""
    os.makedirs(RUNNER_DIR, exist_ok=True)
    rc, out = sh(["coqc", "-Q", COQ, "AidlV", os.path.join(COQ, "Run", "Extract.v")], cwd=RUNNER_DIR, timeout=600)
    if rc != 0:
        raise BuildError("extraction", out)
    shutil.copy(os.path.join(VERIF, "runner", "driver.ml"), os.path.join(RUNNER_DIR, "driver.ml"))
    rc, out = sh(["ocamlfind", "ocamlopt", "-O2", "-w", "-a", "model.mli", "model.ml", "driver.ml", "-o", "runner"],
                 cwd=RUNNER_DIR, timeout=600)
    if rc != 0:
        raise BuildError("ocamlopt", out)


def run_harness(mode, cases, tag, shards=16, timeout=900, keep_lines=True):
    """run the real library on the cases.  returns (lines: {prefix: [(name, sexp-line)]}, xs: [(name, check, verdict, detail)])
    Each shard's raw output is also left in WORK/<tag>.<mode>.<i>.out for the model runner."""
    os.makedirs(WORK, exist_ok=True)
    shards = max(1, min(shards, len(cases)))
    chunks = [cases[i::shards] for i in range(shards)]

    def one(i):
        path = os.path.join(WORK, f"{tag}.{mode}.{i}.cases")
        outp = os.path.join(WORK, f"{tag}.{mode}.{i}.out")
        write_cases(path, chunks[i])
        with open(outp, "w") as fo:
            p = subprocess.run([HARNESS_BIN, mode, path], stdout=fo, stderr=subprocess.PIPE,
                               timeout=timeout, text=True, errors="replace")
        return p.returncode, outp, p.stderr

    xs, outs = [], []
    with ThreadPoolExecutor(max_workers=shards) as ex:
        results = list(ex.map(one, range(shards)))
    for i, (rc, outp, err) in enumerate(results):
        done = set()
        outs.append(outp)
        with open(outp, errors="replace") as f:
            for line in f:
                if line.startswith("X "):
                    p = line.rstrip("\n").split(" ", 4)
                    xs.append((p[1], p[2], p[3], p[4] if len(p) > 4 else ""))
                    if p[2] == "done":
                        done.add(p[1])
        if rc != 0:
            # the process died (abort / stack overflow / kill): the first case not marked done is the culprit
            for c in chunks[i]:
                if c["name"] not in done:
                    xs.append((c["name"], "abort", "FAIL", f"harness exit {rc}: {err[-300:]}"))
                    break
    return outs, xs


def run_model(outs, prefix, checks, timeout=900):
    """run the extracted Coq checks on the harness output files. returns {check: {name: verdict}}"""
    def one(outp):
        with open(outp) as fi:
            p = subprocess.run([RUNNER_BIN, prefix] + list(checks), stdin=fi, stdout=subprocess.PIPE,
                               stderr=subprocess.PIPE, timeout=timeout, text=True)
        return p.returncode, p.stdout, p.stderr
    res = {c: {} for c in checks}
    errors = []
    with ThreadPoolExecutor(max_workers=16) as ex:
        for rc, out, err in ex.map(one, outs):
            if rc != 0:
                errors.append(f"runner exit {rc}: {err[-500:]}")
            for line in out.split("\n"):
                if line:
                    name, c, v = line.rsplit(" ", 2)
                    res[c][name] = int(v)
    return res, errors


def sexp_to_coq(s):
    """the harness s-expression as a Coq term of type sx (for the vm_compute cross-check)"""
    out = []
    i = 0
    n = len(s)
    first = [True]
    while i < n:
        c = s[i]
        if c == "(":
            if not first[-1]:
                out.append("; ")
            first[-1] = False
            out.append("L [")
            first.append(True)
            i += 1
        elif c == ")":
            out.append("]")
            first.pop()
            i += 1
        elif c.isdigit():
            j = i
            while j < n and s[j].isdigit():
                j += 1
            if not first[-1]:
                out.append("; ")
            first[-1] = False
            out.append("A " + s[i:j])
            i = j
        else:
            i += 1
    return "".join(out)


def coq_eval(tag, lines, checks, timeout=900):
    """cross-check: evaluate `dispatch` on a few harness lines inside Coq with vm_compute.
    lines: [(name, sexp)].  returns {check: {name: verdict}}"""
    os.makedirs(WORK, exist_ok=True)
    path = os.path.join(WORK, f"vm_{tag}.v")
    with open(path, "w") as f:
        f.write("From AidlV Require Import Run.Harness.\nOpen Scope N_scope.\n")
        for k, (name, sexp) in enumerate(lines):
            f.write(f"Definition c{k} : sx := {sexp_to_coq(sexp)}.\n")
        for c in checks:
            f.write(f'Eval vm_compute in ("CHECK", "{c}", [' +
                    "; ".join(f'dispatch (lit "{c}") c{k}' for k in range(len(lines))) + "])%string.\n")
    p = subprocess.run(["coqc", "-noglob", "-Q", COQ, "AidlV", path], stdout=subprocess.PIPE,
                       stderr=subprocess.STDOUT, timeout=timeout, text=True, errors="replace", cwd=WORK)
    res = {c: {} for c in checks}
    if p.returncode != 0:
        return res, [p.stdout[-1500:]]
    flat = re.sub(r"\s+", " ", p.stdout)
    for m in re.finditer(r'\("CHECK"(?:%string)?, "(\w+)"(?:%string)?, \[([^\]]*)\]\)', flat):
        vals = re.findall(r"\d+", m.group(2))
        for (name, _), v in zip(lines, vals):
            res[m.group(1)][name] = int(v)
    return res, []


# ------------------------------------------------------------------ known findings
def known_findings():
    out = []
    p = os.path.join(VERIF, "known_findings.txt")
    if os.path.exists(p):
        for line in open(p):
            line = line.strip()
            if line.startswith("known:"):
                kv = dict(re.findall(r"(\w+)=(\S+)", line))
                out.append(kv)
    return out


# ------------------------------------------------------------------ reporting
def write_replay(prop, payload):
    d = os.path.join(VERIF, "replays")
    os.makedirs(d, exist_ok=True)
    blob = json.dumps(payload, indent=1, ensure_ascii=False, sort_keys=True)
    h = hashlib.sha1(blob.encode()).hexdigest()[:10]
    path = os.path.join(d, f"{prop}-{h}.json")
    with open(path, "w") as f:
        f.write(blob)
    return path


def write_evidence(prop, tier, seed, level, coverage, wall, violations, assumptions):
    d = os.path.join(VERIF, "evidence")
    os.makedirs(d, exist_ok=True)
    ev = {"property_id": prop, "tier": tier, "seed": seed, "level": level, "coverage": coverage,
          "assumptions": assumptions, "wall_s": round(wall, 2), "violations": violations}
    with open(os.path.join(d, f"{prop}.json"), "w") as f:
        json.dump(ev, f, indent=1, ensure_ascii=False)
