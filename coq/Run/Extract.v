(* Extraction of the executable model and comparison functions.  ExtrOcamlBasic only:
   bool, option, list, prod, unit, sumbool map to OCaml's; N / positive / nat / string stay Coq datatypes. *)
From AidlV Require Import Run.Harness.
Require Import ExtrOcamlBasic.
Extraction Language OCaml.
Extraction "model.ml" dispatch.
