(* Generic S-expressions printed by the Rust harness, and their decoding into the model's data types.
   atoms are numbers; strings are lists of code points; options are () / (x); records are positional. *)
From AidlV Require Export Model.Ast.

Inductive sx := A (n : N) | L (l : list sx).

Definition bind {X Y} (o : option X) (f : X -> option Y) : option Y :=
  match o with Some x => f x | None => None end.
Notation "'do' x <- e ; k" := (bind e (fun x => k)) (at level 200, x pattern, e at level 100, k at level 200).

Definition d_N (s : sx) : option N := match s with A n => Some n | _ => None end.
Definition d_bool (s : sx) : option bool :=
  match s with A 0 => Some false | A 1 => Some true | _ => None end.

Section Generic.
  Context {X : Type} (d : sx -> option X).
  Fixpoint d_all (l : list sx) : option (list X) :=
    match l with
    | [] => Some []
    | s :: l' => do x <- d s; do r <- d_all l'; Some (x :: r)
    end.
  Definition d_list (s : sx) : option (list X) := match s with L l => d_all l | _ => None end.
  Definition d_opt (s : sx) : option (option X) :=
    match s with L [] => Some None | L [x] => do v <- d x; Some (Some v) | _ => None end.
End Generic.

Definition d_str : sx -> option str := d_list d_N.
Definition d_ostr := d_opt d_str.

Definition d_rng (s : sx) : option range :=
  match s with
  | L [A a; A b; A c; A d; A e; A f] => Some (Rng (Pos a b c) (Pos d e f))
  | _ => None
  end.

Definition d_rkind (s : sx) : option rkind :=
  match s with
  | A 0 => Some RInterface | A 1 => Some RParcelable | A 2 => Some REnum
  | A 3 => Some RForward | A 4 => Some RUnknownImport | _ => None
  end.
Definition d_akind (s : sx) : option akind :=
  match s with
  | A 0 => Some AIBinder | A 1 => Some AFileDescriptor | A 2 => Some AParcelFileDescriptor
  | A 3 => Some AParcelableHolder | _ => None
  end.
Definition d_tkind (s : sx) : option tkind :=
  match s with
  | L [A 0] => Some KPrimitive | L [A 1] => Some KVoid | L [A 2] => Some KArray | L [A 3] => Some KMap
  | L [A 4] => Some KList | L [A 5] => Some KString | L [A 6] => Some KCharSequence
  | L [A 7; a] => do k <- d_akind a; Some (KAndroid k)
  | L [A 8; key; k] => do key' <- d_str key; do k' <- d_rkind k; Some (KResolved key' k')
  | L [A 9] => Some KUnresolved
  | _ => None
  end.

Fixpoint d_ty (s : sx) : option ty :=
  match s with
  | L [n; k; L g; sy; fu] =>
      do n' <- d_str n; do k' <- d_tkind k;
      do g' <- (fix go (l : list sx) : option (list ty) :=
                  match l with
                  | [] => Some []
                  | x :: l' => do t <- d_ty x; do r <- go l'; Some (t :: r)
                  end) g;
      do sy' <- d_rng sy; do fu' <- d_rng fu;
      Some (Ty n' k' g' sy' fu')
  | _ => None
  end.

Definition d_direction (s : sx) : option direction :=
  match s with
  | L [A 0; r] => do r' <- d_rng r; Some (DIn r')
  | L [A 1; r] => do r' <- d_rng r; Some (DOut r')
  | L [A 2; r] => do r' <- d_rng r; Some (DInOut r')
  | L [A 3] => Some DUnspecified
  | _ => None
  end.

Definition d_kv (s : sx) : option (str * option str) :=
  match s with L [k; v] => do k' <- d_str k; do v' <- d_ostr v; Some (k', v') | _ => None end.
Definition d_annot (s : sx) : option annotation :=
  match s with L [n; kvs] => do n' <- d_str n; do k' <- d_list d_kv kvs; Some (Annot n' k') | _ => None end.
Definition d_annots := d_list d_annot.

Definition d_arg (s : sx) : option arg :=
  match s with
  | L [d; n; t; an; doc; sy; fu] =>
      do d' <- d_direction d; do n' <- d_ostr n; do t' <- d_ty t; do an' <- d_annots an;
      do doc' <- d_ostr doc; do sy' <- d_rng sy; do fu' <- d_rng fu;
      Some (Arg d' n' t' an' doc' sy' fu')
  | _ => None
  end.

Definition d_method (s : sx) : option method :=
  match s with
  | L [ow; n; rt; args; an; code; doc; sy; fu; cr; owr] =>
      do ow' <- d_bool ow; do n' <- d_str n; do rt' <- d_ty rt; do args' <- d_list d_arg args;
      do an' <- d_annots an; do code' <- d_opt d_N code; do doc' <- d_ostr doc;
      do sy' <- d_rng sy; do fu' <- d_rng fu; do cr' <- d_rng cr; do owr' <- d_rng owr;
      Some (Method ow' n' rt' args' an' code' doc' sy' fu' cr' owr')
  | _ => None
  end.

Definition d_const (s : sx) : option const :=
  match s with
  | L [n; t; v; an; doc; sy; fu] =>
      do n' <- d_str n; do t' <- d_ty t; do v' <- d_str v; do an' <- d_annots an; do doc' <- d_ostr doc;
      do sy' <- d_rng sy; do fu' <- d_rng fu;
      Some (Const n' t' v' an' doc' sy' fu')
  | _ => None
  end.

Definition d_field (s : sx) : option field :=
  match s with
  | L [n; t; v; an; doc; sy; fu] =>
      do n' <- d_str n; do t' <- d_ty t; do v' <- d_ostr v; do an' <- d_annots an; do doc' <- d_ostr doc;
      do sy' <- d_rng sy; do fu' <- d_rng fu;
      Some (Field n' t' v' an' doc' sy' fu')
  | _ => None
  end.

Definition d_enum_elem (s : sx) : option enum_elem :=
  match s with
  | L [n; v; doc; sy; fu] =>
      do n' <- d_str n; do v' <- d_ostr v; do doc' <- d_ostr doc; do sy' <- d_rng sy; do fu' <- d_rng fu;
      Some (EnumElem n' v' doc' sy' fu')
  | _ => None
  end.

Definition d_ie (s : sx) : option iface_elem :=
  match s with
  | L [A 0; c] => do c' <- d_const c; Some (IEConst c')
  | L [A 1; m] => do m' <- d_method m; Some (IEMethod m')
  | _ => None
  end.
Definition d_pe (s : sx) : option parc_elem :=
  match s with
  | L [A 0; c] => do c' <- d_const c; Some (PEConst c')
  | L [A 1; f] => do f' <- d_field f; Some (PEField f')
  | _ => None
  end.

Definition d_item (s : sx) : option item :=
  match s with
  | L [A 0; ow; n; els; an; doc; fu; sy] =>
      do ow' <- d_bool ow; do n' <- d_str n; do els' <- d_list d_ie els; do an' <- d_annots an;
      do doc' <- d_ostr doc; do fu' <- d_rng fu; do sy' <- d_rng sy;
      Some (ItInterface (Interface ow' n' els' an' doc' fu' sy'))
  | L [A 1; n; els; an; doc; fu; sy] =>
      do n' <- d_str n; do els' <- d_list d_pe els; do an' <- d_annots an;
      do doc' <- d_ostr doc; do fu' <- d_rng fu; do sy' <- d_rng sy;
      Some (ItParcelable (Parcelable n' els' an' doc' fu' sy'))
  | L [A 2; n; els; an; doc; fu; sy] =>
      do n' <- d_str n; do els' <- d_list d_enum_elem els; do an' <- d_annots an;
      do doc' <- d_ostr doc; do fu' <- d_rng fu; do sy' <- d_rng sy;
      Some (ItEnum (Enum n' els' an' doc' fu' sy'))
  | _ => None
  end.

Definition d_import (s : sx) : option import :=
  match s with
  | L [p; n; sy; fu] =>
      do p' <- d_str p; do n' <- d_str n; do sy' <- d_rng sy; do fu' <- d_rng fu;
      Some (Import p' n' sy' fu')
  | _ => None
  end.

Definition d_aidl (s : sx) : option aidl :=
  match s with
  | L [L [pn; psy; pfu]; ims; decl; it] =>
      do pn' <- d_str pn; do psy' <- d_rng psy; do pfu' <- d_rng pfu;
      do ims' <- d_list d_import ims; do decl' <- d_list d_import decl; do it' <- d_item it;
      Some (Aidl (Package pn' psy' pfu') ims' decl' it')
  | _ => None
  end.

Definition d_diag (s : sx) : option diag :=
  match s with
  | L [A k; r; ctx; rel; msg] =>
      do k' <- (match k with 0 => Some DWarning | 1 => Some DError | _ => None end);
      do r' <- d_rng r; do ctx' <- d_ostr ctx; do rel' <- d_list d_rng rel; do msg' <- d_str msg;
      Some (Diag k' r' ctx' rel' msg')
  | _ => None
  end.

Definition d_fr (s : sx) : option file_result :=
  match s with
  | L [id; a; ds] =>
      do id' <- d_str id; do a' <- d_opt d_aidl a; do ds' <- d_list d_diag ds;
      Some (FR id' a' ds')
  | _ => None
  end.
