(* The comparison functions that the correspondence engine evaluates on harness output
   (extracted to OCaml for volume; the same definitions run under vm_compute for the cross-check). *)
From AidlV Require Export Run.Sx Model.Validation Spec.Methods.

(* verdicts: 0 = holds, 1 = fails, 2 = the harness output could not be decoded, 3 = unknown check *)
Definition run_bool {X} (d : sx -> option X) (f : X -> bool) (s : sx) : N :=
  match d s with None => 2 | Some x => if f x then 0 else 1 end.

Definition d_pair {X Y} (dx : sx -> option X) (dy : sx -> option Y) (s : sx) : option (X * Y) :=
  match s with L [a; b] => do a' <- dx a; do b' <- dy b; Some (a', b') | _ => None end.

(* V lines: (parse-stage results, validated results), both sorted by id *)
Definition d_vcase := d_pair (d_list d_fr) (d_list d_fr).

(* whole-result correspondence: model of validation applied to the implementation's parse-stage
   results equals what the implementation's validate() returned (messages not compared) *)
Definition corr_validate (c : list file_result * list file_result) : bool :=
  let '(p, v) := c in
  match validate p with
  | Ok r => list_eqb fr_eqb r v
  | Panic => false
  end.

(* ------------------------------------------------------------------ shared helpers *)
Fixpoint remove_first {X} (eqb : X -> X -> bool) (x : X) (l : list X) : option (list X) :=
  match l with
  | [] => None
  | y :: l' => if eqb x y then Some l'
               else match remove_first eqb x l' with Some r => Some (y :: r) | None => None end
  end.
(* equality as multisets *)
Fixpoint multiset_eqb {X} (eqb : X -> X -> bool) (l1 l2 : list X) : bool :=
  match l1 with
  | [] => is_empty l2
  | x :: l1' => match remove_first eqb x l2 with Some r => multiset_eqb eqb l1' r | None => false end
  end.

Definition ctx_is (c : string) (d : diag) : bool := ostr_eqb (d_ctx d) (Some (lit c)).
Definition ctx_none (d : diag) : bool := match d_ctx d with None => true | Some _ => false end.
Definition in_ranges (r : range) (l : list range) : bool := existsb (range_eqb r) l.

(* for every file that has a tree after validation: f parsed-tree validated-tree parse-stage-diags validated-diags *)
Definition for_files (f : aidl -> aidl -> list diag -> list diag -> bool)
           (c : list file_result * list file_result) : bool :=
  let '(p, v) := c in
  Nat.eqb (length p) (length v) &&
  forallb (fun '(fp, fv) =>
             str_eqb (fr_id fp) (fr_id fv) &&
             match fr_ast fp, fr_ast fv with
             | Some a, Some a' => f a a' (fr_diags fp) (fr_diags fv)
             | None, None => true
             | _, _ => false
             end) (combine p v).

(* model output for one file, given all parse-stage results *)
Definition model_file (p : list file_result) (a : aidl) (ds0 : list diag) : option (aidl * list diag) :=
  match validate_file (collect_item_keys p) a ds0 with Ok r => Some r | Panic => None end.

(* ------------------------------------------------------------------ C09 *)
(* the diagnostics that C09 is about, recognised by their context label and site *)
Definition is_c09 (a : aidl) (d : diag) : bool :=
  let code_ranges := map m_code_range (methods_of (ai_item a)) in
  ctx_is "duplicated method name" d
  || (ctx_none d && negb (is_empty (d_related d)) && in_ranges (d_range d) code_ranges)
  || (ctx_is "duplicated import" d && in_ranges (d_range d) code_ranges).

Definition spec_C09 : list file_result * list file_result -> bool :=
  for_files (fun a a' ds0 ds =>
    multiset_eqb diag_eqb (filter (is_c09 a') ds) (spec_c09_from [] (methods_of (ai_item a')))).

Definition corr_C09 (c : list file_result * list file_result) : bool :=
  for_files (fun a a' ds0 ds =>
    match model_file (fst c) a ds0 with
    | Some (am, dm) => list_eqb diag_eqb (filter (is_c09 a') dm) (filter (is_c09 a') ds)
    | None => false
    end) c.

Definition checks : list (string * (sx -> N)) :=
  [ ("corr_validate"%string, run_bool d_vcase corr_validate);
    ("corr_C09"%string, run_bool d_vcase corr_C09);
    ("spec_C09"%string, run_bool d_vcase spec_C09) ].

Definition dispatch (name : str) (s : sx) : N :=
  match find (fun c => str_eqb (lit (fst c)) name) checks with
  | Some c => snd c s
  | None => 3
  end.
