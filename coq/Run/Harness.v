(* The comparison functions that the correspondence engine evaluates on harness output
   (extracted to OCaml for volume; the same definitions run under vm_compute for the cross-check). *)
From AidlV Require Export Run.Sx Model.Validation Spec.Master.

(* verdicts: 0 = holds, 1 = fails, 2 = the harness output could not be decoded, 3 = unknown check *)
Definition run_bool {X} (d : sx -> option X) (f : X -> bool) (s : sx) : N :=
  match d s with None => 2 | Some x => if f x then 0 else 1 end.

Definition d_pair {X Y} (dx : sx -> option X) (dy : sx -> option Y) (s : sx) : option (X * Y) :=
  match s with L [a; b] => do a' <- dx a; do b' <- dy b; Some (a', b') | _ => None end.

(* V lines: (parse-stage results, validated results), both sorted by id *)
Definition d_vcase := d_pair (d_list d_fr) (d_list d_fr).

(* whole-result correspondence: model of validation applied to the implementation's parse-stage
   results equals what the implementation's validate() returned (messages not compared) *)
Definition corr_validate (c : list file_result * list file_result) : bool :=
  let '(p, v) := c in
  match validate p with
  | Ok r => list_eqb fr_eqb r v
  | Panic => false
  end.

(* ------------------------------------------------------------------ shared helpers *)
Fixpoint remove_first {X} (eqb : X -> X -> bool) (x : X) (l : list X) : option (list X) :=
  match l with
  | [] => None
  | y :: l' => if eqb x y then Some l'
               else match remove_first eqb x l' with Some r => Some (y :: r) | None => None end
  end.
(* equality as multisets *)
Fixpoint multiset_eqb {X} (eqb : X -> X -> bool) (l1 l2 : list X) : bool :=
  match l1 with
  | [] => is_empty l2
  | x :: l1' => match remove_first eqb x l2 with Some r => multiset_eqb eqb l1' r | None => false end
  end.

Definition ctx_is (c : string) (d : diag) : bool := ostr_eqb (d_ctx d) (Some (lit c)).
Definition ctx_none (d : diag) : bool := match d_ctx d with None => true | Some _ => false end.
Definition in_ranges (r : range) (l : list range) : bool := existsb (range_eqb r) l.

(* for every file that has a tree after validation: f parsed-tree validated-tree parse-stage-diags validated-diags *)
Definition for_files (f : aidl -> aidl -> list diag -> list diag -> bool)
           (c : list file_result * list file_result) : bool :=
  let '(p, v) := c in
  Nat.eqb (length p) (length v) &&
  forallb (fun '(fp, fv) =>
             str_eqb (fr_id fp) (fr_id fv) &&
             match fr_ast fp, fr_ast fv with
             | Some a, Some a' => f a a' (fr_diags fp) (fr_diags fv)
             | None, None => true
             | _, _ => false
             end) (combine p v).

(* model output for one file, given all parse-stage results *)
Definition model_file (p : list file_result) (a : aidl) (ds0 : list diag) : option (aidl * list diag) :=
  match validate_file (collect_item_keys p) a ds0 with Ok r => Some r | Panic => None end.

(* ------------------------------------------------------------------ C09 *)
(* the diagnostics that C09 is about, recognised by their context label and site *)
Definition is_c09 (a : aidl) (d : diag) : bool :=
  let code_ranges := map m_code_range (methods_of (ai_item a)) in
  ctx_is "duplicated method name" d
  || (ctx_none d && negb (is_empty (d_related d)) && in_ranges (d_range d) code_ranges)
  || (ctx_is "duplicated import" d && in_ranges (d_range d) code_ranges).

Definition spec_C09 : list file_result * list file_result -> bool :=
  for_files (fun a a' ds0 ds =>
    multiset_eqb diag_eqb (filter (is_c09 a') ds) (spec_c09_from [] (methods_of (ai_item a')))).

Definition corr_C09 (c : list file_result * list file_result) : bool :=
  for_files (fun a a' ds0 ds =>
    match model_file (fst c) a ds0 with
    | Some (am, dm) => list_eqb diag_eqb (filter (is_c09 a') dm) (filter (is_c09 a') ds)
    | None => false
    end) c.

(* ------------------------------------------------------------------ C05-C08, C10: label-based projections *)
Definition labelled (labels : list string) (d : diag) : bool := existsb (fun l => ctx_is l d) labels.

Definition corr_by (sel : aidl -> diag -> bool) (tree : bool) (c : list file_result * list file_result) : bool :=
  for_files (fun a a' ds0 ds =>
    match model_file (fst c) a ds0 with
    | Some (am, dm) => list_eqb diag_eqb (filter (sel a') dm) (filter (sel a') ds) && (negb tree || aidl_eqb am a')
    | None => false
    end) c.

Definition spec_by (sel : aidl -> diag -> bool) (expected : env -> aidl -> aidl -> list diag)
           (c : list file_result * list file_result) : bool :=
  let defined := collect_item_keys (fst c) in
  for_files (fun a a' ds0 ds => multiset_eqb diag_eqb (filter (sel a') ds) (expected defined a a')) c.

(* C05 *)
Definition is_c05 (a : aidl) := labelled ["unknown type"]%string.
Definition corr_C05 := corr_by is_c05 true.
Definition spec_C05 (c : list file_result * list file_result) : bool :=
  let defined := collect_item_keys (fst c) in
  for_files (fun a a' ds0 ds =>
    (* the returned tree is the parse-stage tree re-kinded by the scoping rules (and oneway propagated) *)
    aidl_eqb a' (sp_tree defined a) &&
    multiset_eqb diag_eqb (filter (is_c05 a') ds) (sp_unknown defined a)) c.

(* C06 *)
Definition is_c06 (a : aidl) (d : diag) : bool :=
  labelled ["unresolved import"; "unused import"; "conflicting declaration"; "duplicated declaration";
            "unused declared parcelable"; "declared parcelable"]%string d
  || (ctx_is "duplicated import" d && in_ranges (d_range d) (map im_sym (ai_imports a))).
Definition corr_C06 := corr_by is_c06 false.
Definition spec_C06 := spec_by is_c06 (fun defined a a' => sp_imports defined a ++ sp_declared defined a).

(* C07: counted per argument against the statement's table, independently of check_arg *)
Definition dir_label_list : list string := ["missing direction"; "invalid direction"; "invalid argument"]%string.
Definition is_c07 (a : aidl) := labelled dir_label_list.
Definition corr_C07 := corr_by is_c07 false.
Definition spec_C07 (c : list file_result * list file_result) : bool :=
  for_files (fun a a' ds0 ds =>
    let dd := filter (is_c07 a') ds in
    let args := flat_map (fun m => map (fun x => (m, x)) (m_args m)) (methods_of (ai_item a')) in
    forallb (fun d => dkind_eqb (d_kind d) DError && is_empty (d_related d)) dd &&
    forallb (fun '(m, x) =>
               Nat.eqb (length (filter (fun d => range_eqb (d_range d) (where_ x)) dd))
                       (expected_dir_errors (cat (ty_kind (a_ty x))) (dir_of (a_dir x)) (m_oneway m))) args &&
    Nat.eqb (length dd)
            (fold_right Nat.add 0%nat
               (map (fun '(m, x) => expected_dir_errors (cat (ty_kind (a_ty x))) (dir_of (a_dir x)) (m_oneway m)) args))) c.

(* C08 *)
Definition is_c08 (a : aidl) :=
  labelled ["invalid parameter"; "unsupported array"; "invalid element"; "invalid map key"; "invalid map value";
            "non-generic list"; "non-generic map"]%string.
Definition corr_C08 := corr_by is_c08 false.
Definition spec_C08 := spec_by is_c08 (fun defined a a' => flat_map spec_container_ty (top_types (ai_item a'))).

(* C10 *)
Definition is_c10 (a : aidl) := labelled ["redundant oneway"; "must be void"]%string.
Definition corr_C10 := corr_by is_c10 true.
Definition spec_C10 (c : list file_result * list file_result) : bool :=
  let defined := collect_item_keys (fst c) in
  for_files (fun a a' ds0 ds =>
    aidl_eqb a' (sp_tree defined a) &&
    (* flags: interface flag or the method's own; everything else about the item as resolved *)
    list_eqb Bool.eqb (map m_oneway (methods_of (ai_item a')))
             (match ai_item a with
              | ItInterface i => map (fun m => i_oneway i || m_oneway m) (methods_of (ai_item a))
              | _ => []
              end) &&
    multiset_eqb diag_eqb (filter (is_c10 a') ds)
      (spec_redundant (ai_item a) ++ flat_map spec_return (methods_of (ai_item a')))) c.

Definition checks : list (string * (sx -> N)) :=
  [ ("corr_validate"%string, run_bool d_vcase corr_validate);
    ("corr_C09"%string, run_bool d_vcase corr_C09);
    ("spec_C09"%string, run_bool d_vcase spec_C09);
    ("corr_C05"%string, run_bool d_vcase corr_C05); ("spec_C05"%string, run_bool d_vcase spec_C05);
    ("corr_C06"%string, run_bool d_vcase corr_C06); ("spec_C06"%string, run_bool d_vcase spec_C06);
    ("corr_C07"%string, run_bool d_vcase corr_C07); ("spec_C07"%string, run_bool d_vcase spec_C07);
    ("corr_C08"%string, run_bool d_vcase corr_C08); ("spec_C08"%string, run_bool d_vcase spec_C08);
    ("corr_C10"%string, run_bool d_vcase corr_C10); ("spec_C10"%string, run_bool d_vcase spec_C10) ].

Definition dispatch (name : str) (s : sx) : N :=
  match find (fun c => str_eqb (lit (fst c)) name) checks with
  | Some c => snd c s
  | None => 3
  end.
