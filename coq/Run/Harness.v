(* The comparison functions that the correspondence engine evaluates on harness output
   (extracted to OCaml for volume; the same definitions run under vm_compute for the cross-check). *)
From AidlV Require Export Run.Sx Model.Validation.

(* verdicts: 0 = holds, 1 = fails, 2 = the harness output could not be decoded, 3 = unknown check *)
Definition run_bool {X} (d : sx -> option X) (f : X -> bool) (s : sx) : N :=
  match d s with None => 2 | Some x => if f x then 0 else 1 end.

Definition d_pair {X Y} (dx : sx -> option X) (dy : sx -> option Y) (s : sx) : option (X * Y) :=
  match s with L [a; b] => do a' <- dx a; do b' <- dy b; Some (a', b') | _ => None end.

(* V lines: (parse-stage results, validated results), both sorted by id *)
Definition d_vcase := d_pair (d_list d_fr) (d_list d_fr).

(* whole-result correspondence: model of validation applied to the implementation's parse-stage
   results equals what the implementation's validate() returned (messages not compared) *)
Definition corr_validate (c : list file_result * list file_result) : bool :=
  let '(p, v) := c in
  match validate p with
  | Ok r => list_eqb fr_eqb r v
  | Panic => false
  end.

Definition checks : list (string * (sx -> N)) :=
  [ ("corr_validate"%string, run_bool d_vcase corr_validate) ].

Definition dispatch (name : str) (s : sx) : N :=
  match find (fun c => str_eqb (lit (fst c)) name) checks with
  | Some c => snd c s
  | None => 3
  end.
