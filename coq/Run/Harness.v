(* The comparison functions that the correspondence engine evaluates on harness output
   (extracted to OCaml for volume; the same definitions run under vm_compute for the cross-check). *)
From AidlV Require Export Run.Sx Model.Validation Spec.Master Spec.Nodes Model.ParserState Model.Diag Model.Serde Model.LrDriver.

(* verdicts: 0 = holds, 1 = fails, 2 = the harness output could not be decoded, 3 = unknown check *)
Definition run_bool {X} (d : sx -> option X) (f : X -> bool) (s : sx) : N :=
  match d s with None => 2 | Some x => if f x then 0 else 1 end.

Definition d_pair {X Y} (dx : sx -> option X) (dy : sx -> option Y) (s : sx) : option (X * Y) :=
  match s with L [a; b] => do a' <- dx a; do b' <- dy b; Some (a', b') | _ => None end.

(* V lines: (parse-stage results, validated results), both sorted by id *)
Definition d_vcase := d_pair (d_list d_fr) (d_list d_fr).

(* whole-result correspondence: model of validation applied to the implementation's parse-stage
   results equals what the implementation's validate() returned (messages not compared) *)
Definition corr_validate (c : list file_result * list file_result) : bool :=
  let '(p, v) := c in
  match validate p with
  | Ok r => list_eqb fr_eqb r v
  | Panic => false
  end.

(* C01: validation of the parse-stage results returns normally in the model, with one result per id, as the implementation did *)
Definition corr_C01_ids (c : list file_result * list file_result) : bool :=
  let '(p, v) := c in
  match validate p with
  | Ok r => list_eqb str_eqb (map fr_id r) (map fr_id v) && list_eqb str_eqb (map fr_id p) (map fr_id v)
  | Panic => false
  end.

(* ------------------------------------------------------------------ shared helpers *)
Fixpoint remove_first {X} (eqb : X -> X -> bool) (x : X) (l : list X) : option (list X) :=
  match l with
  | [] => None
  | y :: l' => if eqb x y then Some l'
               else match remove_first eqb x l' with Some r => Some (y :: r) | None => None end
  end.
(* equality as multisets *)
Fixpoint multiset_eqb {X} (eqb : X -> X -> bool) (l1 l2 : list X) : bool :=
  match l1 with
  | [] => is_empty l2
  | x :: l1' => match remove_first eqb x l2 with Some r => multiset_eqb eqb l1' r | None => false end
  end.

Definition ctx_is (c : string) (d : diag) : bool := ostr_eqb (d_ctx d) (Some (lit c)).
Definition ctx_none (d : diag) : bool := match d_ctx d with None => true | Some _ => false end.
Definition in_ranges (r : range) (l : list range) : bool := existsb (range_eqb r) l.

(* for every file that has a tree after validation: f parsed-tree validated-tree parse-stage-diags validated-diags *)
Definition for_files (f : aidl -> aidl -> list diag -> list diag -> bool)
           (c : list file_result * list file_result) : bool :=
  let '(p, v) := c in
  Nat.eqb (length p) (length v) &&
  forallb (fun '(fp, fv) =>
             str_eqb (fr_id fp) (fr_id fv) &&
             match fr_ast fp, fr_ast fv with
             | Some a, Some a' => f a a' (fr_diags fp) (fr_diags fv)
             | None, None => true
             | _, _ => false
             end) (combine p v).

(* model output for one file, given all parse-stage results *)
Definition model_file (p : list file_result) (a : aidl) (ds0 : list diag) : option (aidl * list diag) :=
  match validate_file (collect_item_keys p) a ds0 with Ok r => Some r | Panic => None end.

(* ------------------------------------------------------------------ C09 *)
(* the diagnostics that C09 is about, recognised by their context label and site *)
Definition is_c09 (a : aidl) (d : diag) : bool :=
  let code_ranges := map m_code_range (methods_of (ai_item a)) in
  ctx_is "duplicated method name" d
  || (ctx_none d && negb (is_empty (d_related d)) && in_ranges (d_range d) code_ranges)
  || (ctx_is "duplicated import" d && in_ranges (d_range d) code_ranges).

Definition spec_C09 : list file_result * list file_result -> bool :=
  for_files (fun a a' ds0 ds =>
    multiset_eqb diag_eqb (filter (is_c09 a') ds) (spec_c09_from [] (methods_of (ai_item a')))).

Definition corr_C09 (c : list file_result * list file_result) : bool :=
  for_files (fun a a' ds0 ds =>
    match model_file (fst c) a ds0 with
    | Some (am, dm) => list_eqb diag_eqb (filter (is_c09 a') dm) (filter (is_c09 a') ds)
    | None => false
    end) c.

(* ------------------------------------------------------------------ C05-C08, C10: label-based projections *)
Definition labelled (labels : list string) (d : diag) : bool := existsb (fun l => ctx_is l d) labels.

(* the tree without its method-level oneway flags (those belong to C10, not to the classification of references) *)
Definition erase_oneway (a : aidl) : aidl :=
  match ai_item a with
  | ItInterface i =>
      Aidl (ai_package a) (ai_imports a) (ai_declared a)
        (ItInterface (Interface (i_oneway i) (i_name i)
           (map (fun e => match e with
                          | IEMethod m => IEMethod (Method false (m_name m) (m_ret m) (m_args m) (m_annots m) (m_code m) (m_doc m)
                                                           (m_sym m) (m_full m) (m_code_range m) (m_oneway_range m))
                          | other => other end) (i_elems i))
           (i_annots i) (i_doc i) (i_full i) (i_sym i)))
  | _ => a
  end.

Definition corr_by (sel : aidl -> diag -> bool) (tree : bool) (c : list file_result * list file_result) : bool :=
  for_files (fun a a' ds0 ds =>
    match model_file (fst c) a ds0 with
    | Some (am, dm) => list_eqb diag_eqb (filter (sel a') dm) (filter (sel a') ds) && (negb tree || aidl_eqb (erase_oneway am) (erase_oneway a'))
    | None => false
    end) c.

Definition spec_by (sel : aidl -> diag -> bool) (expected : env -> aidl -> aidl -> list diag)
           (c : list file_result * list file_result) : bool :=
  let defined := collect_item_keys (fst c) in
  for_files (fun a a' ds0 ds => multiset_eqb diag_eqb (filter (sel a') ds) (expected defined a a')) c.

(* C05 *)
Definition is_c05 (a : aidl) := labelled ["unknown type"]%string.
Definition corr_C05 := corr_by is_c05 true.
(* "the written name": a dotted identifier -- what the text says once white space and comments between the segments are gone *)
Definition ident_char (c : N) : bool :=
  (N.leb 48 c && N.leb c 57) || (N.leb 65 c && N.leb c 90) || (N.leb 97 c && N.leb c 122) || N.eqb c 95.
Fixpoint dotted_b (s : str) (after_dot : bool) : bool :=
  match s with
  | [] => negb after_dot
  | c :: r => if N.eqb c 46 then negb after_dot && dotted_b r true
              else ident_char c && negb (after_dot && N.leb 48 c && N.leb c 57) && dotted_b r false
  end.
Definition names_dotted (a : aidl) : bool :=
  dotted_b (pk_name (ai_package a)) true &&
  forallb (fun t => match ty_kind t with KUnresolved => dotted_b (ty_name t) true | _ => true end) (all_types_pre (ai_item a)).

Definition spec_C05 (c : list file_result * list file_result) : bool :=
  let defined := collect_item_keys (fst c) in
  for_files (fun a a' ds0 ds =>
    (* the names resolution works on are the written names *)
    names_dotted a &&
    (* the returned tree is the parse-stage tree re-kinded by the scoping rules (method oneway flags aside: C10) *)
    aidl_eqb (erase_oneway a') (erase_oneway (sp_tree defined a)) &&
    multiset_eqb diag_eqb (filter (is_c05 a') ds) (sp_unknown defined a)) c.

(* C06 *)
Definition is_c06 (a : aidl) (d : diag) : bool :=
  labelled ["unresolved import"; "unused import"; "conflicting declaration"; "duplicated declaration";
            "unused declared parcelable"; "declared parcelable"]%string d
  || (ctx_is "duplicated import" d && in_ranges (d_range d) (map im_sym (ai_imports a))).
Definition corr_C06 := corr_by is_c06 false.
(* every specification that rests on what a written name denotes also asks that the names are the written names *)
Definition with_names (spec : list file_result * list file_result -> bool) (c : list file_result * list file_result) : bool :=
  for_files (fun a a' ds0 ds => names_dotted a) c && spec c.
Definition spec_C06 := with_names (spec_by is_c06 (fun defined a a' => sp_imports defined a ++ sp_declared defined a)).

(* C07: counted per argument against the statement's table, independently of check_arg *)
Definition dir_label_list : list string := ["missing direction"; "invalid direction"; "invalid argument"]%string.
Definition is_c07 (a : aidl) := labelled dir_label_list.
Definition corr_C07 := corr_by is_c07 false.
Definition spec_C07 (c : list file_result * list file_result) : bool :=
  for_files (fun a a' ds0 ds => names_dotted a) c &&
  for_files (fun a a' ds0 ds =>
    let dd := filter (is_c07 a') ds in
    (* "oneway method (explicit or inherited from a oneway interface)": read off the parse-stage tree, not off what
       validation returned *)
    let iow := match ai_item a with ItInterface i => i_oneway i | _ => false end in
    let src_ms := methods_of (ai_item a) in
    (* the categories are those of the SPECIFIED resolution of the written names (a user type that shares its simple name with a
       built-in is what its import or forward declaration says it is) *)
    let ms := methods_of (ai_item (sp_tree (collect_item_keys (fst c)) a)) in
    let args := flat_map (fun '(m0, m) => map (fun x => (iow || m_oneway m0, x)) (m_args m)) (combine src_ms ms) in
    Nat.eqb (length src_ms) (length (methods_of (ai_item a'))) && Nat.eqb (length src_ms) (length ms) &&
    forallb (fun d => dkind_eqb (d_kind d) DError && is_empty (d_related d)) dd &&
    forallb (fun '(ow, x) =>
               Nat.eqb (length (filter (fun d => range_eqb (d_range d) (where_ x)) dd))
                       (expected_dir_errors (cat (ty_kind (a_ty x))) (dir_of (a_dir x)) ow)) args &&
    Nat.eqb (length dd)
            (fold_right Nat.add 0%nat
               (map (fun '(ow, x) => expected_dir_errors (cat (ty_kind (a_ty x))) (dir_of (a_dir x)) ow) args))) c.

(* C08 *)
Definition is_c08 (a : aidl) :=
  labelled ["invalid parameter"; "unsupported array"; "invalid element"; "invalid map key"; "invalid map value";
            "non-generic list"; "non-generic map"]%string.
Definition corr_C08 := corr_by is_c08 false.
(* the element categories are those of the SPECIFIED resolution (the scoping rules applied to the parse-stage tree), not the ones
   the implementation arrived at: "arrays may hold parcelables (defined, forward-declared or unknown imports)" is about what a
   name denotes, so a reference mis-resolved to a built-in must not be excused *)
Definition spec_C08 := with_names (spec_by is_c08 (fun defined a a' => sp_containers defined a)).

(* C10 *)
Definition is_c10 (a : aidl) := labelled ["redundant oneway"; "must be void"]%string.
Definition oneway_flags (a : aidl) : list bool := map m_oneway (methods_of (ai_item a)).
Definition corr_C10 (c : list file_result * list file_result) : bool :=
  for_files (fun a a' ds0 ds =>
    match model_file (fst c) a ds0 with
    | Some (am, dm) => list_eqb diag_eqb (filter (is_c10 a') dm) (filter (is_c10 a') ds) &&
                       list_eqb Bool.eqb (oneway_flags am) (oneway_flags a')
    | None => false
    end) c.
Definition spec_C10 (c : list file_result * list file_result) : bool :=
  for_files (fun a a' ds0 ds =>
    (* flags: interface flag or the method's own; everything else about the item as resolved *)
    list_eqb Bool.eqb (map m_oneway (methods_of (ai_item a')))
             (match ai_item a with
              | ItInterface i => map (fun m => i_oneway i || m_oneway m) (methods_of (ai_item a))
              | _ => []
              end) &&
    multiset_eqb diag_eqb (filter (is_c10 a') ds)
      (spec_redundant (ai_item a) ++ flat_map spec_return (methods_of (ai_item a')))) c.

(* ------------------------------------------------------------------ C15 / C16 / C17: traversal *)
Record fpr := FP { fp_tag : N; fp_name : option str; fp_qname : option str; fp_range : range; fp_full : range }.
Definition fp_of (s : symbol) : fpr := FP (sym_tag s) (sym_name s) (sym_qname s) (sym_range s) (sym_full s).
Definition fp_eqb (a b : fpr) : bool :=
  N.eqb (fp_tag a) (fp_tag b) && ostr_eqb (fp_name a) (fp_name b) && ostr_eqb (fp_qname a) (fp_qname b) &&
  range_eqb (fp_range a) (fp_range b) && range_eqb (fp_full a) (fp_full b).
Definition d_fp (s : sx) : option fpr :=
  match s with
  | L [A t; n; q; r; f] => do n' <- d_ostr n; do q' <- d_ostr q; do r' <- d_rng r; do f' <- d_rng f; Some (FP t n' q' r' f')
  | _ => None
  end.
Definition d_filter (s : sx) : option sfilter :=
  match s with A 0 => Some FItemsOnly | A 1 => Some FItemsAndElements | A 2 => Some FAll | _ => None end.

Record tblock := TB {
  tb_filter : sfilter; tb_walk : list fpr;
  tb_kind : list (N * list fpr * option fpr);
  tb_name : list (str * list fpr * option fpr);
  tb_kth : list (option fpr) }.
Definition d_triple {X} (dx : sx -> option X) (s : sx) : option (X * list fpr * option fpr) :=
  match s with L [k; l; o] => do k' <- dx k; do l' <- d_list d_fp l; do o' <- d_opt d_fp o; Some (k', l', o') | _ => None end.
Definition d_tblock (s : sx) : option tblock :=
  match s with
  | L [f; w; bk; bn; kth] =>
      do f' <- d_filter f; do w' <- d_list d_fp w; do bk' <- d_list (d_triple d_N) bk;
      do bn' <- d_list (d_triple d_str) bn; do kth' <- d_list (d_opt d_fp) kth;
      Some (TB f' w' bk' bn' kth')
  | _ => None
  end.
Record tcase := TC { tc_ast : aidl; tc_blocks : list tblock; tc_types : list ty; tc_methods : list range;
                     tc_args : list (range * range) }.
Definition d_tcase (s : sx) : option tcase :=
  match s with
  | L [a; bs; ts; ms; ar] =>
      do a' <- d_aidl a; do bs' <- d_list d_tblock bs; do ts' <- d_list d_ty ts; do ms' <- d_list d_rng ms;
      do ar' <- d_list (d_pair d_rng d_rng) ar; Some (TC a' bs' ts' ms' ar')
  | _ => None
  end.

Definition has_tag (k : N) (s : symbol) : bool := N.eqb (sym_tag s) k.
Definition has_name (n : str) (s : symbol) : bool := ostr_eqb (sym_name s) (Some n).
Definition ofp_eqb := option_eqb fp_eqb.
Definition fps_eqb := list_eqb fp_eqb.
(* the predicate "is the k-th visited symbol" (a counter in the closure) *)
Definition kth_pred (k : N) (n : N) (_ : symbol) : N * bool := (N.succ n, N.eqb n k).

(* compare one block with a triple of functions (collect, filter, find, find with counter) *)
Definition block_ok (collect : sfilter -> aidl -> list symbol)
           (filt : sfilter -> (symbol -> bool) -> aidl -> list symbol)
           (findf : (symbol -> bool) -> sfilter -> aidl -> option symbol)
           (findk : N -> sfilter -> aidl -> option symbol)
           (a : aidl) (b : tblock) : bool :=
  let flt := tb_filter b in
  fps_eqb (tb_walk b) (map fp_of (collect flt a)) &&
  forallb (fun '(k, l, o) => fps_eqb l (map fp_of (filt flt (has_tag k) a)) &&
                             ofp_eqb o (option_map fp_of (findf (has_tag k) flt a))) (tb_kind b) &&
  forallb (fun '(n, l, o) => fps_eqb l (map fp_of (filt flt (has_name n) a)) &&
                             ofp_eqb o (option_map fp_of (findf (has_name n) flt a))) (tb_name b) &&
  Nat.eqb (length (tb_kth b)) (S (length (tb_walk b))) &&
  (fix go (k : N) (l : list (option fpr)) : bool :=
     match l with
     | [] => true
     | o :: l' => ofp_eqb o (option_map fp_of (findk k flt a)) && go (N.succ k) l'
     end) 0 (tb_kth b).

Definition walkers_ok (c : tcase) : bool :=
  let a := tc_ast c in
  list_eqb ty_eqb (tc_types c) (all_types (ai_item a)) &&
  list_eqb range_eqb (tc_methods c) (map m_full (methods_of (ai_item a))) &&
  list_eqb (fun x y => range_eqb (fst x) (fst y) && range_eqb (snd x) (snd y)) (tc_args c)
           (flat_map (fun m => map (fun x => (m_full m, a_full x)) (m_args m)) (methods_of (ai_item a))).

(* against the model of traverse.rs *)
Definition corr_C15 (c : tcase) : bool :=
  Nat.eqb (length (tc_blocks c)) 3 &&
  forallb (block_ok walk_collect filter_symbols find_symbol
                    (fun k flt a => find_symbol_st (kth_pred k) flt a 0) (tc_ast c)) (tc_blocks c) &&
  walkers_ok c.
(* against the plain node list of Spec/Nodes.v *)
Definition spec_C15 (c : tcase) : bool :=
  Nat.eqb (length (tc_blocks c)) 3 &&
  forallb (block_ok symbols (fun flt p a => filter p (symbols flt a)) (fun p flt a => find p (symbols flt a))
                    (fun k flt a => nth_error (symbols flt a) (N.to_nat k)) (tc_ast c)) (tc_blocks c) &&
  walkers_ok c &&
  (* source order: full-range starts never decrease along the detailed walk (array type nodes, which by
     the statement come after their element type, are left out of the comparison) *)
  (fix inc (l : list symbol) : bool :=
     match l with
     | x :: ((y :: _) as l') => N.leb (p_off (r_start (sym_full x))) (p_off (r_start (sym_full y))) && inc l'
     | _ => true
     end) (filter (fun s => match s with SType t => negb (tkind_eqb (ty_kind t) KArray) | _ => true end)
                  (symbols FAll (tc_ast c))).

(* C17 on the same lines: names and qualified names as the statement words them *)
Definition spec_C17_names (c : tcase) : bool :=
  let a := tc_ast c in
  forallb (fun b =>
    match tb_filter b with
    | FAll =>
        Nat.eqb (length (tb_walk b)) (length (symbols FAll a)) &&
        forallb (fun '(fp, s) =>
          match s with
          | SInterface _ _ | SParcelable _ _ | SEnum _ _ =>
              ostr_eqb (fp_qname fp) (Some (get_key a)) && ostr_eqb (fp_name fp) (Some (item_name (ai_item a)))
          | SType t => ostr_eqb (fp_qname fp) (match ty_kind t with KResolved k _ => Some k | _ => None end)
          | SMethod m i => ostr_eqb (fp_qname fp) (Some (i_name i ++ lit "::" ++ m_name m)) && ostr_eqb (fp_name fp) (Some (m_name m))
          | SConst x o => ostr_eqb (fp_qname fp) (Some (item_name (ai_item a) ++ lit "::" ++ c_name x)) && ostr_eqb (fp_name fp) (Some (c_name x))
          | SField x p => ostr_eqb (fp_qname fp) (Some (pc_name p ++ lit "::" ++ f_name x)) && ostr_eqb (fp_name fp) (Some (f_name x))
          | SEnumElement x e => ostr_eqb (fp_qname fp) (Some (e_name e ++ lit "::" ++ ee_name x)) && ostr_eqb (fp_name fp) (Some (ee_name x))
          | SArg x _ => ostr_eqb (fp_name fp) (a_name x)
          | SImport i => ostr_eqb (fp_qname fp) (Some (import_qname i))
          | SPackage p => ostr_eqb (fp_qname fp) (Some (pk_name p))
          end) (combine (tb_walk b) (symbols FAll a))
    | _ => true
    end) (tc_blocks c).

(* C17 on V lines: every reference resolved to a defined item carries the key of a file that defines such an item *)
Definition spec_C17_refs (c : list file_result * list file_result) : bool :=
  (* a reference that the scoping rules resolve to an item is resolved, to that key (and nothing else is) *)
  for_files (fun a a' ds0 ds =>
    list_eqb tkind_eqb (map ty_kind (all_types_pre (ai_item a')))
                       (map ty_kind (all_types_pre (ai_item (sp_tree (collect_item_keys (fst c)) a))))) c &&
  let '(p, v) := c in
  let trees := flat_map (fun fr => match fr_ast fr with Some a => [a] | None => [] end) v in
  forallb (fun a =>
    forallb (fun t =>
      match ty_kind t with
      | KResolved k ((RInterface | RParcelable | REnum) as rk) =>
          existsb (fun b => str_eqb (get_key b) k && rkind_eqb (item_kind (ai_item b)) rk) trees
      | _ => true
      end) (all_types (ai_item a))) trees.

(* C16: L lines *)
Record lcase := LC { lc_ast : aidl; lc_blocks : list (sfilter * list (N * N * option fpr)) }.
Definition d_lpos (s : sx) : option (N * N * option fpr) :=
  match s with L [A l; A c; o] => do o' <- d_opt d_fp o; Some (l, c, o') | _ => None end.
Definition d_lcase (s : sx) : option lcase :=
  match s with
  | L [a; bs] => do a' <- d_aidl a; do bs' <- d_list (d_pair d_filter (d_list d_lpos)) bs; Some (LC a' bs')
  | _ => None
  end.
Definition corr_C16 (c : lcase) : bool :=
  forallb (fun '(flt, ps) =>
    forallb (fun '(l, col, o) => ofp_eqb o (option_map fp_of (find_symbol_at flt (lc_ast c) l col))) ps) (lc_blocks c).
(* lexicographic containment, written independently of range_contains *)
Definition lex_leb (l1 c1 l2 c2 : N) : bool := N.ltb l1 l2 || (N.eqb l1 l2 && N.leb c1 c2).
Definition contains_lex (r : range) (l c : N) : bool :=
  lex_leb (p_line (r_start r)) (p_col (r_start r)) l c && lex_leb l c (p_line (r_end r)) (p_col (r_end r)).
Definition spec_C16 (c : lcase) : bool :=
  forallb (fun '(flt, ps) =>
    forallb (fun '(l, col, o) =>
      ofp_eqb o (option_map fp_of (find (fun s => contains_lex (sym_range s) l col) (symbols flt (lc_ast c))))) ps)
    (lc_blocks c).

(* ------------------------------------------------------------------ C11: order of every file's diagnostics *)
Definition spec_C11_sorted (c : list file_result * list file_result) : bool :=
  forallb (fun fr =>
    (fix inc (l : list diag) : bool :=
       match l with
       | x :: ((y :: _) as l') => N.leb (start_off x) (start_off y) && inc l'
       | _ => true
       end) (fr_diags fr)) (snd c).

(* ------------------------------------------------------------------ C12: the key set follows the abstract map *)
Inductive hop := HAdd (id c : str) | HRemove (id : str) | HValidate | HAddFile (p : str) (c : option str).
Definition d_hop (s : sx) : option hop :=
  match s with
  | L [A 0; id; c] => do id' <- d_str id; do c' <- d_str c; Some (HAdd id' c')
  | L [A 1; id] => do id' <- d_str id; Some (HRemove id')
  | L [A 2] => Some HValidate
  | L [A 3; p; c] => do p' <- d_str p; do c' <- d_opt d_str c; Some (HAddFile p' c')
  | _ => None
  end.
Definition d_hcase := d_pair (d_list d_hop) (d_list (d_list d_str)).
(* one op of the implementation's history as an op of Model/ParserState with the file system it saw *)
Definition hop_step (a : astate) (h : hop) : astate :=
  match h with
  | HAdd id c => astep (fun _ => None) a (OAdd id c)
  | HRemove id => astep (fun _ => None) a (ORemove id)
  | HValidate => astep (fun _ => None) a OValidate
  | HAddFile p c => astep (fun q => if str_eqb q p then c else None) a (OAddFile p)
  end.
Fixpoint insert_str (x : str) (l : list str) : list str :=
  match l with [] => [x] | y :: l' => if str_ltb y x then y :: insert_str x l' else x :: l end.
Definition sort_strs (l : list str) : list str := fold_right insert_str [] l.
Definition corr_C12 (c : list hop * list (list str)) : bool :=
  let '(ops, keys) := c in
  Nat.eqb (length ops) (length keys) &&
  (fix go (a : astate) (ops : list hop) (keys : list (list str)) : bool :=
     match ops, keys with
     | h :: ops', k :: keys' =>
         let a' := hop_step a h in
         list_eqb str_eqb (sort_strs (map fst a')) k && go a' ops' keys'
     | _, _ => true
     end) [] ops keys.

(* ------------------------------------------------------------------ C20: P lines (source, parse-stage result, raw expectation vectors) *)
Record pcase := PC { pc_src : str; pc_lc : list (N * N); pc_fr : file_result; pc_expected : list (list str) }.
Definition d_pcase (s : sx) : option pcase :=
  match s with
  | L [src; lc; fr; ex] =>
      do src' <- d_str src; do lc' <- d_list (d_pair d_N d_N) lc; do fr' <- d_fr fr; do ex' <- d_list (d_list d_str) ex;
      Some (PC src' lc' fr' ex')
  | _ => None
  end.
Definition has_expectation (d : diag) : bool := ctx_is "unrecognized EOF" d || ctx_is "unrecognized token" d.
(* verdict: 0 every name present and nothing extra; 4 only the recorded known class (v[len-2] missing, |v| >= 3); 1 anything else *)
Definition spec_C20 (s : sx) : N :=
  match d_pcase s with
  | None => 2
  | Some c =>
      let ds := filter has_expectation (fr_diags (pc_fr c)) in
      if negb (Nat.eqb (length ds) (length (pc_expected c))) then 1
      else
        fold_left (fun acc '(d, v) =>
          let n := names_in (d_msg d) in
          if list_eqb str_eqb n v then acc
          else if Nat.leb 3 (length v) && list_eqb str_eqb n (remove_nth (length v - 2) v)
               then (if N.eqb acc 1 then 1 else 4)
               else 1) (combine ds (pc_expected c)) 0
  end.
(* the model of the formatter reproduces the last line of every such message *)
Definition corr_C20 (c : pcase) : bool :=
  let ds := filter has_expectation (fr_diags (pc_fr c)) in
  Nat.eqb (length ds) (length (pc_expected c)) &&
  forallb (fun '(d, v) => str_eqb (last_line (d_msg d)) (expected_token_str v)) (combine ds (pc_expected c)).

(* ------------------------------------------------------------------ C19: S lines (all trees of a project, parse-stage and validated) *)
Definition corr_C19 (trees : list aidl) : bool :=
  forallb (fun a => option_eqb aidl_eqb (roundtrip a) (Some a)) trees.

(* ------------------------------------------------------------------ the parser model against add_content (P lines) *)
Definition fr_eqb_msg (a b : file_result) : bool :=
  str_eqb (fr_id a) (fr_id b) && option_eqb aidl_eqb (fr_ast a) (fr_ast b) &&
  list_eqb diag_eqb_msg (fr_diags a) (fr_diags b).
(* lexer + LR driver + actions + javadoc + diagnostics of the model = what the library stored, messages included *)
Definition corr_parse (c : pcase) : bool :=
  (* the well-formedness hypothesis of the safety theorems: one (line, column) entry per character and one for the end *)
  Nat.eqb (length (pc_lc c)) (S (length (pc_src c))) &&
  match add_content (Ctx (pc_src c) (pc_lc c)) (fr_id (pc_fr c)) with
  | Added fr => fr_eqb_msg fr (pc_fr c)
  | _ => false
  end.

(* the same without the wording of the messages (which only C20 is about): tree, every range, kind, label, related ranges *)
Definition corr_parse_shape (c : pcase) : bool :=
  Nat.eqb (length (pc_lc c)) (S (length (pc_src c))) &&
  match add_content (Ctx (pc_src c) (pc_lc c)) (fr_id (pc_fr c)) with
  | Added fr => fr_eqb fr (pc_fr c)
  | _ => false
  end.

(* ------------------------------------------------------------------ C03(e) / C04: what validation does to the diagnostics *)
Fixpoint sub_multiset {X} (eqb : X -> X -> bool) (small big : list X) : bool :=
  match small with
  | [] => true
  | x :: small' => match remove_first eqb x big with Some r => sub_multiset eqb small' r | None => false end
  end.
(* validation never drops a parse-stage diagnostic *)
Definition spec_C03_kept (c : list file_result * list file_result) : bool :=
  let '(p, v) := c in
  Nat.eqb (length p) (length v) &&
  forallb (fun '(fp, fv) => sub_multiset diag_eqb_msg (fr_diags fp) (fr_diags fv)) (combine p v).

(* every diagnostic added by validation sits on a range of a node of the tree *)
Definition node_ranges (a : aidl) : list range :=
  flat_map (fun s => [sym_range s; sym_full s]) (symbols FAll a) ++
  flat_map (fun m => [m_code_range m; m_oneway_range m] ++
                     flat_map (fun x => match a_dir x with
                                        | DIn r | DOut r | DInOut r => [r]
                                        | DUnspecified => [Rng (r_start (ty_sym (a_ty x))) (r_start (ty_sym (a_ty x)))]
                                        end) (m_args m)) (methods_of (ai_item a)).
Definition spec_C04_validation (c : list file_result * list file_result) : bool :=
  for_files (fun a a' ds0 ds =>
    let nodes := node_ranges a' in
    forallb (fun d => existsb (diag_eqb_msg d) ds0 ||
                      (in_ranges (d_range d) nodes && forallb (fun r => in_ranges r nodes) (d_related d))) ds) c.

(* C02: Q lines = two layouts of one document: they must lex to the same tokens (the hypothesis of C02_tree_is_a_function_of_the_tokens) *)
Definition d_qcase (s : sx) : option (str * str) :=
  match s with L [a; b] => do a' <- d_str a; do b' <- d_str b; Some (a', b') | _ => None end.
Definition spec_C02_lexsim (c : str * str) : bool :=
  let '(a, b) := c in lexsim_b (S (length a + length b)) a 0 b 0.

Definition checks : list (string * (sx -> N)) :=
  [ ("corr_validate"%string, run_bool d_vcase corr_validate);
    ("corr_C09"%string, run_bool d_vcase corr_C09);
    ("spec_C09"%string, run_bool d_vcase spec_C09);
    ("corr_C05"%string, run_bool d_vcase corr_C05); ("spec_C05"%string, run_bool d_vcase spec_C05);
    ("corr_C06"%string, run_bool d_vcase corr_C06); ("spec_C06"%string, run_bool d_vcase spec_C06);
    ("corr_C07"%string, run_bool d_vcase corr_C07); ("spec_C07"%string, run_bool d_vcase spec_C07);
    ("corr_C08"%string, run_bool d_vcase corr_C08); ("spec_C08"%string, run_bool d_vcase spec_C08);
    ("corr_C01_ids"%string, run_bool d_vcase corr_C01_ids);
    ("corr_C10"%string, run_bool d_vcase corr_C10); ("spec_C10"%string, run_bool d_vcase spec_C10);
    ("corr_C15"%string, run_bool d_tcase corr_C15); ("spec_C15"%string, run_bool d_tcase spec_C15);
    ("corr_C16"%string, run_bool d_lcase corr_C16); ("spec_C16"%string, run_bool d_lcase spec_C16);
    ("spec_C17_names"%string, run_bool d_tcase spec_C17_names); ("spec_C17_refs"%string, run_bool d_vcase spec_C17_refs);
    ("spec_C11_sorted"%string, run_bool d_vcase spec_C11_sorted);
    ("corr_C12"%string, run_bool d_hcase corr_C12);
    ("spec_C20"%string, spec_C20); ("corr_C20"%string, run_bool d_pcase corr_C20);
    ("spec_C02_lexsim"%string, run_bool d_qcase spec_C02_lexsim);
    ("corr_parse"%string, run_bool d_pcase corr_parse); ("corr_parse_shape"%string, run_bool d_pcase corr_parse_shape);
    ("spec_C03_kept"%string, run_bool d_vcase spec_C03_kept); ("spec_C04_validation"%string, run_bool d_vcase spec_C04_validation);
    ("corr_C19"%string, run_bool (fun s => match s with L [x] => d_list d_aidl x | _ => None end) corr_C19) ].

Definition dispatch (name : str) (s : sx) : N :=
  match find (fun c => str_eqb (lit (fst c)) name) checks with
  | Some c => snd c s
  | None => 3
  end.

(* debugging aid: the model's and the implementation's parse-stage diagnostics as (start, end, message) *)
Definition dshow (d : diag) := (p_off (r_start (d_range d)), p_off (r_end (d_range d)), d_msg d).
Definition debug_parse (s : sx) :=
  match d_pcase s with
  | None => None
  | Some c =>
      Some (match add_content (Ctx (pc_src c) (pc_lc c)) (fr_id (pc_fr c)) with
            | Added fr => (0, option_eqb aidl_eqb (fr_ast fr) (fr_ast (pc_fr c)), map dshow (fr_diags fr))
            | AddPanic => (1, false, []) | AddFuel => (2, false, []) | AddBad => (3, false, [])
            end, map dshow (fr_diags (pc_fr c)))
  end.
