(* C15 / C16 / C17 -- the nodes of a tree as a plain list (no visitor, no control flow) *)
From AidlV Require Export Model.Traverse Model.Validation.

(* every type node of a type tree, an array's element subtree before the array itself *)
Definition type_symbols (t : ty) : list symbol := map SType (types_of_ty t).

Definition method_symbols (i : interface) (m : method) : list symbol :=
  SMethod m i :: type_symbols (m_ret m) ++ flat_map (fun x => SArg x m :: type_symbols (a_ty x)) (m_args m).

Definition ie_symbols (all : bool) (i : interface) (e : iface_elem) : list symbol :=
  match e with
  | IEMethod m => if all then method_symbols i m else [SMethod m i]
  | IEConst c => SConst c (OwnerInterface i) :: (if all then type_symbols (c_ty c) else [])
  end.

Definition pe_symbols (all : bool) (p : parcelable) (e : parc_elem) : list symbol :=
  match e with
  | PEField x => SField x p :: (if all then type_symbols (f_ty x) else [])
  | PEConst c => SConst c (OwnerParcelable p) :: (if all then type_symbols (c_ty c) else [])
  end.

Definition item_symbol (a : aidl) : symbol :=
  match ai_item a with
  | ItInterface i => SInterface i (ai_package a)
  | ItParcelable p => SParcelable p (ai_package a)
  | ItEnum e => SEnum e (ai_package a)
  end.

Definition member_symbols (all : bool) (a : aidl) : list symbol :=
  match ai_item a with
  | ItInterface i => flat_map (ie_symbols all i) (i_elems i)
  | ItParcelable p => flat_map (pe_symbols all p) (pc_elems p)
  | ItEnum e => map (fun el => SEnumElement el e) (e_elems e)
  end.

(* the three levels *)
Definition symbols (flt : sfilter) (a : aidl) : list symbol :=
  match flt with
  | FItemsOnly => [item_symbol a]
  | FItemsAndElements => item_symbol a :: member_symbols false a
  | FAll => SPackage (ai_package a) :: map SImport (ai_imports a) ++ item_symbol a :: member_symbols true a
  end.

Definition all_symbols := symbols FAll.

(* run a stateful visitor over a list, stopping at the first Some *)
Fixpoint run_list {S V} (f : S -> symbol -> S * option V) (l : list symbol) (s : S) : S * option V :=
  match l with
  | [] => (s, None)
  | x :: l' => let '(s', r) := f s x in match r with Some v => (s', Some v) | None => run_list f l' s' end
  end.

(* lexicographic order on (line, column) *)
Definition lc_le (l1 c1 l2 c2 : N) : Prop := (l1 < l2 \/ (l1 = l2 /\ c1 <= c2))%N.
