(* C05 / C06 -- AIDL scoping of type references, and what imports / forward declarations deserve *)
From Coq Require Export Permutation.
From AidlV Require Export Model.Validation.

(* ---------- C05: which kind a written name gets ---------- *)
(* an import matches a written name when it equals it or ends with '.' ++ name *)
Definition import_matches (name imp : str) : Prop :=
  imp = name \/ exists pre, imp = pre ++ dotc :: name.

Definition unqualified (name : str) : bool := negb (contains_char dotc name).

(* the rules of the statement, in order *)
Definition spec_resolve (imports declared : list str) (defined : env) (name : str) : option tkind :=
  (* a built-in written with its own qualified name: ParcelFileDescriptor always, the others when imported so *)
  match (match from_qualified_name name with
         | Some a => if gen_can_be_qualified a || mem_str name imports then Some a else None
         | None => None
         end) with
  | Some a => Some (KAndroid a)
  | None =>
      (* through an import: the one equal to the name, else the least of those ending in '.'+name *)
      match find_import imports name with
      | Some ip =>
          match assoc ip defined with
          | Some k => Some (KResolved ip k)                      (* the item registered under that key *)
          | None =>
              match from_qualified_name ip with
              | Some a => Some (KAndroid a)                      (* an imported built-in stays that built-in *)
              | None => Some (KResolved ip RUnknownImport)
              end
          end
      | None =>
          if mem_str name declared && unqualified name then Some (KResolved name RForward)
          else match from_name name with
               | Some a => Some (KAndroid a)                     (* IBinder, FileDescriptor, ... by simple name *)
               | None => None                                    (* stays unresolved: one `unknown type` Error *)
               end
      end
  end.

(* the tree with every Unresolved node, at any depth, re-kinded *)
Fixpoint map_unresolved (f : str -> option tkind) (t : ty) : ty :=
  let 'Ty n k g s fu := t in
  Ty n (match k with
        | KUnresolved => match f n with Some k' => k' | None => KUnresolved end
        | _ => k
        end)
     ((fix go (l : list ty) : list ty := match l with [] => [] | x :: l' => map_unresolved f x :: go l' end) g)
     s fu.

(* one `unknown type` Error on the name of every node that stays unresolved, nothing else *)
Definition spec_unknown (f : str -> option tkind) (t : ty) : list diag :=
  match ty_kind t with
  | KUnresolved => match f (ty_name t) with Some _ => [] | None => [unknown_type_diag (ty_sym t)] end
  | _ => []
  end.

(* ---------- C06: imports ---------- *)
Definition same_qname (q : str) (i : import) : bool := str_eqb (import_qname i) q.

Definition dup_import_diag (i first : import) : diag :=
  mk_diag DError (im_sym i) (Some "duplicated import"%string) [im_sym first].
Definition unresolved_import_diag (i : import) : diag :=
  mk_diag DWarning (im_sym i) (Some "unresolved import"%string) [].
Definition unused_import_diag (i : import) : diag :=
  mk_diag DWarning (im_sym i) (Some "unused import"%string) [].

Definition resolvable (defined : env) (q : str) : bool :=
  is_some (assoc q defined) || is_some (from_qualified_name q).

(* what the import i deserves, given the imports written before it and the set of keys that some type
   of the file resolves to *)
Definition spec_import (used : list str) (defined : env) (pre : list import) (i : import) : list diag :=
  match find (same_qname (import_qname i)) pre with
  | Some first => [dup_import_diag i first]
  | None =>
      if negb (resolvable defined (import_qname i)) then [unresolved_import_diag i]
      else if negb (mem_str (import_qname i) used) then [unused_import_diag i]
      else []
  end.

Fixpoint spec_imports_from (used : list str) (defined : env) (pre l : list import) : list diag :=
  match l with
  | [] => []
  | i :: l' => spec_import used defined pre i ++ spec_imports_from used defined (pre ++ [i]) l'
  end.

(* the imports that are not repeats, in order *)
Fixpoint first_imports_from (pre l : list import) : list import :=
  match l with
  | [] => []
  | i :: l' => (if is_some (find (same_qname (import_qname i)) pre) then [] else [i])
               ++ first_imports_from (pre ++ [i]) l'
  end.

(* ---------- C06: forward-declared parcelables ---------- *)
Definition conflict_diag (p c : import) : diag :=
  mk_diag DError (im_sym p) (Some "conflicting declaration"%string) [im_sym c].
Definition dup_decl_diag (p first : import) : diag :=
  mk_diag DError (im_sym p) (Some "duplicated declaration"%string) [im_sym first].
Definition unused_decl_diag (p : import) : diag :=
  mk_diag DWarning (im_sym p) (Some "unused declared parcelable"%string) [].
Definition usage_decl_diag (p : import) : diag :=
  mk_diag DWarning (im_full p) (Some "declared parcelable"%string) [].

(* earlier declarations that were not rejected as conflicting *)
Definition accepted (import_firsts : list import) (pre : list import) : list import :=
  filter (fun p => negb (is_some (conflicting_import import_firsts p))) pre.

Definition spec_declared_one (used : list str) (import_firsts : list import) (pre : list import) (p : import)
  : list diag :=
  match conflicting_import import_firsts p with
  | Some c => [conflict_diag p c]
  | None =>
      match find (same_qname (import_qname p)) (accepted import_firsts pre) with
      | Some first => [dup_decl_diag p first]
      | None => if negb (mem_str (import_qname p) used) then [unused_decl_diag p] else [usage_decl_diag p]
      end
  end.

Fixpoint spec_declared_from (used : list str) (import_firsts : list import) (pre l : list import) : list diag :=
  match l with
  | [] => []
  | p :: l' => spec_declared_one used import_firsts pre p
               ++ spec_declared_from used import_firsts (pre ++ [p]) l'
  end.
