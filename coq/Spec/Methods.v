(* C09 -- what the method-level bookkeeping must report, stated on prefixes of the method list
   (no maps, no running state): the k-th method is judged against the methods before it. *)
From AidlV Require Export Model.Validation.

Definition has_code (m : method) : bool := is_some (m_code m).
Definition no_code (m : method) : bool := negb (is_some (m_code m)).
Definition same_name (n : str) (m : method) : bool := str_eqb (m_name m) n.
Definition same_code (c : N) (m : method) : bool :=
  match m_code m with Some c' => N.eqb c' c | None => false end.

(* U: the methods of the prefix whose name does not repeat an earlier one ("methods with distinct names") *)
Fixpoint distinct_named (pre : list method) : list method :=
  match pre with
  | [] => []
  | m :: pre' => m :: filter (fun p => negb (same_name (m_name m) p)) (distinct_named pre')
  end.

Definition dup_name_diag (m first : method) : diag :=
  mk_diag DError (m_sym m) (Some "duplicated method name"%string) [m_sym first].
Definition mixed_diag (m other : method) : diag :=
  mk_diag DError (m_code_range m) None [m_code_range other].
Definition dup_code_diag (m first : method) : diag :=
  mk_diag DError (m_code_range m) (Some "duplicated import"%string) [m_code_range first].

(* the three C09 diagnostics for method m, given the methods that precede it *)
Definition spec_method (pre : list method) (m : method) : list diag :=
  match find (same_name (m_name m)) pre with
  | Some first => [dup_name_diag m first]          (* points back to the FIRST occurrence *)
  | None =>
      let U := distinct_named pre in
      let with_ := existsb has_code U in
      let without := existsb no_code U in
      (* m is the first method that makes the interface mixed *)
      (if has_code m && without && negb with_ then
         match find no_code U with Some o => [mixed_diag m o] | None => [] end
       else if no_code m && with_ && negb without then
         match find has_code U with Some o => [mixed_diag m o] | None => [] end
       else []) ++
      (match m_code m with
       | Some c => match find (same_code c) U with Some first => [dup_code_diag m first] | None => [] end
       | None => []
       end)
  end.

(* all methods, in order; check_method's own diagnostics (C07, C10) come first for each method *)
Fixpoint spec_methods_from (pre : list method) (l : list method) : list diag :=
  match l with
  | [] => []
  | m :: l' => (check_method m ++ spec_method pre m) ++ spec_methods_from (pre ++ [m]) l'
  end.

Definition spec_methods (ms : list method) : list diag := spec_methods_from [] ms.

(* only the C09 part *)
Fixpoint spec_c09_from (pre : list method) (l : list method) : list diag :=
  match l with
  | [] => []
  | m :: l' => spec_method pre m ++ spec_c09_from (pre ++ [m]) l'
  end.
