(* C10 -- oneway propagation and the void rule, stated declaratively *)
From AidlV Require Export Model.Validation.

Definition set_oneway (b : bool) (m : method) : method :=
  Method b (m_name m) (m_ret m) (m_args m) (m_annots m) (m_code m) (m_doc m) (m_sym m) (m_full m)
         (m_code_range m) (m_oneway_range m).

(* the tree after propagation: in a oneway interface every method is oneway, nothing else changes *)
Definition propagate_ie (ow : bool) (e : iface_elem) : iface_elem :=
  match e with
  | IEConst c => IEConst c
  | IEMethod m => IEMethod (set_oneway (ow || m_oneway m) m)
  end.

Definition propagate (it : item) : item :=
  match it with
  | ItInterface i =>
      ItInterface (Interface (i_oneway i) (i_name i) (map (propagate_ie (i_oneway i)) (i_elems i))
                             (i_annots i) (i_doc i) (i_full i) (i_sym i))
  | _ => it
  end.

Definition redundant_diag (isym : range) (m : method) : diag :=
  mk_diag DWarning (m_oneway_range m) (Some "redundant oneway"%string) [isym].

(* one Warning per method that spells `oneway` inside a oneway interface, on the keyword's range *)
Definition spec_redundant (it : item) : list diag :=
  match it with
  | ItInterface i =>
      if i_oneway i
      then flat_map (fun m => if m_oneway m then [redundant_diag (i_sym i) m] else []) (methods_of it)
      else []
  | _ => []
  end.

Definition return_diag (m : method) : diag :=
  mk_diag DError (ty_sym (m_ret m)) (Some "must be void"%string) [].

(* one Error per method that is oneway (after propagation) and does not return void, on the return type *)
Definition spec_return (m : method) : list diag :=
  if m_oneway m && negb (is_void (ty_kind (m_ret m))) then [return_diag m] else [].
