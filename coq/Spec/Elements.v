(* C08 -- container element rules, copied from the property statement, and the expected diagnostics
   of a whole type tree by structural recursion *)
From AidlV Require Export Model.Validation.

(* arrays may hold primitives, String, enums, parcelables (defined, forward-declared or unknown imports),
   IBinder, FileDescriptor and ParcelFileDescriptor, but not another array (multi-dimensional), list, map,
   void, CharSequence, interface or ParcelableHolder; unresolved names get the benefit of the doubt *)
Definition array_rule (c : category) : array_verdict :=
  match c with
  | CArray => AMulti
  | CPrimitive | CString | CEnum | CParcelable | CForward | CUnknownImport
  | CIBinder | CFileDescriptor | CParcelFileDescriptor | CUnresolved => AOk
  | CList | CMap | CVoid | CCharSequence | CInterface | CParcelableHolder => ABad
  end.

(* lists may hold String, parcelables (defined, forward-declared, unknown imports), IBinder and
   ParcelFileDescriptor only *)
Definition list_ok (c : category) : bool :=
  match c with
  | CString | CParcelable | CForward | CUnknownImport | CIBinder | CParcelFileDescriptor | CUnresolved => true
  | _ => false
  end.

(* map keys must be String (written `String`) *)
Definition mapkey_ok (c : category) (name : str) : bool :=
  match c with CString => str_eqb name (lit "String") | _ => false end.

(* map values may be anything but primitives, void and enums *)
Definition mapval_ok (c : category) : bool :=
  match c with CPrimitive | CVoid | CEnum => false | _ => true end.

Definition spec_array_elem (e : ty) : list diag :=
  match array_rule (cat (ty_kind e)) with
  | AOk => []
  | ABad => [elem_diag "invalid parameter" e]
  | AMulti => [elem_diag "unsupported array" e]
  end.
Definition spec_list_elem (e : ty) : list diag :=
  if list_ok (cat (ty_kind e)) then [] else [elem_diag "invalid element" e].
Definition spec_map_key (e : ty) : list diag :=
  if mapkey_ok (cat (ty_kind e)) (ty_name e) then [] else [elem_diag "invalid map key" e].
Definition spec_map_value (e : ty) : list diag :=
  if mapval_ok (cat (ty_kind e)) then [] else [elem_diag "invalid map value" e].

Definition raw_list_diag (t : ty) := mk_diag DWarning (ty_sym t) (Some "non-generic list"%string) [].
Definition raw_map_diag (t : ty) := mk_diag DWarning (ty_sym t) (Some "non-generic map"%string) [].

(* what the container t itself owes (nothing for non-containers) *)
Definition spec_own (t : ty) : list diag :=
  match ty_kind t, ty_generics t with
  | KArray, e :: _ => spec_array_elem e
  | KList, [] => [raw_list_diag t]
  | KList, e :: _ => spec_list_elem e
  | KMap, [] => [raw_map_diag t]
  | KMap, k :: v :: _ => spec_map_key k ++ spec_map_value v
  | _, _ => []
  end.

(* the whole tree: every container at every depth (an array's element subtree first) *)
Fixpoint spec_container_ty (t : ty) : list diag :=
  let 'Ty n k g s f := t in
  let sub := (fix go (l : list ty) : list diag :=
                match l with [] => [] | x :: l' => spec_container_ty x ++ go l' end) g in
  match k with
  | KArray => sub ++ spec_own t
  | _ => spec_own t ++ sub
  end.

(* the arities the grammar guarantees: Array 1, List 0|1, Map 0|2, everything else 0 *)
Fixpoint wf_arity (t : ty) : bool :=
  let 'Ty n k g s f := t in
  (match k, g with
   | KArray, [_] => true
   | KArray, _ => false
   | KList, ([] | [_]) => true
   | KList, _ => false
   | KMap, ([] | [_; _]) => true
   | KMap, _ => false
   | _, _ => true
   end) &&
  (fix go (l : list ty) : bool := match l with [] => true | x :: l' => wf_arity x && go l' end) g.
