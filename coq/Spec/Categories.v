(* C07 -- the direction rule per type category, copied from the property statement *)
From AidlV Require Export Model.Validation.

(* arrays, lists, maps, parcelables and forward-declared parcelables require an explicit direction;
   primitives, String, CharSequence, interfaces, enums, IBinder, FileDescriptor and unknown imported
   objects accept only `in` or no direction; ParcelFileDescriptor only `in` or `inout`;
   ParcelableHolder is never a legal argument; an unresolved type imposes nothing.
   (The statement is silent on `void`; the code treats it like a primitive and so does this table.) *)
Definition req (c : category) : requirement :=
  match c with
  | CArray | CList | CMap | CParcelable | CForward => ReqRequired
  | CPrimitive | CString | CCharSequence | CInterface | CEnum | CIBinder | CFileDescriptor | CUnknownImport
  | CVoid => ReqInOrNone
  | CParcelFileDescriptor => ReqInOrInout
  | CParcelableHolder => ReqNever
  | CUnresolved => ReqNone
  end.

Inductive dir := DirNone | DirIn | DirOut | DirInOut.
Definition dir_of (d : direction) : dir :=
  match d with DUnspecified => DirNone | DIn _ => DirIn | DOut _ => DirOut | DInOut _ => DirInOut end.

Definition rule_broken (r : requirement) (d : dir) : bool :=
  match r, d with
  | ReqRequired, DirNone => true
  | ReqRequired, _ => false
  | ReqInOrNone, (DirNone | DirIn) => false
  | ReqInOrNone, _ => true
  | ReqInOrInout, (DirIn | DirInOut) => false
  | ReqInOrInout, _ => true
  | ReqNever, _ => true
  | ReqNone, _ => false
  end.

Definition oneway_broken (oneway : bool) (d : dir) : bool :=
  oneway && match d with DirOut | DirInOut => true | _ => false end.

(* number of direction Errors an argument must get *)
Definition expected_dir_errors (c : category) (d : dir) (oneway : bool) : nat :=
  (if rule_broken (req c) d then 1 else 0) + (if oneway_broken oneway d then 1 else 0).

(* ... each on the direction keyword, or an empty range at the start of the type when there is none *)
Definition where_ (a : arg) : range := dir_range a.

Definition dir_labels : list string := ["missing direction"; "invalid direction"; "invalid argument"]%string.
Definition is_dir_diag_at (r : range) (d : diag) : Prop :=
  d_kind d = DError /\ d_range d = r /\ d_related d = [] /\
  exists l, In l dir_labels /\ d_ctx d = Some (lit l).
