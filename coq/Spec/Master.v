(* The complete specification of one file's validation: the returned tree and the diagnostics,
   assembled from the per-rule specifications (C05-C10).  Shared by the property files. *)
From AidlV Require Export Spec.Pipeline Spec.Scoping Spec.Elements Spec.Oneway Spec.Methods Spec.Categories.

Section Item.
  Variable f : str -> option tkind.
  Definition mu_arg (a : arg) : arg :=
    Arg (a_dir a) (a_name a) (map_unresolved f (a_ty a)) (a_annots a) (a_doc a) (a_sym a) (a_full a).
  Definition mu_method (m : method) : method :=
    Method (m_oneway m) (m_name m) (map_unresolved f (m_ret m)) (map mu_arg (m_args m)) (m_annots m) (m_code m)
           (m_doc m) (m_sym m) (m_full m) (m_code_range m) (m_oneway_range m).
  Definition mu_const (c : const) : const :=
    Const (c_name c) (map_unresolved f (c_ty c)) (c_value c) (c_annots c) (c_doc c) (c_sym c) (c_full c).
  Definition mu_field (x : field) : field :=
    Field (f_name x) (map_unresolved f (f_ty x)) (f_value x) (f_annots x) (f_doc x) (f_sym x) (f_full x).
  Definition mu_ie (e : iface_elem) : iface_elem :=
    match e with IEMethod m => IEMethod (mu_method m) | IEConst c => IEConst (mu_const c) end.
  Definition mu_pe (e : parc_elem) : parc_elem :=
    match e with PEField x => PEField (mu_field x) | PEConst c => PEConst (mu_const c) end.
  (* the item with every unresolved type node, in every member and at every depth, re-kinded by f *)
  Definition mu_item (it : item) : item :=
    match it with
    | ItInterface i =>
        ItInterface (Interface (i_oneway i) (i_name i) (map mu_ie (i_elems i)) (i_annots i) (i_doc i) (i_full i) (i_sym i))
    | ItParcelable p =>
        ItParcelable (Parcelable (pc_name p) (map mu_pe (pc_elems p)) (pc_annots p) (pc_doc p) (pc_full p) (pc_sym p))
    | ItEnum e => ItEnum e
    end.
End Item.

Section File.
  Variables (defined : env) (a : aidl).
  Definition sp_f : str -> option tkind :=
    spec_resolve (map import_qname (ai_imports a)) (map import_qname (ai_declared a)) defined.
  Definition sp_resolved_item : item := mu_item sp_f (ai_item a).
  Definition sp_final_item : item := propagate sp_resolved_item.
  Definition sp_used : list str := resolved_set sp_resolved_item.
  Definition sp_import_firsts : list import := first_imports_from [] (ai_imports a).

  Definition sp_unknown : list diag := flat_map (spec_unknown sp_f) (all_types_pre (ai_item a)).
  Definition sp_imports : list diag := spec_imports_from sp_used defined [] (ai_imports a).
  Definition sp_declared : list diag := spec_declared_from sp_used sp_import_firsts [] (ai_declared a).
  Definition sp_containers : list diag := flat_map spec_container_ty (top_types sp_resolved_item).
  Definition sp_redundant : list diag := spec_redundant sp_resolved_item.
  Definition sp_methods : list diag := spec_methods (methods_of sp_final_item).

  Definition sp_tree : aidl := Aidl (ai_package a) (ai_imports a) (ai_declared a) sp_final_item.
  Definition sp_added : list diag :=
    sp_unknown ++ sp_imports ++ sp_declared ++ sp_containers ++ sp_redundant ++ sp_methods.
End File.

(* trees as the grammar builds them: container arities *)
Definition wf_item (it : item) : bool := forallb wf_arity (top_types it).
