(* The shape of one file's validation result: which tree, and which diagnostics (as a sorted
   permutation of the phases' outputs).  Shared by C03(e), C05-C11. *)
From Coq Require Export Permutation Sorted.
From AidlV Require Export Model.Validation.

Definition le_start (d d' : diag) : Prop := (start_off d <= start_off d')%N.

(* the phases, as functions of the input tree and environment *)
Section Phases.
  Variables (defined : env) (a : aidl).
  Definition ph_imports := map import_qname (ai_imports a).
  Definition ph_declared := map import_qname (ai_declared a).
  Definition ph_resolved_item := fst (resolve_item ph_imports ph_declared defined (ai_item a)).
  Definition ph_d_resolve := snd (resolve_item ph_imports ph_declared defined (ai_item a)).
  Definition ph_resolved := resolved_set ph_resolved_item.
  Definition ph_d_imports := fst (check_imports (ai_imports a) ph_resolved defined).
  Definition ph_import_firsts := snd (check_imports (ai_imports a) ph_resolved defined).
  Definition ph_d_declared := check_declared (ai_declared a) ph_import_firsts ph_resolved.
  Definition ph_final_item := fst (set_up_oneway ph_resolved_item).
  Definition ph_d_oneway := snd (set_up_oneway ph_resolved_item).
End Phases.
