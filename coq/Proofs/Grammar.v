(* C03: a result without an Error diagnostic comes from a run without error recovery, and such a run is a derivation of
   the token sequence in the regenerated grammar (the productions lalrpop generated the tables from).  Hence a text whose
   tokens are NOT derivable from the start symbol -- a malformed document -- always gets at least one Error. *)
From Coq Require Import ZArith.
From AidlV Require Import Model.LrDriver Proofs.Totality Proofs.Typing Proofs.Ainfer Proofs.UserTyped Proofs.Automaton
  Proofs.StackInv Proofs.LexerSafe Proofs.Keywords Proofs.DriverSafe Proofs.Lockstep.

Definition tok := (nat * str)%type.      (* terminal column, text *)

(* ---- the grammar: the regenerated productions (the accept production aside) ---- *)
Definition accept_prod : N :=
  match find (fun i => let '(_, _, _, kind) := production (N.of_nat i) in N.eqb kind 2) (seq 0 (length gen_productions)) with
  | Some i => N.of_nat i | None => 0%N end.
Definition start_sym : gsym := hd SErr (rhs_of accept_prod).

Inductive der : gsym -> list tok -> Prop :=
| der_t c text : der (ST (N.of_nat c)) [(c, text)]
| der_nt p k nt act kind ts :
    production p = (k, nt, act, kind) -> kind <> 2%N -> (N.to_nat p < length gen_productions)%nat ->
    ders (rhs_of p) ts -> der (SNT nt) ts
with ders : list gsym -> list tok -> Prop :=
| ders_nil : ders [] []
| ders_cons X Xs t1 t2 : der X t1 -> ders Xs t2 -> ders (X :: Xs) (t1 ++ t2).

(* ---- finite facts about the tables ---- *)
Definition is_errsym (X : gsym) : bool := match X with SErr => true | _ => false end.
Definition is_err_tag (u : utag) : bool := match u with U_ErrItem | U_ErrIE | U_ErrPE | U_ErrEE => true | _ => false end.

(* a production that mentions the error symbol is `X = !` with one of the four recovery actions *)
Definition err_prod_ok (p : N) : bool :=
  if existsb is_errsym (rhs_of p) then
    let '(k, nt, act, kind) := production p in
    match rhs_of p, lookup_action act gen_actions with
    | [SErr], Some (AUser u 1 [O]) => is_err_tag u && Nat.eqb k 1
    | _, _ => false
    end
  else true.
Definition check_err_prods : bool := forallb err_prod_ok (map N.of_nat (seq 0 (length gen_productions))).
Lemma err_prods_checked : check_err_prods = true.  Proof. vm_compute. reflexivity. Qed.

(* the accept production pops one symbol, the start symbol; it is the only production of kind 2; and it is only possible
   in a state whose single predecessor is state 0 *)
Lemma accept_rhs : exists n, rhs_of accept_prod = [SNT n] /\ start_sym = SNT n.
Proof. vm_compute. eexists. split; reflexivity. Qed.
Lemma accept_production : exists nt act, production accept_prod = (1%nat, nt, act, 2%N).
Proof. vm_compute. do 2 eexists. reflexivity. Qed.
Definition check_kind2 : bool :=
  forallb (fun i => let '(_, _, _, kind) := production (N.of_nat i) in negb (N.eqb kind 2) || N.eqb (N.of_nat i) accept_prod)
          (seq 0 (length gen_productions)).
Lemma kind2_checked : check_kind2 = true.  Proof. vm_compute. reflexivity. Qed.
Definition check_accept_preds : bool :=
  forallb (fun s => if existsb (N.eqb accept_prod) (reduces_of s)
                    then match preds s with [t] => N.eqb t 0 | _ => false end else true) all_states.
Lemma accept_preds_checked : check_accept_preds = true.  Proof. vm_compute. reflexivity. Qed.

(* the accept production is taken on end of input only *)
Definition check_accept_eof_only : bool :=
  forallb (fun s => forallb (fun col => match as_reduce (action_at s col) with Some r => negb (N.eqb r accept_prod) | None => true end) all_cols) all_states.
Lemma accept_eof_only_checked : check_accept_eof_only = true.  Proof. vm_compute. reflexivity. Qed.

Lemma action_fuel_S : action_fuel = S (pred action_fuel).  Proof. vm_compute. reflexivity. Qed.

Lemma ders_app A B t1 t2 : ders A t1 -> ders B t2 -> ders (A ++ B) (t1 ++ t2).
Proof.
  induction 1 as [|X Xs u1 u2 HX HXs IH]; intros HB; [exact HB|]. cbn. rewrite <- app_assoc. constructor; [exact HX|apply IH; exact HB].
Qed.
Lemma ders_one X seg : der X seg -> ders [X] seg.
Proof. intros H. rewrite <- (app_nil_r seg). constructor; [exact H|constructor]. Qed.

(* the state stack as a derivation: one token segment per symbol, top first *)
Inductive dstack : list N -> list (list tok) -> Prop :=
| DS_init : dstack [0%N] []
| DS_push s' X t st seg segs : dstack (t :: st) segs -> acc s' = Some X -> der X seg -> dstack (s' :: t :: st) (seg :: segs).

Lemma dstack_len states segs : dstack states segs -> length states = S (length segs).
Proof. induction 1; cbn in *; [reflexivity|congruence]. Qed.
Lemma dstack_pop k states segs : dstack states segs -> (k <= length segs)%nat -> dstack (skipn k states) (skipn k segs).
Proof.
  intros H. revert k. induction H as [|s' X t st seg segs H IH HA HD]; intros k Hk.
  - cbn in Hk. assert (k = O) by lia. subst. constructor.
  - destruct k; [cbn; econstructor; eauto|]. cbn [skipn]. apply IH. cbn in Hk. lia.
Qed.
Lemma dstack_push states segs s' X seg : dstack states segs -> acc s' = Some X -> der X seg -> dstack (s' :: states) (seg :: segs).
Proof. intros H A Dr. inversion H; subst; econstructor; eauto. Qed.
Lemma dstack_labels states segs : dstack states segs ->
  forall i seg, nth_error segs i = Some seg -> exists X, acc (nth i states 0%N) = Some X /\ der X seg.
Proof.
  induction 1 as [|s' X t st seg0 segs H IH HA HD]; intros i seg Hi; [destruct i; discriminate|].
  destruct i; cbn in Hi; [inversion Hi; subst; cbn; eauto|]. cbn [nth]. apply IH. exact Hi.
Qed.

(* the k segments on top, read bottom-up, derive from the symbols that label the k states on top, read bottom-up *)
Lemma ders_of_labels (Xs : list gsym) : forall (states : list N) (segs : list (list tok)),
  (forall i seg, nth_error segs i = Some seg -> exists X, acc (nth i states 0%N) = Some X /\ der X seg) ->
  (length Xs <= length segs)%nat ->
  (forall i X, nth_error Xs i = Some X -> acc (nth i states 0%N) = Some X) ->
  ders (rev Xs) (concat (rev (firstn (length Xs) segs))).
Proof.
  induction Xs as [|X Xs IH]; intros states segs HL Hlen HA; [constructor|].
  destruct segs as [|seg segs]; [cbn in Hlen; lia|]. cbn [length firstn rev].
  rewrite concat_app. cbn [concat]. rewrite app_nil_r. apply ders_app.
  - apply (IH (tl states) segs).
    + intros i s Hs. destruct (HL (S i) s Hs) as [X' [A Dr]]. exists X'. split; [|exact Dr]. destruct states; [destruct i; exact A|exact A].
    + cbn in Hlen. lia.
    + intros i Y HY. specialize (HA (S i) Y HY). destruct states; [destruct i; exact HA|exact HA].
  - apply ders_one. destruct (HL O seg eq_refl) as [X' [A Dr]]. rewrite (HA O X eq_refl) in A. inversion A; subst. exact Dr.
Qed.

Section G.
  Variable cx : ctx.
  Hypothesis WF : length (cx_lc cx) = S (length (cx_src cx)).

  Definition has_errsym (states : list N) : Prop := exists s, In s states /\ acc s = Some SErr.
  (* recovery has left its mark: an error symbol is on the stack, or an Error has been pushed *)
  Definition J (p : pst) : Prop := has_errsym (ps_states p) \/ errb (ps_diags p) = true.
  Definition D (p : pst) (toks : list tok) : Prop := exists segs, dstack (ps_states p) segs /\ concat (rev segs) = toks.
  Definition G (p : pst) (toks : list tok) : Prop := J p \/ D p toks.

  Lemma kind2_is_accept idx k nt act kind : production idx = (k, nt, act, kind) -> (N.to_nat idx < length gen_productions)%nat ->
    kind = 2%N -> idx = accept_prod.
  Proof.
    intros HP Hi ->. pose proof kind2_checked as C. unfold check_kind2 in C. rewrite forallb_forall in C.
    assert (I : In (N.to_nat idx) (seq 0 (length gen_productions))) by (apply in_seq; lia).
    specialize (C _ I). rewrite N2Nat.id, HP in C. rewrite N.eqb_refl in C. cbn [negb orb] in C. apply N.eqb_eq in C. exact C.
  Qed.

  Definition legit (s r : N) : Prop := In s all_states /\ In r (reduces_of s).
  Lemma legit_action s col r : (col < gen_ncols)%nat -> as_reduce (action_at s col) = Some r -> legit s r.
  Proof.
    intros Hc H. split; [exact (action_state s col (as_reduce_nz _ _ H))|].
    unfold reduces_of. apply in_or_app. left. apply in_flat_map. exists col. split; [apply in_seq; lia|]. rewrite H. left. reflexivity.
  Qed.
  Lemma legit_eof s r : as_reduce (eof_action_at s) = Some r -> legit s r.
  Proof.
    intros H. split; [exact (eof_action_state s (as_reduce_nz _ _ H))|].
    unfold reduces_of. apply in_or_app. right. rewrite H. left. reflexivity.
  Qed.
  Lemma legit_ok s r : legit s r -> reduce_ok s r = true.
  Proof.
    intros [Hs Hr]. pose proof reduces_checked as C. unfold check_reduces in C. rewrite forallb_forall in C. specialize (C s Hs).
    rewrite forallb_forall in C. apply C. apply nodup_In. exact Hr.
  Qed.

  Lemma acc0 : acc 0%N = None.
  Proof. reflexivity. Qed.

  (* when the accept production is reduced, the stack is [s; 0] and s is accessed by the start symbol *)
  Lemma accept_stack l states syms : stack_ok cx l states syms -> legit (hd 0%N states) accept_prod ->
    exists s, states = [s; 0%N] /\ acc s = Some start_sym.
  Proof.
    intros HS L. pose proof (legit_ok _ _ L) as HR. destruct accept_production as [nt [act HP]]. destruct accept_rhs as [n [ER ES]].
    destruct (popped_typed cx WF l _ _ _ _ _ _ _ HS HR HP) as [Hk _].
    destruct (reduce_ok_spec _ _ _ _ _ _ HR HP) as [_ [HA _]].
    rewrite ER in HA. specialize (HA O (SNT n) eq_refl (hd 0%N states) (or_introl eq_refl)).
    inversion HS as [E1 E2|s' X t st x syms' H1 H2 H3 H4 E1 E2]; subst; [cbn in Hk; lia|]. cbn [hd] in *.
    assert (T0 : t = 0%N).
    { pose proof accept_preds_checked as C. unfold check_accept_preds in C. rewrite forallb_forall in C.
      destruct L as [Hs Hr]. specialize (C s' Hs).
      assert (E : existsb (N.eqb accept_prod) (reduces_of s') = true) by (apply existsb_exists; exists accept_prod; split; [exact Hr|apply N.eqb_refl]).
      rewrite E in C. destruct (preds s') as [|t0 [|? ?]]; try discriminate C. apply N.eqb_eq in C. subst t0.
      destruct H3 as [<-|[]]. reflexivity. }
    subst t. exists s'. split; [|rewrite ES; exact HA].
    inversion H1 as [E1 E2|s'' X' t' st' x' syms'' G1 G2 G3 G4 E1 E2]; subst; [reflexivity|].
    rewrite acc0 in G2. discriminate.
  Qed.

  Lemma err_prod_spec p k nt act kind : production p = (k, nt, act, kind) -> (N.to_nat p < length gen_productions)%nat ->
    existsb is_errsym (rhs_of p) = true ->
    rhs_of p = [SErr] /\ k = 1%nat /\ exists u, is_err_tag u = true /\ lookup_action act gen_actions = Some (AUser u 1 [O]).
  Proof.
    intros HP Hi HE. pose proof err_prods_checked as C. unfold check_err_prods in C. rewrite forallb_forall in C.
    assert (I : In p (map N.of_nat (seq 0 (length gen_productions)))).
    { rewrite <- (N2Nat.id p). apply in_map. apply in_seq. lia. }
    specialize (C p I). unfold err_prod_ok in C. rewrite HE, HP in C.
    destruct (rhs_of p) as [|[c|n|] [|? ?]]; try discriminate C.
    destruct (lookup_action act gen_actions) as [[g a i|u a i|w]|]; try discriminate C.
    destruct a as [|[|a]]; try discriminate C. destruct i as [|[|i0] [|? ?]]; try discriminate C.
    apply andb_true_iff in C as [C1 C2]. apply Nat.eqb_eq in C2. subst. split; [reflexivity|]. split; [reflexivity|]. exists u. auto.
  Qed.

  Lemma err_action_emits act u l x lb la : lookup_action act gen_actions = Some (AUser u 1 [O]) -> is_err_tag u = true ->
    typed_triple cx l TErr x -> errb (snd (gen_action act cx lb la [x])) = true.
  Proof.
    intros HL HT [_ [_ HX]]. unfold gen_action. rewrite action_fuel_S. cbn [eval_action]. rewrite HL. cbn [length Nat.eqb vals_at map nth].
    destruct (tval x) as [| | | | | |e| | | | | | | | | | | | | | | | | | | |]; try contradiction. cbn in HX.
    assert (D : exists d, diag_of_error cx e = Some d /\ d_kind d = DError).
    { destruct e; cbn in HX |- *.
      - destruct (mk_range_total cx WF loc loc HX HX) as [r ->]. eexists; split; reflexivity.
      - destruct (mk_range_total cx WF loc loc HX HX) as [r ->]. eexists; split; reflexivity.
      - destruct HX as [H1 H2]. destruct (mk_range_total cx WF s e H1 H2) as [r ->]. eexists; split; reflexivity.
      - destruct HX as [H1 H2]. destruct (mk_range_total cx WF s e H1 H2) as [r ->]. eexists; split; reflexivity. }
    destruct D as [d [E K]].
    destruct u; try discriminate HT; cbn [user_fn]; unfold act_ErrItem, act_ErrIE, act_ErrPE, act_ErrEE, act_err, diag_of_recovery;
      rewrite E; cbn; unfold is_error; cbn; rewrite K; reflexivity.
  Qed.

  Lemma in_skipn_of_nth (states : list N) k i : (k <= i)%nat -> (i < length states)%nat -> In (nth i states 0%N) (skipn k states).
  Proof.
    revert states i. induction k as [|k IH]; intros states i Hk Hi; [apply nth_In; exact Hi|].
    destruct states as [|s st]; [cbn in Hi; lia|]. destruct i; [lia|]. cbn [skipn nth]. apply IH; [lia|cbn in Hi; lia].
  Qed.

  (* one reduction keeps the invariant: recovery's mark stays, or the stack stays a derivation of the same tokens *)
  Lemma reduce_JD p idx la toks :
    pst_ok cx p -> legit (top_state p) idx -> ola_ok cx la ->
    (J p -> match reduce cx p idx la with RCont p' => J p' | RAccept p' _ => errb (ps_diags p') = true | RPanic _ => True end) /\
    (D p toks -> match reduce cx p idx la with RCont p' => D p' toks | RAccept _ _ => der start_sym toks | RPanic _ => True end).
  Proof.
    intros Hp L Hla. pose proof (legit_ok _ _ L) as HR.
    destruct (production idx) as [[[k nt] act] kind] eqn:HP.
    pose proof (reduce_ok_range cx WF _ _ HR) as Hi.
    destruct (Lockstep.red_valid cx WF p idx la k nt act kind Hp HR Hla HP) as [V1 [V2 [Hk F]]].
    rewrite (Lockstep.reduce_eq cx p idx la k nt act kind HP).
    destruct (gen_action act cx (Lockstep.red_start p k la) (Lockstep.red_stop p k la) (Lockstep.red_popped p k)) as [v ds] eqn:GA.
    destruct (is_panic v); [split; intros; exact I|].
    assert (LV : forall a b c d e, errb (ps_diags (PSt a b c d e (ps_diags p ++ ds))) = errb (ps_diags p) || errb ds) by (intros; cbn; apply errb_app).
    destruct Hp as [HS [HL HX]].
    destruct (reduce_ok_spec _ _ _ _ _ _ HR HP) as [Hlen [HA HGo]].
    pose proof (stack_len cx _ _ _ HS) as LEN.
    split; [intros [[se [Ise Ase]]|HE]|intros [segs [DS EQ]]].
    - (* an error symbol on the stack *)
      destruct (existsb is_errsym (rhs_of idx)) eqn:EX.
      + destruct (err_prod_spec idx k nt act kind HP Hi EX) as [ER [-> [u [HT HLk]]]].
        rewrite ER in F. cbn [map] in F.
        assert (ED : errb ds = true).
        { unfold Lockstep.red_popped in *. destruct (rev (firstn 1 (ps_syms p))) as [|x [|? ?]] eqn:EP; inversion F as [|? ? ? ? T FF]; subst; inversion FF; subst.
          pose proof (err_action_emits act u (lvl p) x (Lockstep.red_start p 1 la) (Lockstep.red_stop p 1 la) HLk HT) as EM.
          assert (TT : typed_triple cx (lvl p) TErr x) by exact T. specialize (EM TT). rewrite GA in EM. exact EM. }
        destruct (N.eqb kind 2); [cbn [ps_diags]; rewrite errb_app, ED; apply orb_true_r|right; cbn [ps_diags]; rewrite errb_app, ED; apply orb_true_r].
      + (* the popped states are accessed by the right-hand side, which has no error symbol: the marked state stays *)
        apply In_nth with (d := 0%N) in Ise. destruct Ise as [i [Hi' Ei]].
        assert (Hki : (k <= i)%nat).
        { destruct (Nat.le_gt_cases k i) as [|Hlt]; [assumption|exfalso].
          assert (NX : exists X, nth_error (rev (rhs_of idx)) i = Some X).
          { destruct (nth_error (rev (rhs_of idx)) i) eqn:E; [eauto|]. apply nth_error_None in E. rewrite rev_length in E. lia. }
          destruct NX as [X HNX]. pose proof (HA i X HNX (nth i (ps_states p) 0%N)) as A.
          assert (B : In (nth i (ps_states p) 0%N) (back i [top_state p])) by (apply (stack_back cx WF _ _ _ HS); lia).
          specialize (A B). rewrite Ei, Ase in A. inversion A; subst X.
          apply nth_error_In, in_rev in HNX. rewrite <- not_true_iff_false in EX. apply EX. apply existsb_exists. exists SErr. split; [exact HNX|reflexivity]. }
        destruct (N.eqb_spec kind 2) as [->|Hkind].
        * (* accept with an error symbol on the stack: impossible, the stack is [s; 0] *)
          exfalso. rewrite (kind2_is_accept idx k nt act 2%N HP Hi eq_refl) in L.
          destruct (accept_stack _ _ _ HS L) as [s [ES AS]]. rewrite ES in *.
          destruct accept_rhs as [n [_ ESS]]. rewrite ESS in AS.
          destruct i as [|[|i]]; cbn in Ei, Hi'; [subst se; congruence|subst se; rewrite acc0 in Ase; discriminate|lia].
        * left. exists se. split; [|exact Ase]. cbn [ps_states]. right. rewrite <- Ei. apply in_skipn_of_nth; assumption.
    - (* an Error has been pushed already *)
      destruct (N.eqb kind 2); [cbn [ps_diags]; rewrite errb_app, HE; reflexivity|right; cbn [ps_diags]; rewrite errb_app, HE; reflexivity].
    - (* the stack is a derivation *)
      pose proof (dstack_len _ _ DS) as DL.
      assert (Hks : (k <= length segs)%nat) by lia.
      assert (DR : ders (rhs_of idx) (concat (rev (firstn k segs)))).
      { rewrite <- (rev_involutive (rhs_of idx)). rewrite <- Hlen, <- (rev_length (rhs_of idx)).
        apply (ders_of_labels (rev (rhs_of idx)) (ps_states p) segs).
        - apply dstack_labels. exact DS.
        - rewrite rev_length. lia.
        - intros i X HiX. apply (HA i X HiX). apply (stack_back cx WF _ _ _ HS).
          assert (LT : (i < length (rev (rhs_of idx)))%nat) by (apply nth_error_Some; congruence). rewrite rev_length in LT. lia. }
      assert (CC : concat (rev (skipn k segs)) ++ concat (rev (firstn k segs)) = toks).
      { rewrite <- EQ. rewrite <- (firstn_skipn k segs) at 3. rewrite rev_app_distr, concat_app. reflexivity. }
      destruct (N.eqb_spec kind 2) as [->|Hkind].
      + rewrite (kind2_is_accept idx k nt act 2%N HP Hi eq_refl) in *.
        destruct (accept_stack _ _ _ HS L) as [s [ES AS]]. rewrite ES in DS.
        destruct accept_rhs as [n [ER ESS]].
        inversion DS as [|s' X t st seg segs' D1 D2 D3 E1 E2]. inversion D1. subst.
        cbn [rev app concat]. rewrite app_nil_r. rewrite AS in D2. inversion D2; subst. exact D3.
      + exists (concat (rev (firstn k segs)) :: skipn k segs). split.
        * cbn [ps_states]. destruct (HGo Hkind (hd 0%N (skipn k (ps_states p)))) as [A _].
          { rewrite <- nth_skipn_hd. apply (stack_back cx WF _ _ _ HS). exact Hk. }
          apply (dstack_push _ _ _ (SNT nt)); [apply dstack_pop; assumption|exact A|].
          eapply der_nt; eauto.
        * cbn [rev]. rewrite concat_app. cbn [concat]. rewrite app_nil_r. exact CC.
  Qed.

  Lemma reduce_G p idx la toks :
    pst_ok cx p -> legit (top_state p) idx -> ola_ok cx la -> G p toks ->
    match reduce cx p idx la with
    | RCont p' => G p' toks
    | RAccept p' v => errb (ps_diags p') = true \/ der start_sym toks
    | RPanic _ => True
    end.
  Proof.
    intros Hp L Hla [HJ|HD]; destruct (reduce_JD p idx la toks Hp L Hla) as [A B].
    - specialize (A HJ). destruct (reduce cx p idx la); [left; exact A|left; exact A|exact I].
    - specialize (B HD). destruct (reduce cx p idx la); [right; exact B|right; exact B|exact I].
  Qed.

  Lemma not_accept_on_col s col r : (col < gen_ncols)%nat -> as_reduce (action_at s col) = Some r -> r <> accept_prod.
  Proof.
    intros Hc H E. pose proof (action_state s col (as_reduce_nz _ _ H)) as Hs.
    pose proof accept_eof_only_checked as C. unfold check_accept_eof_only in C. rewrite forallb_forall in C. specialize (C s Hs).
    rewrite forallb_forall in C. assert (I : In col all_cols) by (apply in_seq; lia). specialize (C col I). rewrite H, E, N.eqb_refl in C. discriminate.
  Qed.

  (* a reduction that is not the accept production never accepts *)
  Lemma reduce_no_accept p idx la : reduce_ok (top_state p) idx = true -> idx <> accept_prod ->
    match reduce cx p idx la with RAccept _ _ => False | _ => True end.
  Proof.
    intros HR NE. destruct (production idx) as [[[k nt] act] kind] eqn:HP.
    rewrite (Lockstep.reduce_eq cx p idx la k nt act kind HP).
    destruct (gen_action act cx _ _ _) as [v ds]. destruct (is_panic v); [exact I|].
    destruct (N.eqb_spec kind 2) as [->|]; [|exact I].
    apply NE. eapply kind2_is_accept; eauto. exact (reduce_ok_range cx WF _ _ HR).
  Qed.

  Definition not_done (r : outcome3) : Prop := match r with Done _ => False | _ => True end.

  (* ---- error recovery always leaves its mark ---- *)
  Lemma error_reductions_G la toks : ola_ok cx la -> forall fuel p, pst_ok cx p -> G p toks ->
    match error_reductions cx fuel p la with RCont p' => pst_ok cx p' /\ G p' toks | RAccept _ _ => False | RPanic _ => True end.
  Proof.
    intros Hla. induction fuel as [|fuel IH]; intros p Hp HG; cbn [error_reductions]; [auto|].
    destruct (as_reduce (error_action_at (top_state p))) as [r|] eqn:E; [|auto].
    pose proof (legit_action _ _ _ (err_col cx WF) E) as L.
    pose proof (reduce_G p r la toks Hp L Hla HG) as R.
    pose proof (reduce_safe cx WF p r la Hp (legit_ok _ _ L) Hla) as S.
    pose proof (reduce_no_accept p r la (legit_ok _ _ L) (not_accept_on_col _ _ _ (err_col cx WF) E)) as NA.
    destruct (reduce cx p r la) as [p'|p' v|p']; [|contradiction|exact I]. apply IH; tauto.
  Qed.

  Lemma recover_loop_J error n : forall fuel p la dropped,
    match recover_loop fuel p error la dropped n with
    | RecFound p' _ _ _ _ => J p' | RecEof p' => J p' | RecStop _ r => not_done r end.
  Proof.
    induction fuel as [|fuel IH]; intros p la dropped; cbn [recover_loop]; [exact I|].
    destruct (find_recover (ps_states p) (option_map (fun x => snd x) la)) as [top|].
    - match goal with |- context [as_shift (error_action_at ?x)] => destruct (as_shift (error_action_at x)) as [es|] eqn:E end; [|exact I].
      destruct (shift_legit _ _ _ (err_col cx WF) E) as [A _].
      assert (Q : forall a b c d e f, J (PSt (es :: a) b c d e f)).
      { intros. left. exists es. split; [left; reflexivity|exact A]. }
      destruct la as [[[[s t] e] col]|]; apply Q.
    - destruct la as [[[[s t] e] col]|]; [|exact I].
      destruct (next_tok p) as [p' ? ? ? ?|p'|p' r] eqn:NT; [apply IH|apply IH|].
      unfold next_tok in NT. destruct (lex1 (ps_rest p) (ps_off p)); try discriminate; [|inversion NT; exact I].
      destruct (gen_token_to_integer idx); inversion NT. exact I.
  Qed.

  Lemma error_recovery_J p la toks : pst_ok cx p -> la_ok cx la -> G p toks ->
    match error_recovery cx p la with
    | RecFound p' _ _ _ _ => J p' | RecEof p' => J p' | RecStop _ r => not_done r end.
  Proof.
    intros Hp Hla HG. unfold error_recovery.
    assert (Ho : ola_ok cx (option_map (fun x : N * str * N * nat => let '(s, _, _, _) := x in s) la)).
    { destruct la as [[[[s t] e] col]|]; cbn; [destruct Hla; assumption|exact I]. }
    pose proof (error_reductions_G _ toks Ho reduce_fuel p Hp HG) as R.
    destruct (error_reductions cx reduce_fuel p _) as [p'|p' v|p']; [apply recover_loop_J|contradiction|exact I].
  Qed.


  (* ---- the token sequence of a source ---- *)
  Inductive lexes_to_eof : str * N -> list tok -> Prop :=
  | LE_eof s o : lex1 s o = LEof -> lexes_to_eof (s, o) []
  | LE_tok s o a idx text e r col l :
      lex1 s o = LTok a idx text e r -> gen_token_to_integer idx = Some col -> lexes_to_eof (r, e) l ->
      lexes_to_eof (s, o) ((N.to_nat col, text) :: l).

  Lemma J_G p toks : J p -> G p toks.  Proof. intros H. left. exact H. Qed.

  Definition fin_J (x : pst * outcome3) : Prop := match snd x with Done _ => errb (ps_diags (fst x)) = true | _ => True end.

  (* ---- once recovery has left its mark, a Done outcome carries an Error ---- *)
  Lemma parse_eof_J : forall fuel p, pst_ok cx p -> J p -> fin_J (parse_eof cx fuel p).
  Proof.
    induction fuel as [|fuel IH]; intros p Hp HJ; cbn [parse_eof]; [exact I|].
    destruct (as_reduce (eof_action_at (top_state p))) as [r|] eqn:E.
    - pose proof (legit_eof _ _ E) as L.
      destruct (reduce_JD p r None [] Hp L I) as [A _]. specialize (A HJ).
      pose proof (reduce_safe cx WF p r None Hp (legit_ok _ _ L) I) as S.
      destruct (reduce cx p r None) as [p'|p' v|p']; [apply IH; tauto|exact A|exact I].
    - pose proof (error_recovery_J p None [] Hp I (J_G p [] HJ)) as R.
      pose proof (error_recovery_safe cx WF p None Hp I) as S.
      destruct (error_recovery cx p None) as [p' ? ? ? ?|p'|p' r]; [exact I|apply IH; assumption|].
      unfold fin_J. cbn. destruct r; try exact I. contradiction.
  Qed.

  Definition wl_J (x : pst * option outcome3 * bool) : Prop :=
    match x with (p', Some r, _) => not_done r | (p', None, _) => J p' end.

  Lemma with_lookahead_J : forall fuel p s text e col, pst_ok cx p -> tok_ok cx s text e col -> J p ->
    wl_J (with_lookahead cx fuel p s text e col).
  Proof.
    induction fuel as [|fuel IH]; intros p s text e col Hp Ht HJ; cbn [with_lookahead]; [exact I|].
    assert (Hc : (col < gen_ncols)%nat) by (destruct Ht as [_ [_ [H _]]]; lia).
    destruct (as_shift (action_at (top_state p) col)) as [target|] eqn:ES.
    - cbn [wl_J]. destruct HJ as [[se [I1 A1]]|HE]; [left; exists se; split; [right; exact I1|exact A1]|right; exact HE].
    - destruct (as_reduce (action_at (top_state p) col)) as [r|] eqn:ER.
      + pose proof (legit_action _ _ _ Hc ER) as L.
        assert (Hs : ola_ok cx (Some s)) by (destruct Ht; assumption).
        destruct (reduce_JD p r (Some s) [] Hp L Hs) as [A _]. specialize (A HJ).
        pose proof (reduce_safe cx WF p r (Some s) Hp (legit_ok _ _ L) Hs) as S.
        destruct (reduce cx p r (Some s)) as [p'|p' v|p']; [apply IH; tauto|exact I|exact I].
      + pose proof (error_recovery_J p (Some (s, text, e, col)) [] Hp Ht (J_G p [] HJ)) as R.
        pose proof (error_recovery_safe cx WF p (Some (s, text, e, col)) Hp Ht) as S.
        destruct (error_recovery cx p (Some (s, text, e, col))) as [p' s' t' e' col'|p'|p' r]; cbn [rec_ok] in S;
          [apply IH; tauto|exact R|exact R].
  Qed.

  Lemma parse_loop_J : forall fuel p, pst_ok cx p -> J p -> fin_J (parse_loop cx fuel p).
  Proof.
    induction fuel as [|fuel IH]; intros p Hp HJ; cbn [parse_loop]; [exact I|].
    pose proof (next_tok_safe cx WF p Hp) as NT.
    destruct (next_tok p) as [p' s t e col|p'|p' r] eqn:EN.
    - destruct NT as [Hp' [[E1 E2] Ht]].
      assert (HJ' : J p') by (unfold J in *; rewrite E1; unfold next_tok in EN; destruct (lex1 _ _); try discriminate;
                               destruct (gen_token_to_integer idx); inversion EN; subst; exact HJ).
      pose proof (with_lookahead_J reduce_fuel p' s t e col Hp' Ht HJ') as W.
      pose proof (with_lookahead_safe cx WF reduce_fuel p' s t e col Hp' Ht) as WS.
      destruct (with_lookahead cx reduce_fuel p' s t e col) as [[p'' [r|]] b]; cbn [wl_J wl_ok] in W, WS.
      + unfold fin_J. cbn. destruct r; try exact I. contradiction.
      + destruct b; [apply IH; assumption|apply parse_eof_J; assumption].
    - destruct NT as [Hp' [E1 E2]]. apply parse_eof_J; [exact Hp'|].
      unfold J in *. rewrite E1. unfold next_tok in EN. destruct (lex1 _ _); try discriminate; [destruct (gen_token_to_integer idx); discriminate|].
      inversion EN; subst. exact HJ.
    - unfold fin_J. cbn. unfold next_tok in EN. destruct (lex1 _ _); try discriminate; [|inversion EN; exact I].
      destruct (gen_token_to_integer idx); inversion EN. exact I.
  Qed.

  Local Opaque reduce_fuel.

  (* ---- while the stack is a derivation ---- *)
  Definition fin_D (x : pst * outcome3) (toks : list tok) : Prop :=
    match snd x with Done _ => errb (ps_diags (fst x)) = true \/ der start_sym toks | _ => True end.

  Lemma fin_J_D x toks : fin_J x -> fin_D x toks.
  Proof. unfold fin_J, fin_D. destruct (snd x); auto. Qed.

  Lemma parse_eof_D : forall fuel p toks, pst_ok cx p -> D p toks -> fin_D (parse_eof cx fuel p) toks.
  Proof.
    induction fuel as [|fuel IH]; intros p toks Hp HD; cbn [parse_eof]; [exact I|].
    destruct (as_reduce (eof_action_at (top_state p))) as [r|] eqn:E.
    - pose proof (legit_eof _ _ E) as L.
      destruct (reduce_JD p r None toks Hp L I) as [_ B]. specialize (B HD).
      pose proof (reduce_safe cx WF p r None Hp (legit_ok _ _ L) I) as S.
      destruct (reduce cx p r None) as [p'|p' v|p']; [apply IH; tauto|right; exact B|exact I].
    - pose proof (error_recovery_J p None toks Hp I (or_intror HD)) as R.
      pose proof (error_recovery_safe cx WF p None Hp I) as S.
      destruct (error_recovery cx p None) as [p' ? ? ? ?|p'|p' r]; [exact I|apply fin_J_D; apply parse_eof_J; assumption|].
      unfold fin_D. cbn. destruct r; try exact I. contradiction.
  Qed.

  Definition wl_D (p : pst) (toks : list tok) (t : tok) (x : pst * option outcome3 * bool) : Prop :=
    match x with
    | (p', Some r, _) => not_done r
    | (p', None, true) => J p' \/ (D p' (toks ++ [t]) /\ same_lexer p p')
    | (p', None, false) => J p'
    end.

  Lemma wl_J_D p toks t x : wl_J x -> wl_D p toks t x.
  Proof. destruct x as [[p' [r|]] b]; cbn; [auto|]. destruct b; auto. Qed.

  Lemma same_lexer_refl p : same_lexer p p.  Proof. repeat split. Qed.
  Lemma same_lexer_tr p q r : same_lexer p q -> same_lexer q r -> same_lexer p r.
  Proof. unfold same_lexer. intros [A [B C]] [A' [B' C']]. repeat split; congruence. Qed.

  Lemma with_lookahead_D : forall fuel p s text e col toks, pst_ok cx p -> tok_ok cx s text e col -> D p toks ->
    wl_D p toks (col, text) (with_lookahead cx fuel p s text e col).
  Proof.
    induction fuel as [|fuel IH]; intros p s text e col toks Hp Ht HD; cbn [with_lookahead]; [exact I|].
    assert (Hc : (col < gen_ncols)%nat) by (destruct Ht as [_ [_ [H _]]]; lia).
    destruct (as_shift (action_at (top_state p) col)) as [target|] eqn:ES.
    - cbn [wl_D]. right. split; [|repeat split]. destruct HD as [segs [DS EQ]].
      destruct (shift_legit _ _ _ Hc ES) as [A _].
      assert (CS : col_sym col = ST (N.of_nat col)).
      { unfold col_sym. destruct Ht as [_ [_ [Hlt _]]]. destruct (Nat.eqb_spec col (gen_ncols - 1)); [lia|reflexivity]. }
      rewrite CS in A. exists ([(col, text)] :: segs). split.
      + cbn [ps_states]. apply (dstack_push _ _ _ (ST (N.of_nat col))); [exact DS|exact A|constructor].
      + cbn [rev]. rewrite concat_app. cbn [concat]. rewrite app_nil_r, EQ. reflexivity.
    - destruct (as_reduce (action_at (top_state p) col)) as [r|] eqn:ER.
      + pose proof (legit_action _ _ _ Hc ER) as L.
        assert (Hs : ola_ok cx (Some s)) by (destruct Ht; assumption).
        destruct (reduce_JD p r (Some s) toks Hp L Hs) as [_ B]. specialize (B HD).
        pose proof (reduce_safe cx WF p r (Some s) Hp (legit_ok _ _ L) Hs) as S.
        destruct (reduce cx p r (Some s)) as [p'|p' v|p']; [|exact I|exact I].
        destruct S as [Hp' SL]. specialize (IH p' s text e col toks Hp' Ht B).
        destruct (with_lookahead cx fuel p' s text e col) as [[p'' [o|]] b]; cbn [wl_D] in IH |- *; [exact IH|].
        destruct b; [|exact IH]. destruct IH as [HJ|[HD' SL']]; [left; exact HJ|right; split; [exact HD'|eapply same_lexer_tr; eauto]].
      + pose proof (error_recovery_J p (Some (s, text, e, col)) toks Hp Ht (or_intror HD)) as R.
        pose proof (error_recovery_safe cx WF p (Some (s, text, e, col)) Hp Ht) as S.
        destruct (error_recovery cx p (Some (s, text, e, col))) as [p' s' t' e' col'|p'|p' r]; cbn [rec_ok] in S.
        * apply wl_J_D. apply with_lookahead_J; tauto.
        * exact R.
        * exact R.
  Qed.

  Definition fin_L (x : pst * outcome3) (toks : list tok) (lx : str * N) : Prop :=
    match snd x with
    | Done _ => errb (ps_diags (fst x)) = true \/ exists l, lexes_to_eof lx l /\ der start_sym (toks ++ l)
    | _ => True
    end.

  Lemma parse_loop_D : forall fuel p toks, pst_ok cx p -> D p toks ->
    fin_L (parse_loop cx fuel p) toks (ps_rest p, ps_off p).
  Proof.
    induction fuel as [|fuel IH]; intros p toks Hp HD; cbn [parse_loop]; [exact I|].
    pose proof (next_tok_safe cx WF p Hp) as NT.
    destruct (next_tok p) as [p' a text e col|p'|p' r] eqn:EN.
    - destruct NT as [Hp' [[E1 E2] Ht]].
      assert (LXX : exists idx c, lex1 (ps_rest p) (ps_off p) = LTok a idx text e (ps_rest p') /\ gen_token_to_integer idx = Some c /\
                                  col = N.to_nat c /\ ps_off p' = e).
      { unfold next_tok in EN. destruct (lex1 (ps_rest p) (ps_off p)) as [a0 idx t0 e0 rest| |loc]; try discriminate.
        destruct (gen_token_to_integer idx) as [c|] eqn:GT; inversion EN; subst. exists idx, c. auto. }
      destruct LXX as [idx [c [LX [GT [-> OFF]]]]].
      assert (HD' : D p' toks) by (unfold D in *; rewrite E1; exact HD).
      pose proof (with_lookahead_D reduce_fuel p' a text e (N.to_nat c) toks Hp' Ht HD') as W.
      pose proof (with_lookahead_safe cx WF reduce_fuel p' a text e (N.to_nat c) Hp' Ht) as WS.
      destruct (with_lookahead cx reduce_fuel p' a text e (N.to_nat c)) as [[p'' [r|]] b]; cbn [wl_D wl_ok] in W, WS.
      + unfold fin_L. cbn [snd]. destruct r; try exact I. contradiction.
      + destruct b.
        * destruct W as [HJ|[HD'' [_ [SR SO]]]].
          -- pose proof (parse_loop_J fuel p'' WS HJ) as F. unfold fin_J in F. unfold fin_L. destruct (snd (parse_loop cx fuel p'')); auto.
          -- specialize (IH p'' _ WS HD''). unfold fin_L in *. destruct (snd (parse_loop cx fuel p'')); try exact I.
             destruct IH as [E|[l [LL DL]]]; [left; exact E|right].
             exists ((N.to_nat c, text) :: l). split.
             ++ eapply LE_tok; eauto. rewrite SR, SO, OFF in LL. exact LL.
             ++ rewrite <- app_assoc in DL. exact DL.
        * pose proof (parse_eof_J reduce_fuel p'' WS W) as F. unfold fin_J in F. unfold fin_L. destruct (snd (parse_eof cx reduce_fuel p'')); auto.
    - destruct NT as [Hp' [E1 E2]].
      assert (LX : lex1 (ps_rest p) (ps_off p) = LEof).
      { unfold next_tok in EN. destruct (lex1 (ps_rest p) (ps_off p)) as [a0 idx t0 e0 rest| |loc]; try discriminate; [|reflexivity].
        destruct (gen_token_to_integer idx); discriminate. }
      assert (HD' : D p' toks) by (unfold D in *; rewrite E1; exact HD).
      pose proof (parse_eof_D reduce_fuel p' toks Hp' HD') as F. unfold fin_D in F. unfold fin_L.
      destruct (snd (parse_eof cx reduce_fuel p')); try exact I.
      destruct F as [E|Dr]; [left; exact E|right]. exists []. split; [constructor; exact LX|rewrite app_nil_r; exact Dr].
    - unfold fin_L. cbn [snd]. destruct r; try exact I. exfalso.
      unfold next_tok in EN. destruct (lex1 (ps_rest p) (ps_off p)) as [a0 idx t0 e0 rest| |loc]; try discriminate.
      destruct (gen_token_to_integer idx); inversion EN.
  Qed.

  (* C03: a run that ends without an Error is a derivation of the source's token sequence from the start symbol *)
  Theorem silent_run_is_derivation p v : parse cx = (p, Done v) -> errb (ps_diags p) = false ->
    exists l, lexes_to_eof (cx_src cx, 0%N) l /\ der start_sym l.
  Proof.
    intros HP HE. unfold parse in HP.
    assert (D0 : D (PSt [0%N] [] 0%N (cx_src cx) 0%N []) []) by (exists []; split; [constructor|reflexivity]).
    pose proof (parse_loop_D (S (length (cx_src cx))) _ [] (pst_ok_init cx) D0) as F.
    rewrite HP in F. unfold fin_L in F. cbn in F. destruct F as [E|[l [LL DL]]]; [congruence|eauto].
  Qed.

  Lemma errb_false_no_error ds : (forall d, In d ds -> d_kind d <> DError) -> errb ds = false.
  Proof.
    intros H. unfold errb. destruct (existsb is_error ds) eqn:E; [|reflexivity].
    apply existsb_exists in E as [d [I K]]. exfalso. apply (H d I). unfold is_error in K. destruct (d_kind d); [reflexivity|discriminate].
  Qed.

  Theorem no_error_means_wellformed id fr : add_content cx id = Added fr -> (forall d, In d (fr_diags fr) -> d_kind d <> DError) ->
    exists l, lexes_to_eof (cx_src cx, 0%N) l /\ der start_sym l.
  Proof.
    intros H NE. unfold add_content in H. destruct (parse cx) as [p r] eqn:EP.
    destruct r as [v|e| |]; try discriminate.
    - apply (silent_run_is_derivation p v EP). apply errb_false_no_error.
      destruct v; try discriminate. destruct o as [x|]; [destruct x; try discriminate|]; inversion H; subst; exact NE.
    - destruct (diag_of_error cx e) as [d|] eqn:E; [|discriminate]. inversion H; subst. exfalso.
      apply (NE d); [cbn; apply in_or_app; right; left; reflexivity|]. eapply diag_of_error_is_error; eauto.
  Qed.

  (* the contrapositive: a text whose tokens cannot be derived from the start symbol always gets an Error *)
  Theorem malformed_is_loud id fr : add_content cx id = Added fr ->
    (forall l, lexes_to_eof (cx_src cx, 0%N) l -> ~ der start_sym l) ->
    exists d, In d (fr_diags fr) /\ d_kind d = DError.
  Proof.
    intros H NW. destruct (errb (fr_diags fr)) eqn:E; [apply errb_spec; exact E|]. exfalso.
    destruct (no_error_means_wellformed id fr H) as [l [LL DL]]; [|exact (NW l LL DL)].
    intros d I K. assert (errb (fr_diags fr) = true); [|congruence].
    apply existsb_exists. exists d. split; [exact I|]. unfold is_error. rewrite K. reflexivity.
  Qed.
End G.
