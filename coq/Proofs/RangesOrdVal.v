(* C04: the diagnostics validation adds have start <= end too -- they sit on ranges of the tree (Proofs/DiagSites.v), and the
   tree's ranges are ordered (Proofs/RangesOrd.v); the one range validation makes up itself, the empty range in front of an
   argument without direction, is ordered by construction. *)
From Coq Require Import ZArith Lia List.
From AidlV Require Import Spec.Master Proofs.Master Proofs.DiagSites Proofs.RangesOrd Proofs.ArityOk Model.LrDriver.
Import ListNotations.

Lemma ty_pre_rle t : Forall rle (ty_rs t) -> Forall rle (map ty_sym (types_of_ty_pre t)).
Proof.
  induction t as [n k g s fu IH] using ty_ind'. rewrite ty_rs_eq. intros H.
  inversion H as [|? ? Hs H']; subst. inversion H' as [|? ? Hf Hg]; subst.
  cbn [types_of_ty_pre map ty_sym]. constructor; [exact Hs|]. clear H H' Hs Hf.
  induction IH as [|x g Hx _ IHg]; [constructor|]. cbn [flat_map] in Hg. apply Forall_app in Hg as [Hg1 Hg2].
  rewrite map_app. apply Forall_app. split; [apply Hx; exact Hg1|apply IHg; exact Hg2].
Qed.

Lemma ty_sym_rle t : Forall rle (ty_rs t) -> rle (ty_sym t).
Proof. destruct t. rewrite ty_rs_eq. intros H. inversion H; subst. assumption. Qed.

Lemma dir_range_rle x : Forall rle (arg_rs x) -> rle (dir_range x).
Proof.
  unfold arg_rs, dir_range. intros H. apply Forall_app in H as [H _]. destruct (a_dir x); cbn [dir_rs] in H; try (inversion H; subst; assumption).
  unfold rle, off_s, off_e. cbn. lia.
Qed.

Lemma msites_rle m : Forall rle (method_rs m) -> Forall rle (msites m).
Proof.
  unfold method_rs, msites. intros H. apply Forall_app in H as [H1 H2]. apply Forall_app in H2 as [H2 H3].
  inversion H3 as [|? ? A H4]; subst. inversion H4 as [|? ? B H5]; subst. inversion H5 as [|? ? C H6]; subst. inversion H6 as [|? ? D _]; subst.
  cbn [app]. repeat constructor; try assumption; [apply ty_sym_rle; exact H1|].
  induction (m_args m) as [|x l IH]; [constructor|]. cbn [flat_map] in H2. apply Forall_app in H2 as [Hx Hl].
  cbn [map]. constructor; [apply dir_range_rle; exact Hx|apply IH; exact Hl].
Qed.

Lemma top_ie_rle e : Forall rle (ie_rs e) -> Forall (fun t => Forall rle (ty_rs t)) (top_types_ie e).
Proof.
  destruct e as [c|m]; cbn [ie_rs top_types_ie].
  - unfold const_rs. intros H. apply Forall_app in H as [H _]. constructor; [exact H|constructor].
  - unfold method_rs. intros H. apply Forall_app in H as [H1 H2]. apply Forall_app in H2 as [H2 _]. constructor; [exact H1|].
    induction (m_args m) as [|x l IH]; [constructor|]. cbn [flat_map] in H2. apply Forall_app in H2 as [Hx Hl]. cbn [map].
    constructor; [|apply IH; exact Hl]. unfold arg_rs in Hx. apply Forall_app in Hx as [_ Hx]. apply Forall_app in Hx as [Hx _]. exact Hx.
Qed.
Lemma top_pe_rle e : Forall rle (pe_rs e) -> Forall (fun t => Forall rle (ty_rs t)) (top_types_pe e).
Proof.
  destruct e as [c|f]; cbn [pe_rs top_types_pe]; [unfold const_rs|unfold field_rs]; intros H; apply Forall_app in H as [H _];
    (constructor; [exact H|constructor]).
Qed.

Lemma flat_rle {A B} (f : A -> list B) (P : B -> Prop) l : Forall (fun x => Forall P (f x)) l -> Forall P (flat_map f l).
Proof. induction 1; cbn [flat_map]; [constructor|apply Forall_app; split; assumption]. Qed.
Lemma Forall_flat {A B} (f : A -> list B) (P : B -> Prop) l : Forall P (flat_map f l) -> Forall (fun x => Forall P (f x)) l.
Proof. induction l as [|x l IH]; cbn [flat_map]; intros H; [constructor|]. apply Forall_app in H as [H1 H2]. constructor; auto. Qed.

Lemma item_types_rle it : Forall rle (item_rs it) -> Forall rle (map ty_sym (all_types_pre it)).
Proof.
  unfold all_types_pre. intros H.
  assert (T : Forall (fun t => Forall rle (ty_rs t)) (top_types it)).
  { destruct it as [i|p|e]; cbn [item_rs top_types] in *.
    - unfold interface_rs in H. apply Forall_app in H as [H _]. apply Forall_flat in H. apply flat_rle.
      eapply Forall_impl; [|exact H]. intros e. apply top_ie_rle.
    - unfold parcelable_rs in H. apply Forall_app in H as [H _]. apply Forall_flat in H. apply flat_rle.
      eapply Forall_impl; [|exact H]. intros e. apply top_pe_rle.
    - constructor. }
  induction T as [|t l Ht _ IH]; [constructor|]. cbn [flat_map]. rewrite map_app. apply Forall_app. split; [apply ty_pre_rle; exact Ht|exact IH].
Qed.

Lemma item_msites_rle it : Forall rle (item_rs it) -> Forall rle (flat_map msites (methods_of it)).
Proof.
  destruct it as [i|p|e]; cbn [item_rs methods_of]; try (intros; constructor).
  unfold interface_rs. intros H. apply Forall_app in H as [H _]. apply Forall_flat in H.
  induction H as [|e l He _ IH]; [constructor|]. cbn [flat_map]. rewrite flat_map_app. apply Forall_app. split; [|exact IH].
  destruct e as [c|m]; cbn [flat_map app]; [constructor|]. rewrite app_nil_r. apply msites_rle. exact He.
Qed.

Lemma item_sym_rle it : Forall rle (item_rs it) -> rle (item_sym it).
Proof.
  destruct it as [i|p|e]; cbn [item_rs item_sym]; [unfold interface_rs|unfold parcelable_rs|unfold enum_rs]; intros H;
    apply Forall_app in H as [_ H]; inversion H as [|? ? _ H']; subst; inversion H'; subst; assumption.
Qed.

Lemma imports_rle (f : import -> range) l : (forall i, In (f i) (import_rs i)) -> Forall rle (flat_map import_rs l) -> Forall rle (map f l).
Proof.
  intros Hf H. apply Forall_flat in H. induction H as [|i l Hi _ IH]; [constructor|]. cbn [map]. constructor; [|exact IH].
  rewrite Forall_forall in Hi. apply Hi. apply Hf.
Qed.

Theorem sites_rle a : Forall rle (aidl_rs a) -> Forall rle (sites a).
Proof.
  unfold aidl_rs, sites. intros H. apply Forall_app in H as [_ H]. apply Forall_app in H as [HI H]. apply Forall_app in H as [HD HT].
  repeat (apply Forall_app; split).
  - apply imports_rle; [intros i; left; reflexivity|exact HI].
  - apply imports_rle; [intros i; left; reflexivity|exact HD].
  - apply imports_rle; [intros i; right; left; reflexivity|exact HD].
  - apply item_types_rle. exact HT.
  - apply item_msites_rle. exact HT.
  - constructor; [apply item_sym_rle; exact HT|constructor].
Qed.

(* every diagnostic of the validated result of a stored file has start <= end, related ranges included *)
Theorem validated_diags_ordered cx id fr a defined a' ds :
  add_content cx id = Added fr -> fr_ast fr = Some a -> validate_file defined a (fr_diags fr) = Ok (a', ds) -> Forall diag_ord ds.
Proof.
  intros H E V. destruct (add_content_ordered cx id fr H) as [D T]. destruct (T a E) as [T1 _]. pose proof (sites_rle a T1) as S.
  rewrite Forall_forall. intros d Hd.
  destruct (validation_diag_sites defined a (fr_diags fr) a' ds d (add_content_wf cx id fr a H E) V Hd) as [I|[I1 I2]].
  - rewrite Forall_forall in D. apply D. exact I.
  - rewrite Forall_forall in S. split; [apply S; exact I1|]. eapply Forall_impl; [|exact I2]. intros r Hr. apply S. exact Hr.
Qed.
