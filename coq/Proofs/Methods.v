(* C09: the stateful loop of check_methods computes the prefix-based specification *)
From AidlV Require Import Spec.Methods.

Lemma find_app {A} (f : A -> bool) l1 l2 :
  find f (l1 ++ l2) = match find f l1 with Some x => Some x | None => find f l2 end.
Proof. induction l1 as [|x l1 IH]; cbn; [reflexivity|]. destruct (f x); auto. Qed.

Lemma is_some_find {A} (f : A -> bool) l : is_some (find f l) = existsb f l.
Proof. induction l as [|x l IH]; cbn; [reflexivity|]. destruct (f x); auto. Qed.

Lemma find_none_existsb {A} (f : A -> bool) l : find f l = None -> existsb f l = false.
Proof. intros H. rewrite <- is_some_find, H. reflexivity. Qed.

Lemma find_some_existsb {A} (f : A -> bool) l x : find f l = Some x -> existsb f l = true.
Proof. intros H. rewrite <- is_some_find, H. reflexivity. Qed.

Lemma find_some_holds {A} (f : A -> bool) l x : find f l = Some x -> f x = true.
Proof. intros H. apply find_some in H. tauto. Qed.

Lemma filter_app' {A} (f : A -> bool) l1 l2 : filter f (l1 ++ l2) = filter f l1 ++ filter f l2.
Proof. induction l1 as [|x l1 IH]; cbn; [reflexivity|]. destruct (f x); cbn; rewrite IH; reflexivity. Qed.

Lemma same_name_sym m1 m2 : same_name (m_name m1) m2 = same_name (m_name m2) m1.
Proof. unfold same_name. apply str_eqb_sym. Qed.

(* extending the prefix on the right *)
Lemma distinct_named_snoc pre m :
  distinct_named (pre ++ [m]) =
  if existsb (same_name (m_name m)) pre then distinct_named pre else distinct_named pre ++ [m].
Proof.
  induction pre as [|x pre IH]; cbn [app distinct_named existsb]; [reflexivity|].
  rewrite IH. destruct (same_name (m_name m) x) eqn:E; cbn [orb].
  - destruct (existsb (same_name (m_name m)) pre); [reflexivity|].
    rewrite filter_app'. cbn [filter]. rewrite same_name_sym, E. cbn. rewrite app_nil_r. reflexivity.
  - destruct (existsb (same_name (m_name m)) pre); [reflexivity|].
    rewrite filter_app'. cbn [filter]. rewrite same_name_sym, E. cbn. reflexivity.
Qed.

Definition U := distinct_named.

Record Inv (pre : list method) (st : mstate) : Prop := {
  inv_names : forall n, assoc n (ms_names st) = find (same_name n) pre;
  inv_with : ms_first_with st = find has_code (U pre);
  inv_without : ms_first_without st = find no_code (U pre);
  inv_ids : forall c, assocN c (ms_ids st) = find (same_code c) (U pre);
  inv_empty : is_empty (ms_ids st) = negb (existsb has_code (U pre)) }.

Lemma inv_init : Inv [] ms_init.
Proof. constructor; reflexivity. Qed.

Lemma same_code_has_code c m : same_code c m = true -> has_code m = true.
Proof. unfold same_code, has_code. destruct (m_code m); cbn; congruence. Qed.

Lemma mixed_eq (fw fwo : option method) (hc : bool) (D : method -> diag) :
  (if negb (is_some fw) && is_some fwo && hc || negb (is_some fwo) && is_some fw && negb hc
   then match (if negb (is_some fw) && is_some fwo && hc then fwo else fw) with
        | Some p => Some [D p]
        | None => None
        end
   else Some [])
  = Some ((if hc && is_some fwo && negb (is_some fw) then match fwo with Some o => [D o] | None => [] end
           else if negb hc && is_some fw && negb (is_some fwo) then match fw with Some o => [D o] | None => [] end
           else [])).
Proof. destruct fw, fwo, hc; reflexivity. Qed.

Lemma step_spec pre st m :
  Inv pre st ->
  exists st', methods_step st m = Some (st', check_method m ++ spec_method pre m) /\ Inv (pre ++ [m]) st'.
Proof.
  intros [Hn Hw Hwo Hi He].
  unfold methods_step, spec_method. rewrite Hn.
  destruct (find (same_name (m_name m)) pre) as [prev|] eqn:F.
  - (* duplicate name: state unchanged *)
    exists st. split; [reflexivity|].
    assert (EX : existsb (same_name (m_name m)) pre = true) by (eapply find_some_existsb; eauto).
    constructor; unfold U; rewrite ?distinct_named_snoc, ?EX; auto.
    intros n. rewrite Hn, find_app. destruct (find (same_name n) pre) eqn:F2; [reflexivity|].
    cbn. destruct (same_name n m) eqn:E; [|reflexivity].
    unfold same_name in E. apply str_eqb_eq in E. subst n. congruence.
  - assert (EX : existsb (same_name (m_name m)) pre = false) by (apply find_none_existsb; auto).
    fold (U pre). rewrite Hw, Hwo, He, negb_involutive, <- !is_some_find.
    change (has_code m) with (is_some (m_code m)). change (no_code m) with (negb (is_some (m_code m))).
    unfold mixed_diag, dup_code_diag.
    rewrite (mixed_eq (find has_code (U pre)) (find no_code (U pre)) (is_some (m_code m))
                      (fun p => mk_diag DError (m_code_range m) None [m_code_range p])).
    assert (NEW : U (pre ++ [m]) = U pre ++ [m]) by (unfold U; rewrite distinct_named_snoc, EX; reflexivity).
    (* invariants that do not depend on the code *)
    assert (Hn' : forall n, assoc n ((m_name m, m) :: ms_names st) = find (same_name n) (pre ++ [m])).
    { intros n. cbn [assoc]. rewrite find_app, Hn. cbn [find].
      replace (same_name n m) with (str_eqb n (m_name m)) by (unfold same_name; apply str_eqb_sym).
      destruct (str_eqb n (m_name m)) eqn:E.
      - apply str_eqb_eq in E. subst n. rewrite F. reflexivity.
      - destruct (find (same_name n) pre); reflexivity. }
    assert (Hw' : (if is_some (m_code m) then if is_some (find has_code (U pre)) then find has_code (U pre) else Some m
                   else find has_code (U pre)) = find has_code (U (pre ++ [m]))).
    { rewrite NEW, find_app. cbn [find]. change (has_code m) with (is_some (m_code m)).
      destruct (find has_code (U pre)), (is_some (m_code m)); reflexivity. }
    assert (Hwo' : (if is_some (m_code m) then find no_code (U pre)
                    else if is_some (find no_code (U pre)) then find no_code (U pre) else Some m)
                   = find no_code (U (pre ++ [m]))).
    { rewrite NEW, find_app. cbn [find]. change (no_code m) with (negb (is_some (m_code m))).
      destruct (find no_code (U pre)), (is_some (m_code m)); reflexivity. }
    destruct (m_code m) as [id|] eqn:Ecode.
    + rewrite Hi. destruct (find (same_code id) (U pre)) as [first|] eqn:Fc.
      * eexists. split; [reflexivity|].
        constructor; cbn [ms_names ms_first_with ms_first_without ms_ids]; auto.
        -- intros c. rewrite Hi, NEW, find_app. destruct (find (same_code c) (U pre)) eqn:F3; [reflexivity|].
           cbn. change (same_code c m) with (match m_code m with Some c' => N.eqb c' c | None => false end). rewrite Ecode. destruct (N.eqb id c) eqn:E; [|reflexivity].
           apply N.eqb_eq in E. subst c. congruence.
        -- rewrite He, NEW, existsb_app. cbn. change (has_code m) with (is_some (m_code m)). rewrite Ecode. cbn.
           destruct (existsb has_code (U pre)) eqn:Ew; [reflexivity|].
           apply find_some_holds in Fc as Fc'. apply same_code_has_code in Fc'.
           apply find_some in Fc as [Hin _].
           assert (existsb has_code (U pre) = true) by (apply existsb_exists; eauto). congruence.
      * eexists. split; [rewrite app_nil_r; reflexivity|].
        constructor; cbn [ms_names ms_first_with ms_first_without ms_ids]; auto.
        -- intros c. cbn [assocN]. rewrite NEW, find_app, Hi. cbn [find]. change (same_code c m) with (match m_code m with Some c' => N.eqb c' c | None => false end). rewrite Ecode.
           rewrite (N.eqb_sym id c). destruct (N.eqb c id) eqn:E.
           ++ apply N.eqb_eq in E. subst c. rewrite Fc. reflexivity.
           ++ destruct (find (same_code c) (U pre)); reflexivity.
        -- rewrite NEW, existsb_app. cbn. change (has_code m) with (is_some (m_code m)). rewrite Ecode. cbn. rewrite orb_true_r. reflexivity.
    + eexists. split; [rewrite app_nil_r; reflexivity|].
      constructor; cbn [ms_names ms_first_with ms_first_without ms_ids]; auto.
      * intros c. rewrite Hi, NEW, find_app. cbn [find]. change (same_code c m) with (match m_code m with Some c' => N.eqb c' c | None => false end). rewrite Ecode.
        destruct (find (same_code c) (U pre)); reflexivity.
      * rewrite He, NEW, existsb_app. cbn. change (has_code m) with (is_some (m_code m)). rewrite Ecode. cbn. rewrite orb_false_r. reflexivity.
Qed.

Lemma loop_spec l : forall pre st, Inv pre st -> methods_loop st l = Some (spec_methods_from pre l).
Proof.
  induction l as [|m l IH]; intros pre st HI; cbn [methods_loop spec_methods_from]; [reflexivity|].
  destruct (step_spec pre st m HI) as [st' [-> HI']].
  rewrite (IH _ _ HI'). reflexivity.
Qed.

Theorem check_methods_spec ms : methods_loop ms_init ms = Some (spec_methods ms).
Proof. apply loop_spec, inv_init. Qed.

(* ---- the clean case: unique names and (no codes | unique codes everywhere) => nothing is flagged ---- *)
Lemma filter_all {A} (f : A -> bool) l : (forall x, In x l -> f x = true) -> filter f l = l.
Proof. induction l as [|x l IH]; cbn; intros H; [reflexivity|]. rewrite (H x) by auto. f_equal. apply IH; auto. Qed.

Lemma distinct_named_id pre : NoDup (map m_name pre) -> distinct_named pre = pre.
Proof.
  induction pre as [|x pre IH]; cbn; [reflexivity|]. intros H. inversion H as [|? ? Hnin Hnd]; subst.
  rewrite IH by assumption. f_equal.
  apply filter_all. intros y Hy. unfold same_name.
  apply negb_true_iff, str_eqb_neq. intros E. apply Hnin. rewrite <- E. apply in_map; assumption.
Qed.

Lemma find_none_forall {A} (f : A -> bool) l : (forall x, In x l -> f x = false) -> find f l = None.
Proof. induction l as [|x l IH]; cbn; intros H; [reflexivity|]. rewrite (H x) by auto. apply IH; auto. Qed.

Lemma existsb_false_forall {A} (f : A -> bool) l : (forall x, In x l -> f x = false) -> existsb f l = false.
Proof. induction l as [|x l IH]; cbn; intros H; [reflexivity|]. rewrite (H x) by auto. apply IH; auto. Qed.

Lemma NoDup_app_l {A} (l1 l2 : list A) : NoDup (l1 ++ l2) -> NoDup l1.
Proof.
  induction l1 as [|x l1 IH]; cbn; intros H; [constructor|].
  inversion H as [|? ? Hn Hd]; subst. constructor; [|auto].
  intros Hin. apply Hn. apply in_or_app; auto.
Qed.

Definition codes_ok (ms : list method) : Prop :=
  (forall m, In m ms -> m_code m = None) \/
  ((forall m, In m ms -> m_code m <> None) /\ NoDup (map m_code ms)).

Lemma spec_c09_clean_from l : forall pre,
  NoDup (map m_name (pre ++ l)) -> codes_ok (pre ++ l) -> spec_c09_from pre l = [].
Proof.
  induction l as [|m l IH]; intros pre Hn Hc; cbn [spec_c09_from]; [reflexivity|].
  replace (pre ++ m :: l) with ((pre ++ [m]) ++ l) in * by (rewrite <- app_assoc; reflexivity).
  rewrite IH by assumption. rewrite app_nil_r.
  assert (Hn1 : NoDup (map m_name (pre ++ [m]))).
  { rewrite map_app in Hn. apply NoDup_app_l in Hn. assumption. }
  assert (Hpre : NoDup (map m_name pre)).
  { rewrite map_app in Hn1. apply NoDup_app_l in Hn1. assumption. }
  assert (Hfresh : ~ In (m_name m) (map m_name pre)).
  { rewrite map_app in Hn1. cbn in Hn1. apply NoDup_remove_2 in Hn1. rewrite app_nil_r in Hn1. assumption. }
  unfold spec_method.
  rewrite find_none_forall.
  2:{ intros x Hx. unfold same_name. apply str_eqb_neq. intros E. apply Hfresh. rewrite <- E. apply in_map; auto. }
  rewrite distinct_named_id by assumption.
  destruct Hc as [Hnone | [Hall Hnd]].
  - assert (Em : m_code m = None) by (apply Hnone; rewrite !in_app_iff; cbn; auto).
    assert (Ew : existsb has_code pre = false).
    { apply existsb_false_forall. intros x Hx. unfold has_code. rewrite Hnone; [reflexivity|].
      rewrite !in_app_iff; auto. }
    rewrite Ew. change (has_code m) with (is_some (m_code m)). change (no_code m) with (negb (is_some (m_code m))).
    rewrite Em. cbn [is_some negb andb]. reflexivity.
  - assert (Em : m_code m <> None) by (apply Hall; rewrite !in_app_iff; cbn; auto).
    assert (Ewo : existsb no_code pre = false).
    { apply existsb_false_forall. intros x Hx. unfold no_code.
      assert (m_code x <> None) by (apply Hall; rewrite !in_app_iff; auto).
      destruct (m_code x); [reflexivity|congruence]. }
    destruct (m_code m) as [c|] eqn:Ec; [|congruence].
    rewrite Ewo. change (has_code m) with (is_some (m_code m)). change (no_code m) with (negb (is_some (m_code m))).
    rewrite Ec. cbn [is_some negb andb app].
    rewrite find_none_forall; [reflexivity|].
    intros x Hx. unfold same_code. destruct (m_code x) as [c'|] eqn:Ex; [|reflexivity].
    apply N.eqb_neq. intros E. subst c'.
    rewrite !map_app in Hnd. cbn in Hnd. rewrite <- app_assoc in Hnd. cbn in Hnd.
    apply NoDup_remove_2 in Hnd. apply Hnd. rewrite in_app_iff. left.
    rewrite Ec, <- Ex. apply in_map; assumption.
Qed.

Theorem spec_c09_clean ms :
  NoDup (map m_name ms) -> codes_ok ms -> spec_c09_from [] ms = [].
Proof. intros; apply spec_c09_clean_from; assumption. Qed.
