(* the finite language of a star-free regex over single characters, and what a match of it looks like *)
From AidlV Require Import Lib.Regex.

Fixpoint lang_list (r : re) : option (list str) :=
  match r with
  | RClass [(a, b)] => if N.eqb a b then Some [[a]] else None
  | RClass _ => None
  | RSeq a b => match lang_list a, lang_list b with
                | Some la, Some lb => Some (flat_map (fun x => map (fun y => x ++ y) lb) la)
                | _, _ => None
                end
  | RAlt a b => match lang_list a, lang_list b with Some la, Some lb => Some (la ++ lb) | _, _ => None end
  | RStar _ => None
  | REps => Some [[]]
  end.

Lemma lang_sound {A} fuel r : forall L, lang_list r = Some L ->
  forall s c (k : mst -> option A) x, mre fuel r (s, c) k = Some x ->
  exists w rest, In w L /\ s = w ++ rest /\ k (rest, (c + length w)%nat) = Some x.
Proof.
  induction r as [ranges|a IHa b IHb|a IHa b IHb|a IH|]; intros L HL s c k x H; cbn [lang_list] in HL.
  - destruct ranges as [|[lo hi] [|]]; try discriminate.
    destruct (N.eqb_spec lo hi) as [->|]; [|discriminate]. inversion HL; subst.
    cbn [mre fst snd] in H. destruct s as [|ch rest]; [discriminate|].
    destruct (in_class [(hi, hi)] ch) eqn:E; [|discriminate].
    unfold in_class in E. cbn in E. rewrite orb_false_r in E. apply andb_true_iff in E as [E1 E2].
    apply N.leb_le in E1, E2. assert (ch = hi) by lia. subst ch.
    exists [hi], rest. split; [left; reflexivity|]. split; [reflexivity|].
    replace (c + length [hi])%nat with (S c) by (cbn; lia). exact H.
  - destruct (lang_list a) as [la|]; [|discriminate]. destruct (lang_list b) as [lb|]; [|discriminate]. inversion HL; subst.
    cbn [mre] in H. destruct (IHa la eq_refl s c _ x H) as [w1 [r1 [I1 [-> K1]]]].
    destruct (IHb lb eq_refl r1 _ k x K1) as [w2 [r2 [I2 [-> K2]]]].
    exists (w1 ++ w2), r2. split.
    + apply in_flat_map. exists w1. split; [exact I1|]. apply in_map. exact I2.
    + split; [rewrite app_assoc; reflexivity|]. rewrite app_length, Nat.add_assoc. exact K2.
  - destruct (lang_list a) as [la|]; [|discriminate]. destruct (lang_list b) as [lb|]; [|discriminate]. inversion HL; subst.
    cbn [mre] in H. destruct (mre fuel a (s, c) k) as [y|] eqn:Ea.
    + inversion H; subst. destruct (IHa la eq_refl s c k x Ea) as [w [rest [I1 R]]]. exists w, rest. split; [apply in_or_app; auto|exact R].
    + destruct (IHb lb eq_refl s c k x H) as [w [rest [I1 R]]]. exists w, rest. split; [apply in_or_app; auto|exact R].
  - discriminate.
  - inversion HL; subst. cbn [mre] in H. exists [], s. split; [left; reflexivity|]. split; [reflexivity|].
    cbn. rewrite Nat.add_0_r. exact H.
Qed.

(* a whole-token match of a regex with a finite language is one of its words *)
Theorem finite_match fuel r L text rest :
  lang_list r = Some L -> match_len_fuel fuel r (text ++ rest) = Some (length text) -> In text L.
Proof.
  intros HL H. unfold match_len_fuel in H.
  destruct (lang_sound fuel r L HL (text ++ rest) O (fun s' => Some (snd s')) (length text) H) as [w [rest' [Iw [E K]]]].
  cbn in K. inversion K as [Len].
  assert (w = text).
  { clear -E Len. revert text E Len. induction w as [|a w IH]; intros [|b text] E Len; cbn in *; try discriminate; try reflexivity.
    inversion E; subst. f_equal. apply IH; [assumption|lia]. }
  subst. exact Iw.
Qed.

(* every successful match hands its continuation a suffix of the input, with a consistent count *)
Lemma star_suffix {A} (ma : mst -> (mst -> option A) -> option A) :
  (forall s c k x, ma (s, c) k = Some x -> exists w rest, s = w ++ rest /\ k (rest, (c + length w)%nat) = Some x) ->
  forall fuel s c k x, star_loop ma fuel (s, c) k = Some x ->
  exists w rest, s = w ++ rest /\ k (rest, (c + length w)%nat) = Some x.
Proof.
  intros Hma. induction fuel as [|fuel IH]; intros s c k x H; cbn [star_loop] in H.
  - exists [], s. cbn. rewrite Nat.add_0_r. auto.
  - match type of H with match ?m with _ => _ end = _ => destruct m as [y|] eqn:E end.
    + inversion H; subst y. destruct (Hma _ _ _ _ E) as [w1 [r1 [-> K]]]. cbn [snd] in K.
      destruct (Nat.ltb c (c + length w1)); [|discriminate].
      destruct (IH _ _ _ _ K) as [w2 [r2 [-> K2]]]. exists (w1 ++ w2), r2. split; [rewrite app_assoc; reflexivity|].
      rewrite app_length, Nat.add_assoc. exact K2.
    + exists [], s. cbn. rewrite Nat.add_0_r. auto.
Qed.

Lemma mre_suffix {A} fuel r : forall s c (k : mst -> option A) x, mre fuel r (s, c) k = Some x ->
  exists w rest, s = w ++ rest /\ k (rest, (c + length w)%nat) = Some x.
Proof.
  induction r as [ranges|a IHa b IHb|a IHa b IHb|a IH|]; intros s c k x H; cbn [mre fst snd] in H.
  - destruct s as [|ch rest]; [discriminate|]. destruct (in_class ranges ch); [|discriminate].
    exists [ch], rest. split; [reflexivity|]. replace (c + length [ch])%nat with (S c) by (cbn; lia). exact H.
  - destruct (IHa _ _ _ _ H) as [w1 [r1 [-> K1]]]. destruct (IHb _ _ _ _ K1) as [w2 [r2 [-> K2]]].
    exists (w1 ++ w2), r2. split; [rewrite app_assoc; reflexivity|]. rewrite app_length, Nat.add_assoc. exact K2.
  - destruct (mre fuel a (s, c) k) as [y|] eqn:Ea.
    + inversion H; subst. apply IHa. exact Ea.
    + apply IHb. exact H.
  - apply (star_suffix (mre fuel a) IH) in H. exact H.
  - exists [], s. cbn. rewrite Nat.add_0_r. auto.
Qed.

Theorem match_len_prefix fuel r s n : match_len_fuel fuel r s = Some n ->
  (n <= length s)%nat /\ length (firstn n s) = n /\ firstn n s ++ skipn n s = s.
Proof.
  intros H. unfold match_len_fuel in H. destruct (mre_suffix _ _ _ _ _ _ H) as [w [rest [-> K]]]. cbn in K. inversion K; subst.
  rewrite app_length. split; [lia|]. split; [apply firstn_length_le; rewrite app_length; lia|apply firstn_skipn].
Qed.
