(* C03(f) at the lexer: a token classified by table entry i is never a word of a finite-language entry with a
   later index (the tie-break of the longest-match rule), so an IDENT token is never a keyword or a reserved word *)
From Coq Require Import ZArith.
From AidlV Require Import Model.LrDriver Proofs.RegexLang Proofs.Typing Proofs.LexerSafe.

(* ---- the chosen entry dominates every matching entry: longer, or as long and not later ---- *)
Definition dominates (n : nat) (idx : N) (m : nat) (j : N) : Prop := (m < n)%nat \/ (m = n /\ (j <= idx)%N).

Lemma dominates_trans n idx m j k l : dominates n idx m j -> dominates m j k l -> dominates n idx k l.
Proof. unfold dominates. intros [A|[A B]] [C|[C D]]; subst; try (left; lia). right. split; [reflexivity|lia]. Qed.

Lemma best_match_max fuel s : forall tbl i best,
  (snd (fst best) <= i)%N ->
  let res := best_match fuel tbl i s best in
  dominates (fst (fst res)) (snd (fst res)) (fst (fst best)) (snd (fst best)) /\
  forall j r sk m, nth_error tbl j = Some (r, sk) -> match_len_fuel fuel r s = Some m ->
    dominates (fst (fst res)) (snd (fst res)) m (i + N.of_nat j)%N.
Proof.
  induction tbl as [|[r0 sk0] tbl IH]; intros i best Hb; cbn [best_match].
  - split; [right; split; [reflexivity|lia]|]. intros j r sk m H. destruct j; discriminate.
  - set (best' := match match_len_fuel fuel r0 s with
                  | Some n => if Nat.leb (fst (fst best)) n then (n, i, sk0) else best
                  | None => best end).
    assert (Hb' : (snd (fst best') <= N.succ i)%N).
    { unfold best'. destruct (match_len_fuel fuel r0 s) as [n|]; [destruct (Nat.leb _ n)|]; cbn; lia. }
    assert (D0 : dominates (fst (fst best')) (snd (fst best')) (fst (fst best)) (snd (fst best))).
    { unfold best'. destruct (match_len_fuel fuel r0 s) as [n|]; [|right; split; [reflexivity|lia]].
      destruct (Nat.leb_spec (fst (fst best)) n); cbn; [|right; split; [reflexivity|lia]].
      unfold dominates. destruct (Nat.eq_dec (fst (fst best)) n); [right; split; [assumption|exact Hb]|left; lia]. }
    destruct (IH (N.succ i) best' Hb') as [D1 D2]. split; [eapply dominates_trans; eauto|].
    intros j r sk m Hn Hm. destruct j as [|j]; cbn [nth_error] in Hn.
    + inversion Hn; subst r0 sk0. apply (dominates_trans _ _ _ _ _ _ D1).
      unfold best'. rewrite Hm. destruct (Nat.leb_spec (fst (fst best)) m); cbn.
      * right. split; [reflexivity|lia].
      * left. lia.
    + replace (i + N.of_nat (S j))%N with (N.succ i + N.of_nat j)%N by lia. eapply D2; eauto.
Qed.

(* ---- exact semantics of a finite-language regex: the first word, in priority order, that is a prefix ---- *)
Fixpoint is_prefix (w s : str) : option str :=
  match w, s with
  | [], _ => Some s
  | x :: w', y :: s' => if N.eqb x y then is_prefix w' s' else None
  | _ :: _, [] => None
  end.

Definition try_word {A} (w s : str) (c : nat) (k : mst -> option A) : option A :=
  match is_prefix w s with Some rest => k (rest, (c + length w)%nat) | None => None end.

Fixpoint first_word {A} (L : list str) (s : str) (c : nat) (k : mst -> option A) : option A :=
  match L with
  | [] => None
  | w :: L' => match try_word w s c k with Some x => Some x | None => first_word L' s c k end
  end.

Lemma first_word_app {A} L1 L2 s c (k : mst -> option A) :
  first_word (L1 ++ L2) s c k = match first_word L1 s c k with Some x => Some x | None => first_word L2 s c k end.
Proof. induction L1 as [|w L1 IH]; cbn [app first_word]; [reflexivity|]. destruct (try_word w s c k); [reflexivity|exact IH]. Qed.

Lemma first_word_ext {A} L s c (k1 k2 : mst -> option A) : (forall x, k1 x = k2 x) -> first_word L s c k1 = first_word L s c k2.
Proof.
  intros E. induction L as [|w L IH]; cbn [first_word]; [reflexivity|]. unfold try_word.
  destruct (is_prefix w s); [rewrite E|]; rewrite IH; reflexivity.
Qed.

Lemma is_prefix_app w1 : forall w2 s, is_prefix (w1 ++ w2) s = match is_prefix w1 s with Some r => is_prefix w2 r | None => None end.
Proof.
  induction w1 as [|x w1 IH]; intros w2 s; cbn [app is_prefix]; [reflexivity|].
  destruct s as [|y s]; [reflexivity|]. destruct (N.eqb x y); [apply IH|reflexivity].
Qed.

Lemma first_word_seq {A} w1 lb s c (k : mst -> option A) :
  first_word (map (fun y => w1 ++ y) lb) s c k =
  try_word w1 s c (fun s' => first_word lb (fst s') (snd s') k).
Proof.
  unfold try_word. induction lb as [|w2 lb IH]; cbn [map first_word]; [destruct (is_prefix w1 s); reflexivity|].
  rewrite IH. unfold try_word. rewrite is_prefix_app. destruct (is_prefix w1 s) as [r|]; [|reflexivity]. cbn [fst snd].
  rewrite app_length, Nat.add_assoc. reflexivity.
Qed.

Lemma opt_eta {A} (o : option A) : o = match o with Some x => Some x | None => None end.
Proof. destruct o; reflexivity. Qed.

Lemma mre_finite {A} fuel r : forall L, lang_list r = Some L ->
  forall s c (k : mst -> option A), mre fuel r (s, c) k = first_word L s c k.
Proof.
  induction r as [ranges|a IHa b IHb|a IHa b IHb|a IH|]; intros L HL s c k; cbn [lang_list] in HL.
  - destruct ranges as [|[lo hi] [|]]; try discriminate.
    destruct (N.eqb_spec lo hi) as [->|]; [|discriminate]. inversion HL; subst.
    cbn [mre fst snd first_word]. unfold try_word. destruct s as [|ch rest]; cbn [is_prefix]; [reflexivity|].
    unfold in_class. cbn [existsb fst snd]. rewrite orb_false_r.
    destruct (N.eqb_spec hi ch) as [->|Hne].
    + rewrite N.leb_refl. cbn [andb]. replace (c + length [ch])%nat with (S c) by (cbn; lia). apply opt_eta.
    + destruct (N.eqb_spec hi ch); [contradiction|]. destruct (N.leb_spec hi ch), (N.leb_spec ch hi); cbn [andb]; try reflexivity. lia.
  - destruct (lang_list a) as [la|] eqn:Ea; [|discriminate]. destruct (lang_list b) as [lb|] eqn:Eb; [|discriminate].
    inversion HL; subst. cbn [mre]. rewrite (IHa la eq_refl).
    rewrite (first_word_ext la s c _ (fun s' => first_word lb (fst s') (snd s') k))
      by (intros [s1 c1]; apply (IHb lb eq_refl)).
    clear. induction la as [|w1 la IH]; cbn [flat_map first_word]; [reflexivity|].
    rewrite first_word_app, first_word_seq, IH. reflexivity.
  - destruct (lang_list a) as [la|] eqn:Ea; [|discriminate]. destruct (lang_list b) as [lb|] eqn:Eb; [|discriminate].
    inversion HL; subst. cbn [mre]. rewrite first_word_app, (IHa la eq_refl), (IHb lb eq_refl). reflexivity.
  - discriminate.
  - inversion HL; subst. cbn [mre first_word]. unfold try_word. cbn [is_prefix length]. rewrite Nat.add_0_r.
    apply opt_eta.
Qed.

Fixpoint proper_prefix (a b : str) : bool :=
  match a, b with
  | [], _ :: _ => true
  | x :: a', y :: b' => N.eqb x y && proper_prefix a' b'
  | _, _ => false
  end.

Lemma is_prefix_self w rest : is_prefix w (w ++ rest) = Some rest.
Proof. induction w as [|x w IH]; cbn; [reflexivity|]. rewrite N.eqb_refl. exact IH. Qed.

Lemma is_prefix_proper : forall x w rest r, is_prefix x (w ++ rest) = Some r -> (length x < length w)%nat -> proper_prefix x w = true.
Proof.
  induction x as [|a x IH]; intros [|b w] rest r H Hl; cbn in *; try lia; try reflexivity.
  destruct (N.eqb a b); [|discriminate]. cbn. eapply IH; eauto. lia.
Qed.

(* w is in L and no word before it is a proper prefix of it: then L matches w, whole, whatever follows *)
Fixpoint first_ok (L : list str) (w : str) : bool :=
  match L with
  | [] => false
  | x :: L' => if str_eqb x w then true else negb (proper_prefix x w) && first_ok L' w
  end.

Lemma first_ok_spec L w rest c : first_ok L w = true ->
  exists m, first_word L (w ++ rest) c (fun s' => Some (snd s')) = Some m /\ (c + length w <= m)%nat.
Proof.
  induction L as [|x L IH]; cbn [first_ok first_word]; [discriminate|]. intros H. unfold try_word.
  destruct (str_eqb x w) eqn:E.
  - apply str_eqb_eq in E. subst x. rewrite is_prefix_self. cbn. eauto.
  - apply andb_true_iff in H as [NP H]. destruct (is_prefix x (w ++ rest)) as [r|] eqn:P; [|apply IH; exact H].
    cbn [snd]. exists (c + length x)%nat. split; [reflexivity|].
    destruct (Nat.le_gt_cases (length w) (length x)) as [|G]; [lia|].
    rewrite (is_prefix_proper _ _ _ _ P G) in NP. discriminate.
Qed.

(* entries after position i that have a finite language *)
Definition later_langs (tbl : list (re * bool)) (i : nat) : list (nat * list str) :=
  flat_map (fun '(j, e) => if Nat.ltb i j then match lang_list (fst e) with Some L => [(j, L)] | None => [] end else [])
           (combine (seq 0 (length tbl)) tbl).

Definition covered (tbl : list (re * bool)) (i : nat) (w : str) : bool :=
  existsb (fun '(j, L) => first_ok L w) (later_langs tbl i).

Lemma combine_seq_nth {A} (l : list A) : forall base j e, In (j, e) (combine (seq base (length l)) l) -> nth_error l (j - base) = Some e /\ (base <= j)%nat.
Proof.
  induction l as [|a l IH]; intros base j e H; cbn in H; [contradiction|].
  destruct H as [H|H]; [inversion H; subst; rewrite Nat.sub_diag; auto|].
  destruct (IH _ _ _ H) as [N1 N2]. split; [|lia]. replace (j - base)%nat with (S (j - S base)) by lia. exact N1.
Qed.

Lemma covered_spec tbl i w : covered tbl i w = true ->
  exists j r sk L, (i < j)%nat /\ nth_error tbl j = Some (r, sk) /\ lang_list r = Some L /\ first_ok L w = true.
Proof.
  unfold covered. intros H. apply existsb_exists in H as [[j L] [HI H]].
  unfold later_langs in HI. apply in_flat_map in HI as [[j' [r sk]] [HC HI]].
  destruct (Nat.ltb_spec i j'); [|contradiction]. cbn [fst] in HI.
  destruct (lang_list r) as [L'|] eqn:EL; [|contradiction]. destruct HI as [HI|[]]. inversion HI; subst j' L'.
  destruct (combine_seq_nth _ _ _ _ HC) as [N1 _]. rewrite Nat.sub_0_r in N1.
  exists j, r, sk, L. repeat split; auto.
Qed.

(* what one call of the lexer returns dominates every table entry on the text it was cut from *)
Lemma lex_next_max tbl : forall fuel s off a idx text stop rest,
  lex_next tbl fuel s off = LTok a idx text stop rest ->
  exists F, forall j r sk m, nth_error tbl j = Some (r, sk) -> match_len_fuel F r (text ++ rest) = Some m ->
    dominates (length text) idx m (N.of_nat j).
Proof.
  induction fuel as [|fuel IH]; intros s off a idx text stop rest H; cbn [lex_next] in H; [discriminate|].
  destruct s as [|c s']; [discriminate|]. set (s := c :: s') in *.
  destruct (any_match (S fuel) tbl s) eqn:HA; cbn [negb] in H; [|discriminate].
  pose proof (best_match_any (S fuel) s tbl 0%N (O, 0%N, false) HA eq_refl) as FT.
  pose proof (best_match_max (S fuel) s tbl 0%N (O, 0%N, false) (N.le_refl _)) as [_ MX].
  destruct (best_match (S fuel) tbl 0 s (O, 0%N, false)) as [[n i] sk]. cbn [fst snd] in MX.
  destruct FT as [j0 [r0 [E0 [Hn0 M0]]]]. destruct (match_len_prefix _ _ _ _ M0) as [Hle [Hlen Happ]].
  destruct sk.
  - destruct (Nat.eqb n 0); [discriminate|]. eapply IH; eauto.
  - inversion H; subst. exists (S fuel). intros j r sk m Hn Hm. rewrite Happ in Hm. rewrite Hlen.
    exact (MX j r sk m Hn Hm).
Qed.

Theorem token_not_later_word tbl fuel s off a i text stop rest w :
  lex_next tbl fuel s off = LTok a (N.of_nat i) text stop rest -> covered tbl i w = true -> text <> w.
Proof.
  intros H C ->. destruct (lex_next_max _ _ _ _ _ _ _ _ _ H) as [F MX].
  destruct (covered_spec _ _ _ C) as [j [r [sk [L [Hij [Hn [HL FO]]]]]]].
  destruct (first_ok_spec L w rest O FO) as [m [M Hm]].
  assert (M' : match_len_fuel F r (w ++ rest) = Some m) by (unfold match_len_fuel; rewrite (mre_finite F r L HL); exact M).
  specialize (MX j r sk m Hn M'). destruct MX as [MX|[_ MX]]; lia.
Qed.

(* ---- the regenerated table (ident_col and named_words: Proofs/Words.v) ---- *)
Definition ident_lex_idx : nat :=
  match find (fun j => match gen_token_to_integer (N.of_nat j) with Some c => N.eqb c ident_col | None => false end)
             (seq 0 (length gen_lex_table)) with Some j => j | None => O end.

Lemma named_words_covered : forallb (covered gen_lex_table ident_lex_idx) named_words = true.
Proof. vm_compute. reflexivity. Qed.

Lemma ident_idx_is_ident : gen_token_to_integer (N.of_nat ident_lex_idx) = Some ident_col /\
  nth_error gen_terminals (N.to_nat ident_col) = Some "IDENT"%string.
Proof. vm_compute. split; reflexivity. Qed.

Theorem ident_never_keyword s off a text stop rest w :
  lex1 s off = LTok a (N.of_nat ident_lex_idx) text stop rest -> In w named_words -> text <> w.
Proof.
  intros H Hw. eapply token_not_later_word; [exact H|].
  pose proof named_words_covered as C. rewrite forallb_forall in C. exact (C w Hw).
Qed.

(* only that entry produces IDENT *)
Lemma ident_idx_unique_checked :
  forallb (fun j => match gen_token_to_integer (N.of_nat j) with
                    | Some c => negb (N.eqb c ident_col) || Nat.eqb j ident_lex_idx
                    | None => true end) (seq 0 (length gen_lex_table)) = true.
Proof. vm_compute. reflexivity. Qed.

Lemma ident_idx_unique j : (j < length gen_lex_table)%nat -> gen_token_to_integer (N.of_nat j) = Some ident_col -> j = ident_lex_idx.
Proof.
  intros Hj H. pose proof ident_idx_unique_checked as C. rewrite forallb_forall in C.
  assert (I : In j (seq 0 (length gen_lex_table))) by (apply in_seq; lia). specialize (C j I). rewrite H in C.
  rewrite N.eqb_refl in C. cbn in C. apply Nat.eqb_eq in C. exact C.
Qed.

Theorem ident_token_ok s off a j text stop rest :
  lex1 s off = LTok a (N.of_nat j) text stop rest -> (j < length gen_lex_table)%nat ->
  gen_token_to_integer (N.of_nat j) = Some ident_col -> ident_ok text.
Proof.
  intros H Hj G. rewrite (ident_idx_unique j Hj G) in H. intros Hin. exact (ident_never_keyword _ _ _ _ _ _ _ H Hin eq_refl).
Qed.
