(* Abstract interpretation of the regenerated action table over types, and its soundness:
   if `ainfer n argument-types = Some t` then __actionN applied to arguments of those types returns a value of type t
   (in particular neither VBad nor VPanic). *)
From AidlV Require Import Model.Wrappers Model.Lexer Proofs.Totality Proofs.Typing.

(* ---- abstract glue ---- *)
Definition aglue (g : glue) (ts : list vty) : option vty :=
  match g, ts with
  | GId, [t] => Some t
  | GSome, [t] => Some (TOpt t)
  | GNone, [] => Some (TOpt TBot)
  | GVecNil, [] => Some (TVec TBot)
  | GVecOne, [t] => Some (TVec t)
  | GPush, [TVec a; e] => if sub e a then Some (TVec a) else if sub a e then Some (TVec e) else None
  | GPushOpt, [TVec a; TOpt e] => if sub e a then Some (TVec a) else if sub a e then Some (TVec e) else None
  | GTuple2, [a; b] => Some (TTuple [a; b])
  | GBehind, [] | GAhead, [] => Some TLoc
  | _, _ => None
  end.

Fixpoint all_some {A} (l : list (option A)) : option (list A) :=
  match l with
  | [] => Some []
  | None :: _ => None
  | Some x :: l' => match all_some l' with Some r => Some (x :: r) | None => None end
  end.

Definition tys_at (tys : list vty) (idx : list nat) : option (list vty) := all_some (map (nth_error tys) idx).

Fixpoint forallb2 {A B} (f : A -> B -> bool) (l1 : list A) (l2 : list B) : bool :=
  match l1, l2 with
  | [], [] => true
  | x :: l1', y :: l2' => f x y && forallb2 f l1' l2'
  | _, _ => false
  end.

Definition agetarg (args temps : list vty) (r : argref) : option vty :=
  match r with AArg i => nth_error args i | ATemp j => nth_error temps j end.
Definition aloc_ok (nargs ntemps : nat) (l : locexp) : bool :=
  match l with
  | LStart (AArg i) | LEnd (AArg i) => Nat.ltb i nargs
  | LStart (ATemp j) | LEnd (ATemp j) => Nat.ltb j ntemps
  | LBehind | LAhead => true
  end.

Section Infer.
  Variable usig : utag -> list vty * vty.
  Variable table : list (N * adef).

  Section Wrap.
    Variable acall : N -> list vty -> option vty.
    Fixpoint arun_steps (args temps : list vty) (steps : list wstep) : option (list vty) :=
      match steps with
      | [] => Some temps
      | s :: rest =>
          if aloc_ok (length args) (length temps) (ws_start s) && aloc_ok (length args) (length temps) (ws_end s) then
            match (match ws_args s with
                   | None => acall (ws_callee s) []
                   | Some l => match all_some (map (agetarg args temps) l) with
                               | Some ts => acall (ws_callee s) ts
                               | None => None
                               end
                   end) with
            | Some t => arun_steps args (temps ++ [t]) rest
            | None => None
            end
          else None
      end.
    Definition arun_wrapper (w : wrapper) (args : list vty) : option vty :=
      if Nat.eqb (length args) (w_nargs w) then
        match arun_steps args [] (w_steps w) with
        | Some temps =>
            match all_some (map (agetarg args temps) (w_final_args w)) with
            | Some ts => acall (w_final w) ts
            | None => None
            end
        | None => None
        end
      else None.
  End Wrap.

  Fixpoint ainfer (fuel : nat) (n : N) (args : list vty) : option vty :=
    match fuel with
    | O => None
    | S fuel' =>
        match lookup_action n table with
        | Some (AGlue g nargs idx) =>
            if Nat.eqb (length args) nargs then
              match tys_at args idx with Some ts => aglue g ts | None => None end
            else None
        | Some (AUser u nargs idx) =>
            if Nat.eqb (length args) nargs then
              match tys_at args idx with
              | Some ts => if forallb2 sub ts (fst (usig u)) then Some (snd (usig u)) else None
              | None => None
              end
            else None
        | Some (AWrap w) => arun_wrapper (ainfer fuel') w args
        | None => None
        end
    end.
End Infer.

(* ---- soundness ---- *)
Section Level.
  Variable cx : ctx.
  Variable loud : bool.
  Notation valid := (valid cx).
  Notation has_type := (has_type cx loud).
  Notation typed_triple := (typed_triple cx loud).

  Lemma all_some_spec {A} (l : list (option A)) r : all_some l = Some r -> Forall2 (fun o x => o = Some x) l r.
  Proof.
    revert r. induction l as [|[x|] l IH]; cbn; intros r H; try discriminate.
    - inversion H; constructor.
    - destruct (all_some l) as [r'|]; [|discriminate]. inversion H; subst. constructor; auto.
  Qed.

  Lemma Forall2_nth_error {A B} (P : A -> B -> Prop) l1 l2 i x :
    Forall2 P l1 l2 -> nth_error l1 i = Some x -> exists y, nth_error l2 i = Some y /\ P x y.
  Proof.
    intros F. revert i. induction F as [|a b l1' l2' Hab F IH]; intros i H; [destruct i; discriminate|].
    destruct i; cbn in *; [inversion H; subst; eauto|apply IH; exact H].
  Qed.

  Lemma nth_error_nth {A} (l : list A) i x d : nth_error l i = Some x -> nth i l d = x.
  Proof. revert i; induction l as [|a l IH]; intros [|i]; cbn; intros H; try discriminate; [inversion H; auto|auto]. Qed.

  Lemma tys_at_vals tys args idx ts :
    Forall2 typed_triple tys args -> tys_at tys idx = Some ts -> Forall2 has_type ts (vals_at args idx).
  Proof.
    intros F H. unfold tys_at in H. apply all_some_spec in H. unfold vals_at.
    revert ts H. induction idx as [|i idx IH]; cbn; intros ts H; inversion H; subst; constructor.
    - destruct (Forall2_nth_error _ _ _ _ _ F H2) as [yy [Hyy [_ [_ T]]]]. rewrite (nth_error_nth _ _ _ _ Hyy). exact T.
    - apply IH. assumption.
  Qed.

  Lemma push_type a e t :
    (if sub e a then Some (TVec a) else if sub a e then Some (TVec e) else None) = Some t ->
    exists u, t = TVec u /\ (forall x, has_type a x -> has_type u x) /\ (forall x, has_type e x -> has_type u x).
  Proof.
    destruct (sub e a) eqn:S1.
    - intros H; inversion H; subst. exists a. split; [reflexivity|]. split; [auto|]. intros x Hx. eapply sub_sound; eauto.
    - destruct (sub a e) eqn:S2; [|discriminate]. intros H; inversion H; subst. exists e. split; [reflexivity|].
      split; [|auto]. intros x Hx. eapply sub_sound; eauto.
  Qed.

  Lemma aglue_sound g ts t vs lb la :
    valid lb -> valid la -> aglue g ts = Some t -> Forall2 has_type ts vs -> has_type t (run_glue g lb la vs).
  Proof.
    intros Hlb Hla H F.
    destruct g; destruct ts as [|t1 [|t2 [|t3 r]]]; cbn in H; try discriminate.
    - (* GId *) inversion H; subst. inversion F as [|? v1 ? vr T1 Fr]; subst. inversion Fr; subst. exact T1.
    - (* GSome *) inversion H; subst. inversion F as [|? v1 ? vr T1 Fr]; subst. inversion Fr; subst. exact T1.
    - (* GNone *) inversion H; subst. inversion F; subst. exact I.
    - (* GVecNil *) inversion H; subst. inversion F; subst. exact I.
    - (* GVecOne *) inversion H; subst. inversion F as [|? v1 ? vr T1 Fr]; subst. inversion Fr; subst. cbn. auto.
    - (* GPush: one type *) destruct t1; discriminate.
    - (* GPush *)
      destruct t1 as [| | | | | | | |a| | | |]; try discriminate.
      apply push_type in H as [u [-> [Ha He]]].
      inversion F as [|? v1 ? vr T1 Fr]; subst. inversion Fr as [|? v2 ? vr2 T2 Fr2]; subst. inversion Fr2; subst.
      destruct v1; try contradiction. apply has_type_vec in T1. cbn [run_glue vec_push]. apply has_type_vec.
      apply Forall_app. split; [eapply Forall_impl; [|exact T1]; exact Ha|]. constructor; [apply He; exact T2|constructor].
    - (* GPush: three types *) destruct t1; try discriminate.
    - (* GPushOpt: one type *) destruct t1; discriminate.
    - (* GPushOpt *)
      destruct t1 as [| | | | | | | |a| | | |]; try discriminate. destruct t2 as [| | | | | |e| | | | | |]; try discriminate.
      apply push_type in H as [u [-> [Ha He]]].
      inversion F as [|? v1 ? vr T1 Fr]; subst. inversion Fr as [|? v2 ? vr2 T2 Fr2]; subst. inversion Fr2; subst.
      destruct v1; try contradiction. apply has_type_vec in T1.
      destruct v2 as [| | |o| | | | | | | | | | | | | | | | | | | | | | |]; try contradiction.
      destruct o as [x|]; cbn [run_glue vec_push_opt]; apply has_type_vec.
      + apply Forall_app. split; [eapply Forall_impl; [|exact T1]; exact Ha|]. constructor; [apply He; exact T2|constructor].
      + eapply Forall_impl; [|exact T1]; exact Ha.
    - (* GPushOpt: three types *) destruct t1; try discriminate. destruct t2; discriminate.
    - (* GTuple2 *) inversion H; subst.
      inversion F as [|? v1 ? vr T1 Fr]; subst. inversion Fr as [|? v2 ? vr2 T2 Fr2]; subst. inversion Fr2; subst.
      cbn. auto.
    - (* GBehind *) inversion H; subst. inversion F; subst. exact Hlb.
    - (* GAhead *) inversion H; subst. inversion F; subst. exact Hla.
  Qed.
  Lemma forallb2_sub ts sig vs : forallb2 sub ts sig = true -> Forall2 has_type ts vs -> Forall2 has_type sig vs.
  Proof.
    revert sig vs. induction ts as [|t ts IH]; intros [|g sig] vs H F; cbn in H; try discriminate.
    - inversion F; constructor.
    - apply andb_true_iff in H as [H1 H2]. inversion F; subst. constructor; [eapply sub_sound; eauto|apply IH; assumption].
  Qed.

  (* arguments / temps looked up abstractly and concretely *)
  Lemma agetarg_sound atys ttys args temps r t :
    Forall2 typed_triple atys args -> Forall2 typed_triple ttys temps ->
    agetarg atys ttys r = Some t -> typed_triple t (getarg args temps r).
  Proof.
    intros Fa Ft H. destruct r as [i|j]; cbn in *.
    - destruct (Forall2_nth_error _ _ _ _ _ Fa H) as [y [Hy T]]. rewrite (nth_error_nth _ _ _ _ Hy). exact T.
    - destruct (Forall2_nth_error _ _ _ _ _ Ft H) as [y [Hy T]]. rewrite (nth_error_nth _ _ _ _ Hy). exact T.
  Qed.

  Lemma agetargs_sound atys ttys args temps l ts :
    Forall2 typed_triple atys args -> Forall2 typed_triple ttys temps ->
    all_some (map (agetarg atys ttys) l) = Some ts -> Forall2 typed_triple ts (map (getarg args temps) l).
  Proof.
    intros Fa Ft H. apply all_some_spec in H. revert ts H.
    induction l as [|r l IH]; cbn; intros ts H; inversion H; subst; constructor.
    - eapply agetarg_sound; eauto.
    - apply IH; assumption.
  Qed.

  Lemma Forall2_length {A B} (P : A -> B -> Prop) l1 l2 : Forall2 P l1 l2 -> length l1 = length l2.
  Proof. induction 1; cbn; congruence. Qed.

  Lemma aloc_sound atys ttys args temps lb la l :
    Forall2 typed_triple atys args -> Forall2 typed_triple ttys temps -> valid lb -> valid la ->
    aloc_ok (length atys) (length ttys) l = true -> valid (evalloc args temps lb la l).
  Proof.
    intros Fa Ft Hlb Hla H.
    assert (G : forall tys xs i, Forall2 typed_triple tys xs -> Nat.ltb i (length tys) = true ->
                valid (tstart (nth i xs dummy)) /\ valid (tend (nth i xs dummy))).
    { intros tys xs i F Hi. apply Nat.ltb_lt in Hi.
      destruct (nth_error tys i) as [t|] eqn:E; [|apply nth_error_None in E; lia].
      destruct (Forall2_nth_error _ _ _ _ _ F E) as [y [Hy [V1 [V2 _]]]]. rewrite (nth_error_nth _ _ _ _ Hy). auto. }
    destruct l as [[i|j]|[i|j]| |]; cbn in *; auto.
    - apply (G atys args i Fa H). - apply (G ttys temps j Ft H). - apply (G atys args i Fa H). - apply (G ttys temps j Ft H).
  Qed.

End Level.

Section Sound.
  Variable cx : ctx.
  Variable usig : utag -> list vty * vty.
  Variable table : list (N * adef).
  Notation valid := (valid cx).

  (* what has to be shown about the hand-written user actions: typed arguments give a typed result, at the level
     raised by whatever Error the action itself pushed *)
  Hypothesis user_typed : forall loud u vs,
    Forall2 (has_type cx loud) (fst (usig u)) vs ->
    has_type cx (loud || errb (snd (user_fn u cx vs))) (snd (usig u)) (fst (user_fn u cx vs)).

  Definition afun_sound (f : afun) (af : list vty -> option vty) : Prop :=
    forall loud tys t lb la args, af tys = Some t -> valid lb -> valid la -> Forall2 (typed_triple cx loud) tys args ->
      has_type cx (loud || errb (snd (f cx lb la args))) t (fst (f cx lb la args)).

  Lemma run_steps_sound (call : N -> afun) (acall : N -> list vty -> option vty) :
    (forall n, afun_sound (call n) (acall n)) ->
    forall steps loud atys args lb la, Forall2 (typed_triple cx loud) atys args -> valid lb -> valid la ->
    forall ttys temps ds ttys', Forall2 (typed_triple cx (loud || errb ds)) ttys temps ->
      arun_steps acall atys ttys steps = Some ttys' ->
      Forall2 (typed_triple cx (loud || errb (snd (run_steps call cx lb la args temps steps ds)))) ttys'
              (fst (run_steps call cx lb la args temps steps ds)).
  Proof.
    intros Hc steps loud atys args lb la Fa Hlb Hla.
    induction steps as [|s rest IH]; intros ttys temps ds ttys' Ft H; cbn [arun_steps run_steps] in *.
    - inversion H; subst. exact Ft.
    - destruct (aloc_ok (length atys) (length ttys) (ws_start s) && aloc_ok (length atys) (length ttys) (ws_end s)) eqn:L; [|discriminate].
      apply andb_true_iff in L as [L1 L2].
      pose proof (Forall2_typed_lift cx loud (errb ds) _ _ Fa) as Fa'.
      pose proof (aloc_sound _ _ _ _ _ _ _ _ _ Fa' Ft Hlb Hla L1) as V1.
      pose proof (aloc_sound _ _ _ _ _ _ _ _ _ Fa' Ft Hlb Hla L2) as V2.
      set (st := evalloc args temps lb la (ws_start s)) in *. set (en := evalloc args temps lb la (ws_end s)) in *.
      destruct (ws_args s) as [l|] eqn:A.
      + destruct (all_some (map (agetarg atys ttys) l)) as [ts|] eqn:G; [|discriminate].
        destruct (acall (ws_callee s) ts) as [t|] eqn:C; [|discriminate].
        pose proof (Hc (ws_callee s) _ ts t lb la (map (getarg args temps) l) C Hlb Hla (agetargs_sound _ _ _ _ _ _ _ _ Fa' Ft G)) as T.
        destruct (call (ws_callee s) cx lb la (map (getarg args temps) l)) as [v d]. cbn [fst snd] in T.
        apply IH with (ttys := ttys ++ [t]); [|exact H].
        rewrite errb_app, orb_assoc.
        apply Forall2_app; [apply Forall2_typed_lift; exact Ft|]. constructor; [|constructor]. split; [exact V1|split; [exact V2|exact T]].
      + destruct (acall (ws_callee s) []) as [t|] eqn:C; [|discriminate].
        pose proof (Hc (ws_callee s) (loud || errb ds) [] t st en [] C V1 V2 (Forall2_nil _)) as T.
        destruct (call (ws_callee s) cx st en []) as [v d]. cbn [fst snd] in T.
        apply IH with (ttys := ttys ++ [t]); [|exact H].
        rewrite errb_app, orb_assoc.
        apply Forall2_app; [apply Forall2_typed_lift; exact Ft|]. constructor; [|constructor]. split; [exact V1|split; [exact V2|exact T]].
  Qed.

  Lemma typed_not_panic loud ttys temps : Forall2 (typed_triple cx loud) ttys temps -> existsb (fun t => is_panic (tval t)) temps = false.
  Proof.
    induction 1 as [|t x ttys temps [_ [_ T]] F IH]; [reflexivity|]. cbn. rewrite IH, orb_false_r.
    destruct (tval x); try reflexivity. exfalso. eapply has_type_not_panic; exact T.
  Qed.

  Lemma run_wrapper_sound (call : N -> afun) (acall : N -> list vty -> option vty) w :
    (forall n, afun_sound (call n) (acall n)) -> afun_sound (run_wrapper call w) (arun_wrapper acall w).
  Proof.
    intros Hc loud tys t lb la args H Hlb Hla Fa. unfold arun_wrapper in H. unfold run_wrapper.
    rewrite <- (Forall2_length _ _ _ Fa).
    destruct (Nat.eqb (length tys) (w_nargs w)); [|discriminate].
    destruct (arun_steps acall tys [] (w_steps w)) as [ttys|] eqn:S; [|discriminate].
    pose proof (run_steps_sound call acall Hc (w_steps w) loud tys args lb la Fa Hlb Hla [] [] [] ttys (Forall2_nil _) S) as Ft.
    destruct (run_steps call cx lb la args [] (w_steps w) []) as [temps ds]. cbn [fst snd] in Ft.
    rewrite (typed_not_panic _ _ _ Ft).
    destruct (all_some (map (agetarg tys ttys) (w_final_args w))) as [ts|] eqn:G; [|discriminate].
    pose proof (Forall2_typed_lift cx loud (errb ds) _ _ Fa) as Fa'.
    pose proof (Hc (w_final w) _ ts t lb la (map (getarg args temps) (w_final_args w)) H Hlb Hla (agetargs_sound _ _ _ _ _ _ _ _ Fa' Ft G)) as T.
    destruct (call (w_final w) cx lb la (map (getarg args temps) (w_final_args w))) as [v d]. cbn [fst snd] in T |- *.
    rewrite errb_app, orb_assoc. exact T.
  Qed.

  (* the main soundness theorem of the analysis *)
  Theorem ainfer_sound fuel : forall n, afun_sound (eval_action table fuel n) (ainfer usig table fuel n).
  Proof.
    induction fuel as [|fuel IH]; intros n loud tys t lb la args H Hlb Hla Fa; cbn [ainfer eval_action] in *; [discriminate|].
    destruct (lookup_action n table) as [[g nargs idx|u nargs idx|w]|] eqn:L; try discriminate.
    - rewrite <- (Forall2_length _ _ _ Fa). destruct (Nat.eqb (length tys) nargs); [|discriminate].
      destruct (tys_at tys idx) as [ts|] eqn:T; [|discriminate]. cbn [fst snd errb existsb]. rewrite orb_false_r.
      eapply aglue_sound; eauto. eapply tys_at_vals; eauto.
    - rewrite <- (Forall2_length _ _ _ Fa). destruct (Nat.eqb (length tys) nargs); [|discriminate].
      destruct (tys_at tys idx) as [ts|] eqn:T; [|discriminate].
      destruct (forallb2 sub ts (fst (usig u))) eqn:S; [|discriminate]. inversion H; subst.
      apply user_typed. eapply forallb2_sub; [exact S|]. eapply tys_at_vals; eauto.
    - eapply run_wrapper_sound; eauto.
  Qed.
End Sound.
