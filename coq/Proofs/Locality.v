(* C13: a file's result depends on `defined` only through the keys of its own imports.
   C11: the environment is independent of the order in which files are held. *)
From AidlV Require Import Spec.Master Proofs.Scoping Proofs.Master Proofs.Names.

Definition agree_on (keys : list str) (e e' : env) : Prop := forall k, In k keys -> assoc k e = assoc k e'.

Lemma resolve_name_local imports declared e e' n :
  agree_on imports e e' -> resolve_name imports declared e n = resolve_name imports declared e' n.
Proof.
  intros H. unfold resolve_name.
  destruct (find_import imports n) as [ip|] eqn:F; [|reflexivity].
  apply find_import_sound in F as [Hin _]. rewrite (H ip Hin). reflexivity.
Qed.

Lemma flat_map_ext_in {A B} (f g : A -> list B) l : (forall x, In x l -> f x = g x) -> flat_map f l = flat_map g l.
Proof. induction l as [|x l IH]; cbn; intros H; [reflexivity|]. rewrite H, IH; auto. Qed.

Lemma first_imports_subset l : forall pre i, In i (first_imports_from pre l) -> In i l.
Proof.
  induction l as [|x l IH]; intros pre i; cbn [first_imports_from]; [auto|].
  rewrite in_app_iff. intros [H | H].
  - destruct (is_some _); [contradiction|]. destruct H as [<-|[]]. left; reflexivity.
  - right. eapply IH; exact H.
Qed.

Lemma check_imports_local imports used e e' :
  agree_on (map import_qname imports) e e' -> check_imports imports used e = check_imports imports used e'.
Proof.
  intros H. unfold check_imports.
  pose proof (imports_pass1_spec used e imports [] [] (fun q => eq_refl)) as S1.
  destruct (imports_pass1 [] imports) as [d1 firsts]. destruct S1 as [S1 _].
  f_equal. f_equal. apply flat_map_ext_in. intros i Hi.
  assert (Hin : In i imports) by (rewrite S1 in Hi; eapply first_imports_subset; exact Hi).
  unfold import_pass2. rewrite (H (import_qname i)) by (apply in_map; exact Hin). reflexivity.
Qed.

Theorem validate_file_local e e' a ds0 :
  agree_on (map import_qname (ai_imports a)) e e' -> validate_file e a ds0 = validate_file e' a ds0.
Proof.
  intros H. unfold validate_file.
  rewrite !resolve_item_spec.
  set (f := resolve_name _ _ e). set (f' := resolve_name _ _ e').
  assert (F : forall n, f n = f' n) by (intros n; apply resolve_name_local; exact H).
  rewrite (mu_item_ext f f' _ F).
  assert (U : flat_map (spec_unknown f) (all_types_pre (ai_item a)) = flat_map (spec_unknown f') (all_types_pre (ai_item a))).
  { apply flat_map_ext. intros t. apply spec_unknown_ext. exact F. }
  rewrite U. rewrite (check_imports_local _ _ e e' H). reflexivity.
Qed.

(* ---- the environment as a function of the multiset of files ---- *)
Definition merge_kind (o : option rkind) (k : rkind) : rkind :=
  match o with Some k' => if N.leb (rank k') (rank k) then k' else k | None => k end.

Lemma env_insert_lookup k key kd e :
  assoc k (env_insert key kd e) = if str_eqb k key then Some (merge_kind (assoc k e) kd) else assoc k e.
Proof.
  induction e as [|[key' k'] e IH]; cbn [env_insert assoc].
  - destruct (str_eqb k key); reflexivity.
  - destruct (str_eqb key key') eqn:E1; cbn [assoc].
    + apply str_eqb_eq in E1. subst key'. destruct (str_eqb k key); reflexivity.
    + destruct (str_eqb k key') eqn:E2.
      * destruct (str_eqb k key) eqn:E3; [|reflexivity].
        apply str_eqb_eq in E2, E3. subst. rewrite str_eqb_refl in E1. discriminate.
      * exact IH.
Qed.

Definition step_lookup (k : str) (o : option rkind) (fr : file_result) : option rkind :=
  match fr_ast fr with
  | Some a => if str_eqb k (get_key a) then Some (merge_kind o (item_kind (ai_item a))) else o
  | None => o
  end.

Lemma collect_lookup k files : forall e,
  assoc k (fold_left (fun e fr => match fr_ast fr with
                                  | Some a => env_insert (get_key a) (item_kind (ai_item a)) e
                                  | None => e end) files e)
  = fold_left (step_lookup k) files (assoc k e).
Proof.
  induction files as [|fr l IH]; intros e; cbn [fold_left]; [reflexivity|].
  rewrite IH. f_equal. unfold step_lookup. destruct (fr_ast fr); [|reflexivity]. apply env_insert_lookup.
Qed.

Lemma rank_inj k k' : rank k = rank k' -> k = k'.
Proof. destruct k, k'; cbn; intros H; try reflexivity; discriminate. Qed.

Lemma merge_comm o k1 k2 : merge_kind (Some (merge_kind o k1)) k2 = merge_kind (Some (merge_kind o k2)) k1.
Proof.
  unfold merge_kind. destruct o as [k0|].
  - destruct (N.leb_spec (rank k0) (rank k1)), (N.leb_spec (rank k0) (rank k2));
      repeat match goal with |- context [N.leb ?a ?b] => destruct (N.leb_spec a b) end;
      try reflexivity; try lia; apply rank_inj; lia.
  - destruct (N.leb_spec (rank k1) (rank k2)), (N.leb_spec (rank k2) (rank k1)); try reflexivity; try lia.
    apply rank_inj; lia.
Qed.

Lemma step_lookup_comm k o x y : step_lookup k (step_lookup k o x) y = step_lookup k (step_lookup k o y) x.
Proof.
  unfold step_lookup. destruct (fr_ast x) as [a|], (fr_ast y) as [b|]; try reflexivity.
  destruct (str_eqb k (get_key a)), (str_eqb k (get_key b)); try reflexivity.
  f_equal. apply merge_comm.
Qed.

Theorem collect_item_keys_perm files files' k :
  Permutation files files' -> assoc k (collect_item_keys files) = assoc k (collect_item_keys files').
Proof.
  intros P. unfold collect_item_keys. rewrite !collect_lookup. cbn [assoc].
  generalize (@None rkind). induction P; intros o; cbn [fold_left].
  - reflexivity.
  - apply IHP.
  - rewrite step_lookup_comm. reflexivity.
  - rewrite IHP1. apply IHP2.
Qed.

(* every file's result is the same whichever order the files are held in *)
Theorem validate_one_perm files files' fr :
  Permutation files files' ->
  validate_one (collect_item_keys files) fr = validate_one (collect_item_keys files') fr.
Proof.
  intros P. unfold validate_one. destruct (fr_ast fr) as [a|]; [|reflexivity].
  rewrite (validate_file_local (collect_item_keys files) (collect_item_keys files')); [reflexivity|].
  intros k _. apply collect_item_keys_perm. exact P.
Qed.

(* ---- the whole validate() under a permutation of the held files ---- *)
Definition outcome_perm {A} (x y : outcome (list A)) : Prop :=
  match x, y with
  | Ok a, Ok b => Permutation a b
  | Panic, Panic => True
  | _, _ => False
  end.

Lemma outcome_perm_refl {A} (x : outcome (list A)) : outcome_perm x x.
Proof. destruct x; cbn; auto. Qed.

Lemma outcome_perm_trans {A} (x y z : outcome (list A)) : outcome_perm x y -> outcome_perm y z -> outcome_perm x z.
Proof. destruct x, y, z; cbn; try tauto. apply Permutation_trans. Qed.

Lemma sequence_perm {A B} (g : A -> outcome B) l l' :
  Permutation l l' -> outcome_perm (sequence (map g l)) (sequence (map g l')).
Proof.
  intros P. induction P; cbn [map sequence].
  - cbn. constructor.
  - destruct (g x); [|cbn; exact I].
    destruct (sequence (map g l)), (sequence (map g l')); cbn in *; try tauto. constructor. exact IHP.
  - destruct (g x), (g y); cbn; try exact I;
      destruct (sequence (map g l)); cbn; try exact I. apply perm_swap.
  - eapply outcome_perm_trans; eauto.
Qed.

Theorem validate_perm files files' :
  Permutation files files' -> outcome_perm (validate files) (validate files').
Proof.
  intros P. unfold validate.
  replace (map (validate_one (collect_item_keys files')) files')
    with (map (validate_one (collect_item_keys files)) files').
  - apply sequence_perm. exact P.
  - apply map_ext. intros fr. apply validate_one_perm. exact P.
Qed.
