(* C01 end to end: any set of source texts goes through add_content and validate without a panic and without running
   out of fuel, and comes back as one result per file with that file's id. *)
From Coq Require Import List Lia.
From AidlV Require Import Model.LrDriver Model.Validation Proofs.Totality Proofs.DriverSafe Proofs.ArityOk Proofs.Termination.
Import ListNotations.

(* a file as Parser holds it: the result add_content stored for some text (with its line/column table) under the file's id *)
Definition held (fr : file_result) : Prop :=
  exists cx, length (cx_lc cx) = S (length (cx_src cx)) /\ add_content cx (fr_id fr) = Added fr.

Lemma sequence_ok {A} (l : list (outcome A)) : Forall (fun o => exists x, o = Ok x) l -> exists r, sequence l = Ok r.
Proof.
  induction 1 as [|o l [x ->] _ [r IH]]; [exists []; reflexivity|]. cbn [sequence]. rewrite IH. eexists. reflexivity.
Qed.

Lemma validate_one_total defined fr : held fr -> exists r, validate_one defined fr = Ok r.
Proof.
  intros [cx [WF H]]. unfold validate_one. destruct (fr_ast fr) as [a|] eqn:E; [|eexists; reflexivity].
  destruct (parsed_tree_validates cx (fr_id fr) fr a defined (fr_diags fr) H E) as [[a' ds] V]. rewrite V. eexists. reflexivity.
Qed.

Theorem validate_total files : Forall held files -> exists r, validate files = Ok r /\ map fr_id r = map fr_id files.
Proof.
  intros H. unfold validate.
  destruct (sequence_ok (map (validate_one (collect_item_keys files)) files)) as [r R].
  { apply Forall_map. eapply Forall_impl; [|exact H]. intros fr Hfr. apply validate_one_total. exact Hfr. }
  exists r. split; [exact R|]. apply validate_ids. exact R.
Qed.

(* every text is held after add_content *)
Theorem every_text_is_held cx id : length (cx_lc cx) = S (length (cx_src cx)) ->
  exists fr, add_content cx id = Added fr /\ fr_id fr = id.
Proof.
  intros WF. destruct (add_content_total cx id WF) as [fr H]. exists fr. split; [exact H|].
  unfold add_content in H. destruct (parse cx) as [p r]. destruct r as [v|e| |]; try discriminate.
  - destruct v; try discriminate. match goal with H : context [match ?o with Some _ => _ | None => _ end] |- _ => destruct o as [x|] end;
      [destruct x; try discriminate|]; inversion H; reflexivity.
  - destruct (diag_of_error cx e); [|discriminate]. inversion H. reflexivity.
Qed.
