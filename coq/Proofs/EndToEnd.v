(* C01 end to end: any set of source texts goes through add_content and validate without a panic and without running
   out of fuel, and comes back as one result per file with that file's id. *)
From Coq Require Import List Lia.
From AidlV Require Import Model.LrDriver Model.Validation Proofs.Totality Proofs.DriverSafe Proofs.ArityOk Proofs.Termination.
Import ListNotations.

(* a file as Parser holds it: the result add_content stored for some text (with its line/column table) under the file's id *)
Definition held (fr : file_result) : Prop :=
  exists cx, length (cx_lc cx) = S (length (cx_src cx)) /\ add_content cx (fr_id fr) = Added fr.

Lemma sequence_ok {A} (l : list (outcome A)) : Forall (fun o => exists x, o = Ok x) l -> exists r, sequence l = Ok r.
Proof.
  induction 1 as [|o l [x ->] _ [r IH]]; [exists []; reflexivity|]. cbn [sequence]. rewrite IH. eexists. reflexivity.
Qed.

Lemma validate_one_total defined fr : held fr -> exists r, validate_one defined fr = Ok r.
Proof.
  intros [cx [WF H]]. unfold validate_one. destruct (fr_ast fr) as [a|] eqn:E; [|eexists; reflexivity].
  destruct (parsed_tree_validates cx (fr_id fr) fr a defined (fr_diags fr) H E) as [[a' ds] V]. rewrite V. eexists. reflexivity.
Qed.

Theorem validate_total files : Forall held files -> exists r, validate files = Ok r /\ map fr_id r = map fr_id files.
Proof.
  intros H. unfold validate.
  destruct (sequence_ok (map (validate_one (collect_item_keys files)) files)) as [r R].
  { apply Forall_map. eapply Forall_impl; [|exact H]. intros fr Hfr. apply validate_one_total. exact Hfr. }
  exists r. split; [exact R|]. apply validate_ids. exact R.
Qed.

(* every text is held after add_content *)
Theorem every_text_is_held cx id : length (cx_lc cx) = S (length (cx_src cx)) ->
  exists fr, add_content cx id = Added fr /\ fr_id fr = id.
Proof.
  intros WF. destruct (add_content_total cx id WF) as [fr H]. exists fr. split; [exact H|].
  unfold add_content in H. destruct (parse cx) as [p r]. destruct r as [v|e| |]; try discriminate.
  - destruct v; try discriminate. match goal with H : context [match ?o with Some _ => _ | None => _ end] |- _ => destruct o as [x|] end;
      [destruct x; try discriminate|]; inversion H; reflexivity.
  - destruct (diag_of_error cx e); [|discriminate]. inversion H. reflexivity.
Qed.

(* ---- over histories: whatever was done to a Parser, its validate returns ---- *)
From AidlV Require Import Model.ParserState.
Section History.
  Variable lcf : str -> list (N * N).           (* the line/column table of a text (the line-col crate: modelled as given) *)
  Hypothesis lcf_ok : forall s, length (lcf s) = S (length s).
  Variable fs : str -> option str.

  Definition parse_model (id content : str) : file_result :=
    match add_content (Ctx content (lcf content)) id with Added fr => fr | _ => FR id None [] end.

  Lemma parse_model_held id c : held (parse_model id c).
  Proof.
    unfold parse_model.
    destruct (every_text_is_held (Ctx c (lcf c)) id (lcf_ok c)) as [fr [H E]]. rewrite H.
    exists (Ctx c (lcf c)). split; [apply lcf_ok|]. rewrite E. exact H.
  Qed.

  Lemma put_held k v (s : list (str * file_result)) : held v -> Forall held (map snd s) -> Forall held (map snd (put k v s)).
  Proof.
    intros Hv. induction s as [|[k' v'] s IH]; intros H; cbn [put map snd]; [constructor; [exact Hv|constructor]|].
    inversion H; subst. destruct (str_eqb k k'); cbn [map snd]; constructor; auto.
  Qed.
  Lemma del_held k (s : list (str * file_result)) : Forall held (map snd s) -> Forall held (map snd (del k s)).
  Proof.
    unfold del. induction s as [|[k' v'] s IH]; intros H; cbn [filter map]; [constructor|]. inversion H; subst.
    destruct (negb (str_eqb k (fst (k', v')))); cbn [map snd]; [constructor; auto|auto].
  Qed.

  Lemma step_held s o : Forall held (map snd s) -> Forall held (map snd (fst (step parse_model fs s o))).
  Proof.
    intros H. destruct o; cbn [step fst].
    - apply put_held; [apply parse_model_held|exact H].
    - apply del_held. exact H.
    - exact H.
    - destruct (fs path); cbn [fst]; [apply put_held; [apply parse_model_held|exact H]|exact H].
  Qed.

  Lemma run_held ops : Forall held (map snd (run parse_model fs ops)).
  Proof.
    unfold run. assert (G : forall s, Forall held (map snd s) -> Forall held (map snd (fold_left (fun s o => fst (step parse_model fs s o)) ops s))).
    { induction ops as [|o ops IH]; intros s H; cbn [fold_left]; [exact H|]. apply IH. apply step_held. exact H. }
    apply G. constructor.
  Qed.

  (* after any history of add_content / remove / add_file / validate, validate returns one result per held file *)
  Theorem validate_after_any_history ops :
    exists r, validate_state (run parse_model fs ops) = Ok r /\ map fr_id r = map fr_id (map snd (run parse_model fs ops)).
  Proof. unfold validate_state. apply validate_total. apply run_held. Qed.
End History.
