(* every user action of the grammar commutes with erasure (Proofs/Hom.v): on erased arguments, in the trivial context,
   it returns exactly the erasure of what it returns on the real arguments *)
From Coq Require Import ZArith.
From AidlV Require Import Model.LrDriver Proofs.Totality Proofs.Sim Proofs.Typing Proofs.Ainfer Proofs.JavadocTotal Proofs.Hom Proofs.UserTyped.

Lemma all_of_erase {X} (f : sem -> option X) (ex : X -> X) :
  (forall v x, f v = Some x -> f (erase v) = Some (ex x)) ->
  forall l r, all_of f l = Some r -> all_of f (map erase l) = Some (map ex r).
Proof.
  intros Hf. induction l as [|v l IH]; intros r H; cbn in *; [inversion H; reflexivity|].
  destruct (f v) as [x|] eqn:E; [|discriminate]. destruct (all_of f l) as [r'|]; [|discriminate]. inversion H; subst.
  rewrite (Hf _ _ E), (IH _ eq_refl). reflexivity.
Qed.

Lemma flatten_erase {X} (f : sem -> option X) (ex : X -> X) :
  (forall v x, f v = Some x -> f (erase v) = Some (ex x)) ->
  forall l r, flatten_opts f l = Some r -> flatten_opts f (map erase l) = Some (map ex r).
Proof.
  intros Hf. induction l as [|v l IH]; intros r H; cbn in *; [inversion H; reflexivity|].
  destruct v; try discriminate. destruct o as [x|]; cbn.
  - destruct (f x) as [y|] eqn:E; [|discriminate]. destruct (flatten_opts f l) as [r'|]; [|discriminate]. inversion H; subst.
    rewrite (Hf _ _ E), (IH _ eq_refl). reflexivity.
  - apply IH. exact H.
Qed.

Lemma toks_erase l r : toks l = Some r -> toks (map erase l) = Some r.
Proof.
  revert r. induction l as [|v l IH]; intros r H; cbn in *; [exact H|].
  destruct v; try discriminate. destruct (toks l) as [r'|]; [|discriminate]. cbn. rewrite (IH _ eq_refl). exact H.
Qed.

Lemma as_annot_e v x : as_annot v = Some x -> as_annot (erase v) = Some x.
Proof. destruct v; cbn; intros H; inversion H; reflexivity. Qed.
Lemma as_ie_e v x : as_ie v = Some x -> as_ie (erase v) = Some (erase_ie x).
Proof. destruct v; cbn; intros H; inversion H; reflexivity. Qed.
Lemma as_pe_e v x : as_pe v = Some x -> as_pe (erase v) = Some (erase_pe x).
Proof. destruct v; cbn; intros H; inversion H; reflexivity. Qed.
Lemma as_ee_e v x : as_ee v = Some x -> as_ee (erase v) = Some (erase_ee x).
Proof. destruct v; cbn; intros H; inversion H; reflexivity. Qed.
Lemma as_arg_e v x : as_arg v = Some x -> as_arg (erase v) = Some (erase_arg x).
Proof. destruct v; cbn; intros H; inversion H; reflexivity. Qed.
Lemma as_import_e v x : as_import v = Some x -> as_import (erase v) = Some (erase_import x).
Proof. destruct v; cbn; intros H; inversion H; reflexivity. Qed.
Lemma as_kv_e v x : as_kv v = Some x -> as_kv (erase v) = Some x.
Proof. destruct v; cbn; intros H; inversion H; reflexivity. Qed.
Lemma as_annots_e v an : as_annots v = Some an -> as_annots (erase v) = Some an.
Proof.
  destruct v; cbn; try discriminate. intros H. rewrite (all_of_erase as_annot (fun a => a) as_annot_e _ _ H), map_id. reflexivity.
Qed.

Lemma range0 : mk_range cx0 0 0 = Some r0.  Proof. reflexivity. Qed.
Lemma doc0 : get_javadoc (cx_src cx0) 0 = Some None.  Proof. reflexivity. Qed.

Section UserHom.
  Variable cx : ctx.
  Hypothesis WF : length (cx_lc cx) = S (length (cx_src cx)).
  Variable loud : bool.
  Notation valid := (valid cx).
  Notation has_type := (has_type cx loud).

  Lemma with_range_hom a b (k0 k : range -> res) :
    valid a -> valid b -> (forall r, fst (k0 r0) = erase (fst (k r))) ->
    fst (with_range cx0 (VLoc 0) (VLoc 0) k0) = erase (fst (with_range cx (VLoc a) (VLoc b) k)).
  Proof. intros Ha Hb H. unfold with_range. rewrite range0. destruct (mk_range_total cx WF a b Ha Hb) as [r ->]. apply H. Qed.

  Lemma with_doc_hom p (k0 k : option str -> res) :
    valid p -> (forall d, fst (k0 None) = erase (fst (k d))) ->
    fst (with_doc cx0 (VLoc 0) k0) = erase (fst (with_doc cx (VLoc p) k)).
  Proof.
    intros Hp H. unfold with_doc. rewrite doc0. destruct (valid_char_index cx p Hp) as [i Hi].
    destruct (get_javadoc_total _ _ _ Hi) as [d ->]. apply H.
  Qed.

  Ltac inv_args :=
    repeat match goal with
           | H : Forall2 _ (_ :: _) _ |- _ => inversion H; subst; clear H
           | H : Forall2 _ [] _ |- _ => inversion H; subst; clear H
           end.
  Ltac shape :=
    repeat match goal with
           | H : Typing.has_type _ _ TLoc ?v |- _ => destruct v; try contradiction; cbn in H
           | H : Typing.has_type _ _ TTok ?v |- _ => destruct v; try contradiction; clear H
           | H : Typing.has_type _ _ TIdent ?v |- _ => destruct v; try contradiction; clear H
           | H : Typing.has_type _ _ TString ?v |- _ => destruct v; try contradiction; clear H
           | H : Typing.has_type _ _ TQName ?v |- _ => destruct v; try contradiction; clear H
           | H : Typing.has_type _ _ (TAst _) ?v |- _ =>
               let S := fresh "S" in let Nm := fresh "Nm" in
               destruct H as [S Nm]; destruct v; cbn in S; try contradiction; try discriminate; clear S Nm
           | H : Typing.has_type _ _ TErr ?v |- _ => destruct v; try contradiction; cbn in H
           end.
  Ltac hranges := repeat first [apply with_range_hom; [assumption|assumption|intros ?] | apply with_doc_hom; [assumption|intros ?]].
  Ltac annots :=
    match goal with H : Typing.has_type _ _ t_annots ?a |- _ =>
      let an := fresh "an" in let EA := fresh "EA" in let QA := fresh "QA" in
      destruct (as_annots_typed cx loud _ H) as [an [EA QA]]; clear H QA end.
  Ltac optv H o := match type of H with Typing.has_type _ _ _ ?v =>
      destruct v as [| | |o| | | | | | | | | | | | | | | | | | | | | | |]; try contradiction end.

  Lemma err_hom label e : err_ok cx e ->
    fst (act_err label cx0 (VErr (erase_err e))) = erase (fst (act_err label cx (VErr e))).
  Proof.
    intros He. unfold act_err, diag_of_recovery.
    assert (D : exists d, diag_of_error cx e = Some d).
    { destruct e; cbn in He |- *.
      - destruct (mk_range_total cx WF loc loc He He) as [r ->]. eexists; reflexivity.
      - destruct (mk_range_total cx WF loc loc He He) as [r ->]. eexists; reflexivity.
      - destruct He as [H1 H2]. destruct (mk_range_total cx WF s e H1 H2) as [r ->]. eexists; reflexivity.
      - destruct He as [H1 H2]. destruct (mk_range_total cx WF s e H1 H2) as [r ->]. eexists; reflexivity. }
    destruct D as [d ->].
    assert (D0 : exists d0, diag_of_error cx0 (erase_err e) = Some d0) by (destruct e; cbn; eexists; reflexivity).
    destruct D0 as [d0 ->]. reflexivity.
  Qed.

  Theorem user_hom u vs :
    Forall2 has_type (fst (user_sig u)) vs -> fst (user_fn u cx0 (map erase vs)) = erase (fst (user_fn u cx vs)).
  Proof.
    intros F. destruct u; cbn [user_sig fst snd] in F; inv_args; cbn [map user_fn].
    - (* OptAidl *)
      shape.
      match goal with H : Typing.has_type _ _ (TVec (TAst "Import")) ?a, H' : Typing.has_type _ _ (TVec (TAst "Import")) ?b |- _ =>
        destruct a; try contradiction; destruct b; try contradiction; apply has_type_vec in H; apply has_type_vec in H';
        destruct (all_of_typed cx loud as_import import_ok _ _ (as_import_t cx loud) H) as [r1 [E1 _]];
        destruct (all_of_typed cx loud as_import import_ok _ _ (as_import_t cx loud) H') as [r2 [E2 _]] end.
      match goal with H : Typing.has_type _ _ (TLoud (TAst "Item")) ?o |- _ => destruct o; try contradiction; rename H into HI end.
      unfold act_OptAidl. cbn [erase]. rewrite E1, E2, (all_of_erase _ _ as_import_e _ _ E1), (all_of_erase _ _ as_import_e _ _ E2).
      destruct o as [x|]; [|reflexivity].
      cbn in HI. destruct HI as [SI _]. destruct x; cbn in SI; try contradiction; try discriminate. reflexivity.
    - (* Package *) shape. unfold act_Package. cbn [erase]. hranges. reflexivity.
    - (* Import *)
      shape. match goal with H : Typing.has_type _ _ (TVec TIdent) ?a |- _ => destruct a; try contradiction; apply has_type_vec in H;
                                                                        destruct (idents_typed cx loud _ H) as [segs [E _]] end.
      unfold act_Import. cbn [erase]. rewrite E, (toks_erase _ _ E). hranges. reflexivity.
    - (* QualifiedName *)
      shape. match goal with H : Typing.has_type _ _ (TVec TIdent) ?a |- _ => destruct a; try contradiction; apply has_type_vec in H;
                                                                        destruct (idents_typed cx loud _ H) as [segs [E _]] end.
      unfold act_QualifiedName. cbn [erase]. rewrite E, (toks_erase _ _ E). destruct segs; reflexivity.
    - shape. reflexivity.
    - shape. reflexivity.
    - shape. reflexivity.
    - (* ErrItem *) shape. apply err_hom. assumption.
    - (* Interface *)
      annots.
      match goal with H : Typing.has_type _ _ (TOpt TTok) ?o |- _ => optv H oo; rename H into HO end.
      match goal with H : Typing.has_type _ _ (TVec (TOpt (TAst "InterfaceElement"))) ?a |- _ =>
        destruct a; try contradiction; apply has_type_vec in H;
        destruct (flatten_typed cx loud as_ie ie_ok _ _ (as_ie_t cx loud) H) as [els [EL _]] end.
      shape. unfold act_Interface. cbn [erase]. rewrite EA, (as_annots_e _ _ EA), EL, (flatten_erase _ _ as_ie_e _ _ EL).
      destruct oo as [x|]; cbn [is_some_sem option_map]; hranges; reflexivity.
    - shape. reflexivity.
    - shape. reflexivity.
    - shape. apply err_hom. assumption.
    - (* Parcelable *)
      annots.
      match goal with H : Typing.has_type _ _ (TVec (TOpt (TAst "ParcelableElement"))) ?a |- _ =>
        destruct a; try contradiction; apply has_type_vec in H;
        destruct (flatten_typed cx loud as_pe pe_ok _ _ (as_pe_t cx loud) H) as [els [EL _]] end.
      shape. unfold act_Parcelable. cbn [erase]. rewrite EA, (as_annots_e _ _ EA), EL, (flatten_erase _ _ as_pe_e _ _ EL).
      hranges. reflexivity.
    - shape. reflexivity.
    - shape. reflexivity.
    - shape. apply err_hom. assumption.
    - (* Enum *)
      annots.
      match goal with H : Typing.has_type _ _ (TVec (TOpt (TAst "EnumElement"))) ?a |- _ =>
        destruct a; try contradiction; apply has_type_vec in H;
        destruct (flatten_typed cx loud as_ee ee_ok _ _ (as_ee_t cx loud) H) as [els [EL _]] end.
      shape. unfold act_Enum. cbn [erase]. rewrite EA, (as_annots_e _ _ EA), EL, (flatten_erase _ _ as_ee_e _ _ EL).
      hranges. reflexivity.
    - shape. reflexivity.
    - shape. apply err_hom. assumption.
    - (* Method *)
      annots.
      match goal with H : Typing.has_type _ _ (TOpt TTok) ?o |- _ => optv H oo; clear H end.
      match goal with H : Typing.has_type _ _ (TVec (TAst "Arg")) ?a |- _ =>
        destruct a; try contradiction; apply has_type_vec in H;
        destruct (all_of_typed cx loud as_arg arg_ok _ _ (as_arg_t cx loud) H) as [al [EL _]]; clear H end.
      match goal with H : Typing.has_type _ _ (TOpt (TTuple [TLoc; TTok])) ?o |- _ => optv H oc; rename H into HC end.
      shape.
      unfold act_Method. cbn [erase]. rewrite EA, (as_annots_e _ _ EA), EL, (all_of_erase _ _ as_arg_e _ _ EL).
      assert (ISS : is_some_sem (VOpt (option_map erase oo)) = is_some_sem (VOpt oo)) by (destruct oo; reflexivity).
      rewrite ISS. destruct (is_some_sem (VOpt oo)) as [ow|] eqn:EO; [|destruct oo; discriminate].
      apply with_doc_hom; [assumption|intros doc].
      assert (FIN : forall a b c d e f g h (mk0 mk : range -> range -> range -> range -> method) ds0 ds,
                valid a -> valid b -> valid c -> valid d -> valid e -> valid f -> valid g -> valid h ->
                (forall r1 r2 r3 r4, mk0 r0 r0 r0 r0 = erase_method (mk r1 r2 r3 r4)) ->
                fst (method_finish cx0 (VLoc 0) (VLoc 0) (VLoc 0) (VLoc 0) (VLoc 0) (VLoc 0) (VLoc 0) (VLoc 0) mk0 ds0) =
                erase (fst (method_finish cx (VLoc a) (VLoc b) (VLoc c) (VLoc d) (VLoc e) (VLoc f) (VLoc g) (VLoc h) mk ds))).
      { intros a b c d e f g h mk0 mk ds0 ds Ha Hb Hc Hd He Hf Hg Hh Hmk. unfold method_finish, with_range. rewrite !range0.
        destruct (mk_range_total cx WF a b Ha Hb) as [r1 ->]. destruct (mk_range_total cx WF c d Hc Hd) as [r2 ->].
        destruct (mk_range_total cx WF e f He Hf) as [r3 ->]. destruct (mk_range_total cx WF g h Hg Hh) as [r4 ->].
        cbn. f_equal. apply Hmk. }
      destruct oc as [x|]; cbn [option_map]; [|apply FIN; try assumption; intros; reflexivity].
      change (Typing.has_type cx loud (TTuple [TLoc; TTok]) x) in HC. destruct x; try contradiction.
      match goal with HC : Typing.has_type _ _ (TTuple _) (VTuple ?l) |- _ => destruct l as [|a1 [|a2 [|a3 rr]]]; cbn in HC; try tauto end.
      destruct HC as [HT1 [HT2 _]]. destruct a1; try contradiction. destruct a2; try contradiction. cbn in HT1. cbn [erase map].
      destruct (parse_u32 s0); [apply FIN; try assumption; intros; reflexivity|].
      rewrite range0.
      match goal with |- context [mk_range cx ?a ?b] => destruct (mk_range_total cx WF a b) as [r E]; try assumption; rewrite E end.
      apply FIN; try assumption; intros; reflexivity.
    - (* Arg *)
      annots.
      match goal with H : Typing.has_type _ _ (TOpt TIdent) ?o |- _ => optv H oo; rename H into HO end.
      shape. unfold act_Arg. cbn [erase]. rewrite EA, (as_annots_e _ _ EA).
      destruct oo as [x|]; [cbn in HO; destruct x; try contradiction|]; cbn [option_map erase]; hranges; reflexivity.
    - (* Direction *)
      match goal with H : Typing.has_type _ _ (TOpt (TTokOf dir_col)) ?o |- _ => optv H oo; rename H into HO end.
      shape. unfold act_Direction. destruct oo as [x|]; [|reflexivity].
      cbn in HO. destruct x; try contradiction. apply direction_words in HO. cbn [option_map erase].
      destruct HO as [<-|[<-|[<-|[]]]];
        repeat match goal with |- context [str_eqb ?a ?b] => let v := eval vm_compute in (str_eqb a b) in change (str_eqb a b) with v end;
        cbv iota; hranges; reflexivity.
    - (* Const *)
      annots. shape. unfold act_Const. cbn [erase]. rewrite EA, (as_annots_e _ _ EA). hranges. reflexivity.
    - (* Field *)
      annots.
      match goal with H : Typing.has_type _ _ (TOpt TString) ?o |- _ => optv H oo; rename H into HO end.
      shape. unfold act_Field. cbn [erase]. rewrite EA, (as_annots_e _ _ EA).
      destruct oo as [x|]; [cbn in HO; destruct x; try contradiction|]; cbn [option_map erase]; hranges; reflexivity.
    - (* EnumElement *)
      match goal with H : Typing.has_type _ _ (TOpt TTok) ?o |- _ => optv H oo; rename H into HO end.
      shape. unfold act_EnumElement.
      destruct oo as [x|]; [cbn in HO; destruct x; try contradiction|]; cbn [option_map erase]; hranges; reflexivity.
    - shape. unfold act_TypeVoid, simple_type. cbn [erase]. hranges. reflexivity.
    - shape. unfold act_TypePrimitive, simple_type. cbn [erase]. hranges. reflexivity.
    - shape. unfold act_TypeString, simple_type. cbn [erase]. hranges. reflexivity.
    - shape. unfold act_TypeCharSequence, simple_type. cbn [erase]. hranges. reflexivity.
    - shape. unfold act_TypeArray. cbn [erase]. hranges. reflexivity.
    - shape. unfold act_TypeList. cbn [erase]. hranges. reflexivity.
    - shape. unfold act_TypeRawList. hranges. reflexivity.
    - shape. unfold act_TypeMap. cbn [erase]. hranges. reflexivity.
    - shape. unfold act_TypeRawMap. hranges. reflexivity.
    - shape. unfold act_TypeCustom. cbn [erase]. hranges. reflexivity.
    - (* AnnotationList *)
      match goal with H : Typing.has_type _ _ (TVec (TOpt (TAst "Annotation"))) ?a |- _ =>
        destruct a; try contradiction; apply has_type_vec in H;
        destruct (flatten_typed cx loud as_annot annot_ok _ _ (as_annot_t cx loud) H) as [an [EL _]] end.
      unfold act_AnnotationList. cbn [erase]. rewrite EL, (flatten_erase _ _ as_annot_e _ _ EL), map_id. cbn.
      f_equal. rewrite map_map. reflexivity.
    - (* OptAnnotation *)
      match goal with H : Typing.has_type _ _ (TOpt (TVec TKV)) ?o |- _ => optv H oo; rename H into HO end.
      shape. unfold act_OptAnnotation. destruct oo as [x|]; [|reflexivity].
      change (Typing.has_type cx loud (TVec TKV) x) in HO. destruct x; try contradiction. apply has_type_vec in HO.
      destruct (all_of_typed cx loud as_kv (fun kv => ident_ok (fst kv)) _ _ (as_kv_t cx loud) HO) as [kvs [E _]].
      cbn [option_map erase]. rewrite E, (all_of_erase _ _ as_kv_e _ _ E), map_id. reflexivity.
    - (* AnnotationParam *)
      match goal with H : Typing.has_type _ _ (TOpt TTok) ?o |- _ => optv H oo; rename H into HO end.
      shape. unfold act_AnnotationParam. destruct oo as [x|]; [cbn in HO; destruct x; try contradiction|]; reflexivity.
    - shape. reflexivity.
    - reflexivity.
    - reflexivity.
    - shape. reflexivity.
  Qed.
End UserHom.
