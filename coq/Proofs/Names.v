From AidlV Require Import Spec.Master Spec.Nodes Proofs.Scoping.

Theorem item_qname_is_key a : sym_qname (item_symbol a) = Some (get_key a).
Proof. unfold item_symbol, get_key, item_name. destruct (ai_item a); reflexivity. Qed.

Theorem type_qname t key k : ty_kind t = KResolved key k -> sym_qname (SType t) = Some key.
Proof. intros H. cbn. rewrite H. reflexivity. Qed.

Lemma env_insert_assoc k key kd e r :
  assoc k (env_insert key kd e) = Some r -> (k = key /\ r = kd) \/ assoc k e = Some r.
Proof.
  induction e as [|[key' k'] e IH]; cbn [env_insert assoc].
  - destruct (str_eqb k key) eqn:E; [|discriminate]. intros H; inversion H. apply str_eqb_eq in E. auto.
  - destruct (str_eqb key key') eqn:E1; cbn [assoc].
    + apply str_eqb_eq in E1. subst key'. destruct (str_eqb k key) eqn:E2; [|auto].
      apply str_eqb_eq in E2. subst k. intros H; inversion H.
      destruct (N.leb (rank k') (rank kd)); auto.
    + destruct (str_eqb k key'); auto.
Qed.

(* a key of `defined` with its kind comes from a file of the project that defines such an item *)
Theorem collect_item_keys_sound files k r :
  assoc k (collect_item_keys files) = Some r ->
  exists fr a, In fr files /\ fr_ast fr = Some a /\ get_key a = k /\ item_kind (ai_item a) = r.
Proof.
  unfold collect_item_keys.
  assert (G : forall l e,
    assoc k (fold_left (fun e fr => match fr_ast fr with
                                    | Some a => env_insert (get_key a) (item_kind (ai_item a)) e
                                    | None => e end) l e) = Some r ->
    (exists fr a, In fr l /\ fr_ast fr = Some a /\ get_key a = k /\ item_kind (ai_item a) = r) \/ assoc k e = Some r).
  { induction l as [|fr l IH]; intros e H; cbn [fold_left] in H; [auto|].
    apply IH in H as [[fr' [a [Hin R]]] | H].
    - left. exists fr', a. split; [right; exact Hin|exact R].
    - destruct (fr_ast fr) as [a|] eqn:Ea; [|auto].
      apply env_insert_assoc in H as [[-> ->] | H]; [|auto].
      left. exists fr, a. repeat split; auto. left; reflexivity. }
  intros H. apply G in H as [H | H]; [exact H|discriminate].
Qed.

(* a reference that the scoping rules resolve to an interface / parcelable / enum carries a key of `defined` *)
Theorem spec_resolve_defined imports declared defined n key rk :
  spec_resolve imports declared defined n = Some (KResolved key rk) ->
  rk = RInterface \/ rk = RParcelable \/ rk = REnum ->
  assoc key defined = Some rk.
Proof.
  unfold spec_resolve. intros H Hk.
  destruct (match from_qualified_name n with
            | Some a => if gen_can_be_qualified a || mem_str n imports then Some a else None
            | None => None end); [discriminate|].
  destruct (find_import imports n) as [ip|].
  - destruct (assoc ip defined) as [k0|] eqn:E.
    + inversion H; subst. exact E.
    + destruct (from_qualified_name ip); inversion H; subst. destruct Hk as [|[|]]; discriminate.
  - destruct (mem_str n declared && unqualified n).
    + inversion H; subst. destruct Hk as [|[|]]; discriminate.
    + destruct (from_name n); discriminate.
Qed.
