(* The parser's loops terminate: the fuel the model gives them is never exhausted, for any text.
   Everything specific to the regenerated tables is a finite check computed over them:
   - check_chain: from no state, on no lookahead (terminal, `!`, EOF), can more than chain_bound reductions follow one
     another, whatever lies below the top of the stack (the goto target after a pop is over-approximated by every target
     the goto function has for that nonterminal);
   - check_targets: goto and shift targets are states of the automaton;
   - check_eof: no state shifts on EOF.
   The rest is proved once: a run of reductions is at most chain_bound long; after error recovery the `accepts` simulation
   has promised that the lookahead is shifted, and it keeps its promise because it runs on the same tables; every dropped
   token makes the text shorter (Proofs/LexProgress.v). *)
From Coq Require Import ZArith Lia List.
From AidlV Require Import Model.LrDriver Proofs.Automaton Proofs.LexProgress Proofs.DriverSafe.
Import ListNotations.

Definition act (s : N) (col : option nat) : Z :=
  match col with None => eof_action_at s | Some c => action_at s c end.

(* ---- goto targets ---- *)
Definition goto_targets (nt : N) : list N := nodup N.eq_dec (map (fun u => gen_goto u nt) all_states).
Definition targets_tbl : list (list N) := Eval vm_compute in map goto_targets all_nts.
Definition targets (nt : N) : list N := nth (N.to_nat nt) targets_tbl [].

Definition state_b (s : N) : bool := N.ltb s (N.of_nat gen_nstates).
Definition prods0 : list (nat * N * N * N) := (O, 0%N, 0%N, 3%N) :: gen_productions.

Definition goto_row_ok (pr : nat * N * N * N) : bool :=
  let '(_, nt, _, _) := pr in forallb (fun u => mem_N (gen_goto u nt) (targets nt) && state_b (gen_goto u nt)) all_states.
Definition action_row_ok (row : list Z) : bool :=
  Nat.eqb (length row) gen_ncols && forallb (fun a => Z.leb a 0 || state_b (Z.to_N (a - 1))) row.
Definition eof_ok (a : Z) : bool := Z.leb a 0.

(* stated unfolded (no `check_x = true` to unfold later: the kernel would evaluate the whole conjunction lazily at Qed) *)
Lemma goto_checked : forallb goto_row_ok prods0 = true.  Proof. vm_compute. reflexivity. Qed.
Lemma rows_checked : forallb action_row_ok gen_action_rows = true.  Proof. vm_compute. reflexivity. Qed.
Lemma eof_checked : forallb eof_ok gen_eof_action = true.  Proof. vm_compute. reflexivity. Qed.

(* ---- the chain bound ---- *)
Fixpoint max_opt (l : list (option nat)) : option nat :=
  match l with
  | [] => Some O
  | x :: l' => match x, max_opt l' with Some a, Some b => Some (Nat.max a b) | _, _ => None end
  end.

Fixpoint chain (fuel : nat) (s : N) (col : option nat) : option nat :=
  match fuel with
  | O => None
  | S f =>
      match as_reduce (act s col) with
      | None => Some O
      | Some r =>
          let '(k, nt, _, kind) := production r in
          if N.eqb kind 2 then Some 1%nat
          else option_map S (match k with
                             | O => chain f (gen_goto s nt) col
                             | S _ => max_opt (map (fun t => chain f t col) (targets nt))
                             end)
      end
  end.

Definition all_ocols : list (option nat) := None :: map Some all_cols.
Definition chain_fuel : nat := 64.
Definition chain_bound : nat :=
  Eval vm_compute in
    fold_left (fun m col => fold_left (fun m s => match chain chain_fuel s col with Some n => Nat.max m n | None => m end) all_states m)
              all_ocols O.
Definition chain_ok (col : option nat) (s : N) : bool :=
  match chain chain_fuel s col with Some n => Nat.leb n chain_bound | None => false end.
Lemma chain_checked : forallb (fun col => forallb (chain_ok col) all_states) all_ocols = true.
Proof. vm_compute. reflexivity. Qed.

Lemma fuel_enough : Nat.ltb (2 * chain_bound + 4) reduce_fuel = true.  Proof. vm_compute. reflexivity. Qed.

(* ---- what the checks say ---- *)
Definition bounded (states : list N) : Prop := Forall (fun s => In s all_states) states.

Lemma state_b_in s : state_b s = true -> In s all_states.
Proof. unfold state_b. intros H. apply N.ltb_lt in H. apply in_all_states. lia. Qed.

Lemma zero_state : In 0%N all_states.
Proof. apply in_all_states. unfold gen_nstates. cbn. lia. Qed.

Lemma hd_bounded states : bounded states -> In (hd 0%N states) all_states.
Proof. intros H. destruct states; [apply zero_state|inversion H; assumption]. Qed.

Lemma skipn_bounded k states : bounded states -> bounded (skipn k states).
Proof.
  unfold bounded. intros H. rewrite Forall_forall in *. intros x Hx. apply H.
  rewrite <- (firstn_skipn k states). apply in_or_app. right. exact Hx.
Qed.

Lemma production_in r : In (production r) prods0.
Proof.
  unfold production, prods0. destruct (nth_in_or_default (N.to_nat r) gen_productions (O, 0%N, 0%N, 3%N)) as [H|H].
  - right. exact H.
  - left. symmetry. exact H.
Qed.

Lemma goto_target r k nt a kind u : production r = (k, nt, a, kind) -> In u all_states ->
  In (gen_goto u nt) (targets nt) /\ In (gen_goto u nt) all_states.
Proof.
  intros P U. pose proof goto_checked as C.
  rewrite forallb_forall in C. specialize (C _ (production_in r)). rewrite P in C. unfold goto_row_ok in C.
  rewrite forallb_forall in C. specialize (C _ U). apply andb_prop in C as [C1 C2].
  split; [apply mem_N_In; exact C1|apply state_b_in; exact C2].
Qed.

Lemma shift_target s col t : as_shift (action_at s col) = Some t -> In t all_states.
Proof.
  intros H. pose proof rows_checked as C.
  rewrite forallb_forall in C. unfold as_shift in H. destruct (Z.ltb 0 (action_at s col)) eqn:L; [|discriminate].
  inversion H; subst. apply Z.ltb_lt in L. unfold action_at in *.
  set (row := nth (N.to_nat s) gen_action_rows []) in *.
  assert (IR : In row gen_action_rows \/ row = []).
  { unfold row. destruct (nth_in_or_default (N.to_nat s) gen_action_rows []); auto. }
  destruct IR as [IR|IR]; [|rewrite IR in L; destruct col; cbn in L; lia].
  specialize (C _ IR). unfold action_row_ok in C. apply andb_prop in C as [_ C]. rewrite forallb_forall in C.
  destruct (nth_in_or_default col row 0%Z) as [I|I]; [|rewrite I in L; lia].
  specialize (C _ I). apply orb_prop in C as [C|C]; [apply Z.leb_le in C; lia|apply state_b_in; exact C].
Qed.

Lemma eof_nonpos s : (eof_action_at s <= 0)%Z.
Proof.
  pose proof eof_checked as C. rewrite forallb_forall in C. unfold eof_action_at.
  destruct (nth_in_or_default (N.to_nat s) gen_eof_action 0%Z) as [I|I]; [apply Z.leb_le; exact (C _ I)|rewrite I; lia].
Qed.

Lemma act_nz_state s col : act s col <> 0%Z -> In s all_states.
Proof. destruct col; cbn [act]; [apply action_state|apply eof_action_state]. Qed.

Lemma act_nz_col s c : action_at s c <> 0%Z -> In c all_cols.
Proof.
  intros H. pose proof rows_checked as C.
  rewrite forallb_forall in C. unfold action_at in H.
  set (row := nth (N.to_nat s) gen_action_rows []) in *.
  destruct (nth_in_or_default (N.to_nat s) gen_action_rows []) as [IR|IR]; fold row in IR.
  - specialize (C _ IR). unfold action_row_ok in C. apply andb_prop in C as [C _]. apply Nat.eqb_eq in C.
    unfold all_cols. apply in_seq. split; [lia|]. cbn [plus].
    destruct (Nat.lt_ge_cases c (length row)) as [L|L]; [lia|]. rewrite nth_overflow in H by exact L. congruence.
  - rewrite IR in H. destruct c; cbn in H; congruence.
Qed.

(* ---- runs of reductions on the state stack alone ---- *)
Inductive chain_len : list N -> option nat -> nat -> Prop :=
| CL_stop states col : as_reduce (act (hd 0%N states) col) = None -> chain_len states col O
| CL_accept states col r k nt a kind :
    as_reduce (act (hd 0%N states) col) = Some r -> production r = (k, nt, a, kind) -> N.eqb kind 2 = true ->
    chain_len states col 1
| CL_step states col r k nt a kind n :
    as_reduce (act (hd 0%N states) col) = Some r -> production r = (k, nt, a, kind) -> N.eqb kind 2 = false ->
    chain_len (gen_goto (hd 0%N (skipn k states)) nt :: skipn k states) col n ->
    chain_len states col (S n).

Lemma max_opt_ge l m : max_opt l = Some m -> forall x, In x l -> exists n, x = Some n /\ (n <= m)%nat.
Proof.
  revert m. induction l as [|y l IH]; intros m H x Hx; [destruct Hx|].
  cbn [max_opt] in H. destruct y as [a|]; [|discriminate]. destruct (max_opt l) as [b|]; [|discriminate].
  inversion H; subst. destruct Hx as [<-|Hx].
  - exists a. split; [reflexivity|lia].
  - destruct (IH b eq_refl x Hx) as [n [E L]]. exists n. split; [exact E|lia].
Qed.

Lemma chain_sound col : forall fuel s n, chain fuel s col = Some n ->
  forall states, hd 0%N states = s -> bounded states -> exists m, (m <= n)%nat /\ chain_len states col m.
Proof.
  induction fuel as [|fuel IH]; intros s n H states Hs Hb; cbn [chain] in H; [discriminate|]. subst s.
  destruct (as_reduce (act (hd 0%N states) col)) as [r|] eqn:A.
  - destruct (production r) as [[[k nt] a] kind] eqn:P.
    destruct (N.eqb kind 2) eqn:K.
    + inversion H; subst. exists 1%nat. split; [lia|]. eapply CL_accept; eauto.
    + assert (U : In (hd 0%N (skipn k states)) all_states) by (apply hd_bounded, skipn_bounded, Hb).
      destruct (goto_target _ _ _ _ _ _ P U) as [T1 T2].
      assert (B' : bounded (gen_goto (hd 0%N (skipn k states)) nt :: skipn k states)).
      { constructor; [exact T2|apply skipn_bounded, Hb]. }
      assert (C : exists n', chain fuel (gen_goto (hd 0%N (skipn k states)) nt) col = Some n' /\ (S n' <= n)%nat).
      { destruct k as [|k'].
        - cbn [skipn]. destruct (chain fuel (gen_goto (hd 0%N states) nt) col) as [n'|]; [|discriminate].
          inversion H; subst. exists n'. split; [reflexivity|lia].
        - destruct (max_opt (map (fun t => chain fuel t col) (targets nt))) as [mx|] eqn:M; [|discriminate].
          inversion H; subst.
          destruct (max_opt_ge _ _ M (chain fuel (gen_goto (hd 0%N (skipn (S k') states)) nt) col)) as [n' [E L]].
          { apply in_map_iff. eexists. split; [reflexivity|exact T1]. }
          exists n'. split; [exact E|lia]. }
      destruct C as [n' [C L]].
      destruct (IH _ _ C (gen_goto (hd 0%N (skipn k states)) nt :: skipn k states) eq_refl B') as [m [Lm CL]].
      exists (S m). split; [lia|]. eapply CL_step; eauto.
  - inversion H; subst. exists O. split; [lia|]. apply CL_stop. exact A.
Qed.

Lemma in_all_ocols s col : act s col <> 0%Z -> In col all_ocols.
Proof.
  destruct col as [c|]; cbn [act]; intros H; [|left; reflexivity].
  right. apply in_map. apply act_nz_col with s. exact H.
Qed.

Lemma chain_ok_spec col s : chain_ok col s = true -> exists n, chain chain_fuel s col = Some n /\ (n <= chain_bound)%nat.
Proof.
  unfold chain_ok. generalize chain_fuel. intros F. destruct (chain F s col) as [n|]; [|discriminate].
  intros H. exists n. split; [reflexivity|apply Nat.leb_le; exact H].
Qed.

Theorem chain_bounded states col : bounded states -> exists m, (m <= chain_bound)%nat /\ chain_len states col m.
Proof.
  intros Hb. destruct (Z.eq_dec (act (hd 0%N states) col) 0) as [Z|NZ].
  - exists O. split; [lia|]. apply CL_stop. rewrite Z. reflexivity.
  - pose proof chain_checked as C. rewrite forallb_forall in C.
    specialize (C _ (in_all_ocols _ _ NZ)). rewrite forallb_forall in C. specialize (C _ (act_nz_state _ _ NZ)).
    apply chain_ok_spec in C. destruct C as [n [E C]].
    destruct (chain_sound col _ _ _ E states eq_refl Hb) as [m [L CL]].
    exists m. split; [lia|exact CL].
Qed.

(* ---- the driver ---- *)
Section Driver.
  Variable cx : ctx.

  Lemma reduce_states p r la p' : reduce cx p r la = RCont p' ->
    exists k nt a kind, production r = (k, nt, a, kind) /\ N.eqb kind 2 = false /\
      ps_states p' = gen_goto (hd 0%N (skipn k (ps_states p))) nt :: skipn k (ps_states p) /\ ps_rest p' = ps_rest p.
  Proof.
    unfold reduce. destruct (production r) as [[[k nt] a] kind]. cbv zeta.
    match goal with |- context [gen_action a cx ?x ?y ?z] => destruct (gen_action a cx x y z) as [v ds] end.
    intros H. exists k, nt, a, kind.
    destruct (N.eqb kind 2) eqn:K; destruct v; try discriminate; inversion H; subst; cbn [ps_states ps_rest]; auto.
  Qed.

  Lemma reduce_accept_kind p r la k nt a kind : production r = (k, nt, a, kind) -> N.eqb kind 2 = true ->
    match reduce cx p r la with RCont _ => False | _ => True end.
  Proof.
    intros P K. unfold reduce. rewrite P. cbv zeta.
    match goal with |- context [gen_action a cx ?x ?y ?z] => destruct (gen_action a cx x y z) as [v ds] end.
    rewrite K. destruct v; exact I.
  Qed.

  Lemma reduce_bounded p r la p' : bounded (ps_states p) -> reduce cx p r la = RCont p' -> bounded (ps_states p').
  Proof.
    intros Hb H. destruct (reduce_states _ _ _ _ H) as [k [nt [a [kind [P [_ [S _]]]]]]]. rewrite S.
    assert (U : In (hd 0%N (skipn k (ps_states p))) all_states) by (apply hd_bounded, skipn_bounded, Hb).
    constructor; [apply (goto_target _ _ _ _ _ _ P U)|apply skipn_bounded, Hb].
  Qed.

  Definition no_oof (r : outcome3) : Prop := r <> OutOfFuel.

  Lemma next_tok_spec p :
    match next_tok p with
    | Found p' _ _ _ _ => ps_states p' = ps_states p /\ (length (ps_rest p') < length (ps_rest p))%nat
    | AtEof p' => ps_states p' = ps_states p /\ ps_rest p' = []
    | Stop p' r => no_oof r
    end.
  Proof.
    unfold next_tok. destruct (lex1 (ps_rest p) (ps_off p)) as [s idx text e rest| |loc] eqn:L.
    - apply lex_next_progress in L as [_ L].
      destruct (gen_token_to_integer idx); cbn [ps_states ps_rest]; [auto|]. unfold no_oof. discriminate.
    - cbn [ps_states ps_rest]. auto.
    - unfold no_oof. discriminate.
  Qed.

  Lemma error_reductions_spec la : forall fuel p, bounded (ps_states p) ->
    match error_reductions cx fuel p la with
    | RCont p' => bounded (ps_states p') /\ ps_rest p' = ps_rest p
    | _ => True
    end.
  Proof.
    induction fuel as [|fuel IH]; intros p Hb; cbn [error_reductions]; [auto|].
    destruct (as_reduce (error_action_at (top_state p))) as [r|]; [|auto].
    destruct (reduce cx p r la) as [p'| |] eqn:R; [|exact I|exact I].
    pose proof (reduce_bounded _ _ _ _ Hb R) as Hb'. destruct (reduce_states _ _ _ _ R) as [k [nt [a [kind [_ [_ [_ RS]]]]]]].
    specialize (IH p' Hb'). destruct (error_reductions cx fuel p' la); [|exact I|exact I].
    destruct IH as [B E]. split; [exact B|congruence].
  Qed.

  Lemma find_recover_acc col : forall states top, find_recover states col = Some top ->
    exists above st below es, states = above ++ st :: below /\ top = length below /\ as_shift (error_action_at st) = Some es /\
      accepts accept_fuel (es :: st :: below) col = true.
  Proof.
    induction states as [|st below IH]; intros top H; cbn [find_recover] in H; [discriminate|].
    assert (R : find_recover below col = Some top -> exists above st0 below0 es,
                st :: below = above ++ st0 :: below0 /\ top = length below0 /\ as_shift (error_action_at st0) = Some es /\
                accepts accept_fuel (es :: st0 :: below0) col = true).
    { intros H'. destruct (IH _ H') as [ab [s0 [bl [es [E1 [E2 [E3 E4]]]]]]]. exists (st :: ab), s0, bl, es. rewrite E1. auto. }
    destruct (as_shift (error_action_at st)) as [es|] eqn:E; [|auto].
    destruct (accepts accept_fuel (es :: st :: below) col) eqn:A; [|auto].
    inversion H; subst. exists [], st, below, es. auto.
  Qed.

  Definition rec_good (p : pst) (r : recovered) : Prop :=
    match r with
    | RecFound p' _ _ _ col => bounded (ps_states p') /\ accepts accept_fuel (ps_states p') (Some col) = true /\
                               (length (ps_rest p') <= length (ps_rest p))%nat
    | RecEof p' => bounded (ps_states p') /\ accepts accept_fuel (ps_states p') None = true /\
                   (length (ps_rest p') <= length (ps_rest p))%nat
    | RecStop _ r => no_oof r
    end.

  Lemma recover_loop_spec error sl : forall fuel p la dropped, bounded (ps_states p) ->
    match la with Some _ => (length (ps_rest p) + 2 <= fuel)%nat | None => (1 <= fuel)%nat end ->
    no_oof (Failed error) ->
    rec_good p (recover_loop fuel p error la dropped sl).
  Proof.
    induction fuel as [|fuel IH]; intros p la dropped Hb Hf _; [destruct la; lia|]. cbn [recover_loop].
    destruct (find_recover (ps_states p) (option_map (fun x => snd x) la)) as [top|] eqn:FR.
    - destruct (find_recover_acc _ _ _ FR) as [above [st [below [es [E1 [E2 [E3 E4]]]]]]].
      assert (LS : length (ps_states p) = (length above + S top)%nat) by (rewrite E1, app_length; cbn; lia).
      rewrite !rev_firstn_rev.
      replace (length (ps_states p) - (top + 1))%nat with (length above) by lia.
      assert (SK : skipn (length above) (ps_states p) = st :: below) by (rewrite E1; apply skipn_app_exact).
      rewrite SK. cbn [hd]. rewrite E3.
      assert (B' : bounded (es :: st :: below)).
      { constructor; [apply (shift_target _ _ _ E3)|]. rewrite <- SK. apply skipn_bounded, Hb. }
      destruct la as [[[[s t] e] col]|]; cbn [rec_good ps_states ps_rest option_map snd] in *; auto.
    - destruct la as [[[[s t] e] col]|]; [|cbn [rec_good]; unfold no_oof; discriminate].
      pose proof (next_tok_spec p) as NT.
      destruct (next_tok p) as [p' s' t' e' col'|p'|p' r].
      + destruct NT as [ES L].
        assert (G : rec_good p' (recover_loop fuel p' error (Some (s', t', e', col')) (dropped ++ [(s, t, e)]) sl)).
        { apply IH; [rewrite ES; exact Hb|lia|unfold no_oof; discriminate]. }
        destruct (recover_loop fuel p' error (Some (s', t', e', col')) (dropped ++ [(s, t, e)]) sl); cbn [rec_good] in *; auto;
          destruct G as [G1 [G2 G3]]; repeat split; auto; lia.
      + destruct NT as [ES L].
        assert (G : rec_good p' (recover_loop fuel p' error None (dropped ++ [(s, t, e)]) sl)).
        { apply IH; [rewrite ES; exact Hb|lia|unfold no_oof; discriminate]. }
        destruct (recover_loop fuel p' error None (dropped ++ [(s, t, e)]) sl); cbn [rec_good] in *; auto;
          destruct G as [G1 [G2 G3]]; repeat split; auto; rewrite L in G3; cbn in G3; lia.
      + cbn [rec_good]. exact NT.
  Qed.

  Lemma error_recovery_spec p la : bounded (ps_states p) -> rec_good p (error_recovery cx p la).
  Proof.
    intros Hb. unfold error_recovery.
    pose proof (error_reductions_spec (option_map (fun x => let '(s, _, _, _) := x in s) la) reduce_fuel p Hb) as ER.
    destruct (error_reductions cx reduce_fuel p (option_map (fun x => let '(s, _, _, _) := x in s) la)) as [p'|p' v|p'];
      [|cbn [rec_good]; unfold no_oof; discriminate|cbn [rec_good]; unfold no_oof; discriminate].
    destruct ER as [B E].
    set (error := unrecognized p _).
    assert (G : rec_good p' (recover_loop (S (S (length (ps_rest p')))) p' error la [] (length (ps_states p')))).
    { apply recover_loop_spec; [exact B|destruct la; lia|unfold no_oof; discriminate]. }
    destruct (recover_loop (S (S (length (ps_rest p')))) p' error la [] (length (ps_states p'))); cbn [rec_good] in *; auto;
      rewrite E in G; exact G.
  Qed.

  (* what with_lookahead returns: never out of fuel; when it goes on, the stack is still made of states and no text was put back *)
  Definition wl_good (p : pst) (x : pst * option outcome3 * bool) : Prop :=
    match x with
    | (_, Some r, _) => no_oof r
    | (p', None, _) => bounded (ps_states p') /\ (length (ps_rest p') <= length (ps_rest p))%nat
    end.

  Lemma top_hd p : top_state p = hd 0%N (ps_states p).  Proof. reflexivity. Qed.

  (* phase 2: `accepts` said yes -- the lookahead is shifted (or the input rejected) after the reductions it simulated *)
  Lemma wl_promised col : forall n states, chain_len states (Some col) n ->
    forall F, accepts F states (Some col) = true ->
    forall fuel p s text e, ps_states p = states -> bounded states -> (n < fuel)%nat ->
    wl_good p (with_lookahead cx fuel p s text e col).
  Proof.
    intros n states CL. remember (Some col) as oc eqn:OC.
    induction CL as [states oc A|states oc r k nt a kind A P K|states oc r k nt a kind n A P K CL IH];
      intros F HA fuel p s text e ES Hb Hf; subst oc;
      (destruct fuel as [|fuel]; [lia|]); (destruct F as [|F]; [discriminate|]);
      cbn [with_lookahead accepts] in *; rewrite top_hd, ES; cbn [act] in A.
    - destruct (Z.eqb (action_at (hd 0%N states) col) 0) eqn:Z0; [discriminate|]. apply Z.eqb_neq in Z0.
      unfold as_shift. unfold as_reduce in A.
      destruct (Z.ltb (action_at (hd 0%N states) col) 0) eqn:L1; [discriminate|]. apply Z.ltb_ge in L1.
      destruct (Z.ltb 0 (action_at (hd 0%N states) col)) eqn:L2; [|apply Z.ltb_ge in L2; lia].
      cbn [wl_good ps_states ps_rest]. split; [|lia]. constructor; [|exact Hb].
      apply (shift_target (hd 0%N states) col). unfold as_shift. rewrite L2. reflexivity.
    - assert (NS : as_shift (action_at (hd 0%N states) col) = None).
      { unfold as_shift, as_reduce in *. destruct (Z.ltb (action_at (hd 0%N states) col) 0) eqn:L1; [|discriminate].
        apply Z.ltb_lt in L1. destruct (Z.ltb 0 (action_at (hd 0%N states) col)) eqn:L2; [apply Z.ltb_lt in L2; lia|reflexivity]. }
      rewrite NS, A. pose proof (reduce_accept_kind p r (Some s) _ _ _ _ P K) as RA.
      destruct (reduce cx p r (Some s)); [contradiction| |]; cbn [wl_good]; unfold no_oof; discriminate.
    - assert (NS : as_shift (action_at (hd 0%N states) col) = None).
      { unfold as_shift, as_reduce in *. destruct (Z.ltb (action_at (hd 0%N states) col) 0) eqn:L1; [|discriminate].
        apply Z.ltb_lt in L1. destruct (Z.ltb 0 (action_at (hd 0%N states) col)) eqn:L2; [apply Z.ltb_lt in L2; lia|reflexivity]. }
      rewrite NS, A.
      destruct (Z.eqb (action_at (hd 0%N states) col) 0); [discriminate|]. rewrite A, P, K in HA.
      destruct (reduce cx p r (Some s)) as [p'| |] eqn:R; [|cbn [wl_good]; unfold no_oof; discriminate|cbn [wl_good]; unfold no_oof; discriminate].
      destruct (reduce_states _ _ _ _ R) as [k' [nt' [a' [kind' [P' [_ [S' RS]]]]]]].
      rewrite P in P'. inversion P'; subst k' nt' a' kind'. rewrite ES in S'.
      assert (G : wl_good p' (with_lookahead cx fuel p' s text e col)).
      { apply (IH eq_refl F HA fuel p' s text e S'); [rewrite <- S'; apply (reduce_bounded _ _ _ _ ltac:(rewrite ES; exact Hb) R)|lia]. }
      destruct (with_lookahead cx fuel p' s text e col) as [[p'' [o|]] b]; cbn [wl_good] in *; [exact G|].
      rewrite <- RS. exact G.
  Qed.

  Lemma neg_no_shift a r : as_reduce a = Some r -> as_shift a = None.
  Proof.
    unfold as_shift, as_reduce. destruct (Z.ltb a 0) eqn:L1; [|discriminate]. apply Z.ltb_lt in L1.
    destruct (Z.ltb 0 a) eqn:L2; [apply Z.ltb_lt in L2; lia|reflexivity].
  Qed.

  (* phase 1: reductions, then a shift or one error recovery followed by phase 2 *)
  Lemma wl_total col : forall n states, chain_len states (Some col) n ->
    forall fuel p s text e, ps_states p = states -> bounded states -> (n + chain_bound + 2 <= fuel)%nat ->
    wl_good p (with_lookahead cx fuel p s text e col).
  Proof.
    intros n states CL. remember (Some col) as oc eqn:OC.
    induction CL as [states oc A|states oc r k nt a kind A P K|states oc r k nt a kind n A P K CL IH];
      intros fuel p s text e ES Hb Hf; subst oc;
      (destruct fuel as [|fuel]; [lia|]);
      cbn [with_lookahead] in *; rewrite top_hd, ES; cbn [act] in A.
    - destruct (as_shift (action_at (hd 0%N states) col)) as [target|] eqn:SH.
      + cbn [wl_good ps_states ps_rest]. split; [|lia]. constructor; [|exact Hb]. apply (shift_target _ _ _ SH).
      + rewrite A. pose proof (error_recovery_spec p (Some (s, text, e, col)) ltac:(rewrite ES; exact Hb)) as G.
        destruct (error_recovery cx p (Some (s, text, e, col))) as [p' s' t' e' col'|p'|p' r]; cbn [rec_good wl_good] in *.
        * destruct G as [B [AC L]]. destruct (chain_bounded (ps_states p') (Some col') B) as [m [Lm CL]].
          assert (G : wl_good p' (with_lookahead cx fuel p' s' t' e' col')).
          { apply (wl_promised col' m (ps_states p') CL accept_fuel AC fuel p' s' t' e' eq_refl B). lia. }
          destruct (with_lookahead cx fuel p' s' t' e' col') as [[p'' [o|]] b]; cbn [wl_good] in *; [exact G|].
          split; [tauto|lia].
        * tauto.
        * exact G.
    - rewrite (neg_no_shift _ _ A), A. pose proof (reduce_accept_kind p r (Some s) _ _ _ _ P K) as RA.
      destruct (reduce cx p r (Some s)); [contradiction| |]; cbn [wl_good]; unfold no_oof; discriminate.
    - rewrite (neg_no_shift _ _ A), A.
      destruct (reduce cx p r (Some s)) as [p'| |] eqn:R; [|cbn [wl_good]; unfold no_oof; discriminate|cbn [wl_good]; unfold no_oof; discriminate].
      destruct (reduce_states _ _ _ _ R) as [k' [nt' [a' [kind' [P' [_ [S' RS]]]]]]].
      rewrite P in P'. inversion P'; subst k' nt' a' kind'. rewrite ES in S'.
      assert (G : wl_good p' (with_lookahead cx fuel p' s text e col)).
      { apply (IH eq_refl fuel p' s text e S'); [rewrite <- S'; apply (reduce_bounded _ _ _ _ ltac:(rewrite ES; exact Hb) R)|lia]. }
      destruct (with_lookahead cx fuel p' s text e col) as [[p'' [o|]] b]; cbn [wl_good] in *; [exact G|].
      rewrite <- RS. exact G.
  Qed.

  (* ---- at EOF ---- *)
  Lemma eof_promised : forall n states, chain_len states None n ->
    forall F, accepts F states None = true ->
    forall fuel p, ps_states p = states -> bounded states -> (n < fuel)%nat ->
    no_oof (snd (parse_eof cx fuel p)).
  Proof.
    intros n states CL. remember (@None nat) as oc eqn:OC.
    induction CL as [states oc A|states oc r k nt a kind A P K|states oc r k nt a kind n A P K CL IH];
      intros F HA fuel p ES Hb Hf; subst oc;
      (destruct fuel as [|fuel]; [lia|]); (destruct F as [|F]; [discriminate|]);
      cbn [parse_eof accepts] in *; rewrite top_hd, ES; cbn [act] in A.
    - exfalso. destruct (Z.eqb (eof_action_at (hd 0%N states)) 0) eqn:Z0; [discriminate|]. apply Z.eqb_neq in Z0.
      pose proof (eof_nonpos (hd 0%N states)) as NP. unfold as_reduce in A.
      destruct (Z.ltb (eof_action_at (hd 0%N states)) 0) eqn:L1; [discriminate|]. apply Z.ltb_ge in L1. lia.
    - rewrite A. pose proof (reduce_accept_kind p r None _ _ _ _ P K) as RA.
      destruct (reduce cx p r None); [contradiction| |]; cbn [snd]; unfold no_oof; discriminate.
    - rewrite A.
      destruct (Z.eqb (eof_action_at (hd 0%N states)) 0); [discriminate|]. rewrite A, P, K in HA.
      destruct (reduce cx p r None) as [p'| |] eqn:R; [|cbn [snd]; unfold no_oof; discriminate|cbn [snd]; unfold no_oof; discriminate].
      destruct (reduce_states _ _ _ _ R) as [k' [nt' [a' [kind' [P' [_ [S' RS]]]]]]].
      rewrite P in P'. inversion P'; subst k' nt' a' kind'. rewrite ES in S'.
      apply (IH eq_refl F HA fuel p' S'); [rewrite <- S'; apply (reduce_bounded _ _ _ _ ltac:(rewrite ES; exact Hb) R)|lia].
  Qed.

  Lemma eof_total : forall n states, chain_len states None n ->
    forall fuel p, ps_states p = states -> bounded states -> (n + chain_bound + 2 <= fuel)%nat ->
    no_oof (snd (parse_eof cx fuel p)).
  Proof.
    intros n states CL. remember (@None nat) as oc eqn:OC.
    induction CL as [states oc A|states oc r k nt a kind A P K|states oc r k nt a kind n A P K CL IH];
      intros fuel p ES Hb Hf; subst oc;
      (destruct fuel as [|fuel]; [lia|]);
      cbn [parse_eof] in *; rewrite top_hd, ES; cbn [act] in A.
    - rewrite A. pose proof (error_recovery_spec p None ltac:(rewrite ES; exact Hb)) as G.
      destruct (error_recovery cx p None) as [p' s' t' e' col'|p'|p' r]; cbn [rec_good snd] in *.
      + unfold no_oof. discriminate.
      + destruct G as [B [AC L]]. destruct (chain_bounded (ps_states p') None B) as [m [Lm CL]].
        apply (eof_promised m (ps_states p') CL accept_fuel AC fuel p' eq_refl B). lia.
      + exact G.
    - rewrite A. pose proof (reduce_accept_kind p r None _ _ _ _ P K) as RA.
      destruct (reduce cx p r None); [contradiction| |]; cbn [snd]; unfold no_oof; discriminate.
    - rewrite A.
      destruct (reduce cx p r None) as [p'| |] eqn:R; [|cbn [snd]; unfold no_oof; discriminate|cbn [snd]; unfold no_oof; discriminate].
      destruct (reduce_states _ _ _ _ R) as [k' [nt' [a' [kind' [P' [_ [S' RS]]]]]]].
      rewrite P in P'. inversion P'; subst k' nt' a' kind'. rewrite ES in S'.
      apply (IH eq_refl fuel p' S'); [rewrite <- S'; apply (reduce_bounded _ _ _ _ ltac:(rewrite ES; exact Hb) R)|lia].
  Qed.

  Lemma fuel_enough_le : (chain_bound + chain_bound + 2 <= reduce_fuel)%nat.
  Proof. pose proof fuel_enough as F. apply Nat.ltb_lt in F. lia. Qed.

  Lemma parse_eof_total p : bounded (ps_states p) -> no_oof (snd (parse_eof cx reduce_fuel p)).
  Proof.
    intros Hb. destruct (chain_bounded (ps_states p) None Hb) as [n [Ln CL]].
    apply (eof_total n (ps_states p) CL reduce_fuel p eq_refl Hb). pose proof fuel_enough_le. lia.
  Qed.

  Lemma with_lookahead_total p s text e col : bounded (ps_states p) -> wl_good p (with_lookahead cx reduce_fuel p s text e col).
  Proof.
    intros Hb. destruct (chain_bounded (ps_states p) (Some col) Hb) as [n [Ln CL]].
    apply (wl_total col n (ps_states p) CL reduce_fuel p s text e eq_refl Hb). pose proof fuel_enough_le. lia.
  Qed.

  Lemma parse_loop_total : forall fuel p, bounded (ps_states p) -> (length (ps_rest p) < fuel)%nat ->
    no_oof (snd (parse_loop cx fuel p)).
  Proof.
    induction fuel as [|fuel IH]; intros p Hb Hf; [lia|]. cbn [parse_loop].
    pose proof (next_tok_spec p) as NT. destruct (next_tok p) as [p' s text e col|p'|p' r].
    - destruct NT as [ES L]. pose proof (with_lookahead_total p' s text e col ltac:(rewrite ES; exact Hb)) as G.
      destruct (with_lookahead cx reduce_fuel p' s text e col) as [[p'' [r|]] b]; cbn [wl_good snd] in *; [exact G|].
      destruct G as [B L']. destruct b; [apply IH; [exact B|lia]|apply parse_eof_total; exact B].
    - destruct NT as [ES _]. apply parse_eof_total. rewrite ES. exact Hb.
    - exact NT.
  Qed.

  Theorem parse_terminates : snd (parse cx) <> OutOfFuel.
  Proof.
    unfold parse. apply parse_loop_total; cbn [ps_states ps_rest]; [|lia].
    constructor; [apply zero_state|constructor].
  Qed.

  Theorem add_content_never_out_of_fuel id : add_content cx id <> AddFuel.
  Proof.
    unfold add_content. pose proof parse_terminates as T. destruct (parse cx) as [p r]. cbn [snd] in T.
    destruct r as [v|e| |]; [| | |contradiction].
    - destruct v; try discriminate. match goal with |- context [match ?o with Some _ => _ | None => _ end] => destruct o as [x|] end; [destruct x|]; discriminate.
    - destruct (diag_of_error cx e); discriminate.
    - discriminate.
  Qed.
End Driver.

(* ---- the two loops whose fuel runs out silently in the model never run out: their fuel is immaterial ---- *)
Lemma accepts_fuel col : forall n states, chain_len states col n ->
  forall F1 F2, (n < F1)%nat -> (n < F2)%nat -> accepts F1 states col = accepts F2 states col.
Proof.
  intros n states CL.
  induction CL as [states oc A|states oc r k nt a kind A P K|states oc r k nt a kind n A P K CL IH];
    intros F1 F2 H1 H2; (destruct F1 as [|F1]; [lia|]); (destruct F2 as [|F2]; [lia|]); cbn [accepts];
    change (match oc with None => eof_action_at (hd 0%N states) | Some c => action_at (hd 0%N states) c end) with (act (hd 0%N states) oc);
    rewrite A; [reflexivity| |].
  - rewrite P, K. reflexivity.
  - rewrite P, K. destruct (Z.eqb (act (hd 0%N states) oc) 0); [reflexivity|]. apply IH; lia.
Qed.

Lemma accept_fuel_enough : Nat.ltb chain_bound accept_fuel = true.  Proof. vm_compute. reflexivity. Qed.

Theorem accepts_never_out_of_fuel states col F : bounded states -> (chain_bound < F)%nat ->
  accepts F states col = accepts accept_fuel states col.
Proof.
  intros Hb HF. destruct (chain_bounded states col Hb) as [n [Ln CL]].
  apply (accepts_fuel col n states CL); [lia|]. pose proof accept_fuel_enough as E. apply Nat.ltb_lt in E. lia.
Qed.

Lemma error_reductions_fuel cx la : forall n states, chain_len states (Some (gen_ncols - 1)%nat) n ->
  forall F1 F2 p, ps_states p = states -> (n < F1)%nat -> (n < F2)%nat ->
  error_reductions cx F1 p la = error_reductions cx F2 p la.
Proof.
  intros n states CL. remember (Some (gen_ncols - 1)%nat) as oc eqn:OC.
  induction CL as [states oc A|states oc r k nt a kind A P K|states oc r k nt a kind n A P K CL IH];
    intros F1 F2 p ES H1 H2; subst oc; (destruct F1 as [|F1]; [lia|]); (destruct F2 as [|F2]; [lia|]); cbn [error_reductions];
    rewrite top_hd, ES; unfold error_action_at; cbn [act] in A; rewrite A; [reflexivity| |].
  - pose proof (reduce_accept_kind cx p r la _ _ _ _ P K) as RA. destruct (reduce cx p r la); [contradiction|reflexivity|reflexivity].
  - destruct (reduce cx p r la) as [p'| |] eqn:R; [|reflexivity|reflexivity].
    destruct (reduce_states _ _ _ _ _ R) as [k' [nt' [a' [kind' [P' [_ [S' _]]]]]]].
    rewrite P in P'. inversion P'; subst k' nt' a' kind'. rewrite ES in S'.
    apply (IH eq_refl F1 F2 p' S'); lia.
Qed.

Theorem error_reductions_never_out_of_fuel cx la p F : bounded (ps_states p) -> (chain_bound < F)%nat ->
  error_reductions cx F p la = error_reductions cx reduce_fuel p la.
Proof.
  intros Hb HF. destruct (chain_bounded (ps_states p) (Some (gen_ncols - 1)%nat) Hb) as [n [Ln CL]].
  apply (error_reductions_fuel cx la n (ps_states p) CL F reduce_fuel p eq_refl); [lia|].
  pose proof fuel_enough as E. apply Nat.ltb_lt in E. lia.
Qed.

Theorem add_content_total cx id : length (cx_lc cx) = S (length (cx_src cx)) -> exists fr, add_content cx id = Added fr.
Proof.
  intros WF. destruct (add_content_safe cx WF id) as [H|H]; [exact H|]. exfalso. exact (add_content_never_out_of_fuel cx id H).
Qed.
