(* the stack invariant and what the table checks of Proofs/Automaton.v give for a reduction *)
From Coq Require Import ZArith.
From AidlV Require Import Model.LrDriver Proofs.Totality Proofs.Typing Proofs.Ainfer Proofs.UserTyped Proofs.Automaton.

Section Inv.
  Variable cx : ctx.
  Hypothesis WF : length (cx_lc cx) = S (length (cx_src cx)).
  Variable loud : bool.
  Notation valid := (valid cx).
  Notation typed_triple := (typed_triple cx loud).

  Inductive stack_ok : list N -> list triple -> Prop :=
  | SO_init : stack_ok [0] []
  | SO_push s' X t st x syms :
      stack_ok (t :: st) syms -> acc s' = Some X -> In t (preds s') -> typed_triple (sym_type X) x ->
      stack_ok (s' :: t :: st) (x :: syms).

  Lemma stack_len states syms : stack_ok states syms -> length states = S (length syms).
  Proof. induction 1; cbn in *; [reflexivity|congruence]. Qed.

  Lemma stack_pop k states syms : stack_ok states syms -> (k <= length syms)%nat -> stack_ok (skipn k states) (skipn k syms).
  Proof.
    intros H. revert k. induction H as [|s' X t st x syms H IH HA HP HT]; intros k Hk.
    - cbn in Hk. assert (k = O) by lia. subst. constructor.
    - destruct k; [cbn; econstructor; eauto|]. cbn [skipn]. apply IH. cbn in Hk. lia.
  Qed.

  (* ---- back analysis ---- *)
  Lemma back_mono j : forall l l', incl l l' -> incl (back j l) (back j l').
  Proof.
    induction j as [|j IH]; intros l l' H; cbn [back]; [exact H|].
    apply IH. intros x Hx. apply nodup_In in Hx. apply nodup_In.
    apply in_flat_map in Hx as [y [Hy Hx]]. apply in_flat_map. exists y. split; [apply H; exact Hy|exact Hx].
  Qed.

  Lemma stack_back states syms : stack_ok states syms ->
    forall j, (j <= length syms)%nat -> In (nth j states 0%N) (back j [hd 0%N states]).
  Proof.
    induction 1 as [|s' X t st x syms H IH HA HP HT]; intros j Hj.
    - cbn in Hj. assert (j = O) by lia. subst. cbn. auto.
    - destruct j; [cbn; auto|]. cbn [nth hd back].
      cbn in Hj. specialize (IH j ltac:(lia)). cbn [hd] in IH.
      eapply back_mono; [|exact IH]. intros y [<-|[]]. apply nodup_In. cbn. rewrite app_nil_r. exact HP.
  Qed.

  (* the accessing symbol of the i-th state from the top types the i-th symbol from the top *)
  Lemma stack_labels states syms : stack_ok states syms ->
    forall i x, nth_error syms i = Some x -> exists X, acc (nth i states 0%N) = Some X /\ typed_triple (sym_type X) x.
  Proof.
    induction 1 as [|s' X t st x0 syms H IH HA HP HT]; intros i x Hi; [destruct i; discriminate|].
    destruct i; cbn in Hi; [inversion Hi; subst; cbn; eauto|]. cbn [nth]. apply IH. exact Hi.
  Qed.

  Lemma stack_bottom states syms : stack_ok states syms -> nth (length syms) states 0%N = 0%N.
  Proof. induction 1; [reflexivity|]. cbn [length nth]. assumption. Qed.

  Lemma labels_typed (Xs : list gsym) : forall (states : list N) (syms : list triple),
    (forall i x, nth_error syms i = Some x -> exists X, acc (nth i states 0%N) = Some X /\ typed_triple (sym_type X) x) ->
    (length Xs <= length syms)%nat ->
    (forall i X, nth_error Xs i = Some X -> acc (nth i states 0%N) = Some X) ->
    Forall2 typed_triple (map sym_type Xs) (firstn (length Xs) syms).
  Proof.
    induction Xs as [|X Xs IH]; intros states syms HL Hlen HA; [constructor|].
    destruct syms as [|x syms]; [cbn in Hlen; lia|]. cbn [length firstn map].
    constructor.
    - destruct (HL O x eq_refl) as [X' [A T]]. rewrite (HA O X eq_refl) in A. inversion A; subst. exact T.
    - apply (IH (tl states) syms).
      + intros i y Hy. destruct (HL (S i) y Hy) as [X' [A T]]. exists X'. split; [|exact T].
        destruct states; [destruct i; exact A|exact A].
      + cbn in Hlen. lia.
      + intros i Y HY. specialize (HA (S i) Y HY). destruct states; [destruct i; exact HA|exact HA].
  Qed.

  Lemma Forall2_rev {A B} (P : A -> B -> Prop) l1 l2 : Forall2 P l1 l2 -> Forall2 P (rev l1) (rev l2).
  Proof.
    induction 1 as [|a b l1 l2 H F IH]; [constructor|]. cbn. apply Forall2_app; [exact IH|constructor; [exact H|constructor]].
  Qed.

  (* ---- what reduce_ok says ---- *)
  Lemma go_spec : forall syms j l,
    (fix go (j : nat) (l : list N) (syms : list gsym) : bool :=
       match syms with
       | [] => true
       | X :: syms' => forallb (fun t => ogsym_eqb (acc t) X) l && go (S j) (nodup N.eq_dec (flat_map preds l)) syms'
       end) j l syms = true ->
    forall i X, nth_error syms i = Some X -> forall t, In t (back i l) -> acc t = Some X.
  Proof.
    induction syms as [|Y syms IH]; intros j l H i X Hi t Ht; [destruct i; discriminate|].
    apply andb_true_iff in H as [H1 H2].
    destruct i; cbn in Hi.
    - inversion Hi; subst. cbn in Ht. rewrite forallb_forall in H1. specialize (H1 t Ht).
      unfold ogsym_eqb in H1. destruct (acc t) as [Z|]; [|discriminate]. apply gsym_eqb_eq in H1. subst. reflexivity.
    - cbn [back] in Ht. eapply IH; eauto.
  Qed.

  Lemma reduce_ok_spec s p k nt act kind :
    reduce_ok s p = true -> production p = (k, nt, act, kind) ->
    length (rhs_of p) = k /\
    (forall i X, nth_error (rev (rhs_of p)) i = Some X -> forall t, In t (back i [s]) -> acc t = Some X) /\
    (kind <> 2%N -> forall t, In t (back k [s]) -> acc (gen_goto t nt) = Some (SNT nt) /\ In t (preds (gen_goto t nt))).
  Proof.
    unfold reduce_ok. intros H P. rewrite P in H.
    apply andb_true_iff in H as [H12 H3]. apply andb_true_iff in H12 as [H1 H2]. apply andb_true_iff in H1 as [_ H1].
    apply Nat.eqb_eq in H1. split; [exact H1|]. split.
    - intros i X Hi t Ht. eapply go_spec; eauto.
    - intros Hk t Ht. apply orb_true_iff in H3 as [H3|H3]; [apply N.eqb_eq in H3; contradiction|].
      rewrite forallb_forall in H3. specialize (H3 t Ht). apply andb_true_iff in H3 as [A B].
      split; [|apply mem_N_In; exact B].
      unfold ogsym_eqb in A. destruct (acc (gen_goto t nt)) as [Z|]; [|discriminate]. apply gsym_eqb_eq in A. subst. reflexivity.
  Qed.

  Lemma reduce_ok_range s p : reduce_ok s p = true -> (N.to_nat p < length gen_productions)%nat.
  Proof.
    unfold reduce_ok. destruct (production p) as [[[k nt] act] kind]. intros H.
    apply andb_true_iff in H as [H _]. apply andb_true_iff in H as [H _]. apply andb_true_iff in H as [H _].
    apply N.ltb_lt in H. lia.
  Qed.

  (* the symbols a legitimate reduction pops are typed by the production's right-hand side *)
  Lemma popped_typed states syms p k nt act kind :
    stack_ok states syms -> reduce_ok (hd 0%N states) p = true -> production p = (k, nt, act, kind) ->
    (k <= length syms)%nat /\ Forall2 typed_triple (map sym_type (rhs_of p)) (rev (firstn k syms)).
  Proof.
    intros HS HR HP. destruct (reduce_ok_spec _ _ _ _ _ _ HR HP) as [HL [HA _]].
    assert (ACC : forall i X, nth_error (rev (rhs_of p)) i = Some X -> (i <= length syms)%nat -> acc (nth i states 0%N) = Some X).
    { intros i X HX Hi. apply (HA i X HX). apply (stack_back _ _ HS i Hi). }
    assert (DEPTH : (k <= length syms)%nat).
    { destruct (Nat.le_gt_cases k (length syms)) as [|Hgt]; [assumption|exfalso].
      assert (Hnth : exists X, nth_error (rev (rhs_of p)) (length syms) = Some X).
      { destruct (nth_error (rev (rhs_of p)) (length syms)) eqn:E; [eauto|]. apply nth_error_None in E. rewrite rev_length in E. lia. }
      destruct Hnth as [X HX]. pose proof (ACC _ _ HX (le_n _)) as A. rewrite (stack_bottom _ _ HS) in A.
      pose proof misc_checked as M. unfold check_misc in M. apply andb_true_iff in M as [M _]. apply andb_true_iff in M as [M _]. apply andb_true_iff in M as [M _]. rewrite A in M. discriminate. }
    split; [exact DEPTH|].
    assert (T : Forall2 typed_triple (map sym_type (rev (rhs_of p))) (firstn (length (rev (rhs_of p))) syms)).
    { apply (labels_typed _ states syms).
      - apply stack_labels. exact HS.
      - rewrite rev_length. lia.
      - intros i X HX. apply ACC; [exact HX|].
        assert (i < length (rev (rhs_of p)))%nat by (apply nth_error_Some; congruence). rewrite rev_length in H. lia. }
    rewrite rev_length, HL in T. apply Forall2_rev in T. rewrite <- map_rev, rev_involutive in T. exact T.
  Qed.
End Inv.

(* raising the level keeps the invariant *)
Lemma stack_ok_lift cx l l' states syms : stack_ok cx l states syms -> stack_ok cx (l || l') states syms.
Proof. induction 1; econstructor; eauto. apply typed_triple_lift. assumption. Qed.

