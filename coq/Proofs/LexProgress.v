(* the lexer makes progress: every token is non-empty, so what is left after it is strictly shorter; and lexing does not
   depend on the offset it starts counting from -- hence `lexsim` is reflexive for any two starting offsets *)
From Coq Require Import ZArith.
From AidlV Require Import Model.LrDriver Proofs.Totality Proofs.RegexLang Proofs.LexerSafe Proofs.Lockstep.

Fixpoint nullable (r : re) : bool :=
  match r with
  | RClass _ => false
  | RSeq a b => nullable a && nullable b
  | RAlt a b => nullable a || nullable b
  | RStar _ => true
  | REps => true
  end.

Lemma mre_progress {A} fuel r : nullable r = false -> forall s c (k : mst -> option A) x, mre fuel r (s, c) k = Some x ->
  exists w rest, s = w ++ rest /\ w <> [] /\ k (rest, (c + length w)%nat) = Some x.
Proof.
  induction r as [ranges|a IHa b IHb|a IHa b IHb|a IH|]; intros HN s c k x H; cbn [nullable] in HN; try discriminate.
  - cbn [mre fst snd] in H. destruct s as [|ch rest]; [discriminate|]. destruct (in_class ranges ch); [|discriminate].
    exists [ch], rest. split; [reflexivity|]. split; [discriminate|]. replace (c + length [ch])%nat with (S c) by (cbn; lia). exact H.
  - cbn [mre] in H. apply andb_false_iff in HN as [HN|HN].
    + destruct (IHa HN _ _ _ _ H) as [w1 [r1 [-> [NE K1]]]]. destruct (mre_suffix _ _ _ _ _ _ K1) as [w2 [r2 [-> K2]]].
      exists (w1 ++ w2), r2. split; [rewrite app_assoc; reflexivity|]. split; [destruct w1; [contradiction|discriminate]|].
      rewrite app_length, Nat.add_assoc. exact K2.
    + destruct (mre_suffix _ _ _ _ _ _ H) as [w1 [r1 [-> K1]]]. destruct (IHb HN _ _ _ _ K1) as [w2 [r2 [-> [NE K2]]]].
      exists (w1 ++ w2), r2. split; [rewrite app_assoc; reflexivity|]. split; [destruct w2; [contradiction|destruct w1; discriminate]|].
      rewrite app_length, Nat.add_assoc. exact K2.
  - cbn [mre] in H. apply orb_false_iff in HN as [HNa HNb]. destruct (mre fuel a (s, c) k) as [y|] eqn:Ea.
    + inversion H; subst. apply IHa; assumption.
    + apply IHb; assumption.
Qed.

Lemma match_len_positive fuel r s n : nullable r = false -> match_len_fuel fuel r s = Some n -> (1 <= n)%nat.
Proof.
  intros HN H. unfold match_len_fuel in H. destruct (mre_progress fuel r HN _ _ _ _ H) as [w [rest [_ [NE K]]]].
  cbn in K. inversion K. destruct w; [contradiction|cbn; lia].
Qed.

(* every entry that yields a token (not skipped) is non-nullable *)
Lemma tokens_nonnullable : forallb (fun e => snd e || negb (nullable (fst e))) gen_lex_table = true.
Proof. vm_compute. reflexivity. Qed.

Section AnyTable.
Variable tbl : list (re * bool).
Hypothesis HT : forallb (fun e => snd e || negb (nullable (fst e))) tbl = true.

Lemma lex_next_progress_gen : forall fuel s off a idx text e rest,
  lex_next tbl fuel s off = LTok a idx text e rest -> text <> [] /\ (length rest < length s)%nat.
Proof.
  induction fuel as [|fuel IH]; intros s off a idx text e rest H; cbn [lex_next] in H; [discriminate|].
  destruct s as [|c s']; [discriminate|]. set (s := c :: s') in *.
  destruct (any_match (S fuel) tbl s) eqn:HA; cbn [negb] in H; [|discriminate].
  pose proof (best_match_any (S fuel) s tbl 0%N (O, 0%N, false) HA eq_refl) as F.
  destruct (best_match (S fuel) tbl 0 s (O, 0%N, false)) as [[n i] sk].
  destruct F as [j [r [E [Hn M]]]]. destruct (match_len_prefix _ _ _ _ M) as [Hle [Hlen Happ]].
  destruct sk.
  - destruct (Nat.eqb_spec n 0) as [|NZ]; [discriminate|].
    destruct (IH _ _ _ _ _ _ _ H) as [T L]. split; [exact T|]. rewrite skipn_length in L. lia.
  - inversion H; subst.
    assert (NN : nullable r = false).
    { pose proof HT as C. rewrite forallb_forall in C. specialize (C (r, false) (nth_error_In _ _ Hn)). cbn in C.
      destruct (nullable r); [discriminate|reflexivity]. }
    pose proof (match_len_positive _ _ _ _ NN M) as P.
    split; [intros Z; rewrite Z in Hlen; cbn in Hlen; lia|rewrite skipn_length; lia].
Qed.

(* the offset only shifts the reported positions *)
Lemma lex_next_offset_gen : forall fuel s o1 o2,
  match lex_next tbl fuel s o1, lex_next tbl fuel s o2 with
  | LTok _ i1 t1 _ r1, LTok _ i2 t2 _ r2 => i1 = i2 /\ t1 = t2 /\ r1 = r2
  | LEof, LEof => True
  | LInvalid _, LInvalid _ => True
  | _, _ => False
  end.
Proof.
  induction fuel as [|fuel IH]; intros s o1 o2; cbn [lex_next]; [exact I|].
  destruct s as [|c s']; [exact I|]. destruct (any_match (S fuel) tbl (c :: s')); cbn [negb]; [|exact I].
  destruct (best_match (S fuel) tbl 0 (c :: s') (O, 0%N, false)) as [[n i] sk].
  destruct sk; [|auto]. destruct (Nat.eqb n 0); [exact I|apply IH].
Qed.

End AnyTable.

Lemma lex_next_progress : forall fuel s off a idx text e rest,
  lex_next gen_lex_table fuel s off = LTok a idx text e rest -> text <> [] /\ (length rest < length s)%nat.
Proof. exact (lex_next_progress_gen gen_lex_table tokens_nonnullable). Qed.
Lemma lex_next_offset : forall fuel s o1 o2,
  match lex_next gen_lex_table fuel s o1, lex_next gen_lex_table fuel s o2 with
  | LTok _ i1 t1 _ r1, LTok _ i2 t2 _ r2 => i1 = i2 /\ t1 = t2 /\ r1 = r2
  | LEof, LEof => True
  | LInvalid _, LInvalid _ => True
  | _, _ => False
  end.
Proof. exact (lex_next_offset_gen gen_lex_table). Qed.

Theorem lexsim_refl : forall n s o1 o2, (length s <= n)%nat -> lexsim (s, o1) (s, o2).
Proof.
  induction n as [|n IH]; intros s o1 o2 Hn.
  - destruct s; [|cbn in Hn; lia]. apply LS_eof; reflexivity.
  - pose proof (lex_next_offset (S (length s)) s o1 o2) as O. fold (lex1 s o1) in O. fold (lex1 s o2) in O.
    destruct (lex1 s o1) as [a1 i1 t1 e1 r1| |l1] eqn:E1, (lex1 s o2) as [a2 i2 t2 e2 r2| |l2] eqn:E2; try contradiction.
    + destruct O as [-> [-> ->]]. eapply LS_tok; eauto. apply IH.
      destruct (lex_next_progress _ _ _ _ _ _ _ _ E1) as [_ L]. lia.
    + apply LS_eof; assumption.
    + eapply LS_inv; eauto.
Qed.
