(* the lexer hands out tokens whose text is matched by the regex of their table entry and whose
   offsets are character boundaries of the source *)
From Coq Require Import ZArith.
From AidlV Require Import Model.Lexer Proofs.Totality Proofs.Javadoc Proofs.RegexLang Proofs.Typing.

Definition from_tbl (fuel : nat) (tbl : list (re * bool)) (i : N) (s : str) (b : nat * N * bool) : Prop :=
  let '(n, idx, sk) := b in
  exists j r, idx = (i + N.of_nat j)%N /\ nth_error tbl j = Some (r, sk) /\ match_len_fuel fuel r s = Some n.

Lemma from_tbl_cons fuel e tbl i s b : from_tbl fuel tbl (N.succ i) s b -> from_tbl fuel (e :: tbl) i s b.
Proof. destruct b as [[n idx] sk]. intros [j [r [E [Hn M]]]]. exists (S j), r. split; [lia|]. split; [exact Hn|exact M]. Qed.

Lemma best_match_either fuel s : forall tbl i best,
  best_match fuel tbl i s best = best \/ from_tbl fuel tbl i s (best_match fuel tbl i s best).
Proof.
  induction tbl as [|[r sk] tbl IH]; intros i best; cbn [best_match]; [left; reflexivity|].
  destruct (match_len_fuel fuel r s) as [n|] eqn:M.
  - destruct (Nat.leb (fst (fst best)) n).
    + destruct (IH (N.succ i) (n, i, sk)) as [E|F]; [|right; apply from_tbl_cons; exact F].
      right. rewrite E. exists O, r. split; [lia|]. split; [reflexivity|exact M].
    + destruct (IH (N.succ i) best) as [E|F]; [left; exact E|right; apply from_tbl_cons; exact F].
  - destruct (IH (N.succ i) best) as [E|F]; [left; exact E|right; apply from_tbl_cons; exact F].
Qed.

Lemma best_match_any fuel s : forall tbl i best,
  any_match fuel tbl s = true -> fst (fst best) = O -> from_tbl fuel tbl i s (best_match fuel tbl i s best).
Proof.
  induction tbl as [|[r sk] tbl IH]; intros i best HA H0; [discriminate|].
  cbn [best_match]. unfold any_match in HA. cbn [existsb fst] in HA.
  destruct (match_len_fuel fuel r s) as [n|] eqn:M.
  - rewrite H0. cbn [Nat.leb].
    destruct (best_match_either fuel s tbl (N.succ i) (n, i, sk)) as [E|F]; [|apply from_tbl_cons; exact F].
    rewrite E. exists O, r. split; [lia|]. split; [reflexivity|exact M].
  - cbn [orb] in HA. apply from_tbl_cons. apply IH; assumption.
Qed.

Section LexSafe.
  Variable cx : ctx.
  Notation valid := (valid cx).

  Definition at_offset (s : str) (off : N) : Prop := exists pre, cx_src cx = pre ++ s /\ byte_len pre = off.

  Lemma at_offset_valid s off : at_offset s off -> valid off.
  Proof. intros [pre [E L]]. exists pre, s. auto. Qed.

  Definition lexed_ok (tbl : list (re * bool)) (l : lexed) : Prop :=
    match l with
    | LTok a idx text stop rest =>
        valid a /\ valid stop /\ at_offset rest stop /\
        exists j r sk fuel, idx = N.of_nat j /\ nth_error tbl j = Some (r, sk) /\
                            match_len_fuel fuel r (text ++ rest) = Some (length text)
    | LEof => True
    | LInvalid loc => valid loc
    end.

  Lemma lex_next_ok tbl : forall fuel s off, at_offset s off -> lexed_ok tbl (lex_next tbl fuel s off).
  Proof.
    induction fuel as [|fuel IH]; intros s off Hat; cbn [lex_next]; [exact I|].
    destruct s as [|c s']; [exact I|]. set (s := c :: s') in *.
    destruct (any_match (S fuel) tbl s) eqn:HA; cbn [negb]; [|exact (at_offset_valid _ _ Hat)].
    pose proof (best_match_any (S fuel) s tbl 0%N (O, 0%N, false) HA eq_refl) as F.
    destruct (best_match (S fuel) tbl 0 s (O, 0%N, false)) as [[n idx] sk].
    destruct F as [j [r [E [Hn M]]]].
    destruct (match_len_prefix _ _ _ _ M) as [Hle [Hlen Happ]].
    destruct Hat as [pre [Esrc Lpre]].
    assert (Hrest : at_offset (skipn n s) (off + byte_len (firstn n s))).
    { exists (pre ++ firstn n s). split; [rewrite <- app_assoc, Happ; exact Esrc|rewrite byte_len_app; lia]. }
    destruct sk.
    - destruct (Nat.eqb n 0); [exists pre, s; auto|]. apply IH. exact Hrest.
    - cbn [lexed_ok]. split; [exists pre, s; auto|]. split; [exact (at_offset_valid _ _ Hrest)|]. split; [exact Hrest|].
      exists j, r, false, (S fuel). split; [lia|]. split; [exact Hn|]. rewrite Happ, Hlen. exact M.
  Qed.

  Theorem lex1_ok s off : at_offset s off -> lexed_ok gen_lex_table (lex1 s off).
  Proof. apply lex_next_ok. Qed.
End LexSafe.
