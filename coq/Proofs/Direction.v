From AidlV Require Import Spec.Categories.

Theorem requirement_table c : gen_requirement c = req c.
Proof. destruct c; reflexivity. Qed.

Lemma dir_diag_ok r l : In l dir_labels -> is_dir_diag_at r (mk_diag DError r (Some l) []).
Proof. intros H. unfold is_dir_diag_at, mk_diag; cbn. repeat split. exists l. split; [exact H|reflexivity]. Qed.

Theorem check_arg_spec ow a :
  length (check_arg ow a) = expected_dir_errors (cat (ty_kind (a_ty a))) (dir_of (a_dir a)) ow /\
  Forall (is_dir_diag_at (where_ a)) (check_arg ow a).
Proof.
  unfold check_arg, expected_dir_errors, where_. rewrite requirement_table.
  destruct (req (cat (ty_kind (a_ty a)))), (a_dir a) as [r|r|r|], ow; cbn;
    (split; [reflexivity|]);
    repeat (constructor; try (apply dir_diag_ok; cbn; tauto)).
Qed.

(* a legal argument gets nothing *)
Corollary check_arg_legal ow a :
  expected_dir_errors (cat (ty_kind (a_ty a))) (dir_of (a_dir a)) ow = 0%nat -> check_arg ow a = [].
Proof.
  intros H. destruct (check_arg_spec ow a) as [L _]. rewrite H in L.
  destruct (check_arg ow a); [reflexivity|discriminate].
Qed.
