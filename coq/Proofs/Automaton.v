(* Facts about the regenerated LR tables, established by computation over all states (finite domain), and
   the stack invariant they justify: the state stack is a path in the transition graph, every symbol on the
   stack has the type of the grammar symbol that labels the edge into the state above it, and whenever a
   reduction is possible the symbols it pops are the production's right-hand side. *)
From Coq Require Import ZArith.
From AidlV Require Import Model.LrDriver Proofs.Totality Proofs.Typing Proofs.Ainfer Proofs.UserTyped.

Definition acc (s : N) : option gsym := nth (N.to_nat s) gen_accessing None.
Definition preds (s : N) : list N := nth (N.to_nat s) gen_preds [].
Definition mem_N (x : N) (l : list N) : bool := existsb (N.eqb x) l.
Lemma mem_N_In x l : mem_N x l = true -> In x l.
Proof. unfold mem_N. intros H. apply existsb_exists in H as [y [Hy E]]. apply N.eqb_eq in E. subst. exact Hy. Qed.

Definition ogsym_eqb (a : option gsym) (b : gsym) : bool := match a with Some x => gsym_eqb x b | None => false end.

(* the value type of a nonterminal, first approximation: the __Symbol variant pushed by its productions *)
Definition nt_variant (nt : N) : option nat :=
  (fix go (ps : list (nat * N * N * N)) (ts : list (list nat * option nat)) : option nat :=
     match ps, ts with
     | (_, n, _, kind) :: ps', (_, push) :: ts' =>
         if N.eqb n nt && negb (N.eqb kind 2) then push else go ps' ts'
     | _, _ => None
     end) gen_productions gen_prod_types.
Definition nt_type0 (nt : N) : vty := match nt_variant nt with Some v => nth v gen_variants TBot | None => TBot end.

Definition rhs_of (p : N) : list gsym := nth (N.to_nat p) gen_prod_rhs [].

(* ... refined by running the action analysis to a fixpoint: a nonterminal's type is the join of what its productions'
   actions return on the current types of their right-hand sides (so IDENT-ness, dotted names, ... flow through the
   synthetic nonterminals for `X?`, `X*`, `(X ".")+`).  The result is only a candidate: check_typed below verifies it. *)
Fixpoint join (a b : vty) {struct a} : option vty :=
  match a, b with
  | TBot, t => Some t
  | t, TBot => Some t
  | TTok, TTok | TTok, TTokOf _ | TTokOf _, TTok => Some TTok
  | TTokOf c, TTokOf d => Some (if N.eqb c d then TTokOf c else TTok)
  | TLoc, TLoc => Some TLoc
  | TString, TString | TString, TQName | TQName, TString => Some TString
  | TQName, TQName => Some TQName
  | TErr, TErr => Some TErr
  | TKV, TKV => Some TKV
  | TOpt x, TOpt y | TOpt x, TLoud y | TLoud x, TOpt y => option_map TOpt (join x y)
  | TLoud x, TLoud y => option_map TLoud (join x y)
  | TVec x, TVec y => option_map TVec (join x y)
  | TTuple xs, TTuple ys =>
      option_map TTuple
        ((fix go (xs ys : list vty) : option (list vty) :=
            match xs, ys with
            | [], [] => Some []
            | x :: xs', y :: ys' => match join x y, go xs' ys' with Some z, Some r => Some (z :: r) | _, _ => None end
            | _, _ => None
            end) xs ys)
  | TAst n, TAst m => if String.eqb n m then Some (TAst n) else None
  | _, _ => None
  end.

Definition sym_type_with (T : list vty) (X : gsym) : vty :=
  match X with ST c => TTokOf c | SErr => TErr | SNT n => nth (N.to_nat n) T TBot end.

Definition is_bot (t : vty) : bool := match t with TBot => true | _ => false end.

(* ascending from "no value yet" (TBot): a production contributes once all its right-hand side symbols have a type *)
Definition refine_nt (T : list vty) (nt : N) : vty :=
  let r := fold_left (fun (acc : option vty) '(i, (_, n, act, kind)) =>
             if N.eqb n nt && negb (N.eqb kind 2) then
               let args := map (sym_type_with T) (rhs_of (N.of_nat i)) in
               if existsb is_bot args then acc
               else match acc, ainfer user_sig gen_actions action_fuel act args with
                    | Some a, Some t => join a t
                    | _, _ => None
                    end
             else acc) (combine (seq 0 (length gen_productions)) gen_productions) (Some TBot) in
  match r with None => nt_type0 nt | Some t => t end.

Definition nnt_all : nat := S (fold_left (fun m '(_, n, _, _) => Nat.max m (N.to_nat n)) gen_productions gen_nnt).
Definition all_nts : list N := map N.of_nat (seq 0 nnt_all).
Definition refine_all (T : list vty) : list vty := map (refine_nt T) all_nts.
Fixpoint iterate {A} (n : nat) (f : A -> A) (x : A) : A := match n with O => x | S n' => iterate n' f (f x) end.

Definition nt_types : list vty :=
  Eval vm_compute in
    map (fun '(t, nt) => if is_bot t then nt_type0 nt else t)
        (combine (iterate 24 refine_all (map (fun _ => TBot) all_nts)) all_nts).
Definition nt_type (nt : N) : vty := nth (N.to_nat nt) nt_types TBot.
Definition sym_type (X : gsym) : vty := sym_type_with nt_types X.

Definition all_states : list N := map N.of_nat (seq 0 gen_nstates).
Definition all_cols : list nat := seq 0 gen_ncols.
Definition col_sym (col : nat) : gsym := if Nat.eqb col (gen_ncols - 1) then SErr else ST (N.of_nat col).

(* ---- C1: every shift (incl. the error column) lands in a state accessed by that symbol, along a listed edge ---- *)
Definition shift_ok (s : N) (col : nat) : bool :=
  match as_shift (action_at s col) with
  | Some s' => ogsym_eqb (acc s') (col_sym col) && mem_N s (preds s')
  | None => true
  end.
Definition check_shifts : bool := forallb (fun s => forallb (shift_ok s) all_cols) all_states.

(* ---- C2: reductions ---- *)
Fixpoint back (j : nat) (l : list N) : list N :=
  match j with O => l | S j' => back j' (nodup N.eq_dec (flat_map preds l)) end.

(* in state s, production p may be reduced: the k states on top are accessed by the right-hand side, and the goto
   from every state that can be uncovered is a listed edge into a state accessed by the nonterminal *)
Definition reduce_ok (s : N) (p : N) : bool :=
  let '(k, nt, _, kind) := production p in
  let rhs := rhs_of p in
  N.ltb p (N.of_nat (length gen_productions)) &&
  Nat.eqb (length rhs) k &&
  (fix go (j : nat) (l : list N) (syms : list gsym) : bool :=
     match syms with
     | [] => true
     | X :: syms' => forallb (fun t => ogsym_eqb (acc t) X) l && go (S j) (nodup N.eq_dec (flat_map preds l)) syms'
     end) O [s] (rev rhs) &&
  (N.eqb kind 2 ||
   forallb (fun t => let s' := gen_goto t nt in ogsym_eqb (acc s') (SNT nt) && mem_N t (preds s')) (back k [s])).

Definition reduces_of (s : N) : list N :=
  flat_map (fun col => match as_reduce (action_at s col) with Some p => [p] | None => [] end) all_cols ++
  match as_reduce (eof_action_at s) with Some p => [p] | None => [] end.
Definition check_reduces : bool := forallb (fun s => forallb (reduce_ok s) (nodup N.eq_dec (reduces_of s))) all_states.

(* ---- C3 / C4 ---- *)
Definition check_misc : bool :=
  match acc 0 with None => true | Some _ => false end &&
  Nat.eqb (length gen_action_rows) gen_nstates && Nat.eqb (length gen_eof_action) gen_nstates &&
  forallb (fun i => match gen_token_to_integer (N.of_nat i) with
                    | Some c => N.ltb c (N.of_nat (gen_ncols - 1))
                    | None => true end) (seq 0 (length gen_lex_table)).

(* ---- C5: every production's action is well-typed on its right-hand side ---- *)
Definition prod_typed (p : N) : bool :=
  let '(k, nt, act, kind) := production p in
  match ainfer user_sig gen_actions action_fuel act (map sym_type (rhs_of p)) with
  | Some t => sub t (if N.eqb kind 2 then TLoud (TAst "Aidl") else nt_type nt)
  | None => false
  end.
Definition check_typed : bool := forallb prod_typed (map N.of_nat (seq 0 (length gen_productions))).

Lemma shifts_checked : check_shifts = true.  Proof. vm_compute. reflexivity. Qed.
Lemma misc_checked : check_misc = true.  Proof. vm_compute. reflexivity. Qed.
Lemma typed_checked : check_typed = true.  Proof. vm_compute. reflexivity. Qed.
Lemma reduces_checked : check_reduces = true.  Proof. vm_compute. reflexivity. Qed.
