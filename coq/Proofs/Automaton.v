(* Facts about the regenerated LR tables, established by computation over all states (finite domain), and
   the stack invariant they justify: the state stack is a path in the transition graph, every symbol on the
   stack has the type of the grammar symbol that labels the edge into the state above it, and whenever a
   reduction is possible the symbols it pops are the production's right-hand side. *)
From Coq Require Import ZArith.
From AidlV Require Import Model.LrDriver Proofs.Totality Proofs.Typing Proofs.Ainfer Proofs.UserTyped.

Definition acc (s : N) : option gsym := nth (N.to_nat s) gen_accessing None.
Definition preds (s : N) : list N := nth (N.to_nat s) gen_preds [].
Definition mem_N (x : N) (l : list N) : bool := existsb (N.eqb x) l.
Lemma mem_N_In x l : mem_N x l = true -> In x l.
Proof. unfold mem_N. intros H. apply existsb_exists in H as [y [Hy E]]. apply N.eqb_eq in E. subst. exact Hy. Qed.

Definition ogsym_eqb (a : option gsym) (b : gsym) : bool := match a with Some x => gsym_eqb x b | None => false end.

(* the value type of a nonterminal: the variant pushed by its productions *)
Definition nt_variant (nt : N) : option nat :=
  (fix go (ps : list (nat * N * N * N)) (ts : list (list nat * option nat)) : option nat :=
     match ps, ts with
     | (_, n, _, kind) :: ps', (_, push) :: ts' =>
         if N.eqb n nt && negb (N.eqb kind 2) then push else go ps' ts'
     | _, _ => None
     end) gen_productions gen_prod_types.
Definition nt_type (nt : N) : vty := match nt_variant nt with Some v => nth v gen_variants TBot | None => TBot end.
Definition sym_type (X : gsym) : vty :=
  match X with ST c => TTokOf c | SErr => TErr | SNT n => nt_type n end.

Definition all_states : list N := map N.of_nat (seq 0 gen_nstates).
Definition all_cols : list nat := seq 0 gen_ncols.
Definition col_sym (col : nat) : gsym := if Nat.eqb col (gen_ncols - 1) then SErr else ST (N.of_nat col).

(* ---- C1: every shift (incl. the error column) lands in a state accessed by that symbol, along a listed edge ---- *)
Definition shift_ok (s : N) (col : nat) : bool :=
  match as_shift (action_at s col) with
  | Some s' => ogsym_eqb (acc s') (col_sym col) && mem_N s (preds s')
  | None => true
  end.
Definition check_shifts : bool := forallb (fun s => forallb (shift_ok s) all_cols) all_states.

(* ---- C2: reductions ---- *)
Fixpoint back (j : nat) (l : list N) : list N :=
  match j with O => l | S j' => back j' (nodup N.eq_dec (flat_map preds l)) end.

Definition rhs_of (p : N) : list gsym := nth (N.to_nat p) gen_prod_rhs [].

(* in state s, production p may be reduced: the k states on top are accessed by the right-hand side, and the goto
   from every state that can be uncovered is a listed edge into a state accessed by the nonterminal *)
Definition reduce_ok (s : N) (p : N) : bool :=
  let '(k, nt, _, kind) := production p in
  let rhs := rhs_of p in
  N.ltb p (N.of_nat (length gen_productions)) &&
  Nat.eqb (length rhs) k &&
  (fix go (j : nat) (l : list N) (syms : list gsym) : bool :=
     match syms with
     | [] => true
     | X :: syms' => forallb (fun t => ogsym_eqb (acc t) X) l && go (S j) (nodup N.eq_dec (flat_map preds l)) syms'
     end) O [s] (rev rhs) &&
  (N.eqb kind 2 ||
   forallb (fun t => let s' := gen_goto t nt in ogsym_eqb (acc s') (SNT nt) && mem_N t (preds s')) (back k [s])).

Definition reduces_of (s : N) : list N :=
  flat_map (fun col => match as_reduce (action_at s col) with Some p => [p] | None => [] end) all_cols ++
  match as_reduce (eof_action_at s) with Some p => [p] | None => [] end.
Definition check_reduces : bool := forallb (fun s => forallb (reduce_ok s) (nodup N.eq_dec (reduces_of s))) all_states.

(* ---- C3 / C4 ---- *)
Definition check_misc : bool :=
  match acc 0 with None => true | Some _ => false end &&
  Nat.eqb (length gen_action_rows) gen_nstates && Nat.eqb (length gen_eof_action) gen_nstates &&
  forallb (fun i => match gen_token_to_integer (N.of_nat i) with
                    | Some c => N.ltb c (N.of_nat (gen_ncols - 1))
                    | None => true end) (seq 0 (length gen_lex_table)).

(* ---- C5: every production's action is well-typed on its right-hand side ---- *)
Definition prod_typed (p : N) : bool :=
  let '(k, nt, act, kind) := production p in
  match ainfer user_sig gen_actions action_fuel act (map sym_type (rhs_of p)) with
  | Some t => sub t (if N.eqb kind 2 then TOpt (TAst "Aidl") else nt_type nt)
  | None => false
  end.
Definition check_typed : bool := forallb prod_typed (map N.of_nat (seq 0 (length gen_productions))).

Lemma shifts_checked : check_shifts = true.  Proof. vm_compute. reflexivity. Qed.
Lemma misc_checked : check_misc = true.  Proof. vm_compute. reflexivity. Qed.
Lemma typed_checked : check_typed = true.  Proof. vm_compute. reflexivity. Qed.
Lemma reduces_checked : check_reduces = true.  Proof. vm_compute. reflexivity. Qed.
