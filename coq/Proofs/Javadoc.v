(* C18, locator: the backward scan finds exactly the text of the doc comment that directly precedes the construct *)
From AidlV Require Import Model.Javadoc Proofs.Totality.

Definition blank (c : N) : Prop := c = 32 \/ c = 10 \/ c = 13 \/ c = 9.
Definition inside (st : fstate) : Prop := st = FInside \/ st = FBeforeBeginStar \/ st = FBeforeBeginStarStar.

Lemma byte_len_app a b : byte_len (a ++ b) = (byte_len a + byte_len b)%N.
Proof. induction a as [|c a IH]; cbn [app byte_len]; [reflexivity|]. rewrite IH. lia. Qed.

Lemma scan_blank g : Forall blank g -> forall tail pos endp,
  scan (rev g ++ tail) FIdle pos endp = scan tail FIdle (pos + byte_len g) endp.
Proof.
  induction g as [|c g IH]; intros Hb tail pos endp; cbn [rev app byte_len].
  - f_equal. lia.
  - inversion Hb as [|? ? Hc Hg]; subst. rewrite <- app_assoc. cbn [app]. rewrite (IH Hg).
    cbn [scan].
    assert (E : N.eqb c slash = false) by (apply N.eqb_neq; unfold slash; destruct Hc as [-> | [-> | [-> | ->]]]; discriminate).
    rewrite E.
    assert (B : negb (N.eqb c 32) && negb (N.eqb c 10) && negb (N.eqb c 13) && negb (N.eqb c 9) = false)
      by (destruct Hc as [-> | [-> | [-> | ->]]]; reflexivity).
    rewrite B. f_equal. lia.
Qed.

Lemma step_inside st c : inside st -> c <> slash ->
  exists st', inside st' /\ (c <> star -> st' = FInside) /\
              forall rest pos endp, scan (c :: rest) st pos endp = scan rest st' (pos + utf8_len c) endp.
Proof.
  intros Hi Hc. assert (E : N.eqb c slash = false) by (apply N.eqb_neq; exact Hc).
  destruct (N.eqb c star) eqn:Es.
  - destruct Hi as [-> | [-> | ->]].
    + exists FBeforeBeginStar. split; [right; left; reflexivity|]. split; [intros H; apply N.eqb_eq in Es; contradiction|].
      intros; cbn [scan]. rewrite Es. reflexivity.
    + exists FBeforeBeginStarStar. split; [right; right; reflexivity|]. split; [intros H; apply N.eqb_eq in Es; contradiction|].
      intros; cbn [scan]. rewrite Es. reflexivity.
    + exists FInside. split; [left; reflexivity|]. split; [reflexivity|].
      intros; cbn [scan]. rewrite E. reflexivity.
  - exists FInside. split; [left; reflexivity|]. split; [reflexivity|].
    destruct Hi as [-> | [-> | ->]]; intros; cbn [scan]; rewrite ?Es, ?E; reflexivity.
Qed.

Lemma scan_body_any b : ~ In slash b -> forall st, inside st ->
  exists st', inside st' /\ forall tail pos endp, scan (rev b ++ tail) st pos endp = scan tail st' (pos + byte_len b) endp.
Proof.
  induction b as [|c b IH]; intros Hns st Hi.
  - exists st. split; [exact Hi|]. intros; cbn. f_equal. lia.
  - assert (Hc : c <> slash) by (intros E; apply Hns; left; exact E).
    assert (Hb : ~ In slash b) by (intros H; apply Hns; right; exact H).
    destruct (IH Hb st Hi) as [st1 [Hi1 S1]].
    destruct (step_inside st1 c Hi1 Hc) as [st2 [Hi2 [_ S2]]].
    exists st2. split; [exact Hi2|]. intros tail pos endp.
    cbn [rev byte_len]. rewrite <- app_assoc. cbn [app]. rewrite S1, S2. f_equal. lia.
Qed.

Lemma scan_body c b : c <> star -> ~ In slash (c :: b) -> forall st, inside st -> forall tail pos endp,
  scan (rev (c :: b) ++ tail) st pos endp = scan tail FInside (pos + byte_len (c :: b)) endp.
Proof.
  intros Hstar Hns st Hi tail pos endp.
  assert (Hc : c <> slash) by (intros E; apply Hns; left; exact E).
  assert (Hb : ~ In slash b) by (intros H; apply Hns; right; exact H).
  destruct (scan_body_any b Hb st Hi) as [st1 [Hi1 S1]].
  destruct (step_inside st1 c Hi1 Hc) as [st2 [_ [F S2]]].
  cbn [rev byte_len]. rewrite <- app_assoc. cbn [app]. rewrite S1, S2, (F Hstar). f_equal. lia.
Qed.

Definition opener : str := [slash; star; star].     (* "/**" *)
Definition closer : str := [star; slash].           (* "*/" *)

(* the doc comment's text: no '/', and not starting with '*' (so that "/**" is the opener, not "/***") *)
Definition doc_body (body : str) : Prop := ~ In slash body /\ (match body with c :: _ => c <> star | [] => True end).

Lemma scan_doc pre body gap :
  doc_body body -> Forall blank gap ->
  scan (rev (pre ++ opener ++ body ++ closer ++ gap)) FIdle 0 None =
  (Some (byte_len gap + 2 + byte_len body)%N, Some (byte_len gap + 2)%N).
Proof.
  intros [Hns Hst] Hg.
  rewrite !rev_app_distr. rewrite <- !app_assoc.
  rewrite (scan_blank gap Hg).
  cbn [closer rev app scan]. unfold slash at 1. rewrite N.eqb_refl. cbn [scan]. rewrite N.eqb_refl.
  assert (BODY : forall tail pos endp,
            scan (rev body ++ tail) FInside pos endp = scan tail FInside (pos + byte_len body) endp).
  { destruct body as [|c b].
    - intros; cbn. f_equal. lia.
    - intros. apply scan_body; [exact Hst|exact Hns|left; reflexivity]. }
  rewrite BODY. cbn -[N.add N.sub byte_len].
  f_equal; f_equal; lia.
Qed.

Lemma len_opener : byte_len opener = 3%N.  Proof. reflexivity. Qed.
Lemma len_closer : byte_len closer = 2%N.  Proof. reflexivity. Qed.

Lemma slice_middle a b c : slice_bytes (a ++ b ++ c) (byte_len a) (byte_len (a ++ b)) = Some b.
Proof.
  unfold slice_bytes. rewrite char_index_app.
  rewrite app_assoc, char_index_app. cbn [Nat.add].
  rewrite app_length.
  replace (Nat.leb (length a) (length a + length b)) with true by (symmetry; apply Nat.leb_le; lia).
  replace (length a + length b - length a)%nat with (length b) by lia.
  rewrite <- app_assoc, skipn_app, skipn_all, Nat.sub_diag. cbn [skipn app].
  rewrite firstn_app, firstn_all, Nat.sub_diag. cbn. rewrite app_nil_r. reflexivity.
Qed.

Theorem find_content_string_doc pre body gap :
  doc_body body -> Forall blank gap ->
  find_content_string (pre ++ opener ++ body ++ closer ++ gap) = Some (Some body).
Proof.
  intros Hb Hg. unfold find_content_string. rewrite (scan_doc pre body gap Hb Hg).
  set (input := pre ++ opener ++ body ++ closer ++ gap).
  assert (L : byte_len input = (byte_len pre + 3 + byte_len body + 2 + byte_len gap)%N).
  { unfold input. rewrite !byte_len_app, len_opener, len_closer. lia. }
  rewrite L.
  replace (byte_len pre + 3 + byte_len body + 2 + byte_len gap - (byte_len gap + 2 + byte_len body))%N
    with (byte_len (pre ++ opener)) by (rewrite byte_len_app, len_opener; lia).
  replace (byte_len pre + 3 + byte_len body + 2 + byte_len gap - (byte_len gap + 2))%N
    with (byte_len ((pre ++ opener) ++ body)) by (rewrite !byte_len_app, len_opener; lia).
  unfold input. replace (pre ++ opener ++ body ++ closer ++ gap) with ((pre ++ opener) ++ body ++ (closer ++ gap))
    by (rewrite <- !app_assoc; reflexivity).
  rewrite slice_middle. reflexivity.
Qed.

(* the construct starts right after the gap: get_javadoc returns the normalised text of that comment *)
Theorem get_javadoc_doc pre body gap rest :
  doc_body body -> Forall blank gap ->
  get_javadoc ((pre ++ opener ++ body ++ closer ++ gap) ++ rest) (byte_len (pre ++ opener ++ body ++ closer ++ gap))
  = Some (Some (parse_javadoc body)).
Proof.
  intros Hb Hg. unfold get_javadoc. rewrite char_index_app. cbn [Nat.add].
  rewrite firstn_app, firstn_all, Nat.sub_diag. cbn [firstn]. rewrite app_nil_r.
  rewrite (find_content_string_doc pre body gap Hb Hg). reflexivity.
Qed.

(* ---- nothing to attach: the text before the construct ends (after blanks) in something that is not a comment ---- *)
Lemma scan_other_line pre c gap :
  c <> slash -> ~ blank c -> c <> 10 -> Forall blank gap -> ~ In 10 pre -> ~ In slash pre ->
  scan (rev (pre ++ c :: gap)) FIdle 0 None = (None, None).
Proof.
  intros Hc Hnb Hnl Hg Hn Hs.
  replace (pre ++ c :: gap) with ((pre ++ [c]) ++ gap) by (rewrite <- app_assoc; reflexivity).
  rewrite rev_app_distr, (scan_blank gap Hg), rev_app_distr. cbn [rev app scan].
  assert (E : N.eqb c slash = false) by (apply N.eqb_neq; exact Hc). rewrite E.
  assert (B : negb (N.eqb c 32) && negb (N.eqb c 10) && negb (N.eqb c 13) && negb (N.eqb c 9) = true).
  { unfold blank in Hnb. repeat rewrite andb_true_iff. repeat split; apply negb_true_iff, N.eqb_neq; intros ->; apply Hnb; tauto. }
  rewrite B. generalize (0 + byte_len gap + utf8_len c)%N as pos.
  (* the rest of the line: no '/', no newline: the scan runs off the start of the text *)
  assert (G : forall l pos, ~ In 10 l -> ~ In slash l -> scan (rev l) FLineOrElse pos None = (None, None)).
  { induction l as [|x l IH] using rev_ind; intros pos Hn' Hs'; [reflexivity|].
    rewrite rev_app_distr. cbn [rev app scan].
    assert (Ex : N.eqb x slash = false) by (apply N.eqb_neq; intros ->; apply Hs'; apply in_or_app; right; left; reflexivity).
    assert (Ex2 : N.eqb x 10 = false) by (apply N.eqb_neq; intros ->; apply Hn'; apply in_or_app; right; left; reflexivity).
    rewrite Ex, Ex2. apply IH; intros H; [apply Hn'|apply Hs']; apply in_or_app; left; exact H. }
  intros pos. apply G; assumption.
Qed.
