From AidlV Require Import Spec.Oneway Spec.Methods Proofs.Methods.

Lemma oneway_method_spec isym m :
  oneway_method isym m = (set_oneway (true || m_oneway m) m,
                          if m_oneway m then [redundant_diag isym m] else []).
Proof.
  unfold oneway_method, set_oneway, redundant_diag. destruct m as [ow ? ? ? ? ? ? ? ? ? ?]; cbn.
  destruct ow; reflexivity.
Qed.

Lemma map_acc_oneway isym els :
  map_acc (oneway_ie isym) els =
  (map (propagate_ie true) els,
   flat_map (fun e => match e with IEMethod m => if m_oneway m then [redundant_diag isym m] else [] | IEConst _ => [] end) els).
Proof.
  induction els as [|e els IH]; cbn [map_acc map flat_map]; [reflexivity|].
  rewrite IH. destruct e as [c|m]; cbn [oneway_ie propagate_ie].
  - reflexivity.
  - rewrite oneway_method_spec. reflexivity.
Qed.

Lemma flat_map_methods {B} (f : method -> list B) els :
  flat_map f (flat_map (fun e => match e with IEMethod m => [m] | IEConst _ => [] end) els) =
  flat_map (fun e => match e with IEMethod m => f m | IEConst _ => [] end) els.
Proof.
  induction els as [|e els IH]; cbn; [reflexivity|]. destruct e; cbn; rewrite ?app_nil_r, IH; reflexivity.
Qed.

Lemma propagate_false_id els : map (propagate_ie false) els = els.
Proof.
  induction els as [|e els IH]; cbn; [reflexivity|]. rewrite IH. f_equal.
  destruct e as [c|m]; cbn; [reflexivity|]. destruct m; reflexivity.
Qed.

Theorem set_up_oneway_spec it : set_up_oneway it = (propagate it, spec_redundant it).
Proof.
  destruct it as [i|p|e]; cbn [set_up_oneway propagate spec_redundant]; try reflexivity.
  destruct (i_oneway i) eqn:E.
  - rewrite map_acc_oneway. cbn [methods_of]. rewrite flat_map_methods. reflexivity.
  - rewrite propagate_false_id. destruct i; cbn in *; subst; reflexivity.
Qed.

Theorem propagate_flags i :
  map m_oneway (methods_of (propagate (ItInterface i))) =
  map (fun m => i_oneway i || m_oneway m) (methods_of (ItInterface i)).
Proof.
  cbn [propagate methods_of i_elems]. induction (i_elems i) as [|e els IH]; cbn; [reflexivity|].
  destruct e as [c|m]; cbn; [exact IH|]. f_equal. exact IH.
Qed.

(* everything but the flag is untouched *)
Theorem propagate_only_flag i :
  map (set_oneway false) (methods_of (propagate (ItInterface i))) =
  map (set_oneway false) (methods_of (ItInterface i)).
Proof.
  cbn [propagate methods_of i_elems]. induction (i_elems i) as [|e els IH]; cbn; [reflexivity|].
  destruct e as [c|m]; cbn; [exact IH|]. f_equal; solve [exact IH | destruct m; reflexivity].
Qed.

Theorem check_method_split m :
  check_method m = spec_return m ++ flat_map (check_arg (m_oneway m)) (m_args m).
Proof. reflexivity. Qed.
