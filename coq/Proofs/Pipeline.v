From AidlV Require Import Spec.Pipeline.

Lemma insert_perm d l : Permutation (insert_diag d l) (d :: l).
Proof.
  induction l as [|x l IH]; cbn; [reflexivity|].
  destruct (N.leb (start_off d) (start_off x)); [reflexivity|].
  rewrite IH. apply perm_swap.
Qed.

Lemma sort_perm l : Permutation (sort_diags l) l.
Proof.
  unfold sort_diags. induction l as [|x l IH]; cbn; [reflexivity|].
  rewrite insert_perm. constructor. exact IH.
Qed.

Lemma insert_sorted d l : Sorted le_start l -> Sorted le_start (insert_diag d l).
Proof.
  induction l as [|x l IH]; cbn; intros Hs.
  - constructor; constructor.
  - destruct (N.leb (start_off d) (start_off x)) eqn:E.
    + constructor; [assumption|]. constructor. apply N.leb_le in E. exact E.
    + apply N.leb_gt in E. inversion Hs as [|? ? Hs' Hh]; subst.
      constructor; [apply IH; assumption|].
      destruct l as [|y l]; cbn.
      * constructor. unfold le_start. lia.
      * destruct (N.leb (start_off d) (start_off y)); constructor.
        -- unfold le_start; lia.
        -- inversion Hh; assumption.
Qed.

Lemma sort_sorted l : Sorted le_start (sort_diags l).
Proof.
  unfold sort_diags. induction l as [|x l IH]; cbn; [constructor|]. apply insert_sorted. exact IH.
Qed.

(* stability: diagnostics with the same start offset keep their emission order *)
Lemma sort_stable_aux k d l :
  Sorted le_start l ->
  filter (fun x => N.eqb (start_off x) k) (insert_diag d l) =
  filter (fun x => N.eqb (start_off x) k) (d :: l).
Proof.
  induction l as [|x l IH]; intros Hs; cbn [insert_diag]; [reflexivity|].
  destruct (N.leb (start_off d) (start_off x)) eqn:E; [reflexivity|].
  apply N.leb_gt in E.
  inversion Hs as [|? ? Hs' Hh]; subst.
  cbn [filter]. rewrite IH by assumption. cbn [filter].
  destruct (N.eqb (start_off x) k) eqn:Ex, (N.eqb (start_off d) k) eqn:Ed; try reflexivity.
  apply N.eqb_eq in Ex, Ed. lia.
Qed.

Lemma sort_stable k l :
  filter (fun x => N.eqb (start_off x) k) (sort_diags l) = filter (fun x => N.eqb (start_off x) k) l.
Proof.
  unfold sort_diags. induction l as [|x l IH]; [reflexivity|].
  cbn [fold_right]. rewrite sort_stable_aux by apply sort_sorted.
  cbn [filter]. unfold sort_diags in IH. rewrite IH. reflexivity.
Qed.

(* the decomposition of validate_file *)
Theorem validate_file_shape defined a ds0 a' ds :
  validate_file defined a ds0 = Ok (a', ds) ->
  exists d_cont d_meth,
    check_containers (ph_resolved_item defined a) = Some d_cont /\
    check_methods (ph_final_item defined a) = Some d_meth /\
    a' = Aidl (ai_package a) (ai_imports a) (ai_declared a) (ph_final_item defined a) /\
    ds = sort_diags (ds0 ++ ph_d_resolve defined a ++ ph_d_imports defined a ++ ph_d_declared defined a
                         ++ d_cont ++ ph_d_oneway defined a ++ d_meth).
Proof.
  unfold validate_file, ph_final_item, ph_d_oneway, ph_d_declared, ph_d_imports, ph_import_firsts, ph_resolved,
    ph_d_resolve, ph_resolved_item, ph_imports, ph_declared.
  destruct (resolve_item _ _ _ _) as [it1 d_res] eqn:E1. cbn [fst snd].
  destruct (check_imports _ _ _) as [d_imp firsts] eqn:E2. cbn [fst snd].
  destruct (check_containers it1) as [d_cont|] eqn:E3; [|discriminate].
  destruct (set_up_oneway it1) as [it2 d_ow] eqn:E4. cbn [fst snd].
  destruct (check_methods it2) as [d_meth|] eqn:E5; [|discriminate].
  intros H. inversion H; subst. exists d_cont, d_meth. repeat split; reflexivity.
Qed.
