(* C02: the tree, up to positions and documentation, is a function of the token sequence.
   Two runs of the parser on sources that lex to the same tokens (column, text) proceed in lockstep: the state stacks are
   equal, the symbol stacks are equal up to erasure (Proofs/Sim.v), and so are the outcomes. *)
From Coq Require Import ZArith.
From AidlV Require Import Model.LrDriver Proofs.Totality Proofs.Sim Proofs.Typing Proofs.Ainfer Proofs.Hom Proofs.UserTyped Proofs.UserHom
  Proofs.Automaton Proofs.StackInv Proofs.LexerSafe Proofs.Keywords Proofs.DriverSafe.

(* the two sources lex to the same tokens: same table entry (hence same terminal), same text, at every step; offsets are free *)
Inductive lexsim : str * N -> str * N -> Prop :=
| LS_eof s1 o1 s2 o2 : lex1 s1 o1 = LEof -> lex1 s2 o2 = LEof -> lexsim (s1, o1) (s2, o2)
| LS_inv s1 o1 s2 o2 l1 l2 : lex1 s1 o1 = LInvalid l1 -> lex1 s2 o2 = LInvalid l2 -> lexsim (s1, o1) (s2, o2)
| LS_tok s1 o1 s2 o2 a1 a2 idx text e1 e2 r1 r2 :
    lex1 s1 o1 = LTok a1 idx text e1 r1 -> lex1 s2 o2 = LTok a2 idx text e2 r2 -> lexsim (r1, e1) (r2, e2) ->
    lexsim (s1, o1) (s2, o2).

(* ---- the pieces of one reduction, named ---- *)
Definition red_popped (p : pst) (k : nat) : list triple := rev (firstn k (ps_syms p)).
Definition red_start (p : pst) (k : nat) (la : option N) : N :=
  match red_popped p k with
  | t :: _ => tstart t
  | [] => match la with Some l => l | None => match ps_syms p with t :: _ => tend t | [] => 0%N end end
  end.
Definition red_stop (p : pst) (k : nat) (la : option N) : N :=
  match red_popped p k with [] => red_start p k la | _ => tend (last (red_popped p k) (0%N, VBad, 0%N)) end.

Lemma reduce_eq cx p idx la k nt act kind : production idx = (k, nt, act, kind) ->
  reduce cx p idx la =
  let '(v, ds) := gen_action act cx (red_start p k la) (red_stop p k la) (red_popped p k) in
  let p1 := PSt (ps_states p) (skipn k (ps_syms p)) (ps_last p) (ps_rest p) (ps_off p) (ps_diags p ++ ds) in
  if is_panic v then RPanic p1
  else if N.eqb kind 2 then RAccept p1 v
       else RCont (PSt (gen_goto (hd 0%N (skipn k (ps_states p))) nt :: skipn k (ps_states p))
                       ((red_start p k la, v, red_stop p k la) :: skipn k (ps_syms p))
                       (ps_last p) (ps_rest p) (ps_off p) (ps_diags p ++ ds)).
Proof.
  intros HP. unfold reduce. rewrite HP. fold (red_popped p k). fold (red_start p k la). fold (red_stop p k la).
  destruct (gen_action act cx (red_start p k la) (red_stop p k la) (red_popped p k)) as [v ds]. destruct v; reflexivity.
Qed.

Section Red.
  Variable cx : ctx.
  Hypothesis WF : length (cx_lc cx) = S (length (cx_src cx)).

  Lemma red_valid p idx la k nt act kind :
    pst_ok cx p -> reduce_ok (top_state p) idx = true -> ola_ok cx la -> production idx = (k, nt, act, kind) ->
    valid cx (red_start p k la) /\ valid cx (red_stop p k la) /\ (k <= length (ps_syms p))%nat /\
    Forall2 (typed_triple cx (lvl p)) (map sym_type (rhs_of idx)) (red_popped p k).
  Proof.
    intros [HS [HL HX]] HR Hla HP.
    destruct (popped_typed cx WF _ _ _ _ _ _ _ _ HS HR HP) as [Hk F].
    pose proof (stack_syms_valid cx _ _ _ HS) as SV. fold (red_popped p k) in F.
    assert (PV : Forall (fun x => valid cx (tstart x) /\ valid cx (tend x)) (red_popped p k)).
    { clear -F. induction F as [|t x ts xs [V1 [V2 _]] F' IH]; constructor; auto. }
    assert (Vstart : valid cx (red_start p k la)).
    { unfold red_start. destruct (red_popped p k) as [|t0 ?]; [|inversion PV; tauto].
      destruct la as [l|]; [exact Hla|]. destruct (ps_syms p) as [|t1 ?]; [apply valid_zero|inversion SV; tauto]. }
    split; [exact Vstart|]. split; [|split; [exact Hk|exact F]].
    unfold red_stop. destruct (red_popped p k) as [|t0 l0] eqn:EP; [exact Vstart|].
    assert (I : In (last (t0 :: l0) (0%N, VBad, 0%N)) (t0 :: l0)) by (apply last_in; discriminate).
    rewrite Forall_forall in PV. apply PV in I. tauto.
  Qed.

  (* the erased result of a legitimate reduction's action is determined by the erased popped symbols *)
  Lemma action_erased p idx la k nt act kind :
    pst_ok cx p -> reduce_ok (top_state p) idx = true -> ola_ok cx la -> production idx = (k, nt, act, kind) ->
    erase (fst (gen_action act cx (red_start p k la) (red_stop p k la) (red_popped p k))) =
    fst (gen_action act cx0 0%N 0%N (map et (red_popped p k))).
  Proof.
    intros Hp HR Hla HP. destruct (red_valid p idx la k nt act kind Hp HR Hla HP) as [V1 [V2 [_ F]]].
    pose proof (prod_is_typed idx (reduce_ok_range cx WF _ _ HR)) as T. unfold prod_typed in T. rewrite HP in T.
    destruct (ainfer user_sig gen_actions action_fuel act (map sym_type (rhs_of idx))) as [t|] eqn:E; [|discriminate].
    symmetry.
    exact (eval_hom cx user_sig gen_actions (user_typed cx WF) (fun l => user_hom cx WF l) action_fuel act (lvl p) _ t _ _ _ E V1 V2 F).
  Qed.
End Red.

Lemma erase_is_panic v : is_panic (erase v) = is_panic v.
Proof. destruct v; reflexivity. Qed.

Lemma Forall2_firstn {A B} (P : A -> B -> Prop) n : forall l1 l2, Forall2 P l1 l2 -> Forall2 P (firstn n l1) (firstn n l2).
Proof. induction n as [|n IH]; intros l1 l2 F; [constructor|]. destruct F; cbn; constructor; auto. Qed.
Lemma Forall2_skipn {A B} (P : A -> B -> Prop) n : forall l1 l2, Forall2 P l1 l2 -> Forall2 P (skipn n l1) (skipn n l2).
Proof. induction n as [|n IH]; intros l1 l2 F; [exact F|]. destruct F; cbn; [constructor|auto]. Qed.
Lemma Forall2_rev' {A B} (P : A -> B -> Prop) l1 l2 : Forall2 P l1 l2 -> Forall2 P (rev l1) (rev l2).
Proof. induction 1 as [|a b l1 l2 H F IH]; [constructor|]. cbn. apply Forall2_app; [exact IH|constructor; [exact H|constructor]]. Qed.
Lemma Forall2_len {A B} (P : A -> B -> Prop) l1 l2 : Forall2 P l1 l2 -> length l1 = length l2.
Proof. induction 1; cbn; congruence. Qed.
Lemma map_et_sim l1 l2 : Forall2 sim_triple l1 l2 -> map et l1 = map et l2.
Proof. induction 1 as [|a b l1 l2 H F IH]; [reflexivity|]. cbn. unfold et at 1 3. rewrite H, IH. reflexivity. Qed.

Section Two.
  Variables cx1 cx2 : ctx.
  Hypothesis WF1 : length (cx_lc cx1) = S (length (cx_src cx1)).
  Hypothesis WF2 : length (cx_lc cx2) = S (length (cx_src cx2)).

  Definition psim (p1 p2 : pst) : Prop :=
    ps_states p1 = ps_states p2 /\ Forall2 sim_triple (ps_syms p1) (ps_syms p2) /\
    lexsim (ps_rest p1, ps_off p1) (ps_rest p2, ps_off p2).

  Definition osim (o1 o2 : outcome3) : Prop :=
    match o1, o2 with
    | Done v1, Done v2 => sim v1 v2
    | Done _, Failed _ | Failed _, Done _ => False
    | _, _ => True
    end.

  Lemma psim_top p1 p2 : psim p1 p2 -> top_state p1 = top_state p2.
  Proof. intros [E _]. unfold top_state. rewrite E. reflexivity. Qed.

  Lemma reduce_sim p1 p2 idx la1 la2 :
    psim p1 p2 -> pst_ok cx1 p1 -> pst_ok cx2 p2 -> reduce_ok (top_state p1) idx = true -> ola_ok cx1 la1 -> ola_ok cx2 la2 ->
    match reduce cx1 p1 idx la1, reduce cx2 p2 idx la2 with
    | RCont q1, RCont q2 => psim q1 q2
    | RAccept _ v1, RAccept _ v2 => sim v1 v2
    | _, _ => False
    end.
  Proof.
    intros PS H1 H2 HR L1 L2. destruct (production idx) as [[[k nt] act] kind] eqn:HP.
    pose proof (reduce_safe cx1 WF1 p1 idx la1 H1 HR L1) as S1.
    assert (HR2 : reduce_ok (top_state p2) idx = true) by (rewrite <- (psim_top _ _ PS); exact HR).
    pose proof (reduce_safe cx2 WF2 p2 idx la2 H2 HR2 L2) as S2.
    pose proof (action_erased cx1 WF1 p1 idx la1 k nt act kind H1 HR L1 HP) as E1.
    pose proof (action_erased cx2 WF2 p2 idx la2 k nt act kind H2 HR2 L2 HP) as E2.
    destruct PS as [ES [FS LX]].
    assert (PE : map et (red_popped p1 k) = map et (red_popped p2 k)).
    { apply map_et_sim. unfold red_popped. apply Forall2_rev'. apply Forall2_firstn. exact FS. }
    rewrite PE in E1. rewrite <- E2 in E1. clear E2.
    rewrite (reduce_eq cx1 p1 idx la1 k nt act kind HP) in S1 |- *. rewrite (reduce_eq cx2 p2 idx la2 k nt act kind HP) in S2 |- *.
    destruct (gen_action act cx1 (red_start p1 k la1) (red_stop p1 k la1) (red_popped p1 k)) as [v1 ds1].
    destruct (gen_action act cx2 (red_start p2 k la2) (red_stop p2 k la2) (red_popped p2 k)) as [v2 ds2]. cbn [fst] in E1.
    destruct (is_panic v1) eqn:P1; [contradiction|]. destruct (is_panic v2) eqn:P2; [contradiction|].
    destruct (N.eqb kind 2); [exact E1|].
    split; [cbn [ps_states]; rewrite ES; reflexivity|]. split; [|exact LX].
    cbn [ps_syms]. constructor; [exact E1|]. apply Forall2_skipn. exact FS.
  Qed.

  Lemma error_reductions_sim la1 la2 : ola_ok cx1 la1 -> ola_ok cx2 la2 -> forall fuel p1 p2,
    psim p1 p2 -> pst_ok cx1 p1 -> pst_ok cx2 p2 ->
    match error_reductions cx1 fuel p1 la1, error_reductions cx2 fuel p2 la2 with
    | RCont q1, RCont q2 => psim q1 q2
    | RAccept _ v1, RAccept _ v2 => sim v1 v2
    | _, _ => False
    end.
  Proof.
    intros L1 L2. induction fuel as [|fuel IH]; intros p1 p2 PS H1 H2; cbn [error_reductions]; [exact PS|].
    rewrite <- (psim_top _ _ PS).
    destruct (as_reduce (error_action_at (top_state p1))) as [r|] eqn:E; [|exact PS].
    pose proof (reduce_legit _ _ _ (err_col cx1 WF1) E) as HR.
    pose proof (reduce_sim p1 p2 r la1 la2 PS H1 H2 HR L1 L2) as RS.
    pose proof (reduce_safe cx1 WF1 p1 r la1 H1 HR L1) as S1.
    assert (HR2 : reduce_ok (top_state p2) r = true) by (rewrite <- (psim_top _ _ PS); exact HR).
    pose proof (reduce_safe cx2 WF2 p2 r la2 H2 HR2 L2) as S2.
    destruct (reduce cx1 p1 r la1) as [q1|q1 v1|q1], (reduce cx2 p2 r la2) as [q2|q2 v2|q2]; try contradiction; try exact RS.
    apply IH; tauto.
  Qed.

  (* ---- tokens in lockstep ---- *)
  Definition tsim (x1 x2 : next_token) : Prop :=
    match x1, x2 with
    | Found q1 _ t1 _ c1, Found q2 _ t2 _ c2 => t1 = t2 /\ c1 = c2 /\ psim q1 q2
    | AtEof q1, AtEof q2 => psim q1 q2
    | Stop _ (Failed _), Stop _ (Failed _) => True
    | _, _ => False
    end.

  Lemma next_tok_sim p1 p2 : psim p1 p2 -> tsim (next_tok p1) (next_tok p2).
  Proof.
    intros [ES [FS LX]]. unfold next_tok.
    inversion LX as [s1 o1 s2 o2 A B|s1 o1 s2 o2 l1 l2 A B|s1 o1 s2 o2 a1 a2 idx text e1 e2 r1 r2 A B R]; subst; rewrite A, B.
    - cbn. split; [exact ES|]. split; [exact FS|]. cbn. apply LS_eof; reflexivity.
    - exact I.
    - destruct (gen_token_to_integer idx) as [col|]; cbn; [|exact I].
      split; [reflexivity|]. split; [reflexivity|]. split; [exact ES|]. split; [exact FS|exact R].
  Qed.

  (* ---- error recovery in lockstep ---- *)
  Definition lasim (la1 la2 : option (N * str * N * nat)) : Prop :=
    match la1, la2 with
    | None, None => True
    | Some (_, t1, _, c1), Some (_, t2, _, c2) => t1 = t2 /\ c1 = c2
    | _, _ => False
    end.

  Definition is_fuel (r : recovered) : bool := match r with RecStop _ OutOfFuel => true | _ => false end.
  Definition rsim (r1 r2 : recovered) : Prop :=
    is_fuel r1 = true \/ is_fuel r2 = true \/
    match r1, r2 with
    | RecFound q1 _ t1 _ c1, RecFound q2 _ t2 _ c2 => t1 = t2 /\ c1 = c2 /\ psim q1 q2
    | RecEof q1, RecEof q2 => psim q1 q2
    | RecStop _ o1, RecStop _ o2 => osim o1 o2
    | _, _ => False
    end.

  Lemma osim_fuel_l o : osim OutOfFuel o.  Proof. destruct o; exact I. Qed.
  Lemma osim_fuel_r o : osim o OutOfFuel.  Proof. destruct o; exact I. Qed.

  Lemma sim_rev_firstn_rev n l1 l2 : Forall2 sim_triple l1 l2 ->
    Forall2 sim_triple (rev (firstn n (rev l1))) (rev (firstn n (rev l2))).
  Proof. intros F. apply Forall2_rev'. apply Forall2_firstn. apply Forall2_rev'. exact F. Qed.

  Lemma recover_loop_sim n err1 err2 :
    erase_err err1 = erase_err err2 -> err_ok cx1 err1 -> err_ok cx2 err2 ->
    forall f1 f2 p1 p2 la1 la2 d1 d2,
      psim p1 p2 -> pst_ok cx1 p1 -> pst_ok cx2 p2 -> lasim la1 la2 -> la_ok cx1 la1 -> la_ok cx2 la2 ->
      dropped_ok cx1 d1 -> dropped_ok cx2 d2 ->
      rsim (recover_loop f1 p1 err1 la1 d1 n) (recover_loop f2 p2 err2 la2 d2 n).
  Proof.
    intros EE He1 He2. induction f1 as [|f1 IH]; intros f2 p1 p2 la1 la2 d1 d2 PS H1 H2 LS L1 L2 D1 D2;
      [left; reflexivity|]. destruct f2 as [|f2]; [right; left; reflexivity|].
    cbn [recover_loop].
    assert (ES : ps_states p1 = ps_states p2) by (destruct PS; assumption).
    assert (EC : option_map (fun x : N * str * N * nat => snd x) la1 = option_map (fun x : N * str * N * nat => snd x) la2).
    { destruct la1 as [[[[? ?] ?] ?]|], la2 as [[[[? ?] ?] ?]|]; cbn in LS |- *; try contradiction; [destruct LS; subst|]; reflexivity. }
    rewrite <- ES, <- EC.
    destruct (find_recover (ps_states p1) (option_map (fun x => snd x) la1)) as [top|].
    - match goal with |- context [as_shift ?x] => destruct (as_shift x) as [es|] end; [|right; right; exact I].
      assert (Q : psim (PSt (es :: rev (firstn (top + 1) (rev (ps_states p1))))
                            ((match nth_error (rev (ps_syms p1)) top with Some t => tstart t | None => match d1 with d :: _ => fst (fst d) | [] => if Nat.ltb 0 top then match nth_error (rev (ps_syms p1)) (top - 1) with Some t => tend t | None => 0%N end else 0%N end end,
                              VErr err1,
                              match rev d1 with d :: _ => snd d | [] => if Nat.ltb top (n - 1) then match ps_syms p1 with t :: _ => tend t | [] => 0%N end else match la1 with Some (s, _, _, _) => s | None => match nth_error (rev (ps_syms p1)) top with Some t => tstart t | None => match d1 with d :: _ => fst (fst d) | [] => if Nat.ltb 0 top then match nth_error (rev (ps_syms p1)) (top - 1) with Some t => tend t | None => 0%N end else 0%N end end end end)
                              :: rev (firstn top (rev (ps_syms p1)))) (ps_last p1) (ps_rest p1) (ps_off p1) (ps_diags p1))
                      (PSt (es :: rev (firstn (top + 1) (rev (ps_states p1))))
                            ((match nth_error (rev (ps_syms p2)) top with Some t => tstart t | None => match d2 with d :: _ => fst (fst d) | [] => if Nat.ltb 0 top then match nth_error (rev (ps_syms p2)) (top - 1) with Some t => tend t | None => 0%N end else 0%N end end,
                              VErr err2,
                              match rev d2 with d :: _ => snd d | [] => if Nat.ltb top (n - 1) then match ps_syms p2 with t :: _ => tend t | [] => 0%N end else match la2 with Some (s, _, _, _) => s | None => match nth_error (rev (ps_syms p2)) top with Some t => tstart t | None => match d2 with d :: _ => fst (fst d) | [] => if Nat.ltb 0 top then match nth_error (rev (ps_syms p2)) (top - 1) with Some t => tend t | None => 0%N end else 0%N end end end end)
                              :: rev (firstn top (rev (ps_syms p2)))) (ps_last p2) (ps_rest p2) (ps_off p2) (ps_diags p2))).
      { destruct PS as [_ [FS LX]]. split; [reflexivity|]. split; [|exact LX]. cbn [ps_syms].
        constructor; [unfold sim_triple, sim; cbn; rewrite EE; reflexivity|]. apply sim_rev_firstn_rev. exact FS. }
      destruct la1 as [[[[s1 t1] e1] c1]|], la2 as [[[[s2 t2] e2] c2]|]; cbn in LS; try contradiction; right; right.
      + destruct LS as [-> ->]. split; [reflexivity|]. split; [reflexivity|exact Q].
      + exact Q.
    - destruct la1 as [[[[s1 t1] e1] c1]|], la2 as [[[[s2 t2] e2] c2]|]; cbn in LS; try contradiction; [|right; right; exact I].
      pose proof (next_tok_sim p1 p2 PS) as TS.
      pose proof (next_tok_safe cx1 WF1 p1 H1) as N1. pose proof (next_tok_safe cx2 WF2 p2 H2) as N2.
      assert (D1' : dropped_ok cx1 (d1 ++ [(s1, t1, e1)])).
      { apply Forall_app. split; [exact D1|]. constructor; [|constructor]. destruct L1 as [V1 [V2 _]]. auto. }
      assert (D2' : dropped_ok cx2 (d2 ++ [(s2, t2, e2)])).
      { apply Forall_app. split; [exact D2|]. constructor; [|constructor]. destruct L2 as [V1 [V2 _]]. auto. }
      destruct (next_tok p1) as [q1 a1 u1 b1 k1|q1|q1 r1], (next_tok p2) as [q2 a2 u2 b2 k2|q2|q2 r2]; cbn [tsim] in TS; try contradiction; try (destruct r1; contradiction).
      + destruct TS as [-> [-> PS']]. destruct N1 as [Hq1 [_ T1]]. destruct N2 as [Hq2 [_ T2]].
        apply IH; auto. split; reflexivity.
      + destruct N1 as [Hq1 _]. destruct N2 as [Hq2 _]. apply IH; auto; exact I.
      + right; right. destruct r1, r2; try contradiction. exact I.
  Qed.

  Lemma unrecognized_sim p1 p2 la1 la2 : psim p1 p2 -> lasim la1 la2 ->
    erase_err (unrecognized p1 (option_map (fun x : N * str * N * nat => let '(s, t, e, _) := x in (s, t, e)) la1)) =
    erase_err (unrecognized p2 (option_map (fun x : N * str * N * nat => let '(s, t, e, _) := x in (s, t, e)) la2)).
  Proof.
    intros PS LS. pose proof (psim_top _ _ PS) as ET.
    destruct la1 as [[[[s1 t1] e1] c1]|], la2 as [[[[s2 t2] e2] c2]|]; cbn [lasim] in LS; try contradiction;
      cbn [option_map unrecognized erase_err].
    - destruct LS as [-> _]. rewrite ET. reflexivity.
    - rewrite ET. reflexivity.
  Qed.

  Lemma error_recovery_sim p1 p2 la1 la2 :
    psim p1 p2 -> pst_ok cx1 p1 -> pst_ok cx2 p2 -> lasim la1 la2 -> la_ok cx1 la1 -> la_ok cx2 la2 ->
    rsim (error_recovery cx1 p1 la1) (error_recovery cx2 p2 la2).
  Proof.
    intros PS H1 H2 LS L1 L2. unfold error_recovery.
    pose proof (unrecognized_sim p1 p2 la1 la2 PS LS) as EE.
    assert (He1 : err_ok cx1 (unrecognized p1 (option_map (fun x : N * str * N * nat => let '(s, t, e, _) := x in (s, t, e)) la1))).
    { destruct la1 as [[[[s t] e] col]|]; cbn; [destruct L1 as [V1 [V2 _]]; auto|destruct H1 as [_ [HL _]]; exact HL]. }
    assert (He2 : err_ok cx2 (unrecognized p2 (option_map (fun x : N * str * N * nat => let '(s, t, e, _) := x in (s, t, e)) la2))).
    { destruct la2 as [[[[s t] e] col]|]; cbn; [destruct L2 as [V1 [V2 _]]; auto|destruct H2 as [_ [HL _]]; exact HL]. }
    assert (O1 : ola_ok cx1 (option_map (fun x : N * str * N * nat => let '(s, _, _, _) := x in s) la1)).
    { destruct la1 as [[[[s t] e] col]|]; cbn; [destruct L1; assumption|exact I]. }
    assert (O2 : ola_ok cx2 (option_map (fun x : N * str * N * nat => let '(s, _, _, _) := x in s) la2)).
    { destruct la2 as [[[[s t] e] col]|]; cbn; [destruct L2; assumption|exact I]. }
    pose proof (error_reductions_sim _ _ O1 O2 reduce_fuel p1 p2 PS H1 H2) as RS.
    pose proof (error_reductions_safe cx1 WF1 _ O1 reduce_fuel p1 H1) as S1.
    pose proof (error_reductions_safe cx2 WF2 _ O2 reduce_fuel p2 H2) as S2.
    destruct (error_reductions cx1 reduce_fuel p1 _) as [q1|q1 v1|q1], (error_reductions cx2 reduce_fuel p2 _) as [q2|q2 v2|q2];
      try contradiction.
    - destruct S1 as [Hq1 _]. destruct S2 as [Hq2 _].
      assert (EL : length (ps_states q1) = length (ps_states q2)) by (destruct RS as [E _]; rewrite E; reflexivity).
      rewrite EL. apply recover_loop_sim; auto. constructor. constructor.
    - right; right. exact RS.
  Qed.

  (* ---- the main loops in lockstep ---- *)
  Lemma parse_eof_sim : forall fuel p1 p2, psim p1 p2 -> pst_ok cx1 p1 -> pst_ok cx2 p2 ->
    osim (snd (parse_eof cx1 fuel p1)) (snd (parse_eof cx2 fuel p2)).
  Proof.
    induction fuel as [|fuel IH]; intros p1 p2 PS H1 H2; cbn [parse_eof]; [exact I|].
    rewrite <- (psim_top _ _ PS).
    destruct (as_reduce (eof_action_at (top_state p1))) as [r|] eqn:E.
    - pose proof (reduce_legit_eof _ _ E) as HR.
      pose proof (reduce_sim p1 p2 r None None PS H1 H2 HR I I) as RS.
      pose proof (reduce_safe cx1 WF1 p1 r None H1 HR I) as S1.
      assert (HR2 : reduce_ok (top_state p2) r = true) by (rewrite <- (psim_top _ _ PS); exact HR).
      pose proof (reduce_safe cx2 WF2 p2 r None H2 HR2 I) as S2.
      destruct (reduce cx1 p1 r None) as [q1|q1 v1|q1], (reduce cx2 p2 r None) as [q2|q2 v2|q2]; try contradiction.
      + apply IH; tauto.
      + exact RS.
    - pose proof (error_recovery_sim p1 p2 None None PS H1 H2 I I I) as RS.
      pose proof (error_recovery_safe cx1 WF1 p1 None H1 I) as S1. pose proof (error_recovery_safe cx2 WF2 p2 None H2 I) as S2.
      pose proof (error_recovery_eof cx1 p1) as F1. pose proof (error_recovery_eof cx2 p2) as F2.
      destruct (error_recovery cx1 p1 None) as [q1 ? ? ? ?|q1|q1 r1]; [contradiction| |];
        destruct (error_recovery cx2 p2 None) as [q2 ? ? ? ?|q2|q2 r2]; try contradiction; cbn [snd].
      + destruct RS as [X|[X|RS]]; try discriminate X. apply IH; assumption.
      + destruct RS as [X|[X|RS]]; try discriminate X; [|contradiction]. destruct r2; try discriminate X. apply osim_fuel_r.
      + destruct RS as [X|[X|RS]]; try discriminate X; [|contradiction]. destruct r1; try discriminate X. apply osim_fuel_l.
      + destruct RS as [X|[X|RS]]; [destruct r1; try discriminate X; apply osim_fuel_l|destruct r2; try discriminate X; apply osim_fuel_r|exact RS].
  Qed.

  Definition wsim (x1 x2 : pst * option outcome3 * bool) : Prop :=
    match x1, x2 with
    | (_, Some o1, _), (_, Some o2, _) => osim o1 o2
    | (q1, None, b1), (q2, None, b2) => b1 = b2 /\ psim q1 q2
    | (_, Some o, _), (_, None, _) | (_, None, _), (_, Some o, _) => o = OutOfFuel
    end.

  Lemma wsim_fuel_l q b x2 : wsim (q, Some OutOfFuel, b) x2.
  Proof. destruct x2 as [[q2 [o2|]] b2]; [apply osim_fuel_l|reflexivity]. Qed.
  Lemma wsim_fuel_r q b x1 : wsim x1 (q, Some OutOfFuel, b).
  Proof. destruct x1 as [[q1 [o1|]] b1]; [apply osim_fuel_r|reflexivity]. Qed.

  Lemma with_lookahead_sim : forall fuel p1 p2 s1 s2 text e1 e2 col,
    psim p1 p2 -> pst_ok cx1 p1 -> pst_ok cx2 p2 -> tok_ok cx1 s1 text e1 col -> tok_ok cx2 s2 text e2 col ->
    wsim (with_lookahead cx1 fuel p1 s1 text e1 col) (with_lookahead cx2 fuel p2 s2 text e2 col).
  Proof.
    induction fuel as [|fuel IH]; intros p1 p2 s1 s2 text e1 e2 col PS H1 H2 T1 T2; cbn [with_lookahead]; [exact I|].
    assert (Hc : (col < gen_ncols)%nat) by (destruct T1 as [_ [_ [H _]]]; lia).
    rewrite <- (psim_top _ _ PS).
    destruct (as_shift (action_at (top_state p1) col)) as [target|] eqn:ES.
    - cbn [wsim]. split; [reflexivity|]. destruct PS as [E [FS LX]]. split; [cbn; rewrite E; reflexivity|]. split; [|exact LX].
      cbn [ps_syms]. constructor; [reflexivity|exact FS].
    - destruct (as_reduce (action_at (top_state p1) col)) as [r|] eqn:ER.
      + pose proof (reduce_legit _ _ _ Hc ER) as HR.
        assert (O1 : ola_ok cx1 (Some s1)) by (destruct T1; assumption). assert (O2 : ola_ok cx2 (Some s2)) by (destruct T2; assumption).
        pose proof (reduce_sim p1 p2 r (Some s1) (Some s2) PS H1 H2 HR O1 O2) as RS.
        pose proof (reduce_safe cx1 WF1 p1 r (Some s1) H1 HR O1) as S1.
        assert (HR2 : reduce_ok (top_state p2) r = true) by (rewrite <- (psim_top _ _ PS); exact HR).
        pose proof (reduce_safe cx2 WF2 p2 r (Some s2) H2 HR2 O2) as S2.
        destruct (reduce cx1 p1 r (Some s1)) as [q1|q1 v1|q1], (reduce cx2 p2 r (Some s2)) as [q2|q2 v2|q2]; try contradiction.
        * apply IH; tauto.
        * exact I.
      + pose proof (error_recovery_sim p1 p2 (Some (s1, text, e1, col)) (Some (s2, text, e2, col)) PS H1 H2 (conj eq_refl eq_refl) T1 T2) as RS.
        pose proof (error_recovery_safe cx1 WF1 p1 (Some (s1, text, e1, col)) H1 T1) as S1. pose proof (error_recovery_safe cx2 WF2 p2 (Some (s2, text, e2, col)) H2 T2) as S2.
        destruct RS as [X|[X|RS]].
        * destruct (error_recovery cx1 p1 (Some (s1, text, e1, col))) as [q1 a1 u1 b1 k1|q1|q1 r1]; try discriminate X.
          destruct r1; try discriminate X. apply wsim_fuel_l.
        * destruct (error_recovery cx2 p2 (Some (s2, text, e2, col))) as [q2 a2 u2 b2 k2|q2|q2 r2]; try discriminate X.
          destruct r2; try discriminate X. apply wsim_fuel_r.
        * destruct (error_recovery cx1 p1 (Some (s1, text, e1, col))) as [q1 a1 u1 b1 k1|q1|q1 r1];
            destruct (error_recovery cx2 p2 (Some (s2, text, e2, col))) as [q2 a2 u2 b2 k2|q2|q2 r2]; try contradiction; cbn [rec_ok] in S1, S2.
          -- destruct RS as [-> [-> PS']]. apply IH; tauto.
          -- cbn [wsim]. split; [reflexivity|exact RS].
          -- exact RS.
  Qed.

  Lemma parse_loop_sim : forall f1 f2 p1 p2, psim p1 p2 -> pst_ok cx1 p1 -> pst_ok cx2 p2 ->
    osim (snd (parse_loop cx1 f1 p1)) (snd (parse_loop cx2 f2 p2)).
  Proof.
    induction f1 as [|f1 IH]; intros f2 p1 p2 PS H1 H2; [apply osim_fuel_l|]. destruct f2 as [|f2]; [apply osim_fuel_r|].
    cbn [parse_loop].
    pose proof (next_tok_sim p1 p2 PS) as TS.
    pose proof (next_tok_safe cx1 WF1 p1 H1) as N1. pose proof (next_tok_safe cx2 WF2 p2 H2) as N2.
    destruct (next_tok p1) as [q1 a1 u1 b1 k1|q1|q1 r1], (next_tok p2) as [q2 a2 u2 b2 k2|q2|q2 r2]; cbn [tsim] in TS; try contradiction; try (destruct r1; contradiction).
    - destruct TS as [-> [-> PS']]. destruct N1 as [Hq1 [_ T1]]. destruct N2 as [Hq2 [_ T2]].
      pose proof (with_lookahead_sim reduce_fuel q1 q2 a1 a2 u2 b1 b2 k2 PS' Hq1 Hq2 T1 T2) as WS.
      pose proof (with_lookahead_safe cx1 WF1 reduce_fuel q1 a1 u2 b1 k2 Hq1 T1) as W1.
      pose proof (with_lookahead_safe cx2 WF2 reduce_fuel q2 a2 u2 b2 k2 Hq2 T2) as W2.
      destruct (with_lookahead cx1 reduce_fuel q1 a1 u2 b1 k2) as [[x1 [o1|]] c1], (with_lookahead cx2 reduce_fuel q2 a2 u2 b2 k2) as [[x2 [o2|]] c2];
        cbn [wsim wl_ok] in WS, W1, W2; cbn [snd].
      + exact WS.
      + subst o1. apply osim_fuel_l.
      + subst o2. apply osim_fuel_r.
      + destruct WS as [-> PS'']. destruct c2; [apply IH; assumption|apply parse_eof_sim; assumption].
    - apply parse_eof_sim; tauto.
    - cbn [snd]. destruct r1, r2; try contradiction. exact I.
  Qed.

  Lemma lexsim_init : lexsim (cx_src cx1, 0%N) (cx_src cx2, 0%N) -> psim (PSt [0%N] [] 0%N (cx_src cx1) 0%N []) (PSt [0%N] [] 0%N (cx_src cx2) 0%N []).
  Proof. intros L. split; [reflexivity|]. split; [constructor|exact L]. Qed.

  Lemma pst_ok_init cx : pst_ok cx (PSt [0%N] [] 0%N (cx_src cx) 0%N []).
  Proof. split; [constructor|]. split; [apply valid_zero|]. right. exists []. split; reflexivity. Qed.

  (* the tree, up to positions and documentation, is a function of the token sequence *)
  Theorem tokens_determine_tree id fr1 fr2 :
    lexsim (cx_src cx1, 0%N) (cx_src cx2, 0%N) ->
    add_content cx1 id = Added fr1 -> add_content cx2 id = Added fr2 ->
    option_map erase_aidl (fr_ast fr1) = option_map erase_aidl (fr_ast fr2).
  Proof.
    intros L A1 A2.
    pose proof (parse_loop_sim (S (length (cx_src cx1))) (S (length (cx_src cx2))) _ _ (lexsim_init L) (pst_ok_init cx1) (pst_ok_init cx2)) as OS.
    pose proof (parse_safe cx1 WF1) as S1. pose proof (parse_safe cx2 WF2) as S2.
    unfold add_content in A1, A2. unfold parse in *.
    destruct (parse_loop cx1 (S (length (cx_src cx1))) (PSt [0%N] [] 0%N (cx_src cx1) 0%N [])) as [q1 r1].
    destruct (parse_loop cx2 (S (length (cx_src cx2))) (PSt [0%N] [] 0%N (cx_src cx2) 0%N [])) as [q2 r2].
    cbn [fst snd] in *.
    destruct r1 as [v1|x1| |], r2 as [v2|x2| |]; cbn [osim out_ok] in OS, S1, S2; try contradiction; try discriminate.
    - unfold sim in OS.
      destruct (accept_shape cx1 _ v1 S1) as [[-> _]|[a1 [-> _]]], (accept_shape cx2 _ v2 S2) as [[-> _]|[a2 [-> _]]];
        inversion A1; inversion A2; subst; cbn [fr_ast option_map]; cbn [erase option_map] in OS;
        first [reflexivity | discriminate OS | congruence].
    - destruct (diag_of_error cx1 x1); [|discriminate]. destruct (diag_of_error cx2 x2); [|discriminate].
      inversion A1; inversion A2; subst. reflexivity.
  Qed.
End Two.

Lemma lexsim_b_sound : forall fuel s1 o1 s2 o2, lexsim_b fuel s1 o1 s2 o2 = true -> lexsim (s1, o1) (s2, o2).
Proof.
  induction fuel as [|f IH]; intros s1 o1 s2 o2 H; cbn [lexsim_b] in H; [discriminate|].
  destruct (lex1 s1 o1) as [a1 i1 t1 e1 r1| |l1] eqn:A, (lex1 s2 o2) as [a2 i2 t2 e2 r2| |l2] eqn:B; try discriminate.
  - apply andb_true_iff in H as [H H3]. apply andb_true_iff in H as [H1 H2].
    apply N.eqb_eq in H1. apply str_eqb_eq in H2. subst. eapply LS_tok; eauto.
  - apply LS_eof; assumption.
  - eapply LS_inv; eauto.
Qed.
