(* Erasure is a homomorphism of the actions: running an action on the erased arguments, in the trivial context,
   gives exactly the erasure of what the real run returns.  So the erased result depends only on the erased arguments. *)
From AidlV Require Import Model.Wrappers Proofs.Totality Proofs.Sim Proofs.Typing Proofs.Ainfer.

Definition cx0 : ctx := Ctx [] [(0, 0)%N].
Definition et (x : triple) : triple := (0%N, erase (tval x), 0%N).

Lemma erase_idem : forall v, erase (erase v) = erase v.
Proof.
  assert (Ty_ : forall t, erase_ty (erase_ty t) = erase_ty t).
  { fix IH 1. intros [n k g s f]. cbn. f_equal. induction g as [|x g IHg]; cbn; [reflexivity|]. rewrite IH, IHg. reflexivity. }
  assert (Dir : forall d, erase_dir (erase_dir d) = erase_dir d) by (intros []; reflexivity).
  assert (Arg_ : forall a, erase_arg (erase_arg a) = erase_arg a) by (intros a; unfold erase_arg; cbn; rewrite Ty_, Dir; reflexivity).
  assert (MapI : forall {A} (f : A -> A), (forall x, f (f x) = f x) -> forall l, map f (map f l) = map f l).
  { intros A f H l. rewrite map_map. apply map_ext. exact H. }
  assert (Met : forall m, erase_method (erase_method m) = erase_method m).
  { intros m. unfold erase_method. cbn. rewrite Ty_, (MapI _ _ Arg_). reflexivity. }
  assert (Con : forall c, erase_const (erase_const c) = erase_const c) by (intros c; unfold erase_const; cbn; rewrite Ty_; reflexivity).
  assert (Fie : forall c, erase_field (erase_field c) = erase_field c) by (intros c; unfold erase_field; cbn; rewrite Ty_; reflexivity).
  assert (EE : forall c, erase_ee (erase_ee c) = erase_ee c) by reflexivity.
  assert (IE : forall e, erase_ie (erase_ie e) = erase_ie e) by (intros []; cbn; rewrite ?Con, ?Met; reflexivity).
  assert (PE : forall e, erase_pe (erase_pe e) = erase_pe e) by (intros []; cbn; rewrite ?Con, ?Fie; reflexivity).
  assert (Int : forall i, erase_interface (erase_interface i) = erase_interface i)
    by (intros i; unfold erase_interface; cbn; rewrite (MapI _ _ IE); reflexivity).
  assert (Par : forall i, erase_parcelable (erase_parcelable i) = erase_parcelable i)
    by (intros i; unfold erase_parcelable; cbn; rewrite (MapI _ _ PE); reflexivity).
  assert (Enu : forall i, erase_enum (erase_enum i) = erase_enum i)
    by (intros i; unfold erase_enum; cbn; rewrite (MapI _ _ EE); reflexivity).
  assert (It : forall i, erase_item (erase_item i) = erase_item i) by (intros [i|p|e]; cbn; rewrite ?Int, ?Par, ?Enu; reflexivity).
  assert (Im : forall i, erase_import (erase_import i) = erase_import i) by reflexivity.
  assert (Ai : forall a, erase_aidl (erase_aidl a) = erase_aidl a)
    by (intros a; unfold erase_aidl; cbn; rewrite It, !(MapI _ _ Im); reflexivity).
  fix IH 1. intros v.
  destruct v as [s|n|s|o|l|l|e|p|i|it|a|i|p|e|m|a|d|c|f|e|t|a|e|e|kv| |]; cbn [erase];
    rewrite ?Ty_, ?Dir, ?Arg_, ?Met, ?Con, ?Fie, ?IE, ?PE, ?It, ?Ai, ?Int, ?Par, ?Enu; try reflexivity.
  - f_equal. destruct o as [x|]; cbn; [rewrite IH|]; reflexivity.
  - f_equal. induction l as [|x l IHl]; cbn; [reflexivity|]. rewrite IH, IHl. reflexivity.
  - f_equal. induction l as [|x l IHl]; cbn; [reflexivity|]. rewrite IH, IHl. reflexivity.
  - f_equal. destruct e; reflexivity.
Qed.

Lemma et_dummy : et dummy = dummy.  Proof. reflexivity. Qed.
Lemma getarg_et args temps r : getarg (map et args) (map et temps) r = et (getarg args temps r).
Proof. destruct r; cbn; rewrite <- et_dummy at 1; apply map_nth. Qed.
Lemma evalloc_et args temps l : evalloc (map et args) (map et temps) 0 0 l = 0%N.
Proof. destruct l; cbn; try reflexivity; rewrite getarg_et; reflexivity. Qed.
Lemma vals_at_et args idx : vals_at (map et args) idx = map erase (vals_at args idx).
Proof.
  unfold vals_at. rewrite map_map. apply map_ext. intros i.
  change (0%N, VBad, 0%N) with (et (0%N, VBad, 0%N)) at 1. rewrite map_nth. reflexivity.
Qed.
Lemma is_panic_erase v : is_panic (erase v) = is_panic v.
Proof. destruct v; reflexivity. Qed.

Section Hom.
  Variable cx : ctx.
  Variable usig : utag -> list vty * vty.
  Variable table : list (N * adef).
  Notation valid := (valid cx).

  Hypothesis user_typed : forall loud u vs,
    Forall2 (has_type cx loud) (fst (usig u)) vs ->
    has_type cx (loud || errb (snd (user_fn u cx vs))) (snd (usig u)) (fst (user_fn u cx vs)).
  Hypothesis user_hom : forall loud u vs,
    Forall2 (has_type cx loud) (fst (usig u)) vs -> fst (user_fn u cx0 (map erase vs)) = erase (fst (user_fn u cx vs)).

  Definition ahom (f : afun) (af : list vty -> option vty) : Prop :=
    forall loud tys t lb la args, af tys = Some t -> valid lb -> valid la -> Forall2 (typed_triple cx loud) tys args ->
      fst (f cx0 0%N 0%N (map et args)) = erase (fst (f cx lb la args)).

  Lemma glue_hom loud g ts t vs lb la :
    aglue g ts = Some t -> Forall2 (has_type cx loud) ts vs -> run_glue g 0 0 (map erase vs) = erase (run_glue g lb la vs).
  Proof.
    intros H F.
    destruct g; destruct ts as [|t1 [|t2 [|t3 r]]]; cbn in H; try discriminate;
      repeat match goal with H : Forall2 _ (_ :: _) _ |- _ => inversion H; subst; clear H | H : Forall2 _ [] _ |- _ => inversion H; subst; clear H end;
      cbn [map run_glue]; try reflexivity.
    - (* GPush *) destruct t1; try discriminate.
      match goal with H : has_type _ _ (TVec _) ?v |- _ => destruct v; try contradiction end.
      cbn. rewrite map_app. reflexivity.
    - (* GPushOpt *) destruct t1; try discriminate. destruct t2; try discriminate.
      match goal with H : has_type _ _ (TVec _) ?v |- _ => destruct v; try contradiction end.
      match goal with H : has_type _ _ (TOpt _) ?v |- _ => destruct v; try contradiction end.
      destruct o; cbn; [rewrite map_app|]; reflexivity.
  Qed.

  Lemma run_steps_hom (call : N -> afun) (acall : N -> list vty -> option vty) :
    (forall n, afun_sound cx (call n) (acall n)) -> (forall n, ahom (call n) (acall n)) ->
    forall steps loud atys args lb la, Forall2 (typed_triple cx loud) atys args -> valid lb -> valid la ->
    forall ttys temps ds ds0 ttys', Forall2 (typed_triple cx (loud || errb ds)) ttys temps ->
      arun_steps acall atys ttys steps = Some ttys' ->
      fst (run_steps call cx0 0 0 (map et args) (map et temps) steps ds0) = map et (fst (run_steps call cx lb la args temps steps ds)).
  Proof.
    intros Hc Hh steps loud atys args lb la Fa Hlb Hla.
    induction steps as [|s rest IH]; intros ttys temps ds ds0 ttys' Ft H; cbn [arun_steps run_steps] in *; [reflexivity|].
    destruct (aloc_ok (length atys) (length ttys) (ws_start s) && aloc_ok (length atys) (length ttys) (ws_end s)) eqn:L; [|discriminate].
    apply andb_true_iff in L as [L1 L2].
    pose proof (Forall2_typed_lift cx loud (errb ds) _ _ Fa) as Fa'.
    pose proof (aloc_sound _ _ _ _ _ _ _ _ _ Fa' Ft Hlb Hla L1) as V1.
    pose proof (aloc_sound _ _ _ _ _ _ _ _ _ Fa' Ft Hlb Hla L2) as V2.
    rewrite !evalloc_et.
    set (st := evalloc args temps lb la (ws_start s)) in *. set (en := evalloc args temps lb la (ws_end s)) in *.
    destruct (ws_args s) as [l|] eqn:A.
    - destruct (all_some (map (agetarg atys ttys) l)) as [ts|] eqn:G; [|discriminate].
      destruct (acall (ws_callee s) ts) as [t|] eqn:C; [|discriminate].
      pose proof (agetargs_sound _ _ _ _ _ _ _ _ Fa' Ft G) as TA.
      pose proof (Hc (ws_callee s) _ ts t lb la _ C Hlb Hla TA) as T.
      pose proof (Hh (ws_callee s) _ ts t lb la _ C Hlb Hla TA) as E.
      replace (map (getarg (map et args) (map et temps)) l) with (map et (map (getarg args temps) l))
        by (rewrite map_map; apply map_ext; intros r; symmetry; apply getarg_et).
      destruct (call (ws_callee s) cx lb la (map (getarg args temps) l)) as [v d]. cbn [fst snd] in T, E.
      destruct (call (ws_callee s) cx0 0%N 0%N (map et (map (getarg args temps) l))) as [v0 d0]. cbn [fst] in E. subst v0.
      change [(0%N, erase v, 0%N)] with (map et [(st, v, en)]). rewrite <- map_app.
      apply IH with (ttys := ttys ++ [t]) (ttys' := ttys'); [|exact H].
      rewrite errb_app, orb_assoc.
      apply Forall2_app; [apply Forall2_typed_lift; exact Ft|]. constructor; [|constructor]. split; [exact V1|split; [exact V2|exact T]].
    - destruct (acall (ws_callee s) []) as [t|] eqn:C; [|discriminate].
      pose proof (Hc (ws_callee s) (loud || errb ds) [] t st en [] C V1 V2 (Forall2_nil _)) as T.
      pose proof (Hh (ws_callee s) (loud || errb ds) [] t st en [] C V1 V2 (Forall2_nil _)) as E. cbn [map] in E.
      destruct (call (ws_callee s) cx st en []) as [v d]. cbn [fst snd] in T, E.
      destruct (call (ws_callee s) cx0 0%N 0%N []) as [v0 d0]. cbn [fst] in E. subst v0.
      change [(0%N, erase v, 0%N)] with (map et [(st, v, en)]). rewrite <- map_app.
      apply IH with (ttys := ttys ++ [t]) (ttys' := ttys'); [|exact H].
      rewrite errb_app, orb_assoc.
      apply Forall2_app; [apply Forall2_typed_lift; exact Ft|]. constructor; [|constructor]. split; [exact V1|split; [exact V2|exact T]].
  Qed.

  Lemma existsb_panic_et temps : existsb (fun t => is_panic (tval t)) (map et temps) = existsb (fun t => is_panic (tval t)) temps.
  Proof. induction temps as [|x l IH]; cbn; [reflexivity|]. rewrite is_panic_erase, IH. reflexivity. Qed.

  Lemma run_wrapper_hom (call : N -> afun) (acall : N -> list vty -> option vty) w :
    (forall n, afun_sound cx (call n) (acall n)) -> (forall n, ahom (call n) (acall n)) ->
    ahom (run_wrapper call w) (arun_wrapper acall w).
  Proof.
    intros Hc Hh loud tys t lb la args H Hlb Hla Fa. unfold arun_wrapper in H. unfold run_wrapper.
    rewrite map_length. rewrite <- (Forall2_length _ _ _ Fa).
    destruct (Nat.eqb (length tys) (w_nargs w)); [|discriminate].
    destruct (arun_steps acall tys [] (w_steps w)) as [ttys|] eqn:S; [|discriminate].
    pose proof (run_steps_sound cx call acall Hc (w_steps w) loud tys args lb la Fa Hlb Hla [] [] [] ttys (Forall2_nil _) S) as Ft.
    pose proof (run_steps_hom call acall Hc Hh (w_steps w) loud tys args lb la Fa Hlb Hla [] [] [] [] ttys (Forall2_nil _) S) as Eh.
    cbn [map] in Eh.
    destruct (run_steps call cx lb la args [] (w_steps w) []) as [temps ds]. cbn [fst snd] in Ft, Eh.
    destruct (run_steps call cx0 0%N 0%N (map et args) [] (w_steps w) []) as [temps0 ds0]. cbn [fst] in Eh. subst temps0.
    rewrite existsb_panic_et, (typed_not_panic cx _ _ _ Ft).
    destruct (all_some (map (agetarg tys ttys) (w_final_args w))) as [ts|] eqn:G; [|discriminate].
    pose proof (Forall2_typed_lift cx loud (errb ds) _ _ Fa) as Fa'.
    pose proof (agetargs_sound _ _ _ _ _ _ _ _ Fa' Ft G) as TA.
    pose proof (Hh (w_final w) _ ts t lb la _ H Hlb Hla TA) as E.
    replace (map (getarg (map et args) (map et temps)) (w_final_args w)) with (map et (map (getarg args temps) (w_final_args w)))
      by (rewrite map_map; apply map_ext; intros r; symmetry; apply getarg_et).
    destruct (call (w_final w) cx lb la (map (getarg args temps) (w_final_args w))) as [v d].
    destruct (call (w_final w) cx0 0%N 0%N (map et (map (getarg args temps) (w_final_args w)))) as [v0 d0]. exact E.
  Qed.

  Theorem eval_hom fuel : forall n, ahom (eval_action table fuel n) (ainfer usig table fuel n).
  Proof.
    induction fuel as [|fuel IH]; intros n loud tys t lb la args H Hlb Hla Fa; cbn [ainfer eval_action] in *; [discriminate|].
    destruct (lookup_action n table) as [[g nargs idx|u nargs idx|w]|] eqn:L; try discriminate.
    - rewrite map_length. rewrite <- (Forall2_length _ _ _ Fa). destruct (Nat.eqb (length tys) nargs); [|discriminate].
      destruct (tys_at tys idx) as [ts|] eqn:T; [|discriminate]. cbn [fst]. rewrite vals_at_et.
      eapply glue_hom; eauto. eapply tys_at_vals; eauto.
    - rewrite map_length. rewrite <- (Forall2_length _ _ _ Fa). destruct (Nat.eqb (length tys) nargs); [|discriminate].
      destruct (tys_at tys idx) as [ts|] eqn:T; [|discriminate].
      destruct (forallb2 sub ts (fst (usig u))) eqn:S; [|discriminate]. rewrite vals_at_et.
      apply (user_hom loud). eapply forallb2_sub; [exact S|]. eapply tys_at_vals; eauto.
    - eapply run_wrapper_hom; eauto. intros m. apply ainfer_sound. exact user_typed.
  Qed.
End Hom.
