(* the words no identifier may be (C03): the AIDL keywords and the reserved Java/C++ words the property names,
   and what a tree looks like when none of its user-chosen identifiers is one of them *)
From AidlV Require Import Model.Actions Gen.LrTables.

Fixpoint index_of (n : string) (l : list string) (i : N) : option N :=
  match l with [] => None | x :: l' => if String.eqb x n then Some i else index_of n l' (N.succ i) end.
Definition ident_col : N := match index_of "IDENT" gen_terminals 0 with Some c => c | None => 0 end.

Definition named_words : list str := map lit
  ["package"; "import"; "interface"; "parcelable"; "enum"; "oneway"; "const"; "in"; "out"; "inout"; "void";
   "byte"; "short"; "int"; "long"; "float"; "double"; "boolean"; "char"; "String"; "CharSequence"; "List"; "Map";
   "true"; "false";
   "break"; "case"; "catch"; "class"; "continue"; "default"; "do"; "else"; "for"; "goto"; "if"; "new"; "private";
   "protected"; "public"; "return"; "static"; "switch"; "this"; "throw"; "try"; "volatile"; "while"]%string.

Definition ident_ok (s : str) : Prop := ~ In s named_words.
Definition oident_ok (o : option str) : Prop := match o with Some s => ident_ok s | None => True end.

(* dotted names as the grammar's actions build them from identifiers *)
Definition path_ok (s : str) : Prop := exists segs, Forall ident_ok segs /\ s = join_dot segs.
Definition qualified_ok (s : str) : Prop :=
  exists segs name, Forall ident_ok segs /\ ident_ok name /\
                    s = match segs with [] => name | _ => join_dot segs ++ dotc :: name end.

(* user type references (unresolved at the parse stage) carry dotted identifier names, at any depth *)
Fixpoint ty_ok (t : ty) : Prop :=
  match t with
  | Ty n k g _ _ =>
      (k = KUnresolved -> qualified_ok n) /\
      (fix all (l : list ty) : Prop := match l with [] => True | x :: r => ty_ok x /\ all r end) g
  end.

Definition annot_ok (a : annotation) : Prop := Forall (fun kv => ident_ok (fst kv)) (an_kvs a).
Definition annots_ok (l : list annotation) : Prop := Forall annot_ok l.
Definition arg_ok (a : arg) : Prop := oident_ok (a_name a) /\ ty_ok (a_ty a) /\ annots_ok (a_annots a).
Definition method_ok (m : method) : Prop :=
  ident_ok (m_name m) /\ ty_ok (m_ret m) /\ Forall arg_ok (m_args m) /\ annots_ok (m_annots m).
Definition const_ok (c : const) : Prop := ident_ok (c_name c) /\ ty_ok (c_ty c) /\ annots_ok (c_annots c).
Definition field_ok (f : field) : Prop := ident_ok (f_name f) /\ ty_ok (f_ty f) /\ annots_ok (f_annots f).
Definition ee_ok (e : enum_elem) : Prop := ident_ok (ee_name e).
Definition ie_ok (e : iface_elem) : Prop := match e with IEConst c => const_ok c | IEMethod m => method_ok m end.
Definition pe_ok (e : parc_elem) : Prop := match e with PEConst c => const_ok c | PEField f => field_ok f end.
Definition interface_ok (i : interface) : Prop := ident_ok (i_name i) /\ Forall ie_ok (i_elems i) /\ annots_ok (i_annots i).
Definition parcelable_ok (p : parcelable) : Prop := ident_ok (pc_name p) /\ Forall pe_ok (pc_elems p) /\ annots_ok (pc_annots p).
Definition enum_ok (e : enum) : Prop := ident_ok (e_name e) /\ Forall ee_ok (e_elems e) /\ annots_ok (e_annots e).
Definition item_ok (it : item) : Prop :=
  match it with ItInterface i => interface_ok i | ItParcelable p => parcelable_ok p | ItEnum e => enum_ok e end.
Definition package_ok (p : package) : Prop := qualified_ok (pk_name p).
Definition import_ok (i : import) : Prop := path_ok (im_path i) /\ ident_ok (im_name i).
Definition aidl_ok (a : aidl) : Prop :=
  package_ok (ai_package a) /\ Forall import_ok (ai_imports a) /\ Forall import_ok (ai_declared a) /\ item_ok (ai_item a).

Definition sem_names_ok (v : sem) : Prop :=
  match v with
  | VAidl a => aidl_ok a | VPackage p => package_ok p | VImport i => import_ok i | VItem it => item_ok it
  | VInterface i => interface_ok i | VParcelable p => parcelable_ok p | VEnum e => enum_ok e
  | VMethod m => method_ok m | VArg a => arg_ok a | VConst c => const_ok c | VField f => field_ok f
  | VEnumElem e => ee_ok e | VType t => ty_ok t | VAnnotation a => annot_ok a
  | VIE e => ie_ok e | VPE e => pe_ok e | VKV kv => ident_ok (fst kv)
  | _ => True
  end.
