(* C04, for every stored tree and diagnostic: every position in it was produced by the lookup on a character boundary of
   the text, and carries the lookup's line and column.  A plain invariant of the values on the parser's stack: no typing
   needed -- whatever an action is applied to, the ranges it stores come from Range::new or from its arguments. *)
From Coq Require Import ZArith.
From AidlV Require Import Model.LrDriver Proofs.Totality.

Section Ranges.
  Variable cx : ctx.

  Definition pos_ok (p : pos) : Prop :=
    exists i, char_index (cx_src cx) (p_off p) O = Some i /\ nth_error (cx_lc cx) i = Some (p_line p, p_col p).
  Definition rng_ok (r : range) : Prop := pos_ok (r_start r) /\ pos_ok (r_end r).

  Lemma mk_range_ok s e r : mk_range cx s e = Some r -> rng_ok r.
  Proof.
    unfold mk_range. destruct (mk_pos cx s) as [p1|] eqn:E1; [|discriminate]. destruct (mk_pos cx e) as [p2|] eqn:E2; [|discriminate].
    intros H; inversion H; subst. split; cbn.
    - destruct (mk_pos_sound _ _ _ E1) as [A [i [C D]]]. exists i. rewrite A. auto.
    - destruct (mk_pos_sound _ _ _ E2) as [A [i [C D]]]. exists i. rewrite A. auto.
  Qed.

  Fixpoint ty_rok (t : ty) : Prop :=
    match t with
    | Ty _ _ g s f => rng_ok s /\ rng_ok f /\ (fix all (l : list ty) : Prop := match l with [] => True | x :: r => ty_rok x /\ all r end) g
    end.
  Definition dir_rok (d : direction) : Prop :=
    match d with DIn r | DOut r | DInOut r => rng_ok r | DUnspecified => True end.
  Definition arg_rok (a : arg) : Prop := dir_rok (a_dir a) /\ ty_rok (a_ty a) /\ rng_ok (a_sym a) /\ rng_ok (a_full a).
  Definition method_rok (m : method) : Prop :=
    ty_rok (m_ret m) /\ Forall arg_rok (m_args m) /\ rng_ok (m_sym m) /\ rng_ok (m_full m) /\ rng_ok (m_code_range m) /\ rng_ok (m_oneway_range m).
  Definition const_rok (c : const) : Prop := ty_rok (c_ty c) /\ rng_ok (c_sym c) /\ rng_ok (c_full c).
  Definition field_rok (f : field) : Prop := ty_rok (f_ty f) /\ rng_ok (f_sym f) /\ rng_ok (f_full f).
  Definition ee_rok (e : enum_elem) : Prop := rng_ok (ee_sym e) /\ rng_ok (ee_full e).
  Definition ie_rok (e : iface_elem) : Prop := match e with IEConst c => const_rok c | IEMethod m => method_rok m end.
  Definition pe_rok (e : parc_elem) : Prop := match e with PEConst c => const_rok c | PEField f => field_rok f end.
  Definition interface_rok (i : interface) : Prop := Forall ie_rok (i_elems i) /\ rng_ok (i_full i) /\ rng_ok (i_sym i).
  Definition parcelable_rok (p : parcelable) : Prop := Forall pe_rok (pc_elems p) /\ rng_ok (pc_full p) /\ rng_ok (pc_sym p).
  Definition enum_rok (e : enum) : Prop := Forall ee_rok (e_elems e) /\ rng_ok (e_full e) /\ rng_ok (e_sym e).
  Definition item_rok (it : item) : Prop :=
    match it with ItInterface i => interface_rok i | ItParcelable p => parcelable_rok p | ItEnum e => enum_rok e end.
  Definition package_rok (p : package) : Prop := rng_ok (pk_sym p) /\ rng_ok (pk_full p).
  Definition import_rok (i : import) : Prop := rng_ok (im_sym i) /\ rng_ok (im_full i).
  Definition aidl_rok (a : aidl) : Prop :=
    package_rok (ai_package a) /\ Forall import_rok (ai_imports a) /\ Forall import_rok (ai_declared a) /\ item_rok (ai_item a).

  Definition diag_rok (d : diag) : Prop := rng_ok (d_range d) /\ Forall rng_ok (d_related d).

  Fixpoint vr_ok (v : sem) : Prop :=
    match v with
    | VOpt (Some x) => vr_ok x
    | VVec l | VTuple l => (fix all (l : list sem) : Prop := match l with [] => True | x :: r => vr_ok x /\ all r end) l
    | VAidl a => aidl_rok a | VPackage p => package_rok p | VImport i => import_rok i | VItem it => item_rok it
    | VInterface i => interface_rok i | VParcelable p => parcelable_rok p | VEnum e => enum_rok e
    | VMethod m => method_rok m | VArg a => arg_rok a | VDirection d => dir_rok d | VConst c => const_rok c | VField f => field_rok f
    | VEnumElem e => ee_rok e | VType t => ty_rok t | VIE e => ie_rok e | VPE e => pe_rok e
    | _ => True
    end.

  Lemma vr_vec l : vr_ok (VVec l) <-> Forall vr_ok l.
  Proof.
    cbn. induction l as [|x l IH]; [split; intros; constructor|]. split.
    - intros [H1 H2]. constructor; [exact H1|apply IH; exact H2].
    - intros H. inversion H; subst. split; [assumption|apply IH; assumption].
  Qed.
  Lemma vr_tuple l : vr_ok (VTuple l) <-> Forall vr_ok l.
  Proof. exact (vr_vec l). Qed.

  (* what an action returns: a value and the diagnostics it pushed *)
  Definition res_ok (r : res) : Prop := vr_ok (fst r) /\ Forall diag_rok (snd r).

  Lemma ok_res v : vr_ok v -> res_ok (ok v).  Proof. intros H. split; [exact H|constructor]. Qed.
  Lemma bad_res : res_ok bad.  Proof. split; [exact I|constructor]. Qed.
  Lemma panic_res : res_ok panic.  Proof. split; [exact I|constructor]. Qed.

  Lemma with_range_res s e k : (forall r, rng_ok r -> res_ok (k r)) -> res_ok (with_range cx s e k).
  Proof.
    intros H. unfold with_range. destruct s; try apply bad_res. destruct e; try apply bad_res.
    destruct (mk_range cx n n0) as [r|] eqn:E; [apply H; eapply mk_range_ok; eauto|apply panic_res].
  Qed.
  Lemma with_doc_res p k : (forall d, res_ok (k d)) -> res_ok (with_doc cx p k).
  Proof. intros H. unfold with_doc. destruct p; try apply bad_res. destruct (get_javadoc (cx_src cx) n); [apply H|apply panic_res]. Qed.

  Lemma all_of_rok {X} (f : sem -> option X) (Q : X -> Prop) :
    (forall v x, f v = Some x -> vr_ok v -> Q x) -> forall l r, all_of f l = Some r -> Forall vr_ok l -> Forall Q r.
  Proof.
    intros Hf. induction l as [|v l IH]; intros r H F; cbn in H; [inversion H; constructor|].
    destruct (f v) as [x|] eqn:E; [|discriminate]. destruct (all_of f l) as [r'|]; [|discriminate]. inversion H; subst.
    inversion F; subst. constructor; [eapply Hf; eauto|apply IH; auto].
  Qed.
  Lemma flatten_rok {X} (f : sem -> option X) (Q : X -> Prop) :
    (forall v x, f v = Some x -> vr_ok v -> Q x) -> forall l r, flatten_opts f l = Some r -> Forall vr_ok l -> Forall Q r.
  Proof.
    intros Hf. induction l as [|v l IH]; intros r H F; cbn in H; [inversion H; constructor|].
    inversion F as [|? ? Fv Fl]; subst. destruct v; try discriminate. destruct o as [x|].
    - destruct (f x) as [y|] eqn:E; [|discriminate]. destruct (flatten_opts f l) as [r'|]; [|discriminate]. inversion H; subst.
      constructor; [eapply Hf; eauto|apply IH; auto].
    - apply IH; auto.
  Qed.

  Lemma diag_of_error_rok e d : diag_of_error cx e = Some d -> diag_rok d.
  Proof.
    destruct e; cbn [diag_of_error]; intros H.
    all: match type of H with option_map _ (mk_range cx ?a ?b) = _ => destruct (mk_range cx a b) as [r|] eqn:E; [|discriminate] end;
      inversion H; subst; split; [eapply mk_range_ok; eauto|constructor].
  Qed.
  Lemma act_err_res label e : res_ok (act_err label cx e).
  Proof.
    unfold act_err. destruct e; try apply bad_res. unfold diag_of_recovery.
    destruct (diag_of_error cx e) as [d|] eqn:E; cbn [option_map]; [|apply panic_res].
    split; [exact I|]. constructor; [|constructor]. destruct (diag_of_error_rok _ _ E) as [A B]. split; assumption.
  Qed.

  (* ---- every user action ---- *)
  Ltac step :=
    first [ apply with_range_res; intros ? ?
          | apply with_doc_res; intros ?
          | apply bad_res | apply panic_res
          | match goal with |- res_ok (match ?x with _ => _ end) => destruct x eqn:? end
          | match goal with |- res_ok (if ?x then _ else _) => destruct x eqn:? end ].
  Ltac unf := unfold aidl_rok, package_rok, import_rok, item_rok, interface_rok, parcelable_rok, enum_rok, method_rok, arg_rok,
                   const_rok, field_rok, ee_rok, ie_rok, pe_rok in *.
  Ltac fin := apply ok_res; cbn -[rng_ok] in *; unf; cbn -[rng_ok] in *; tauto.
  Ltac args F := repeat match goal with H : Forall vr_ok (_ :: _) |- _ => inversion H; subst; clear H end.

  Lemma as_ie_rok v x : as_ie v = Some x -> vr_ok v -> ie_rok x.  Proof. destruct v; cbn; intros H; inversion H; subst; auto. Qed.
  Lemma as_pe_rok v x : as_pe v = Some x -> vr_ok v -> pe_rok x.  Proof. destruct v; cbn; intros H; inversion H; subst; auto. Qed.
  Lemma as_ee_rok v x : as_ee v = Some x -> vr_ok v -> ee_rok x.  Proof. destruct v; cbn; intros H; inversion H; subst; auto. Qed.
  Lemma as_arg_rok v x : as_arg v = Some x -> vr_ok v -> arg_rok x.  Proof. destruct v; cbn; intros H; inversion H; subst; auto. Qed.
  Lemma as_import_rok v x : as_import v = Some x -> vr_ok v -> import_rok x.  Proof. destruct v; cbn; intros H; inversion H; subst; auto. Qed.

  Lemma method_finish_res a b c d e f g h mk ds :
    (forall r1 r2 r3 r4, rng_ok r1 -> rng_ok r2 -> rng_ok r3 -> rng_ok r4 -> method_rok (mk r1 r2 r3 r4)) -> Forall diag_rok ds ->
    res_ok (method_finish cx a b c d e f g h mk ds).
  Proof.
    intros Hmk Hd. unfold method_finish.
    assert (R : res_ok (with_range cx a b (fun fr => with_range cx c d (fun sr => with_range cx e f (fun cr =>
                  with_range cx g h (fun owr => ok (VMethod (mk sr fr cr owr)))))))).
    { repeat step. apply ok_res. cbn. apply Hmk; assumption. }
    destruct (with_range cx a b _) as [r x]. split; [exact (proj1 R)|exact Hd].
  Qed.

  Theorem user_res u vs : Forall vr_ok vs -> res_ok (user_fn u cx vs).
  Proof.
    intros F. destruct u; cbn [user_fn];
      repeat match goal with |- res_ok (match ?l with _ => _ end) => destruct l as [|? ?]; try apply bad_res end;
      args F; try (apply ok_res; exact I).
    - (* OptAidl *) unfold act_OptAidl. repeat step. apply ok_res.
      repeat match goal with H : vr_ok (VVec _) |- _ => apply vr_vec in H end.
      cbn [vr_ok]. unfold aidl_rok. cbn [ai_package ai_imports ai_declared ai_item].
      split; [assumption|]. split; [eapply all_of_rok; eauto; exact as_import_rok|]. split; [eapply all_of_rok; eauto; exact as_import_rok|assumption].
    - unfold act_Package. repeat step. fin.
    - unfold act_Import. repeat step. fin.
    - unfold act_QualifiedName. repeat step; apply ok_res; exact I.
    - unfold act_ItemInterface. repeat step. fin.
    - unfold act_ItemParcelable. repeat step. fin.
    - unfold act_ItemEnum. repeat step. fin.
    - apply act_err_res.
    - (* Interface *) unfold act_Interface. repeat step. apply ok_res.
      repeat match goal with H : vr_ok (VVec _) |- _ => apply vr_vec in H end.
      cbn [vr_ok]. unfold interface_rok. cbn [i_elems i_full i_sym].
      split; [eapply flatten_rok; eauto; exact as_ie_rok|split; assumption].
    - unfold act_IEMethod. repeat step. fin.
    - unfold act_IEConst. repeat step. fin.
    - apply act_err_res.
    - (* Parcelable *) unfold act_Parcelable. repeat step. apply ok_res.
      repeat match goal with H : vr_ok (VVec _) |- _ => apply vr_vec in H end.
      cbn [vr_ok]. unfold parcelable_rok. cbn [pc_elems pc_full pc_sym].
      split; [eapply flatten_rok; eauto; exact as_pe_rok|split; assumption].
    - unfold act_PEField. repeat step. fin.
    - unfold act_PEConst. repeat step. fin.
    - apply act_err_res.
    - (* Enum *) unfold act_Enum. repeat step. apply ok_res.
      repeat match goal with H : vr_ok (VVec _) |- _ => apply vr_vec in H end.
      cbn [vr_ok]. unfold enum_rok. cbn [e_elems e_full e_sym].
      split; [eapply flatten_rok; eauto; exact as_ee_rok|split; assumption].
    - unfold act_SomeEnumElement. repeat step. fin.
    - apply act_err_res.
    - (* Method *) unfold act_Method.
      repeat match goal with
             | |- res_ok (with_doc _ _ _) => fail 1
             | _ => step
             end.
      apply with_doc_res. intros doc.
      repeat match goal with H : vr_ok (VVec _) |- _ => apply vr_vec in H end.
      assert (AL : Forall arg_rok l1) by (eapply all_of_rok; eauto; exact as_arg_rok).
      assert (MK : forall code r1 r2 r3 r4, rng_ok r1 -> rng_ok r2 -> rng_ok r3 -> rng_ok r4 ->
                     method_rok (Method b s14 t l1 l code doc r1 r2 r3 r4)).
      { intros. unfold method_rok. cbn -[rng_ok]. subst. cbn -[rng_ok] in *. tauto. }
      repeat match goal with
             | |- res_ok (method_finish _ _ _ _ _ _ _ _ _ _ _) => fail 1
             | _ => step
             end;
        try (apply method_finish_res; [intros; apply MK; assumption|]); try constructor; try constructor.
      eapply mk_range_ok; eauto. constructor.
    - unfold act_Arg. repeat step. fin.
    - unfold act_Direction. repeat step; fin.
    - unfold act_Const. repeat step. fin.
    - unfold act_Field. repeat step. fin.
    - unfold act_EnumElement. repeat step. fin.
    - unfold act_TypeVoid, simple_type. repeat step. fin.
    - unfold act_TypePrimitive, simple_type. repeat step. fin.
    - unfold act_TypeString, simple_type. repeat step. fin.
    - unfold act_TypeCharSequence, simple_type. repeat step. fin.
    - unfold act_TypeArray. repeat step. fin.
    - unfold act_TypeList. repeat step. fin.
    - unfold act_TypeRawList. repeat step. fin.
    - unfold act_TypeMap. repeat step. fin.
    - unfold act_TypeRawMap. repeat step. fin.
    - unfold act_TypeCustom. repeat step. fin.
    - unfold act_AnnotationList. repeat step. apply ok_res. apply vr_vec. clear. induction l0; constructor; [exact I|assumption].
    - unfold act_OptAnnotation. repeat step; apply ok_res; exact I.
    - unfold act_AnnotationParam. repeat step; apply ok_res; exact I.
    - unfold act_ValueToString. repeat step; apply ok_res; exact I.
    - unfold act_ValueDotted. repeat step; apply ok_res; exact I.
  Qed.
End Ranges.

(* ---- generated actions: glue, wrappers, the action table ---- *)
Section RangesRun.
  Variable cx : ctx.
  Notation vr_ok := (vr_ok cx).
  Notation res_ok := (res_ok cx).
  Definition tr_ok (x : triple) : Prop := vr_ok (tval x).

  Lemma glue_vr g lb la vs : Forall vr_ok vs -> vr_ok (run_glue g lb la vs).
  Proof.
    intros F. destruct g; destruct vs as [|a [|b [|c r]]]; cbn [run_glue]; try exact I;
      repeat match goal with H : Forall _ (_ :: _) |- _ => inversion H; subst; clear H end; try assumption.
    - apply vr_vec. constructor; [assumption|constructor].
    - unfold vec_push. destruct a; try exact I. apply vr_vec. apply Forall_app. split; [apply vr_vec; assumption|constructor; [assumption|constructor]].
    - unfold vec_push_opt. destruct a; try exact I. destruct b; try exact I. destruct o; [|assumption].
      apply vr_vec. apply Forall_app. split; [apply vr_vec; assumption|constructor; [assumption|constructor]].
    - apply vr_tuple. constructor; [assumption|constructor; [assumption|constructor]].
  Qed.

  Lemma nth_tr_ok l i : Forall tr_ok l -> tr_ok (nth i l dummy).
  Proof. intros F. revert i. induction F as [|x l Hx F IH]; intros [|i]; cbn; auto; exact I. Qed.
  Lemma getarg_ok args temps r : Forall tr_ok args -> Forall tr_ok temps -> tr_ok (getarg args temps r).
  Proof. intros Fa Ft. destruct r; cbn; apply nth_tr_ok; assumption. Qed.
  Lemma getargs_ok args temps l : Forall tr_ok args -> Forall tr_ok temps -> Forall tr_ok (map (getarg args temps) l).
  Proof. intros Fa Ft. induction l; constructor; [apply getarg_ok; assumption|assumption]. Qed.
  Lemma vals_at_ok args idx : Forall tr_ok args -> Forall vr_ok (vals_at args idx).
  Proof. intros F. unfold vals_at. induction idx; constructor; [apply (nth_tr_ok args a F)|assumption]. Qed.

  Definition afun_ok (f : afun) : Prop := forall lb la args, Forall tr_ok args -> res_ok (f cx lb la args).

  Lemma run_steps_ok (call : N -> afun) : (forall n, afun_ok (call n)) ->
    forall steps lb la args temps ds, Forall tr_ok args -> Forall tr_ok temps -> Forall (diag_rok cx) ds ->
      Forall tr_ok (fst (run_steps call cx lb la args temps steps ds)) /\ Forall (diag_rok cx) (snd (run_steps call cx lb la args temps steps ds)).
  Proof.
    intros Hc. induction steps as [|s rest IH]; intros lb la args temps ds Fa Ft Fd; cbn [run_steps]; [auto|].
    assert (R : res_ok (match ws_args s with
                        | None => call (ws_callee s) cx (evalloc args temps lb la (ws_start s)) (evalloc args temps lb la (ws_end s)) []
                        | Some l => call (ws_callee s) cx lb la (map (getarg args temps) l) end)).
    { destruct (ws_args s); apply Hc; [apply getargs_ok; assumption|constructor]. }
    destruct (match ws_args s with None => _ | Some l => _ end) as [v d]. destruct R as [Rv Rd]. cbn [fst snd] in Rv, Rd.
    apply IH; [assumption| |apply Forall_app; auto]. apply Forall_app. split; [assumption|constructor; [exact Rv|constructor]].
  Qed.

  Lemma run_wrapper_ok (call : N -> afun) w : (forall n, afun_ok (call n)) -> afun_ok (run_wrapper call w).
  Proof.
    intros Hc lb la args Fa. unfold run_wrapper. destruct (Nat.eqb (length args) (w_nargs w)); [|apply bad_res].
    destruct (run_steps_ok call Hc (w_steps w) lb la args [] [] Fa (Forall_nil _) (Forall_nil _)) as [Ft Fd].
    destruct (run_steps call cx lb la args [] (w_steps w) []) as [temps ds]. cbn [fst snd] in Ft, Fd.
    destruct (existsb (fun t => is_panic (tval t)) temps); [split; [exact I|exact Fd]|].
    pose proof (Hc (w_final w) lb la _ (getargs_ok args temps (w_final_args w) Fa Ft)) as [Rv Rd].
    destruct (call (w_final w) cx lb la (map (getarg args temps) (w_final_args w))) as [v d].
    split; [exact Rv|apply Forall_app; auto].
  Qed.

  Theorem eval_ok table fuel : forall n, afun_ok (eval_action table fuel n).
  Proof.
    induction fuel as [|fuel IH]; intros n lb la args Fa; cbn [eval_action]; [apply bad_res|].
    destruct (lookup_action n table) as [[g nargs idx|u nargs idx|w]|]; [| | |apply bad_res].
    - destruct (Nat.eqb (length args) nargs); [|apply bad_res]. split; [apply glue_vr; apply vals_at_ok; assumption|constructor].
    - destruct (Nat.eqb (length args) nargs); [|apply bad_res]. apply user_res. apply vals_at_ok. assumption.
    - apply run_wrapper_ok; [exact IH|assumption].
  Qed.

  (* ---- the driver ---- *)
  Definition inv (p : pst) : Prop := Forall tr_ok (ps_syms p) /\ Forall (diag_rok cx) (ps_diags p).
  Definition oinv (p : pst) (o : outcome3) : Prop := inv p /\ match o with Done v => vr_ok v | _ => True end.

  Lemma Forall_firstn {A} (P : A -> Prop) n l : Forall P l -> Forall P (firstn n l).
  Proof. revert l. induction n; intros l F; [constructor|]. destruct F; cbn; constructor; auto. Qed.
  Lemma Forall_skipn {A} (P : A -> Prop) n l : Forall P l -> Forall P (skipn n l).
  Proof. revert l. induction n; intros l F; [exact F|]. destruct F; cbn; auto. Qed.

  Lemma reduce_inv p idx la : inv p ->
    match reduce cx p idx la with RCont p' => inv p' | RAccept p' v => inv p' /\ vr_ok v | RPanic p' => inv p' end.
  Proof.
    intros [Fs Fd]. unfold reduce. destruct (production idx) as [[[k nt] act] kind].
    match goal with |- context [gen_action act cx ?a ?b ?c] => pose proof (eval_ok gen_actions action_fuel act a b c) as R end.
    match type of R with ?H -> _ => assert (HH : H) by (apply Forall_rev; apply Forall_firstn; exact Fs); specialize (R HH) end.
    unfold gen_action in *.
    destruct (eval_action gen_actions action_fuel act cx _ _ _) as [v ds]. destruct R as [Rv Rd]. cbn [fst snd] in Rv, Rd.
    assert (I1 : forall a b c d e, inv (PSt a (skipn k (ps_syms p)) b c d e) <-> Forall (diag_rok cx) e).
    { intros. unfold inv. cbn. split; [tauto|]. intros H. split; [apply Forall_skipn; exact Fs|exact H]. }
    assert (Fd' : Forall (diag_rok cx) (ps_diags p ++ ds)) by (apply Forall_app; auto).
    destruct v; first [apply I1; exact Fd' | (destruct (N.eqb kind 2);
      [split; [apply I1; exact Fd'|exact Rv]
      |split; [cbn [ps_syms]; constructor; [exact Rv|apply Forall_skipn; exact Fs]|exact Fd']])].
  Qed.

  Lemma error_reductions_inv la : forall fuel p, inv p ->
    match error_reductions cx fuel p la with RCont p' => inv p' | RAccept p' v => inv p' /\ vr_ok v | RPanic p' => inv p' end.
  Proof.
    induction fuel as [|fuel IH]; intros p Hp; cbn [error_reductions]; [exact Hp|].
    destruct (as_reduce (error_action_at (top_state p))) as [r|]; [|exact Hp].
    pose proof (reduce_inv p r la Hp) as R. destruct (reduce cx p r la) as [p'|p' v|p']; [apply IH; exact R|exact R|exact R].
  Qed.

  Lemma next_tok_inv p : inv p ->
    match next_tok p with Found p' _ _ _ _ => inv p' | AtEof p' => inv p' | Stop p' r => oinv p' r end.
  Proof.
    intros Hp. unfold next_tok. destruct (lex1 (ps_rest p) (ps_off p)); [|exact Hp|split; [exact Hp|exact I]].
    destruct (gen_token_to_integer idx); [exact Hp|split; [exact Hp|exact I]].
  Qed.

  Definition rinv (r : recovered) : Prop :=
    match r with RecFound p' _ _ _ _ => inv p' | RecEof p' => inv p' | RecStop p' o => oinv p' o end.

  Lemma recover_loop_inv error n : forall fuel p la dropped, inv p -> rinv (recover_loop fuel p error la dropped n).
  Proof.
    induction fuel as [|fuel IH]; intros p la dropped Hp; cbn [recover_loop]; [split; [exact Hp|exact I]|].
    destruct (find_recover (ps_states p) (option_map (fun x => snd x) la)) as [top|].
    - match goal with |- context [as_shift ?x] => destruct (as_shift x) as [es|] end; [|split; [exact Hp|exact I]].
      assert (Q : forall a b c, inv (PSt a ((b, VErr error, c) :: rev (firstn top (rev (ps_syms p)))) (ps_last p) (ps_rest p) (ps_off p) (ps_diags p))).
      { intros. destruct Hp as [Fs Fd]. split; [|exact Fd]. cbn [ps_syms]. constructor; [exact I|].
        apply Forall_rev. apply Forall_firstn. apply Forall_rev. exact Fs. }
      destruct la as [[[[s t] e] col]|]; apply Q.
    - destruct la as [[[[s t] e] col]|]; [|split; [exact Hp|exact I]].
      pose proof (next_tok_inv p Hp) as N. destruct (next_tok p) as [p' ? ? ? ?|p'|p' r]; [apply IH; exact N|apply IH; exact N|].
      exact N.
  Qed.

  Lemma error_recovery_inv p la : inv p -> rinv (error_recovery cx p la).
  Proof.
    intros Hp. unfold error_recovery.
    match goal with |- context [error_reductions cx reduce_fuel p ?l] => pose proof (error_reductions_inv l reduce_fuel p Hp) as R;
      destruct (error_reductions cx reduce_fuel p l) as [p'|p' v|p'] end.
    - apply recover_loop_inv. exact R.
    - exact R.
    - split; [exact R|exact I].
  Qed.

  Lemma parse_eof_inv : forall fuel p, inv p -> oinv (fst (parse_eof cx fuel p)) (snd (parse_eof cx fuel p)).
  Proof.
    induction fuel as [|fuel IH]; intros p Hp; cbn [parse_eof]; [split; [exact Hp|exact I]|].
    destruct (as_reduce (eof_action_at (top_state p))) as [r|].
    - pose proof (reduce_inv p r None Hp) as R. destruct (reduce cx p r None) as [p'|p' v|p']; [apply IH; exact R|exact R|split; [exact R|exact I]].
    - pose proof (error_recovery_inv p None Hp) as R.
      destruct (error_recovery cx p None) as [p' ? ? ? ?|p'|p' r]; [split; [exact R|exact I]|apply IH; exact R|exact R].
  Qed.

  Definition winv (x : pst * option outcome3 * bool) : Prop :=
    match x with (p', Some r, _) => oinv p' r | (p', None, _) => inv p' end.

  Lemma with_lookahead_inv : forall fuel p s text e col, inv p -> winv (with_lookahead cx fuel p s text e col).
  Proof.
    induction fuel as [|fuel IH]; intros p s text e col Hp; cbn [with_lookahead]; [split; [exact Hp|exact I]|].
    destruct (as_shift (action_at (top_state p) col)) as [target|].
    - destruct Hp as [Fs Fd]. split; [|exact Fd]. cbn [ps_syms]. constructor; [exact I|exact Fs].
    - destruct (as_reduce (action_at (top_state p) col)) as [r|].
      + pose proof (reduce_inv p r (Some s) Hp) as R.
        destruct (reduce cx p r (Some s)) as [p'|p' v|p']; [apply IH; exact R|split; [exact (proj1 R)|exact I]|split; [exact R|exact I]].
      + pose proof (error_recovery_inv p (Some (s, text, e, col)) Hp) as R.
        destruct (error_recovery cx p (Some (s, text, e, col))) as [p' ? ? ? ?|p'|p' r]; [apply IH; exact R|exact R|exact R].
  Qed.

  Lemma parse_loop_inv : forall fuel p, inv p -> oinv (fst (parse_loop cx fuel p)) (snd (parse_loop cx fuel p)).
  Proof.
    induction fuel as [|fuel IH]; intros p Hp; cbn [parse_loop]; [split; [exact Hp|exact I]|].
    pose proof (next_tok_inv p Hp) as N. destruct (next_tok p) as [p' s t e col|p'|p' r]; [|apply parse_eof_inv; exact N|exact N].
    pose proof (with_lookahead_inv reduce_fuel p' s t e col N) as W.
    destruct (with_lookahead cx reduce_fuel p' s t e col) as [[p'' [r|]] b]; cbn [winv] in W; [exact W|].
    destruct b; [apply IH; exact W|apply parse_eof_inv; exact W].
  Qed.

  (* every position of everything add_content stores comes from the lookup on a character boundary *)
  Theorem add_content_ranges id fr : add_content cx id = Added fr ->
    Forall (diag_rok cx) (fr_diags fr) /\ (forall a, fr_ast fr = Some a -> aidl_rok cx a).
  Proof.
    unfold add_content, parse.
    pose proof (parse_loop_inv (S (length (cx_src cx))) (PSt [0%N] [] 0%N (cx_src cx) 0%N []) (conj (Forall_nil _) (Forall_nil _))) as O.
    destruct (parse_loop cx (S (length (cx_src cx))) (PSt [0%N] [] 0%N (cx_src cx) 0%N [])) as [p r]. cbn [fst snd] in O.
    destruct O as [[_ Fd] Ov]. destruct r as [v|e| |]; try discriminate.
    - destruct v; try discriminate. destruct o as [x|].
      + destruct x; try discriminate. intros H; inversion H; subst. split; [exact Fd|]. cbn. intros a0 E; inversion E; subst. exact Ov.
      + intros H; inversion H; subst. split; [exact Fd|]. cbn. discriminate.
    - destruct (diag_of_error cx e) as [d|] eqn:E; [|discriminate]. intros H; inversion H; subst. split; [|cbn; discriminate].
      cbn. apply Forall_app. split; [exact Fd|]. constructor; [eapply diag_of_error_rok; eauto|constructor].
  Qed.
End RangesRun.
