(* C03: which token a well-formed document starts with.  NULLABLE and FIRST of the regenerated grammar, computed by
   iteration and accepted through a closure check; any derivation from the start symbol then begins with a token of
   FIRST(start) -- for the AIDL grammar, `package` -- so a text that begins with anything else, or holds no token at all,
   always gets an Error. *)
From Coq Require Import ZArith Lia List.
From AidlV Require Import Model.LrDriver Proofs.Automaton Proofs.Grammar Proofs.DriverSafe.
Import ListNotations.

Definition nth_b (l : list bool) (n : N) : bool := nth (N.to_nat n) l false.
Definition nth_f (l : list (list nat)) (n : N) : list nat := nth (N.to_nat n) l [].
Definition null_sym (Nl : list bool) (X : gsym) : bool := match X with SNT n => nth_b Nl n | _ => false end.
Definition first_sym (Fs : list (list nat)) (X : gsym) : list nat :=
  match X with ST c => [N.to_nat c] | SNT n => nth_f Fs n | SErr => [] end.
Fixpoint first_seq (Nl : list bool) (Fs : list (list nat)) (Xs : list gsym) : list nat :=
  match Xs with
  | [] => []
  | X :: Xs' => first_sym Fs X ++ (if null_sym Nl X then first_seq Nl Fs Xs' else [])
  end.
Definition mem_nat (x : nat) (l : list nat) : bool := existsb (Nat.eqb x) l.
Definition subset (a b : list nat) : bool := forallb (fun x => mem_nat x b) a.
Definition prod_ids : list N := map N.of_nat (seq 0 (length gen_productions)).

(* one round of the iteration *)
Definition step_null (Nl : list bool) : list bool :=
  map (fun nt => nth_b Nl nt || existsb (fun p => let '(_, n, _, kind) := production p in
                                   N.eqb n nt && negb (N.eqb kind 2) && forallb (null_sym Nl) (rhs_of p)) prod_ids) all_nts.
Definition step_first (Nl : list bool) (Fs : list (list nat)) : list (list nat) :=
  map (fun nt => nodup Nat.eq_dec (nth_f Fs nt ++ flat_map (fun p => let '(_, n, _, kind) := production p in
                                   if N.eqb n nt && negb (N.eqb kind 2) then first_seq Nl Fs (rhs_of p) else []) prod_ids)) all_nts.
Fixpoint iter {A} (f : A -> A) (n : nat) (x : A) : A := match n with O => x | S n' => iter f n' (f x) end.

Definition gen_nullable : list bool := Eval vm_compute in iter step_null nnt_all (map (fun _ => false) all_nts).
Definition gen_first : list (list nat) := Eval vm_compute in iter (step_first gen_nullable) nnt_all (map (fun _ => []) all_nts).

(* the closure check: the computed sets are closed under every production *)
Definition closed_prod (p : N) : bool :=
  let '(_, nt, _, kind) := production p in
  N.eqb kind 2 ||
  ((negb (forallb (null_sym gen_nullable) (rhs_of p)) || nth_b gen_nullable nt) &&
   subset (first_seq gen_nullable gen_first (rhs_of p)) (nth_f gen_first nt)).
Lemma closed_checked : forallb closed_prod prod_ids = true.
Proof. vm_compute. reflexivity. Qed.

Scheme der_mut := Induction for der Sort Prop with ders_mut := Induction for ders Sort Prop.

Definition starts_ok (X : gsym) (l : list tok) : Prop :=
  match l with [] => null_sym gen_nullable X = true | (c, _) :: _ => In c (first_sym gen_first X) end.
Definition starts_seq_ok (Xs : list gsym) (l : list tok) : Prop :=
  match l with [] => forallb (null_sym gen_nullable) Xs = true | (c, _) :: _ => In c (first_seq gen_nullable gen_first Xs) end.

Lemma mem_nat_In x l : mem_nat x l = true <-> In x l.
Proof.
  unfold mem_nat. rewrite existsb_exists. split; [intros [y [I E]]; apply Nat.eqb_eq in E; subst; exact I|].
  intros I. exists x. split; [exact I|apply Nat.eqb_refl].
Qed.

Theorem first_sound : forall X l, der X l -> starts_ok X l.
Proof.
  apply (der_mut (fun X l _ => starts_ok X l) (fun Xs l _ => starts_seq_ok Xs l)).
  - intros c text. cbn. left. apply Nat2N.id.
  - intros p k nt act kind ts P K L D IH. pose proof closed_checked as C. rewrite forallb_forall in C.
    assert (I : In p prod_ids).
    { unfold prod_ids. apply in_map_iff. exists (N.to_nat p). split; [apply N2Nat.id|apply in_seq; lia]. }
    specialize (C p I). unfold closed_prod in C. rewrite P in C.
    destruct (N.eqb_spec kind 2) as [E|_]; [contradiction|]. cbn [orb] in C. apply andb_prop in C as [C1 C2].
    unfold starts_ok, starts_seq_ok in *. destruct ts as [|[c text] ts']; cbn [null_sym first_sym].
    + rewrite IH in C1. cbn in C1. exact C1.
    + unfold subset in C2. rewrite forallb_forall in C2. apply mem_nat_In. apply C2. exact IH.
  - cbn. reflexivity.
  - intros X0 Xs t1 t2 D1 IH1 D2 IH2. unfold starts_ok, starts_seq_ok in *. destruct t1 as [|[c text] t1']; cbn [app].
    + destruct t2 as [|[c2 text2] t2']; cbn [forallb first_seq].
      * rewrite IH1, IH2. reflexivity.
      * rewrite IH1. apply in_or_app. right. exact IH2.
    + cbn [first_seq]. apply in_or_app. left. exact IH1.
Qed.

(* ---- what a well-formed document starts with ---- *)
Definition first_start : list nat := Eval vm_compute in first_sym gen_first start_sym.
Lemma start_not_nullable : null_sym gen_nullable start_sym = false.  Proof. vm_compute. reflexivity. Qed.
Lemma first_start_is : first_sym gen_first start_sym = first_start.  Proof. vm_compute. reflexivity. Qed.
(* for the AIDL grammar: the `package` keyword, nothing else *)
Lemma first_start_names : map (fun c => nth c gen_terminals ""%string) first_start = ["PACKAGE"%string].
Proof. vm_compute. reflexivity. Qed.

Theorem wellformed_first_token l : der start_sym l -> exists c text rest, l = (c, text) :: rest /\ In c first_start.
Proof.
  intros D. pose proof (first_sound _ _ D) as S. unfold starts_ok in S. destruct l as [|[c text] rest].
  - rewrite start_not_nullable in S. discriminate.
  - exists c, text, rest. split; [reflexivity|]. rewrite <- first_start_is. exact S.
Qed.

Theorem wellformed_starts_with_package l : der start_sym l ->
  exists c text rest, l = (c, text) :: rest /\ nth c gen_terminals ""%string = "PACKAGE"%string.
Proof.
  intros D. destruct (wellformed_first_token l D) as [c [text [rest [E I]]]]. exists c, text, rest. split; [exact E|].
  pose proof first_start_names as NM. apply (in_map (fun c => nth c gen_terminals ""%string)) in I. rewrite NM in I.
  destruct I as [I|[]]. symmetry. exact I.
Qed.

(* a text that holds no token, or whose first token is not `package`, always gets an Error *)
Theorem no_package_is_loud cx (WF : length (cx_lc cx) = S (length (cx_src cx))) id fr : add_content cx id = Added fr ->
  (forall l, lexes_to_eof (cx_src cx, 0%N) l ->
     match l with [] => True | (c, _) :: _ => nth c gen_terminals ""%string <> "PACKAGE"%string end) ->
  exists d, In d (fr_diags fr) /\ d_kind d = DError.
Proof.
  intros H NP. apply (malformed_is_loud cx WF id fr H). intros l LL D.
  destruct (wellformed_starts_with_package l D) as [c [text [rest [E N]]]]. specialize (NP l LL). rewrite E in NP. exact (NP N).
Qed.

(* ---- and what it ends with: the same computation on the reversed right-hand sides ---- *)
Definition last_seq (Nl : list bool) (Ls : list (list nat)) (Xs : list gsym) : list nat := first_seq Nl Ls (rev Xs).
Definition step_last (Nl : list bool) (Ls : list (list nat)) : list (list nat) :=
  map (fun nt => nodup Nat.eq_dec (nth_f Ls nt ++ flat_map (fun p => let '(_, n, _, kind) := production p in
                                   if N.eqb n nt && negb (N.eqb kind 2) then first_seq Nl Ls (rev (rhs_of p)) else []) prod_ids)) all_nts.
Definition gen_last : list (list nat) := Eval vm_compute in iter (step_last gen_nullable) nnt_all (map (fun _ => []) all_nts).
Definition closed_prod_last (p : N) : bool :=
  let '(_, nt, _, kind) := production p in
  N.eqb kind 2 || subset (first_seq gen_nullable gen_last (rev (rhs_of p))) (nth_f gen_last nt).
Lemma closed_last_checked : forallb closed_prod_last prod_ids = true.
Proof. vm_compute. reflexivity. Qed.

Definition ends_ok (X : gsym) (l : list tok) : Prop :=
  match rev l with [] => null_sym gen_nullable X = true | (c, _) :: _ => In c (first_sym gen_last X) end.
Definition ends_seq_ok (Xs : list gsym) (l : list tok) : Prop :=
  match rev l with [] => forallb (null_sym gen_nullable) Xs = true | (c, _) :: _ => In c (first_seq gen_nullable gen_last (rev Xs)) end.

Lemma first_seq_app Nl Fs A B : forallb (null_sym Nl) A = true -> forall c, In c (first_seq Nl Fs B) -> In c (first_seq Nl Fs (A ++ B)).
Proof.
  induction A as [|X A IH]; intros H c I; [exact I|]. cbn [forallb] in H. apply andb_prop in H as [H1 H2].
  cbn [app first_seq]. rewrite H1. apply in_or_app. right. apply IH; assumption.
Qed.
Lemma first_seq_left Nl Fs A B c : In c (first_seq Nl Fs A) -> In c (first_seq Nl Fs (A ++ B)).
Proof.
  induction A as [|X A IH]; intros I; [destruct I|]. cbn [app first_seq] in *. apply in_app_or in I as [I|I]; apply in_or_app; [left; exact I|right].
  destruct (null_sym Nl X); [apply IH; exact I|destruct I].
Qed.

Theorem last_sound : forall X l, der X l -> ends_ok X l.
Proof.
  apply (der_mut (fun X l _ => ends_ok X l) (fun Xs l _ => ends_seq_ok Xs l)).
  - intros c text. cbn. left. apply Nat2N.id.
  - intros p k nt act kind ts P K L D IH. pose proof closed_last_checked as C. rewrite forallb_forall in C.
    assert (I : In p prod_ids).
    { unfold prod_ids. apply in_map_iff. exists (N.to_nat p). split; [apply N2Nat.id|apply in_seq; lia]. }
    specialize (C p I). unfold closed_prod_last in C. rewrite P in C.
    destruct (N.eqb_spec kind 2) as [E|_]; [contradiction|]. cbn [orb] in C.
    unfold ends_ok, ends_seq_ok in *. destruct (rev ts) as [|[c text] ts'] eqn:RT; cbn [null_sym first_sym].
    + (* nullable: by the FIRST development *)
      assert (TS : ts = []) by (apply (f_equal (@rev _)) in RT; rewrite rev_involutive in RT; exact RT). subst ts.
      pose proof (first_sound (SNT nt) [] (der_nt p k nt act kind [] P K L D)) as S. exact S.
    + unfold subset in C. rewrite forallb_forall in C. apply mem_nat_In. apply C. exact IH.
  - cbn. reflexivity.
  - intros X0 Xs t1 t2 D1 IH1 D2 IH2. unfold ends_ok, ends_seq_ok in *. rewrite rev_app_distr. cbn [rev].
    destruct (rev t2) as [|[c2 text2] r2] eqn:R2; cbn [app].
    + destruct (rev t1) as [|[c1 text1] r1] eqn:R1.
      * cbn [forallb]. rewrite IH1, IH2. reflexivity.
      * apply first_seq_app; [rewrite forallb_forall; intros Y HY; apply in_rev in HY; rewrite forallb_forall in IH2; apply IH2; exact HY|].
        cbn [first_seq]. apply in_or_app. left. exact IH1.
    + apply first_seq_left. exact IH2.
Qed.

Definition last_start : list nat := Eval vm_compute in first_sym gen_last start_sym.
Lemma last_start_is : first_sym gen_last start_sym = last_start.  Proof. vm_compute. reflexivity. Qed.
(* for the AIDL grammar: the closing brace of the item *)
Lemma last_start_names : map (fun c => nth c gen_terminals ""%string) last_start = ["""}"""%string].
Proof. vm_compute. reflexivity. Qed.

Theorem wellformed_ends_with_brace l : der start_sym l ->
  exists c text front, l = front ++ [(c, text)] /\ nth c gen_terminals ""%string = """}"""%string.
Proof.
  intros D. pose proof (last_sound _ _ D) as S. unfold ends_ok in S. destruct (rev l) as [|[c text] r] eqn:R.
  - rewrite start_not_nullable in S. discriminate.
  - exists c, text, (rev r). split; [apply (f_equal (@rev _)) in R; rewrite rev_involutive in R; exact R|].
    rewrite last_start_is in S. pose proof last_start_names as NM.
    apply (in_map (fun c => nth c gen_terminals ""%string)) in S. rewrite NM in S. destruct S as [S|[]]. symmetry. exact S.
Qed.

(* trailing text: a text whose last token is not the closing brace always gets an Error *)
Theorem trailing_text_is_loud cx (WF : length (cx_lc cx) = S (length (cx_src cx))) id fr : add_content cx id = Added fr ->
  (forall l, lexes_to_eof (cx_src cx, 0%N) l ->
     match rev l with [] => True | (c, _) :: _ => nth c gen_terminals ""%string <> """}"""%string end) ->
  exists d, In d (fr_diags fr) /\ d_kind d = DError.
Proof.
  intros H NP. apply (malformed_is_loud cx WF id fr H). intros l LL D.
  destruct (wellformed_ends_with_brace l D) as [c [text [front [E N]]]]. specialize (NP l LL). rewrite E, rev_app_distr in NP. exact (NP N).
Qed.
