(* The fuel of the regex matcher and of the lexer's skip loop is immaterial: any fuel above the length of the remaining text gives
   the same answer, so the fuel the model passes (length + 1) is never what ends a `*` loop or a run of skipped trivia. *)
From Coq Require Import Lia List Arith.
From AidlV Require Import Lib.Regex Model.Lexer.
Import ListNotations.
Local Open Scope nat_scope.

Ltac nlia := cbv delta [mst str] in *; lia.

Section Fuel.
  Context {A : Type}.
  Definition tot (s : mst) : nat := length (fst s) + snd s.
  Definition agree (s : mst) (k1 k2 : mst -> option A) : Prop :=
    forall s', tot s' = tot s -> length (fst s') <= length (fst s) -> k1 s' = k2 s'.

  Lemma agree_mono s s' k1 k2 : agree s k1 k2 -> tot s' = tot s -> length (fst s') <= length (fst s) -> agree s' k1 k2.
  Proof. intros H T L s'' T' L'. apply H; nlia. Qed.

  Lemma if_agree (b : bool) (x y : option A) : (b = true -> x = y) -> (if b then x else None) = (if b then y else None).
  Proof. destruct b; intros H; [apply H; reflexivity|reflexivity]. Qed.

  Lemma star_fuel (m1 m2 : mst -> (mst -> option A) -> option A) B :
    (forall s k1 k2, length (fst s) <= B -> agree s k1 k2 -> m1 s k1 = m2 s k2) ->
    forall n s g1 g2 k1 k2, length (fst s) <= B -> length (fst s) < n -> length (fst s) < g1 -> length (fst s) < g2 -> agree s k1 k2 ->
      star_loop m1 g1 s k1 = star_loop m2 g2 s k2.
  Proof.
    intros Hm. induction n as [|n IH]; intros s g1 g2 k1 k2 LB Ln L1 L2 Ag; [lia|].
    destruct g1 as [|g1]; [lia|]. destruct g2 as [|g2]; [lia|]. cbn [star_loop].
    rewrite (Hm s _ (fun s' => if Nat.ltb (snd s) (snd s') then star_loop m2 g2 s' k2 else None) LB).
    - rewrite (Ag s eq_refl (le_n _)). reflexivity.
    - intros s' T L. cbn beta. apply if_agree. intros P. apply Nat.ltb_lt in P.
      unfold tot in T. apply IH; try nlia. eapply agree_mono; eauto.
  Qed.

  Lemma mre_fuel r : forall f1 f2 s (k1 k2 : mst -> option A), length (fst s) < f1 -> length (fst s) < f2 -> agree s k1 k2 ->
    mre f1 r s k1 = mre f2 r s k2.
  Proof.
    induction r as [ranges|a IHa b IHb|a IHa b IHb|a IH|]; intros f1 f2 s k1 k2 L1 L2 Ag; cbn [mre].
    - destruct s as [[|c rest] n]; cbn [fst snd] in *; [reflexivity|]. destruct (in_class ranges c); [|reflexivity].
      apply Ag; unfold tot; cbn [fst snd length]; nlia.
    - apply IHa; try assumption. intros s' T L. apply IHb; try nlia. eapply agree_mono; eauto.
    - rewrite (IHa f1 f2 s k1 k2 L1 L2 Ag), (IHb f1 f2 s k1 k2 L1 L2 Ag). reflexivity.
    - apply (star_fuel (mre f1 a) (mre f2 a) (length (fst s))) with (n := S (length (fst s))); try nlia; [|exact Ag].
      intros s0 k1' k2' LB Ag'. apply IH; try nlia. exact Ag'.
    - apply Ag; [reflexivity|nlia].
  Qed.
End Fuel.

Theorem match_len_fuel_any f1 f2 r s : length s < f1 -> length s < f2 -> match_len_fuel f1 r s = match_len_fuel f2 r s.
Proof. intros L1 L2. unfold match_len_fuel. apply mre_fuel; cbn [fst]; try assumption. intros s' _ _. reflexivity. Qed.

Lemma any_match_fuel f1 f2 tbl s : length s < f1 -> length s < f2 -> any_match f1 tbl s = any_match f2 tbl s.
Proof.
  intros L1 L2. unfold any_match. induction tbl as [|e tbl IH]; [reflexivity|]. cbn [existsb].
  rewrite (match_len_fuel_any f1 f2 (fst e) s L1 L2), IH. reflexivity.
Qed.
Lemma best_match_fuel f1 f2 s : length s < f1 -> length s < f2 -> forall tbl i best, best_match f1 tbl i s best = best_match f2 tbl i s best.
Proof.
  intros L1 L2. induction tbl as [|[r sk] tbl IH]; intros i best; [reflexivity|]. cbn [best_match].
  rewrite (match_len_fuel_any f1 f2 r s L1 L2). apply IH.
Qed.

(* the lexer: with any fuel above the length of the text, the same token *)
Theorem lex_next_fuel tbl : forall f1 f2 s off, length s < f1 -> length s < f2 -> lex_next tbl f1 s off = lex_next tbl f2 s off.
Proof.
  induction f1 as [|f1 IH]; intros f2 s off L1 L2; [lia|]. destruct f2 as [|f2]; [lia|]. cbn [lex_next].
  destruct s as [|c s']; [reflexivity|]. set (s := c :: s') in *.
  rewrite (any_match_fuel (S f1) (S f2) tbl s L1 L2). destruct (negb (any_match (S f2) tbl s)); [reflexivity|].
  rewrite (best_match_fuel (S f1) (S f2) s L1 L2). destruct (best_match (S f2) tbl 0 s (O, 0%N, false)) as [[n idx] sk].
  destruct sk; [|reflexivity]. destruct (Nat.eqb_spec n 0) as [E|NE]; [reflexivity|].
  apply IH; rewrite skipn_length; unfold s in *; cbn [length] in *; lia.
Qed.

Theorem lex1_any_fuel fuel s off : length s < fuel -> lex_next gen_lex_table fuel s off = lex1 s off.
Proof. intros L. unfold lex1. apply lex_next_fuel; lia. Qed.
