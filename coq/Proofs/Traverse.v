From AidlV Require Import Spec.Nodes.

Section Laws.
  Context {S V : Type} (f : S -> symbol -> S * option V).
  Notation M := (S -> S * option V).

  Lemma andthen_ret_l (m : M) s : andthen ret m s = m s.
  Proof. reflexivity. Qed.

  Lemma andthen_ret_r (m : M) s : andthen m ret s = m s.
  Proof. unfold andthen, ret. destruct (m s) as [s' [v|]]; reflexivity. Qed.

  Lemma andthen_assoc (a b c : M) s : andthen (andthen a b) c s = andthen a (andthen b c) s.
  Proof. unfold andthen. destruct (a s) as [s' [v|]]; [reflexivity|]. destruct (b s') as [s'' [v|]]; reflexivity. Qed.

  Lemma andthen_ext (a a' b b' : M) :
    (forall s, a s = a' s) -> (forall s, b s = b' s) -> forall s, andthen a b s = andthen a' b' s.
  Proof. intros Ha Hb s. unfold andthen. rewrite Ha. destruct (a' s) as [s' [v|]]; [reflexivity|apply Hb]. Qed.

  Lemma run_list_app l1 l2 s :
    run_list f (l1 ++ l2) s = andthen (run_list f l1) (run_list f l2) s.
  Proof.
    revert s. induction l1 as [|x l1 IH]; intros s; cbn [app run_list]; [reflexivity|].
    unfold andthen in *. cbn [run_list]. destruct (f s x) as [s' [v|]]; [reflexivity|]. apply IH.
  Qed.

  Lemma run_list_cons x l s : run_list f (x :: l) s = andthen (call f x) (run_list f l) s.
  Proof. reflexivity. Qed.

  Lemma run_list_single x s : run_list f [x] s = call f x s.
  Proof. unfold call. cbn [run_list]. destruct (f s x) as [s' [v|]]; reflexivity. Qed.

  Lemma each_spec {A} (g : A -> M) (h : A -> list symbol) l :
    (forall x s, g x s = run_list f (h x) s) ->
    forall s, each g l s = run_list f (flat_map h l) s.
  Proof.
    intros Hg. induction l as [|x l IH]; intros s; cbn [each flat_map]; [reflexivity|].
    rewrite run_list_app. apply andthen_ext; [apply Hg|apply IH].
  Qed.

  Lemma each_map {A} (g : A -> symbol) l s : each (fun x => call f (g x)) l s = run_list f (map g l) s.
  Proof.
    revert s. induction l as [|x l IH]; intros s; cbn [each map]; [reflexivity|].
    rewrite run_list_cons. apply andthen_ext; [reflexivity|apply IH].
  Qed.

  Lemma visit_type_spec t : forall s, visit_type f t s = run_list f (type_symbols t) s.
  Proof.
    induction t as [n k g sy fu IH] using ty_ind'. intros s.
    assert (SUB : forall s,
      (fix go (l : list ty) : M := match l with [] => ret | x :: l' => andthen (visit_type f x) (go l') end) g s =
      run_list f (map SType ((fix go (l : list ty) : list ty :=
                                match l with [] => [] | x :: l' => types_of_ty x ++ go l' end) g)) s).
    { clear s. induction g as [|x g IHg]; intros s; [reflexivity|]. inversion IH as [|? ? Hx Hg]; subst.
      rewrite map_app, run_list_app. apply andthen_ext; [apply Hx|apply IHg; exact Hg]. }
    unfold type_symbols. cbn [visit_type types_of_ty].
    destruct k; cbn [map]; rewrite ?map_app, ?run_list_app, ?run_list_cons;
      try (apply andthen_ext; [reflexivity|apply SUB]).
    apply andthen_ext; [apply SUB|]. intros s'. cbn [map]. rewrite run_list_cons, andthen_ret_r. reflexivity.
  Qed.

  Lemma when_spec (b : bool) (m : M) l s :
    (forall s, m s = run_list f l s) -> when b m s = run_list f (if b then l else []) s.
  Proof. intros H. destruct b; cbn; [apply H|reflexivity]. Qed.

  (* the walker feeds the visitor exactly the list `symbols flt a`, in order, stopping at the first Break *)
  Theorem walk_cf_spec flt a s : walk_cf f flt a s = run_list f (symbols flt a) s.
  Proof.
    unfold walk_cf.
    assert (ITEM : forall s,
      (match ai_item a with
       | ItInterface i =>
           andthen (call f (SInterface i (ai_package a)))
             (if is_items_only flt then ret else
                each (fun el =>
                        match el with
                        | IEMethod m =>
                            andthen (call f (SMethod m i))
                              (when (is_all flt)
                                 (andthen (visit_type f (m_ret m))
                                    (each (fun x => andthen (call f (SArg x m)) (visit_type f (a_ty x))) (m_args m))))
                        | IEConst c =>
                            andthen (call f (SConst c (OwnerInterface i))) (when (is_all flt) (visit_type f (c_ty c)))
                        end) (i_elems i))
       | ItParcelable p =>
           andthen (call f (SParcelable p (ai_package a)))
             (if is_items_only flt then ret else
                each (fun el =>
                        match el with
                        | PEField x => andthen (call f (SField x p)) (when (is_all flt) (visit_type f (f_ty x)))
                        | PEConst c =>
                            andthen (call f (SConst c (OwnerParcelable p))) (when (is_all flt) (visit_type f (c_ty c)))
                        end) (pc_elems p))
       | ItEnum e =>
           andthen (call f (SEnum e (ai_package a)))
             (if is_items_only flt then ret else each (fun el => call f (SEnumElement el e)) (e_elems e))
       end) s =
      run_list f (item_symbol a :: (if is_items_only flt then [] else member_symbols (is_all flt) a)) s).
    { intros s0. unfold item_symbol, member_symbols. rewrite run_list_cons.
      destruct (ai_item a) as [i|p|e]; apply andthen_ext; try reflexivity; intros s1;
        destruct (is_items_only flt); try reflexivity.
      - apply each_spec. intros el s2. destruct el as [c|m]; cbn [ie_symbols].
        + rewrite run_list_cons. apply andthen_ext; [reflexivity|]. intros s3.
          apply when_spec. apply visit_type_spec.
        + destruct (is_all flt); cbn [when].
          * unfold method_symbols. rewrite run_list_cons. apply andthen_ext; [reflexivity|]. intros s3.
            rewrite run_list_app. apply andthen_ext; [apply visit_type_spec|].
            apply each_spec. intros x s4. rewrite run_list_cons. apply andthen_ext; [reflexivity|apply visit_type_spec].
          * rewrite andthen_ret_r, run_list_single. reflexivity.
      - apply each_spec. intros el s2. destruct el as [c|x]; cbn [pe_symbols];
          rewrite run_list_cons; (apply andthen_ext; [reflexivity|]); intros s3; apply when_spec; apply visit_type_spec.
      - apply each_map. }
    destruct flt; cbn [is_all when symbols].
    - rewrite andthen_ret_l. rewrite ITEM. reflexivity.
    - rewrite andthen_ret_l. rewrite ITEM. reflexivity.
    - rewrite run_list_cons.
      replace (map SImport (ai_imports a) ++ item_symbol a :: member_symbols true a)
        with (map SImport (ai_imports a) ++ (item_symbol a :: member_symbols true a)) by reflexivity.
      rewrite andthen_assoc. apply andthen_ext; [reflexivity|]. intros s1.
      rewrite run_list_app. apply andthen_ext; [apply each_map|]. intros s2. rewrite ITEM. reflexivity.
  Qed.
End Laws.

(* ---- consequences for walk_symbols / filter_symbols / find_symbol ---- *)
Lemma run_collect (p : symbol -> bool) l acc :
  run_list (V := unit) (fun acc x => (if p x then x :: acc else acc, None)) l acc = (rev (filter p l) ++ acc, None).
Proof.
  revert acc. induction l as [|x l IH]; intros acc; cbn [run_list filter]; [reflexivity|].
  rewrite IH. destruct (p x); cbn [rev]; rewrite <- ?app_assoc; reflexivity.
Qed.

Theorem filter_symbols_spec flt p a : filter_symbols flt p a = filter p (symbols flt a).
Proof. unfold filter_symbols. rewrite walk_cf_spec, run_collect. cbn [fst]. rewrite app_nil_r, rev_involutive. reflexivity. Qed.

Theorem walk_collect_spec flt a : walk_collect flt a = symbols flt a.
Proof.
  unfold walk_collect. rewrite walk_cf_spec.
  rewrite (run_collect (fun _ => true)). cbn [fst]. rewrite app_nil_r, rev_involutive.
  induction (symbols flt a) as [|x l IH]; cbn; [reflexivity|]. rewrite IH. reflexivity.
Qed.

Theorem find_symbol_spec flt p a : find_symbol p flt a = find p (symbols flt a).
Proof.
  unfold find_symbol, find_symbol_st. rewrite walk_cf_spec.
  induction (symbols flt a) as [|x l IH]; cbn [run_list find]; [reflexivity|].
  destruct (p x); [reflexivity|exact IH].
Qed.

(* stateful predicates (e.g. "the k-th visited"): the predicate sees the symbols of `symbols flt a`, in order *)
Theorem find_symbol_st_spec {S} (p : S -> symbol -> S * bool) flt a s0 :
  find_symbol_st p flt a s0 =
  snd (run_list (fun s x => let '(s', b) := p s x in (s', if b then Some x else None)) (symbols flt a) s0).
Proof. unfold find_symbol_st. rewrite walk_cf_spec. reflexivity. Qed.

(* the coarser levels are sub-sequences of the detailed one *)
Theorem level_items_only a : symbols FItemsOnly a = [item_symbol a].
Proof. reflexivity. Qed.

Theorem find_at_spec flt a line col :
  find_symbol_at flt a line col = find (fun s => range_contains (sym_range s) line col) (symbols flt a).
Proof. apply find_symbol_spec. Qed.

Theorem range_contains_lex r line col :
  range_contains r line col = true <->
  lc_le (p_line (r_start r)) (p_col (r_start r)) line col /\ lc_le line col (p_line (r_end r)) (p_col (r_end r)).
Proof.
  unfold range_contains, lc_le.
  destruct (N.ltb_spec line (p_line (r_start r))); [split; [discriminate|lia]|].
  destruct (N.eqb_spec (p_line (r_start r)) line); cbn [andb].
  - destruct (N.ltb_spec col (p_col (r_start r))); [split; [discriminate|lia]|].
    destruct (N.ltb_spec (p_line (r_end r)) line); [split; [discriminate|lia]|].
    destruct (N.eqb_spec (p_line (r_end r)) line); cbn [andb].
    + destruct (N.ltb_spec (p_col (r_end r)) col); split; try discriminate; try lia; auto.
    + split; [lia|reflexivity].
  - destruct (N.ltb_spec (p_line (r_end r)) line); [split; [discriminate|lia]|].
    destruct (N.eqb_spec (p_line (r_end r)) line); cbn [andb].
    + destruct (N.ltb_spec (p_col (r_end r)) col); split; try discriminate; try lia; auto.
    + split; [lia|reflexivity].
Qed.
