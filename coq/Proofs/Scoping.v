From AidlV Require Import Spec.Scoping Spec.Elements Proofs.Methods.

(* ---------- built-in tables: simple names are never qualified names ---------- *)
Lemma from_name_of_qname a : from_name (gen_android_qname a) = None.
Proof. destruct a; vm_compute; reflexivity. Qed.

Lemma from_qualified_name_eq n a : from_qualified_name n = Some a -> n = gen_android_qname a.
Proof.
  unfold from_qualified_name. intros H. apply find_some in H as [_ H]. apply str_eqb_eq in H. auto.
Qed.

Theorem resolve_name_spec imports declared defined name :
  resolve_name imports declared defined name = spec_resolve imports declared defined name.
Proof.
  unfold resolve_name, spec_resolve, unqualified.
  destruct (from_qualified_name name) as [a|] eqn:Q.
  - destruct (gen_can_be_qualified a || mem_str name imports) eqn:E; [reflexivity|].
    apply orb_false_iff in E as [E1 E2]. rewrite E1.
    destruct (find_import imports name); [reflexivity|].
    destruct (mem_str name declared && negb (contains_char dotc name)); [reflexivity|].
    apply from_qualified_name_eq in Q. subst name. rewrite from_name_of_qname. reflexivity.
  - reflexivity.
Qed.

Lemma resolve_name_kind imports declared defined n k :
  resolve_name imports declared defined n = Some k ->
  (exists a, k = KAndroid a) \/ (exists key r, k = KResolved key r).
Proof.
  unfold resolve_name.
  assert (IMP : forall ip, (match assoc ip defined with
                            | Some k0 => Some (KResolved ip k0)
                            | None => match from_qualified_name ip with
                                      | Some a => Some (KAndroid a)
                                      | None => Some (KResolved ip RUnknownImport)
                                      end
                            end) = Some k ->
                (exists a, k = KAndroid a) \/ (exists key r, k = KResolved key r)).
  { intros ip. destruct (assoc ip defined); [intros E; inversion E; eauto|].
    destruct (from_qualified_name ip); intros E; inversion E; eauto. }
  destruct (from_qualified_name n) as [a|] eqn:Q.
  - destruct (gen_can_be_qualified a || mem_str n imports); [intros E; inversion E; eauto|].
    destruct (find_import imports n) as [ip|]; [apply IMP|].
    destruct (mem_str n declared && negb (contains_char dotc n)); [intros E; inversion E; eauto|].
    destruct (gen_can_be_qualified a); intros E; inversion E; eauto.
  - destruct (find_import imports n) as [ip|]; [apply IMP|].
    destruct (mem_str n declared && negb (contains_char dotc n)); [intros E; inversion E; eauto|].
    destruct (from_name n); intros E; inversion E; eauto.
Qed.

(* ---------- every node at every depth ---------- *)
Section Depth.
  Variables (imports declared : list str) (defined : env).
  Let f := resolve_name imports declared defined.

  Lemma resolve_node_spec n k s :
    resolve_node imports declared defined n k s =
    (match k with KUnresolved => match f n with Some k' => k' | None => KUnresolved end | _ => k end,
     match k with KUnresolved => match f n with Some _ => [] | None => [unknown_type_diag s] end | _ => [] end).
  Proof. unfold resolve_node, f. destruct k; try reflexivity. destruct (resolve_name _ _ _ _); reflexivity. Qed.

  Theorem resolve_ty_spec t :
    resolve_ty imports declared defined t =
    (map_unresolved f t, flat_map (spec_unknown f) (types_of_ty_pre t)).
  Proof.
    induction t as [n k g s fu IH] using ty_ind'.
    cbn [resolve_ty map_unresolved types_of_ty_pre flat_map].
    rewrite resolve_node_spec.
    assert (SUB :
      (fix go (l : list ty) : list ty * list diag :=
         match l with
         | [] => ([], [])
         | x :: l' => let '(x', dx) := resolve_ty imports declared defined x in
                      let '(r, dr) := go l' in (x' :: r, dx ++ dr)
         end) g =
      ((fix go (l : list ty) : list ty := match l with [] => [] | x :: l' => map_unresolved f x :: go l' end) g,
       flat_map (spec_unknown f)
         ((fix go (l : list ty) : list ty := match l with [] => [] | x :: l' => types_of_ty_pre x ++ go l' end) g))).
    { induction g as [|x g IHg]; [reflexivity|]. inversion IH as [|? ? Hx Hg]; subst.
      rewrite Hx, (IHg Hg). rewrite flat_map_app. reflexivity. }
    rewrite SUB. unfold spec_unknown at 1. cbn [ty_kind ty_name ty_sym]. reflexivity.
  Qed.

  (* resolution never changes a container's arity *)
  Lemma map_unresolved_wf t : wf_arity t = true -> wf_arity (map_unresolved f t) = true.
  Proof.
    induction t as [n k g s fu IH] using ty_ind'. cbn [wf_arity map_unresolved].
    intros W. apply andb_true_iff in W as [Wk Wg]. apply andb_true_iff. split.
    - destruct k; try exact Wk.
      + destruct g as [|? [|? ?]]; cbn in *; congruence.
      + destruct g as [|? [|? [|? ?]]]; cbn in *; congruence.
      + destruct g as [|? [|? ?]]; cbn in *; congruence.
      + destruct (f n) as [k'|] eqn:E; [|reflexivity].
        apply resolve_name_kind in E as [[a ->] | [key [r ->]]]; reflexivity.
    - clear Wk. induction g as [|x g IHg]; [reflexivity|]. apply andb_true_iff in Wg as [Wx Wg].
      inversion IH; subst. apply andb_true_iff. split; auto.
  Qed.
End Depth.

(* ---------- the import a reference goes through ---------- *)
Lemma min_str_in l m : min_str l = Some m -> In m l.
Proof.
  revert m. induction l as [|x l IH]; cbn; intros m H; [discriminate|].
  destruct (min_str l) as [m'|] eqn:E.
  - inversion H; subst. destruct (str_ltb m' x); [right; apply IH; reflexivity|left; reflexivity].
  - inversion H; auto.
Qed.

Lemma min_str_none l : min_str l = None -> l = [].
Proof. destruct l as [|x l]; cbn; [reflexivity|]. destruct (min_str l); discriminate. Qed.

Theorem find_import_sound imports name ip :
  find_import imports name = Some ip -> In ip imports /\ import_matches name ip.
Proof.
  unfold find_import, import_matches. destruct (mem_str name imports) eqn:M.
  - intros H; inversion H; subst. apply mem_str_In in M. auto.
  - intros H. apply min_str_in, filter_In in H as [Hin He]. split; [exact Hin|].
    right. apply ends_with_spec in He. exact He.
Qed.

Theorem find_import_complete imports name ip :
  In ip imports -> import_matches name ip -> find_import imports name <> None.
Proof.
  unfold find_import, import_matches. intros Hin Hm. destruct (mem_str name imports) eqn:M; [discriminate|].
  intros H. apply min_str_none in H.
  destruct Hm as [-> | Hs].
  - apply mem_str_In in Hin. congruence.
  - assert (In ip (filter (fun p => ends_with p (dot_suffix name)) imports)).
    { apply filter_In. split; [exact Hin|]. apply ends_with_spec. exact Hs. }
    rewrite H in *. contradiction.
Qed.

(* near misses: an import matches only at a '.' boundary, e.g. p.XFoo never serves Foo *)
Corollary near_miss_never_matches name pre c :
  c <> dotc -> ~ import_matches name (pre ++ c :: name).
Proof.
  intros Hc [E | [pre' E]].
  - assert (L : length (pre ++ c :: name) = length name) by (rewrite E; reflexivity).
    rewrite app_length in L. cbn in L. lia.
  - assert (L : length pre = length pre').
    { apply (f_equal (@length N)) in E. rewrite !app_length in E. cbn in E. lia. }
    apply app_inj_tail_iff with (a := c) (b := dotc) in L as _ || idtac.
    assert (E2 : (pre ++ [c]) ++ name = (pre' ++ [dotc]) ++ name) by (rewrite <- !app_assoc; exact E).
    apply app_inv_tail in E2. apply app_inj_tail in E2 as [_ E3]. contradiction.
Qed.

(* exact match wins over suffix matches *)
Theorem find_import_exact imports name : In name imports -> find_import imports name = Some name.
Proof. intros H. unfold find_import. apply mem_str_In in H. rewrite H. reflexivity. Qed.

(* ---------- imports: the two passes emit a permutation of the per-import specification ---------- *)
Lemma imports_pass1_spec used defined l : forall pre seen,
  (forall q, assoc q seen = find (same_qname q) pre) ->
  let '(d1, firsts) := imports_pass1 seen l in
  firsts = first_imports_from pre l /\
  Permutation (d1 ++ flat_map (import_pass2 used defined) firsts) (spec_imports_from used defined pre l).
Proof.
  induction l as [|i l IH]; intros pre seen Hs; cbn [imports_pass1 spec_imports_from first_imports_from].
  - split; [reflexivity|constructor].
  - rewrite Hs. unfold spec_import.
    destruct (find (same_qname (import_qname i)) pre) as [first|] eqn:F; cbn [is_some].
    + specialize (IH (pre ++ [i]) seen).
      destruct (imports_pass1 seen l) as [d firsts].
      destruct IH as [IH1 IH2].
      { intros q. rewrite Hs, find_app. destruct (find (same_qname q) pre) eqn:F2; [reflexivity|].
        cbn. destruct (same_qname q i) eqn:E; [|reflexivity].
        unfold same_qname in E. apply str_eqb_eq in E. subst q. congruence. }
      split; [exact IH1|]. cbn [app]. constructor. exact IH2.
    + specialize (IH (pre ++ [i]) ((import_qname i, i) :: seen)).
      destruct (imports_pass1 ((import_qname i, i) :: seen) l) as [d firsts].
      destruct IH as [IH1 IH2].
      { intros q. cbn [assoc]. rewrite find_app, Hs. cbn [find].
        replace (same_qname q i) with (str_eqb q (import_qname i)) by (unfold same_qname; apply str_eqb_sym).
        destruct (str_eqb q (import_qname i)) eqn:E.
        - apply str_eqb_eq in E. subst q. rewrite F. reflexivity.
        - destruct (find (same_qname q) pre); reflexivity. }
      split; [cbn; f_equal; exact IH1|].
      cbn [flat_map].
      assert (P2 : import_pass2 used defined i =
                   (if negb (resolvable defined (import_qname i)) then [unresolved_import_diag i]
                    else if negb (mem_str (import_qname i) used) then [unused_import_diag i] else [])).
      { unfold import_pass2, resolvable, unresolved_import_diag, unused_import_diag.
        destruct (assoc (import_qname i) defined), (from_qualified_name (import_qname i)); reflexivity. }
      rewrite P2.
      rewrite Permutation_app_comm, <- app_assoc.
      apply Permutation_app_head. rewrite Permutation_app_comm. exact IH2.
Qed.

Theorem check_imports_spec imports used defined :
  snd (check_imports imports used defined) = first_imports_from [] imports /\
  Permutation (fst (check_imports imports used defined)) (spec_imports_from used defined [] imports).
Proof.
  unfold check_imports.
  pose proof (imports_pass1_spec used defined imports [] [] (fun q => eq_refl)) as H.
  destruct (imports_pass1 [] imports) as [d1 firsts]. exact H.
Qed.

(* ---------- forward declarations ---------- *)
Lemma accepted_snoc firsts pre p :
  accepted firsts (pre ++ [p]) =
  accepted firsts pre ++ (if is_some (conflicting_import firsts p) then [] else [p]).
Proof. unfold accepted. rewrite filter_app'. cbn. destruct (is_some (conflicting_import firsts p)); reflexivity. Qed.

Lemma declared_pass1_spec used ifirsts l : forall pre seen,
  (forall q, assoc q seen = find (same_qname q) (accepted ifirsts pre)) ->
  let '(d1, firsts) := declared_pass1 ifirsts seen l in
  Permutation (d1 ++ flat_map (declared_pass2 used) firsts) (spec_declared_from used ifirsts pre l).
Proof.
  induction l as [|p l IH]; intros pre seen Hs; cbn [declared_pass1 spec_declared_from].
  - constructor.
  - unfold spec_declared_one.
    destruct (conflicting_import ifirsts p) as [c|] eqn:C.
    + specialize (IH (pre ++ [p]) seen).
      destruct (declared_pass1 ifirsts seen l) as [d firsts].
      cbn [app]. constructor. apply IH.
      intros q. rewrite accepted_snoc, C. cbn [is_some]. rewrite app_nil_r. apply Hs.
    + rewrite Hs.
      destruct (find (same_qname (import_qname p)) (accepted ifirsts pre)) as [first|] eqn:F.
      * specialize (IH (pre ++ [p]) seen).
        destruct (declared_pass1 ifirsts seen l) as [d firsts].
        cbn [app]. constructor. apply IH.
        intros q. rewrite accepted_snoc, C. cbn [is_some]. rewrite Hs, find_app.
        destruct (find (same_qname q) (accepted ifirsts pre)) eqn:F2; [reflexivity|].
        cbn. destruct (same_qname q p) eqn:E; [|reflexivity].
        unfold same_qname in E. apply str_eqb_eq in E. subst q. congruence.
      * specialize (IH (pre ++ [p]) ((import_qname p, p) :: seen)).
        destruct (declared_pass1 ifirsts ((import_qname p, p) :: seen) l) as [d firsts].
        cbn [flat_map].
        assert (P2 : declared_pass2 used p =
                     (if negb (mem_str (import_qname p) used) then [unused_decl_diag p] else [usage_decl_diag p]))
          by reflexivity.
        rewrite P2. rewrite Permutation_app_comm, <- app_assoc.
        apply Permutation_app_head. rewrite Permutation_app_comm. apply IH.
        intros q. cbn [assoc]. rewrite accepted_snoc, C. cbn [is_some]. rewrite find_app, Hs. cbn [find].
        replace (same_qname q p) with (str_eqb q (import_qname p)) by (unfold same_qname; apply str_eqb_sym).
        destruct (str_eqb q (import_qname p)) eqn:E.
        -- apply str_eqb_eq in E. subst q. rewrite F. reflexivity.
        -- destruct (find (same_qname q) (accepted ifirsts pre)); reflexivity.
Qed.

Theorem check_declared_spec declared ifirsts used :
  Permutation (check_declared declared ifirsts used) (spec_declared_from used ifirsts [] declared).
Proof.
  unfold check_declared.
  pose proof (declared_pass1_spec used ifirsts declared [] [] (fun q => eq_refl)) as H.
  destruct (declared_pass1 ifirsts [] declared) as [d1 firsts]. exact H.
Qed.

(* the conflicting import that is named: one of the file's (first-occurrence) imports with that simple name *)
Lemma min_import_in l m : min_import l = Some m -> In m l.
Proof.
  revert m. induction l as [|x l IH]; cbn; intros m H; [discriminate|].
  destruct (min_import l) as [m'|] eqn:E.
  - inversion H; subst. destruct (str_ltb (import_qname m') (import_qname x)); [right; apply IH; reflexivity|left; reflexivity].
  - inversion H; auto.
Qed.

Theorem conflicting_import_sound firsts p c :
  conflicting_import firsts p = Some c -> In c firsts /\ im_name c = im_name p.
Proof.
  unfold conflicting_import. intros H. apply min_import_in, filter_In in H as [Hin He].
  apply str_eqb_eq in He. auto.
Qed.

Theorem conflicting_import_complete firsts p c :
  In c firsts -> im_name c = im_name p -> conflicting_import firsts p <> None.
Proof.
  unfold conflicting_import. intros Hin He H.
  assert (In c (filter (fun i => str_eqb (im_name i) (im_name p)) firsts)).
  { apply filter_In. split; [exact Hin|]. apply str_eqb_eq. exact He. }
  destruct (filter _ firsts) as [|x l]; [contradiction|]. cbn in H. destruct (min_import l); discriminate.
Qed.

(* "used": some type node of the file, at any depth, resolves to that key *)
Theorem used_iff it q :
  mem_str q (resolved_set it) = existsb (fun t => mem_str q (resolved_key (ty_kind t))) (all_types_pre it).
Proof.
  unfold resolved_set. induction (all_types_pre it) as [|t l IH]; [reflexivity|].
  cbn [flat_map existsb]. unfold mem_str in *. rewrite existsb_app, IH. reflexivity.
Qed.
