(* every user action of the grammar maps well-typed arguments to a well-typed result
   (hence never VBad / VPanic): the hypothesis `user_typed` of Proofs/Ainfer.v *)
From Coq Require Import ZArith.
From AidlV Require Import Model.Wrappers Model.Lexer Gen.LrTables Proofs.Totality Proofs.Typing Proofs.JavadocTotal Proofs.RegexLang.

(* the terminal column of DIRECTION, looked up in the regenerated terminal names *)
Definition dir_col : N := match index_of "DIRECTION" gen_terminals 0 with Some c => c | None => 0 end.

Notation t_annots := (TVec (TAst "Annotation")).
Notation t_ty := (TAst "Type").

Definition TIdent : vty := TTokOf ident_col.
Definition user_sig (u : utag) : list vty * vty :=
  match u with
  | U_OptAidl => ([TAst "Package"; TVec (TAst "Import"); TVec (TAst "Import"); TLoud (TAst "Item")], TLoud (TAst "Aidl"))
  | U_Package => ([TLoc; TLoc; TQName; TLoc; TLoc], TAst "Package")
  | U_Import => ([TLoc; TLoc; TVec TIdent; TIdent; TLoc; TLoc], TAst "Import")
  | U_QualifiedName => ([TVec TIdent; TIdent], TQName)
  | U_ItemInterface => ([TAst "Interface"], TLoud (TAst "Item"))
  | U_ItemParcelable => ([TAst "Parcelable"], TLoud (TAst "Item"))
  | U_ItemEnum => ([TAst "Enum"], TLoud (TAst "Item"))
  | U_ErrItem => ([TErr], TLoud (TAst "Item"))
  | U_Interface => ([TLoc; t_annots; TLoc; TOpt TTok; TLoc; TIdent; TLoc; TVec (TOpt (TAst "InterfaceElement")); TLoc], TAst "Interface")
  | U_IEMethod => ([TAst "Method"], TOpt (TAst "InterfaceElement"))
  | U_IEConst => ([TAst "Const"], TOpt (TAst "InterfaceElement"))
  | U_ErrIE => ([TErr], TOpt (TAst "InterfaceElement"))
  | U_Parcelable => ([TLoc; t_annots; TLoc; TLoc; TIdent; TLoc; TVec (TOpt (TAst "ParcelableElement")); TLoc], TAst "Parcelable")
  | U_PEField => ([TAst "Field"], TOpt (TAst "ParcelableElement"))
  | U_PEConst => ([TAst "Const"], TOpt (TAst "ParcelableElement"))
  | U_ErrPE => ([TErr], TOpt (TAst "ParcelableElement"))
  | U_Enum => ([TLoc; t_annots; TLoc; TLoc; TIdent; TLoc; TVec (TOpt (TAst "EnumElement")); TLoc], TAst "Enum")
  | U_SomeEnumElement => ([TAst "EnumElement"], TOpt (TAst "EnumElement"))
  | U_ErrEE => ([TErr], TOpt (TAst "EnumElement"))
  | U_Method => ([TLoc; t_annots; TLoc; TLoc; TOpt TTok; TLoc; t_ty; TLoc; TIdent; TLoc; TVec (TAst "Arg"); TLoc;
                  TOpt (TTuple [TLoc; TTok]); TLoc; TLoc], TAst "Method")
  | U_Arg => ([TLoc; TAst "Direction"; t_annots; t_ty; TLoc; TOpt TIdent; TLoc], TAst "Arg")
  | U_Direction => ([TLoc; TOpt (TTokOf dir_col); TLoc], TAst "Direction")
  | U_Const => ([TLoc; t_annots; TLoc; t_ty; TLoc; TIdent; TLoc; TString; TLoc], TAst "Const")
  | U_Field => ([TLoc; t_annots; TLoc; t_ty; TLoc; TIdent; TLoc; TOpt TString; TLoc], TAst "Field")
  | U_EnumElement => ([TLoc; TLoc; TLoc; TIdent; TLoc; TOpt TTok; TLoc], TAst "EnumElement")
  | U_TypeVoid | U_TypePrimitive | U_TypeString | U_TypeCharSequence => ([TLoc; TTok; TLoc], t_ty)
  | U_TypeArray => ([TLoc; TLoc; t_ty; TLoc; TLoc], t_ty)
  | U_TypeList => ([TLoc; TLoc; TLoc; t_ty; TLoc], t_ty)
  | U_TypeRawList | U_TypeRawMap => ([TLoc; TLoc], t_ty)
  | U_TypeMap => ([TLoc; TLoc; TLoc; t_ty; t_ty; TLoc], t_ty)
  | U_TypeCustom => ([TLoc; TQName; TLoc], t_ty)
  | U_AnnotationList => ([TVec (TOpt (TAst "Annotation"))], t_annots)
  | U_OptAnnotation => ([TTok; TOpt (TVec TKV)], TOpt (TAst "Annotation"))
  | U_AnnotationParam => ([TIdent; TOpt TTok], TKV)
  | U_ValueToString => ([TTok], TString)
  | U_ValueEmptyBraces | U_ValueBraces => ([], TString)
  | U_ValueDotted => ([TTok; TTok], TString)
  end.

(* ---- DIRECTION tokens are `in`, `out` or `inout` ---- *)
Definition dir_words : list str := [lit "in"; lit "out"; lit "inout"].

(* the lexer entries that map to the DIRECTION column all have a finite language inside dir_words *)
Definition dir_entries_ok : bool :=
  (fix go (tbl : list (re * bool)) (i : N) : bool :=
     match tbl with
     | [] => true
     | (r, _) :: tbl' =>
         (match gen_token_to_integer i with
          | Some c => if N.eqb c dir_col
                      then match lang_list r with Some L => forallb (fun w => mem_str w dir_words) L | None => false end
                      else true
          | None => true
          end) && go tbl' (N.succ i)
     end) gen_lex_table 0.

Lemma dir_entries_checked : dir_entries_ok = true.
Proof. vm_compute. reflexivity. Qed.

Lemma dir_entries_spec : forall idx r sk c,
  nth_error gen_lex_table idx = Some (r, sk) -> gen_token_to_integer (N.of_nat idx) = Some c -> c = dir_col ->
  exists L, lang_list r = Some L /\ forallb (fun w => mem_str w dir_words) L = true.
Proof.
  pose proof dir_entries_checked as H. unfold dir_entries_ok in H.
  assert (G : forall tbl i,
    (fix go (tbl : list (re * bool)) (i : N) : bool :=
       match tbl with
       | [] => true
       | (r, _) :: tbl' =>
           (match gen_token_to_integer i with
            | Some c => if N.eqb c dir_col
                        then match lang_list r with Some L => forallb (fun w => mem_str w dir_words) L | None => false end
                        else true
            | None => true
            end) && go tbl' (N.succ i)
       end) tbl i = true ->
    forall idx r sk c, nth_error tbl idx = Some (r, sk) -> gen_token_to_integer (i + N.of_nat idx) = Some c -> c = dir_col ->
      exists L, lang_list r = Some L /\ forallb (fun w => mem_str w dir_words) L = true).
  { induction tbl as [|[r0 sk0] tbl IH]; intros i Hg idx r sk c Hn Ht Hc; [destruct idx; discriminate|].
    apply andb_true_iff in Hg as [H1 H2].
    destruct idx as [|idx]; cbn in Hn.
    - inversion Hn; subst. rewrite N.add_0_r in Ht. rewrite Ht, N.eqb_refl in H1.
      destruct (lang_list r) as [L|]; [|discriminate]. exists L. auto.
    - apply (IH (N.succ i) H2 idx r sk c Hn); [|exact Hc].
      replace (N.succ i + N.of_nat idx)%N with (i + N.of_nat (S idx))%N by lia. exact Ht. }
  intros idx r sk c Hn Ht Hc. apply (G gen_lex_table 0%N H idx r sk c Hn); [|exact Hc]. exact Ht.
Qed.

Definition quiet (u : utag) : bool := match u with U_ErrItem => false | _ => true end.

Section UserTyped.
  Variable cx : ctx.
  Hypothesis WF : length (cx_lc cx) = S (length (cx_src cx)).
  Variable loud : bool.
  Notation valid := (valid cx).
  Notation has_type := (has_type cx loud).

  Theorem direction_words s : token_lang dir_col s -> In s dir_words.
  Proof.
    intros [[idx [r [sk [rest [fuel [Hn [Ht Hm]]]]]]] _].
    destruct (dir_entries_spec idx r sk dir_col Hn Ht eq_refl) as [L [HL HF]].
    pose proof (finite_match fuel r L s rest HL Hm) as Hin.
    rewrite forallb_forall in HF. apply mem_str_In. apply HF. exact Hin.
  Qed.

  (* ---- helpers ---- *)
  Lemma with_range_typed t a b k :
    valid a -> valid b -> (forall r, has_type t (fst (k r))) -> has_type t (fst (with_range cx (VLoc a) (VLoc b) k)).
  Proof. intros Ha Hb Hk. unfold with_range. destruct (mk_range_total cx WF a b Ha Hb) as [r ->]. apply Hk. Qed.

  Lemma with_doc_typed t p k :
    valid p -> (forall d, has_type t (fst (k d))) -> has_type t (fst (with_doc cx (VLoc p) k)).
  Proof.
    intros Hp Hk. unfold with_doc. destruct (valid_char_index cx p Hp) as [i Hi].
    destruct (get_javadoc_total _ _ _ Hi) as [d ->]. apply Hk.
  Qed.

  Lemma all_of_typed {X} (f : sem -> option X) (Q : X -> Prop) t l :
    (forall v, has_type t v -> exists x, f v = Some x /\ Q x) -> Forall (has_type t) l ->
    exists r, all_of f l = Some r /\ Forall Q r.
  Proof.
    intros Hf F. induction F as [|v l Hv F [r [IH Q1]]]; [exists []; split; [reflexivity|constructor]|].
    destruct (Hf v Hv) as [x [Hx Qx]]. cbn. rewrite Hx, IH. eexists; split; [reflexivity|constructor; assumption].
  Qed.

  Lemma flatten_typed {X} (f : sem -> option X) (Q : X -> Prop) t l :
    (forall v, has_type t v -> exists x, f v = Some x /\ Q x) -> Forall (has_type (TOpt t)) l ->
    exists r, flatten_opts f l = Some r /\ Forall Q r.
  Proof.
    intros Hf F. induction F as [|v l Hv F [r [IH Q1]]]; [exists []; split; [reflexivity|constructor]|].
    destruct v; try contradiction. destruct o as [x|]; cbn.
    - destruct (Hf x Hv) as [y [Hy Qy]]. rewrite Hy, IH. eexists; split; [reflexivity|constructor; assumption].
    - exists r. auto.
  Qed.

  Lemma ident_tok v : has_type TIdent v -> exists s, v = VTok s /\ ident_ok s.
  Proof. destruct v; try contradiction. intros [_ H]. eauto. Qed.

  Lemma idents_typed l : Forall (has_type TIdent) l -> exists r, toks l = Some r /\ Forall ident_ok r.
  Proof.
    intros F. induction F as [|v l Hv F [r [IH Q]]]; [exists []; split; [reflexivity|constructor]|].
    destruct (ident_tok v Hv) as [s [-> Hs]]. cbn. rewrite IH. eexists; split; [reflexivity|constructor; assumption].
  Qed.

  Lemma as_annot_t v : has_type (TAst "Annotation") v -> exists x, as_annot v = Some x /\ annot_ok x.
  Proof. intros [S Nm]. destruct v; cbn in S; try contradiction; try discriminate. cbn in *. eauto. Qed.
  Lemma as_ie_t v : has_type (TAst "InterfaceElement") v -> exists x, as_ie v = Some x /\ ie_ok x.
  Proof. intros [S Nm]. destruct v; cbn in S; try contradiction; try discriminate. cbn in *. eauto. Qed.
  Lemma as_pe_t v : has_type (TAst "ParcelableElement") v -> exists x, as_pe v = Some x /\ pe_ok x.
  Proof. intros [S Nm]. destruct v; cbn in S; try contradiction; try discriminate. cbn in *. eauto. Qed.
  Lemma as_ee_t v : has_type (TAst "EnumElement") v -> exists x, as_ee v = Some x /\ ee_ok x.
  Proof. intros [S Nm]. destruct v; cbn in S; try contradiction; try discriminate. cbn in *. eauto. Qed.
  Lemma as_arg_t v : has_type (TAst "Arg") v -> exists x, as_arg v = Some x /\ arg_ok x.
  Proof. intros [S Nm]. destruct v; cbn in S; try contradiction; try discriminate. cbn in *. eauto. Qed.
  Lemma as_import_t v : has_type (TAst "Import") v -> exists x, as_import v = Some x /\ import_ok x.
  Proof. intros [S Nm]. destruct v; cbn in S; try contradiction; try discriminate. cbn in *. eauto. Qed.
  Lemma as_kv_t v : has_type TKV v -> exists x, as_kv v = Some x /\ ident_ok (fst x).
  Proof. destruct v; cbn; try contradiction; eauto. Qed.

  Lemma as_annots_typed v : has_type t_annots v -> exists l, as_annots v = Some l /\ annots_ok l.
  Proof.
    destruct v; try contradiction. intros H. apply has_type_vec in H. cbn.
    apply (all_of_typed as_annot annot_ok (TAst "Annotation")); [exact as_annot_t|exact H].
  Qed.

  Lemma kv_insert_ok kv l : ident_ok (fst kv) -> Forall (fun x => ident_ok (fst x)) l -> Forall (fun x => ident_ok (fst x)) (kv_insert kv l).
  Proof.
    intros Hk F. induction F as [|x l Hx F IH]; cbn; [constructor; [assumption|constructor]|].
    destruct (str_eqb (fst kv) (fst x)); [constructor; assumption|].
    destruct (str_ltb (fst kv) (fst x)); constructor; try assumption. constructor; assumption.
  Qed.
  Lemma kvs_of_ok l : Forall (fun x => ident_ok (fst x)) l -> Forall (fun x => ident_ok (fst x)) (kvs_of l).
  Proof.
    unfold kvs_of. intros F.
    assert (G : forall acc, Forall (fun x => ident_ok (fst x)) acc ->
                Forall (fun x => ident_ok (fst x)) (fold_left (fun acc kv => kv_insert kv acc) l acc)).
    { induction F as [|kv l Hk F IH]; intros acc Ha; cbn; [exact Ha|]. apply IH. apply kv_insert_ok; assumption. }
    apply G. constructor.
  Qed.

  Ltac inv_args :=
    repeat match goal with
           | H : Forall2 _ (_ :: _) _ |- _ => inversion H; subst; clear H
           | H : Forall2 _ [] _ |- _ => inversion H; subst; clear H
           end.
  (* destruct a value according to its (atomic) type, keeping what the type says about its names *)
  Ltac shape :=
    repeat match goal with
           | H : Typing.has_type _ _ TLoc ?v |- _ => destruct v; try contradiction; cbn in H
           | H : Typing.has_type _ _ TTok ?v |- _ => destruct v; try contradiction; clear H
           | H : Typing.has_type _ _ TIdent ?v |- _ => destruct v; try contradiction; destruct H as [_ H]; specialize (H eq_refl)
           | H : Typing.has_type _ _ TString ?v |- _ => destruct v; try contradiction; clear H
           | H : Typing.has_type _ _ TQName ?v |- _ => destruct v; try contradiction; cbn in H
           | H : Typing.has_type _ _ (TAst _) ?v |- _ =>
               let S := fresh "S" in let Nm := fresh "Nm" in
               destruct H as [S Nm]; destruct v; cbn in S; try contradiction; try discriminate; clear S; cbn [sem_names_ok] in Nm
           | H : Typing.has_type _ _ TErr ?v |- _ => destruct v; try contradiction; cbn in H
           end.
  Ltac ranges := repeat (apply with_range_typed; [assumption|assumption|intros ?]); try (apply with_doc_typed; [assumption|intros ?]);
                 repeat (apply with_range_typed; [assumption|assumption|intros ?]).
  (* the final goal: the built node has its shape and its names are fine *)
  Ltac built := split; [exact eq_refl|]; first [assumption | cbn; repeat split; auto; try (intros E; discriminate E)].

  Lemma err_typed label e name :
    err_ok cx e -> has_type (TOpt (TAst name)) (fst (act_err label cx (VErr e))).
  Proof.
    intros He. unfold act_err, diag_of_recovery.
    assert (D : exists d, diag_of_error cx e = Some d).
    { destruct e; cbn in He |- *.
      - destruct (mk_range_total cx WF loc loc He He) as [r ->]. eexists; reflexivity.
      - destruct (mk_range_total cx WF loc loc He He) as [r ->]. eexists; reflexivity.
      - destruct He as [H1 H2]. destruct (mk_range_total cx WF s e H1 H2) as [r ->]. eexists; reflexivity.
      - destruct He as [H1 H2]. destruct (mk_range_total cx WF s e H1 H2) as [r ->]. eexists; reflexivity. }
    destruct D as [d ->]. cbn. exact I.
  Qed.

  (* the item-level recovery action returns None, and pushes an Error *)
  Lemma err_loud label e name :
    err_ok cx e -> Typing.has_type cx (loud || errb (snd (act_err label cx (VErr e)))) (TLoud (TAst name)) (fst (act_err label cx (VErr e))).
  Proof.
    intros He. unfold act_err, diag_of_recovery.
    assert (D : exists d, diag_of_error cx e = Some d /\ d_kind d = DError).
    { destruct e; cbn in He |- *.
      - destruct (mk_range_total cx WF loc loc He He) as [r ->]. eexists; split; reflexivity.
      - destruct (mk_range_total cx WF loc loc He He) as [r ->]. eexists; split; reflexivity.
      - destruct He as [H1 H2]. destruct (mk_range_total cx WF s e H1 H2) as [r ->]. eexists; split; reflexivity.
      - destruct He as [H1 H2]. destruct (mk_range_total cx WF s e H1 H2) as [r ->]. eexists; split; reflexivity. }
    destruct D as [d [-> K]]. cbn. unfold is_error. cbn. rewrite K. apply orb_true_r.
  Qed.

  Lemma user_typed_quiet u vs : quiet u = true ->
    Forall2 has_type (fst (user_sig u)) vs -> has_type (snd (user_sig u)) (fst (user_fn u cx vs)).
  Proof.
    intros Q F. destruct u; try discriminate Q; clear Q; cbn [user_sig fst snd] in F |- *; inv_args; cbn [user_fn].
    - (* OptAidl *)
      shape.
      match goal with H : Typing.has_type _ _ (TVec (TAst "Import")) ?a, H' : Typing.has_type _ _ (TVec (TAst "Import")) ?b |- _ =>
        destruct a; try contradiction; destruct b; try contradiction; apply has_type_vec in H; apply has_type_vec in H';
        destruct (all_of_typed as_import import_ok _ _ as_import_t H) as [r1 [E1 Q1]];
        destruct (all_of_typed as_import import_ok _ _ as_import_t H') as [r2 [E2 Q2]] end.
      match goal with H : Typing.has_type _ _ (TLoud (TAst "Item")) ?o |- _ => destruct o; try contradiction; rename H into HI end.
      unfold act_OptAidl. rewrite E1, E2. destruct o as [x|]; [|exact HI].
      cbn in HI. destruct HI as [SI NI]. destruct x; cbn in SI; try contradiction; try discriminate. cbn in NI.
      split; [exact eq_refl|]. cbn. repeat split; assumption.
    - (* Package *) shape. unfold act_Package. ranges. built.
    - (* Import *)
      shape. match goal with H : Typing.has_type _ _ (TVec TIdent) ?a |- _ => destruct a; try contradiction; apply has_type_vec in H;
                                                                        destruct (idents_typed _ H) as [segs [E Q]] end.
      unfold act_Import. rewrite E. ranges. built. exists segs. auto.
    - (* QualifiedName *)
      shape. match goal with H : Typing.has_type _ _ (TVec TIdent) ?a |- _ => destruct a; try contradiction; apply has_type_vec in H;
                                                                        destruct (idents_typed _ H) as [segs [E Q]] end.
      unfold act_QualifiedName. rewrite E.
      assert (QQ : qualified_ok (match segs with [] => s | _ => join_dot segs ++ dotc :: s end)) by (exists segs, s; auto).
      destruct segs; exact QQ.
    - shape. built.
    - shape. built.
    - shape. built.
    - (* Interface *)
      match goal with H : Typing.has_type _ _ t_annots ?a |- _ => destruct (as_annots_typed _ H) as [an [EA QA]]; clear H end.
      match goal with H : Typing.has_type _ _ (TOpt TTok) ?o |- _ => destruct o as [| | |oo| | | | | | | | | | | | | | | | | | | | | | |]; try contradiction; rename H into HO end.
      match goal with H : Typing.has_type _ _ (TVec (TOpt (TAst "InterfaceElement"))) ?a |- _ =>
        destruct a; try contradiction; apply has_type_vec in H; destruct (flatten_typed as_ie ie_ok _ _ as_ie_t H) as [els [EL QL]] end.
      shape. unfold act_Interface. rewrite EA. cbn [is_some_sem].
      destruct oo as [x|]; rewrite EL; ranges; built.
    - shape. built.
    - shape. built.
    - shape. apply err_typed. assumption.
    - (* Parcelable *)
      match goal with H : Typing.has_type _ _ t_annots ?a |- _ => destruct (as_annots_typed _ H) as [an [EA QA]]; clear H end.
      match goal with H : Typing.has_type _ _ (TVec (TOpt (TAst "ParcelableElement"))) ?a |- _ =>
        destruct a; try contradiction; apply has_type_vec in H; destruct (flatten_typed as_pe pe_ok _ _ as_pe_t H) as [els [EL QL]] end.
      shape. unfold act_Parcelable. rewrite EA, EL. ranges. built.
    - shape. built.
    - shape. built.
    - shape. apply err_typed. assumption.
    - (* Enum *)
      match goal with H : Typing.has_type _ _ t_annots ?a |- _ => destruct (as_annots_typed _ H) as [an [EA QA]]; clear H end.
      match goal with H : Typing.has_type _ _ (TVec (TOpt (TAst "EnumElement"))) ?a |- _ =>
        destruct a; try contradiction; apply has_type_vec in H; destruct (flatten_typed as_ee ee_ok _ _ as_ee_t H) as [els [EL QL]] end.
      shape. unfold act_Enum. rewrite EA, EL. ranges. built.
    - shape. built.
    - shape. apply err_typed. assumption.
    - (* Method *)
      match goal with H : Typing.has_type _ _ t_annots ?a |- _ => destruct (as_annots_typed _ H) as [an [EA QA]]; clear H end.
      match goal with H : Typing.has_type _ _ (TOpt TTok) ?o |- _ => destruct o as [| | |oo| | | | | | | | | | | | | | | | | | | | | | |]; try contradiction; clear H end.
      match goal with H : Typing.has_type _ _ (TVec (TAst "Arg")) ?a |- _ =>
        destruct a; try contradiction; apply has_type_vec in H; destruct (all_of_typed as_arg arg_ok _ _ as_arg_t H) as [al [EL QL]]; clear H end.
      match goal with H : Typing.has_type _ _ (TOpt (TTuple [TLoc; TTok])) ?o |- _ =>
        destruct o as [| | |oc| | | | | | | | | | | | | | | | | | | | | | |]; try contradiction; rename H into HC end.
      shape.
      unfold act_Method. rewrite EA.
      assert (ISS : exists b, is_some_sem (VOpt oo) = Some b) by (destruct oo; eexists; reflexivity).
      destruct ISS as [ow ->]. rewrite EL.
      apply with_doc_typed; [assumption|intros doc].
      assert (FIN : forall a b c d e f g h mk ds, valid a -> valid b -> valid c -> valid d -> valid e -> valid f -> valid g -> valid h ->
                (forall r1 r2 r3 r4, method_ok (mk r1 r2 r3 r4)) ->
                has_type (TAst "Method") (fst (method_finish cx (VLoc a) (VLoc b) (VLoc c) (VLoc d) (VLoc e) (VLoc f) (VLoc g) (VLoc h) mk ds))).
      { intros a b c d e f g h mk ds Ha Hb Hc Hd He Hf Hg Hh Hmk. unfold method_finish, with_range.
        destruct (mk_range_total cx WF a b Ha Hb) as [r1 ->]. destruct (mk_range_total cx WF c d Hc Hd) as [r2 ->].
        destruct (mk_range_total cx WF e f He Hf) as [r3 ->]. destruct (mk_range_total cx WF g h Hg Hh) as [r4 ->].
        split; [exact eq_refl|]. apply Hmk. }
      assert (MK : forall code r1 r2 r3 r4, method_ok (Method ow s t al an code doc r1 r2 r3 r4)) by (intros; repeat split; assumption).
      destruct oc as [x|]; [|apply FIN; try assumption; apply MK].
      change (Typing.has_type cx loud (TTuple [TLoc; TTok]) x) in HC. destruct x; try contradiction.
      match goal with HC : Typing.has_type _ _ (TTuple _) (VTuple ?l) |- _ => destruct l as [|a1 [|a2 [|a3 rr]]]; cbn in HC; try tauto end.
      destruct HC as [HT1 [HT2 _]]. destruct a1; try contradiction. destruct a2; try contradiction. cbn in HT1.
      destruct (parse_u32 s0); [apply FIN; try assumption; apply MK|].
      match goal with |- context [mk_range cx ?a ?b] => destruct (mk_range_total cx WF a b) as [r E]; try assumption; rewrite E end.
      apply FIN; try assumption; apply MK.
    - (* Arg *)
      match goal with H : Typing.has_type _ _ t_annots ?a |- _ => destruct (as_annots_typed _ H) as [an [EA QA]]; clear H end.
      match goal with H : Typing.has_type _ _ (TOpt TIdent) ?o |- _ => destruct o as [| | |oo| | | | | | | | | | | | | | | | | | | | | | |]; try contradiction; rename H into HO end.
      shape. unfold act_Arg. rewrite EA.
      destruct oo as [x|]; [cbn in HO; destruct x; try contradiction; destruct HO as [_ HO]; specialize (HO eq_refl)|]; ranges; built.
    - (* Direction *)
      match goal with H : Typing.has_type _ _ (TOpt (TTokOf dir_col)) ?o |- _ => destruct o as [| | |oo| | | | | | | | | | | | | | | | | | | | | | |]; try contradiction; rename H into HO end.
      shape. unfold act_Direction. destruct oo as [x|]; [|built].
      cbn in HO. destruct x; try contradiction. apply direction_words in HO.
      destruct HO as [<-|[<-|[<-|[]]]];
        repeat match goal with |- context [str_eqb ?a ?b] => let v := eval vm_compute in (str_eqb a b) in change (str_eqb a b) with v end;
        cbv iota; ranges; built.
    - (* Const *)
      match goal with H : Typing.has_type _ _ t_annots ?a |- _ => destruct (as_annots_typed _ H) as [an [EA QA]]; clear H end.
      shape. unfold act_Const. rewrite EA. ranges. built.
    - (* Field *)
      match goal with H : Typing.has_type _ _ t_annots ?a |- _ => destruct (as_annots_typed _ H) as [an [EA QA]]; clear H end.
      match goal with H : Typing.has_type _ _ (TOpt TString) ?o |- _ => destruct o as [| | |oo| | | | | | | | | | | | | | | | | | | | | | |]; try contradiction; rename H into HO end.
      shape. unfold act_Field. rewrite EA.
      destruct oo as [x|]; [cbn in HO; destruct x; try contradiction|]; ranges; built.
    - (* EnumElement *)
      match goal with H : Typing.has_type _ _ (TOpt TTok) ?o |- _ => destruct o as [| | |oo| | | | | | | | | | | | | | | | | | | | | | |]; try contradiction; rename H into HO end.
      shape. unfold act_EnumElement.
      destruct oo as [x|]; [cbn in HO; destruct x; try contradiction|]; ranges; built.
    - shape. unfold act_TypeVoid, simple_type. ranges. built.
    - shape. unfold act_TypePrimitive, simple_type. ranges. built.
    - shape. unfold act_TypeString, simple_type. ranges. built.
    - shape. unfold act_TypeCharSequence, simple_type. ranges. built.
    - shape. unfold act_TypeArray. ranges. built.
    - shape. unfold act_TypeList. ranges. built.
    - shape. unfold act_TypeRawList. ranges. built.
    - shape. unfold act_TypeMap. ranges. built.
    - shape. unfold act_TypeRawMap. ranges. built.
    - shape. unfold act_TypeCustom. ranges. built.
    - (* AnnotationList *)
      match goal with H : Typing.has_type _ _ (TVec (TOpt (TAst "Annotation"))) ?a |- _ =>
        destruct a; try contradiction; apply has_type_vec in H; destruct (flatten_typed as_annot annot_ok _ _ as_annot_t H) as [an [EL QL]] end.
      unfold act_AnnotationList. rewrite EL. cbn [ok fst]. apply has_type_vec. clear -QL.
      induction QL; constructor; [split; [exact eq_refl|assumption]|assumption].
    - (* OptAnnotation *)
      match goal with H : Typing.has_type _ _ (TOpt (TVec TKV)) ?o |- _ => destruct o as [| | |oo| | | | | | | | | | | | | | | | | | | | | | |]; try contradiction; rename H into HO end.
      shape. unfold act_OptAnnotation. destruct oo as [x|]; [|built; constructor].
      change (Typing.has_type cx loud (TVec TKV) x) in HO. destruct x; try contradiction. apply has_type_vec in HO.
      destruct (all_of_typed as_kv (fun kv => ident_ok (fst kv)) _ _ as_kv_t HO) as [kvs [-> Q]].
      split; [exact eq_refl|]. cbn. unfold annot_ok. cbn. apply kvs_of_ok. exact Q.
    - (* AnnotationParam *)
      match goal with H : Typing.has_type _ _ (TOpt TTok) ?o |- _ => destruct o as [| | |oo| | | | | | | | | | | | | | | | | | | | | | |]; try contradiction; rename H into HO end.
      shape. unfold act_AnnotationParam. destruct oo as [x|]; [cbn in HO; destruct x; try contradiction|]; cbn; assumption.
    - shape. exact I.
    - exact I.
    - exact I.
    - shape. exact I.
  Qed.

  Theorem user_typed u vs :
    Forall2 has_type (fst (user_sig u)) vs ->
    Typing.has_type cx (loud || errb (snd (user_fn u cx vs))) (snd (user_sig u)) (fst (user_fn u cx vs)).
  Proof.
    intros F. destruct (quiet u) eqn:Q; [apply has_type_lift; apply user_typed_quiet; assumption|].
    destruct u; try discriminate Q. cbn [user_sig fst snd] in F |- *. inv_args. cbn [user_fn].
    match goal with H : Typing.has_type _ _ TErr ?v |- _ => destruct v; try contradiction; cbn in H end.
    apply err_loud. assumption.
  Qed.
End UserTyped.
