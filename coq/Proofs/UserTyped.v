(* every user action of the grammar maps well-typed arguments to a well-typed result
   (hence never VBad / VPanic): the hypothesis `user_typed` of Proofs/Ainfer.v *)
From Coq Require Import ZArith.
From AidlV Require Import Model.Wrappers Model.Lexer Gen.LrTables Proofs.Totality Proofs.Typing Proofs.JavadocTotal Proofs.RegexLang.

(* the terminal column of DIRECTION, looked up in the regenerated terminal names *)
Fixpoint index_of (n : string) (l : list string) (i : N) : option N :=
  match l with [] => None | x :: l' => if String.eqb x n then Some i else index_of n l' (N.succ i) end.
Definition dir_col : N := match index_of "DIRECTION" gen_terminals 0 with Some c => c | None => 0 end.

Notation t_annots := (TVec (TAst "Annotation")).
Notation t_ty := (TAst "Type").

Definition user_sig (u : utag) : list vty * vty :=
  match u with
  | U_OptAidl => ([TAst "Package"; TVec (TAst "Import"); TVec (TAst "Import"); TOpt (TAst "Item")], TOpt (TAst "Aidl"))
  | U_Package => ([TLoc; TLoc; TString; TLoc; TLoc], TAst "Package")
  | U_Import => ([TLoc; TLoc; TVec TTok; TTok; TLoc; TLoc], TAst "Import")
  | U_QualifiedName => ([TVec TTok; TTok], TString)
  | U_ItemInterface => ([TAst "Interface"], TOpt (TAst "Item"))
  | U_ItemParcelable => ([TAst "Parcelable"], TOpt (TAst "Item"))
  | U_ItemEnum => ([TAst "Enum"], TOpt (TAst "Item"))
  | U_ErrItem => ([TErr], TOpt (TAst "Item"))
  | U_Interface => ([TLoc; t_annots; TLoc; TOpt TTok; TLoc; TTok; TLoc; TVec (TOpt (TAst "InterfaceElement")); TLoc], TAst "Interface")
  | U_IEMethod => ([TAst "Method"], TOpt (TAst "InterfaceElement"))
  | U_IEConst => ([TAst "Const"], TOpt (TAst "InterfaceElement"))
  | U_ErrIE => ([TErr], TOpt (TAst "InterfaceElement"))
  | U_Parcelable => ([TLoc; t_annots; TLoc; TLoc; TTok; TLoc; TVec (TOpt (TAst "ParcelableElement")); TLoc], TAst "Parcelable")
  | U_PEField => ([TAst "Field"], TOpt (TAst "ParcelableElement"))
  | U_PEConst => ([TAst "Const"], TOpt (TAst "ParcelableElement"))
  | U_ErrPE => ([TErr], TOpt (TAst "ParcelableElement"))
  | U_Enum => ([TLoc; t_annots; TLoc; TLoc; TTok; TLoc; TVec (TOpt (TAst "EnumElement")); TLoc], TAst "Enum")
  | U_SomeEnumElement => ([TAst "EnumElement"], TOpt (TAst "EnumElement"))
  | U_ErrEE => ([TErr], TOpt (TAst "EnumElement"))
  | U_Method => ([TLoc; t_annots; TLoc; TLoc; TOpt TTok; TLoc; t_ty; TLoc; TTok; TLoc; TVec (TAst "Arg"); TLoc;
                  TOpt (TTuple [TLoc; TTok]); TLoc; TLoc], TAst "Method")
  | U_Arg => ([TLoc; TAst "Direction"; t_annots; t_ty; TLoc; TOpt TTok; TLoc], TAst "Arg")
  | U_Direction => ([TLoc; TOpt (TTokOf dir_col); TLoc], TAst "Direction")
  | U_Const => ([TLoc; t_annots; TLoc; t_ty; TLoc; TTok; TLoc; TString; TLoc], TAst "Const")
  | U_Field => ([TLoc; t_annots; TLoc; t_ty; TLoc; TTok; TLoc; TOpt TString; TLoc], TAst "Field")
  | U_EnumElement => ([TLoc; TLoc; TLoc; TTok; TLoc; TOpt TTok; TLoc], TAst "EnumElement")
  | U_TypeVoid | U_TypePrimitive | U_TypeString | U_TypeCharSequence => ([TLoc; TTok; TLoc], t_ty)
  | U_TypeArray => ([TLoc; TLoc; t_ty; TLoc; TLoc], t_ty)
  | U_TypeList => ([TLoc; TLoc; TLoc; t_ty; TLoc], t_ty)
  | U_TypeRawList | U_TypeRawMap => ([TLoc; TLoc], t_ty)
  | U_TypeMap => ([TLoc; TLoc; TLoc; t_ty; t_ty; TLoc], t_ty)
  | U_TypeCustom => ([TLoc; TString; TLoc], t_ty)
  | U_AnnotationList => ([TVec (TOpt (TAst "Annotation"))], t_annots)
  | U_OptAnnotation => ([TTok; TOpt (TVec TKV)], TOpt (TAst "Annotation"))
  | U_AnnotationParam => ([TTok; TOpt TTok], TKV)
  | U_ValueToString => ([TTok], TString)
  | U_ValueEmptyBraces | U_ValueBraces => ([], TString)
  | U_ValueDotted => ([TTok; TTok], TString)
  end.

(* ---- DIRECTION tokens are `in`, `out` or `inout` ---- *)
Definition dir_words : list str := [lit "in"; lit "out"; lit "inout"].

(* the lexer entries that map to the DIRECTION column all have a finite language inside dir_words *)
Definition dir_entries_ok : bool :=
  (fix go (tbl : list (re * bool)) (i : N) : bool :=
     match tbl with
     | [] => true
     | (r, _) :: tbl' =>
         (match gen_token_to_integer i with
          | Some c => if N.eqb c dir_col
                      then match lang_list r with Some L => forallb (fun w => mem_str w dir_words) L | None => false end
                      else true
          | None => true
          end) && go tbl' (N.succ i)
     end) gen_lex_table 0.

Lemma dir_entries_checked : dir_entries_ok = true.
Proof. vm_compute. reflexivity. Qed.

Lemma dir_entries_spec : forall idx r sk c,
  nth_error gen_lex_table idx = Some (r, sk) -> gen_token_to_integer (N.of_nat idx) = Some c -> c = dir_col ->
  exists L, lang_list r = Some L /\ forallb (fun w => mem_str w dir_words) L = true.
Proof.
  pose proof dir_entries_checked as H. unfold dir_entries_ok in H.
  assert (G : forall tbl i,
    (fix go (tbl : list (re * bool)) (i : N) : bool :=
       match tbl with
       | [] => true
       | (r, _) :: tbl' =>
           (match gen_token_to_integer i with
            | Some c => if N.eqb c dir_col
                        then match lang_list r with Some L => forallb (fun w => mem_str w dir_words) L | None => false end
                        else true
            | None => true
            end) && go tbl' (N.succ i)
       end) tbl i = true ->
    forall idx r sk c, nth_error tbl idx = Some (r, sk) -> gen_token_to_integer (i + N.of_nat idx) = Some c -> c = dir_col ->
      exists L, lang_list r = Some L /\ forallb (fun w => mem_str w dir_words) L = true).
  { induction tbl as [|[r0 sk0] tbl IH]; intros i Hg idx r sk c Hn Ht Hc; [destruct idx; discriminate|].
    apply andb_true_iff in Hg as [H1 H2].
    destruct idx as [|idx]; cbn in Hn.
    - inversion Hn; subst. rewrite N.add_0_r in Ht. rewrite Ht, N.eqb_refl in H1.
      destruct (lang_list r) as [L|]; [|discriminate]. exists L. auto.
    - apply (IH (N.succ i) H2 idx r sk c Hn); [|exact Hc].
      replace (N.succ i + N.of_nat idx)%N with (i + N.of_nat (S idx))%N by lia. exact Ht. }
  intros idx r sk c Hn Ht Hc. apply (G gen_lex_table 0%N H idx r sk c Hn); [|exact Hc]. exact Ht.
Qed.

Section UserTyped.
  Variable cx : ctx.
  Hypothesis WF : length (cx_lc cx) = S (length (cx_src cx)).
  Notation valid := (valid cx).
  Notation has_type := (has_type cx).

  Theorem direction_words s : token_lang dir_col s -> In s dir_words.
  Proof.
    intros [idx [r [sk [rest [fuel [Hn [Ht Hm]]]]]]].
    destruct (dir_entries_spec idx r sk dir_col Hn Ht eq_refl) as [L [HL HF]].
    pose proof (finite_match fuel r L s rest HL Hm) as Hin.
    rewrite forallb_forall in HF. apply mem_str_In. apply HF. exact Hin.
  Qed.

  (* ---- helpers ---- *)
  Lemma with_range_typed t a b k :
    valid a -> valid b -> (forall r, has_type t (fst (k r))) -> has_type t (fst (with_range cx (VLoc a) (VLoc b) k)).
  Proof. intros Ha Hb Hk. unfold with_range. destruct (mk_range_total cx WF a b Ha Hb) as [r ->]. apply Hk. Qed.

  Lemma with_doc_typed t p k :
    valid p -> (forall d, has_type t (fst (k d))) -> has_type t (fst (with_doc cx (VLoc p) k)).
  Proof.
    intros Hp Hk. unfold with_doc. destruct (valid_char_index cx p Hp) as [i Hi].
    destruct (get_javadoc_total _ _ _ Hi) as [d ->]. apply Hk.
  Qed.

  Lemma all_of_typed {X} (f : sem -> option X) t l :
    (forall v, has_type t v -> exists x, f v = Some x) -> Forall (has_type t) l -> exists r, all_of f l = Some r.
  Proof.
    intros Hf F. induction F as [|v l Hv F [r IH]]; [exists []; reflexivity|].
    destruct (Hf v Hv) as [x Hx]. cbn. rewrite Hx, IH. eexists; reflexivity.
  Qed.

  Lemma flatten_typed {X} (f : sem -> option X) t l :
    (forall v, has_type t v -> exists x, f v = Some x) -> Forall (has_type (TOpt t)) l -> exists r, flatten_opts f l = Some r.
  Proof.
    intros Hf F. induction F as [|v l Hv F [r IH]]; [exists []; reflexivity|].
    destruct v; try contradiction. destruct o as [x|]; cbn.
    - destruct (Hf x Hv) as [y Hy]. rewrite Hy, IH. eexists; reflexivity.
    - exists r. exact IH.
  Qed.

  Lemma toks_typed l : Forall (has_type TTok) l -> exists r, toks l = Some r.
  Proof.
    intros F. induction F as [|v l Hv F [r IH]]; [exists []; reflexivity|].
    destruct v; try contradiction. cbn. rewrite IH. eexists; reflexivity.
  Qed.

  Lemma as_annot_t v : has_type (TAst "Annotation") v -> exists x, as_annot v = Some x.
  Proof. destruct v; cbn; try contradiction; try discriminate; eauto. Qed.
  Lemma as_ie_t v : has_type (TAst "InterfaceElement") v -> exists x, as_ie v = Some x.
  Proof. destruct v; cbn; try contradiction; try discriminate; eauto. Qed.
  Lemma as_pe_t v : has_type (TAst "ParcelableElement") v -> exists x, as_pe v = Some x.
  Proof. destruct v; cbn; try contradiction; try discriminate; eauto. Qed.
  Lemma as_ee_t v : has_type (TAst "EnumElement") v -> exists x, as_ee v = Some x.
  Proof. destruct v; cbn; try contradiction; try discriminate; eauto. Qed.
  Lemma as_arg_t v : has_type (TAst "Arg") v -> exists x, as_arg v = Some x.
  Proof. destruct v; cbn; try contradiction; try discriminate; eauto. Qed.
  Lemma as_import_t v : has_type (TAst "Import") v -> exists x, as_import v = Some x.
  Proof. destruct v; cbn; try contradiction; try discriminate; eauto. Qed.
  Lemma as_kv_t v : has_type TKV v -> exists x, as_kv v = Some x.
  Proof. destruct v; cbn; try contradiction; eauto. Qed.

  Lemma as_annots_typed v : has_type t_annots v -> exists l, as_annots v = Some l.
  Proof.
    destruct v; try contradiction. intros H. apply has_type_vec in H. cbn.
    apply (all_of_typed as_annot (TAst "Annotation")); [exact as_annot_t|exact H].
  Qed.

  Ltac inv_args :=
    repeat match goal with
           | H : Forall2 _ (_ :: _) _ |- _ => inversion H; subst; clear H
           | H : Forall2 _ [] _ |- _ => inversion H; subst; clear H
           end.
  (* destruct a value according to its (atomic) type *)
  Ltac shape :=
    repeat match goal with
           | H : Typing.has_type _ TLoc ?v |- _ => destruct v; try contradiction; cbn in H
           | H : Typing.has_type _ TTok ?v |- _ => destruct v; try contradiction; clear H
           | H : Typing.has_type _ TString ?v |- _ => destruct v; try contradiction; clear H
           | H : Typing.has_type _ (TAst _) ?v |- _ => destruct v; cbn in H; try contradiction; try discriminate; clear H
           | H : Typing.has_type _ TErr ?v |- _ => destruct v; try contradiction; cbn in H
           end.
  Ltac ranges := repeat (apply with_range_typed; [assumption|assumption|intros ?]); try (apply with_doc_typed; [assumption|intros ?]);
                 repeat (apply with_range_typed; [assumption|assumption|intros ?]).

  Lemma err_typed label e name :
    err_ok cx e -> has_type (TOpt (TAst name)) (fst (act_err label cx (VErr e))).
  Proof.
    intros He. unfold act_err, diag_of_recovery.
    assert (D : exists d, diag_of_error cx e = Some d).
    { destruct e; cbn in He |- *.
      - destruct (mk_range_total cx WF loc loc He He) as [r ->]. eexists; reflexivity.
      - destruct (mk_range_total cx WF loc loc He He) as [r ->]. eexists; reflexivity.
      - destruct He as [H1 H2]. destruct (mk_range_total cx WF s e H1 H2) as [r ->]. eexists; reflexivity.
      - destruct He as [H1 H2]. destruct (mk_range_total cx WF s e H1 H2) as [r ->]. eexists; reflexivity. }
    destruct D as [d ->]. cbn. exact I.
  Qed.

  Theorem user_typed u vs :
    Forall2 has_type (fst (user_sig u)) vs -> has_type (snd (user_sig u)) (fst (user_fn u cx vs)).
  Proof.
    intros F. destruct u; cbn [user_sig fst snd] in F |- *; inv_args; cbn [user_fn].
    - (* OptAidl *)
      shape.
      match goal with H : Typing.has_type _ (TVec (TAst "Import")) ?a, H' : Typing.has_type _ (TVec (TAst "Import")) ?b |- _ =>
        destruct a; try contradiction; destruct b; try contradiction; apply has_type_vec in H; apply has_type_vec in H';
        destruct (all_of_typed as_import _ _ as_import_t H) as [r1 E1]; destruct (all_of_typed as_import _ _ as_import_t H') as [r2 E2] end.
      match goal with H : Typing.has_type _ (TOpt (TAst "Item")) ?o |- _ => destruct o; try contradiction end.
      unfold act_OptAidl. rewrite E1, E2. destruct o as [x|]; [|exact I].
      match goal with H : Typing.has_type _ (TOpt (TAst "Item")) _ |- _ => cbn in H end.
      destruct x; try contradiction; try discriminate. exact eq_refl.
    - (* Package *) shape. unfold act_Package. ranges. exact eq_refl.
    - (* Import *)
      shape. match goal with H : Typing.has_type _ (TVec TTok) ?a |- _ => destruct a; try contradiction; apply has_type_vec in H;
                                                                        destruct (toks_typed _ H) as [segs E] end.
      unfold act_Import. rewrite E. ranges. exact eq_refl.
    - (* QualifiedName *)
      shape. match goal with H : Typing.has_type _ (TVec TTok) ?a |- _ => destruct a; try contradiction; apply has_type_vec in H;
                                                                        destruct (toks_typed _ H) as [segs E] end.
      unfold act_QualifiedName. rewrite E. destruct segs; exact I.
    - shape. exact eq_refl.
    - shape. exact eq_refl.
    - shape. exact eq_refl.
    - (* ErrItem *) shape. apply err_typed. assumption.
    - (* Interface *)
      shape.
      match goal with H : Typing.has_type _ t_annots ?a |- _ => destruct (as_annots_typed _ H) as [an EA]; clear H end.
      match goal with H : Typing.has_type _ (TOpt TTok) ?o |- _ => destruct o; try contradiction; rename H into HO end.
      match goal with H : Typing.has_type _ (TVec (TOpt (TAst "InterfaceElement"))) ?a |- _ =>
        destruct a; try contradiction; apply has_type_vec in H; destruct (flatten_typed as_ie _ _ as_ie_t H) as [els EL] end.
      unfold act_Interface. rewrite EA. cbn [is_some_sem].
      destruct o as [x|]; rewrite EL; ranges; exact eq_refl.
    - shape. exact eq_refl.
    - shape. exact eq_refl.
    - shape. apply err_typed. assumption.
    - (* Parcelable *)
      shape.
      match goal with H : Typing.has_type _ t_annots ?a |- _ => destruct (as_annots_typed _ H) as [an EA]; clear H end.
      match goal with H : Typing.has_type _ (TVec (TOpt (TAst "ParcelableElement"))) ?a |- _ =>
        destruct a; try contradiction; apply has_type_vec in H; destruct (flatten_typed as_pe _ _ as_pe_t H) as [els EL] end.
      unfold act_Parcelable. rewrite EA, EL. ranges. exact eq_refl.
    - shape. exact eq_refl.
    - shape. exact eq_refl.
    - shape. apply err_typed. assumption.
    - (* Enum *)
      shape.
      match goal with H : Typing.has_type _ t_annots ?a |- _ => destruct (as_annots_typed _ H) as [an EA]; clear H end.
      match goal with H : Typing.has_type _ (TVec (TOpt (TAst "EnumElement"))) ?a |- _ =>
        destruct a; try contradiction; apply has_type_vec in H; destruct (flatten_typed as_ee _ _ as_ee_t H) as [els EL] end.
      unfold act_Enum. rewrite EA, EL. ranges. exact eq_refl.
    - shape. exact eq_refl.
    - shape. apply err_typed. assumption.
    - (* Method *)
      match goal with H : Typing.has_type _ t_annots ?a |- _ => destruct (as_annots_typed _ H) as [an EA]; clear H end.
      match goal with H : Typing.has_type _ (TOpt TTok) ?o |- _ => destruct o as [| | |oo| | | | | | | | | | | | | | | | | | | | | | |]; try contradiction; clear H end.
      match goal with H : Typing.has_type _ (TVec (TAst "Arg")) ?a |- _ =>
        destruct a; try contradiction; apply has_type_vec in H; destruct (all_of_typed as_arg _ _ as_arg_t H) as [al EL]; clear H end.
      match goal with H : Typing.has_type _ (TOpt (TTuple [TLoc; TTok])) ?o |- _ =>
        destruct o as [| | |oc| | | | | | | | | | | | | | | | | | | | | | |]; try contradiction; rename H into HC end.
      shape.
      unfold act_Method. rewrite EA.
      assert (ISS : exists b, is_some_sem (VOpt oo) = Some b) by (destruct oo; eexists; reflexivity).
      destruct ISS as [ow ->]. rewrite EL.
      apply with_doc_typed; [assumption|intros doc].
      assert (FIN : forall a b c d e f g h mk ds, valid a -> valid b -> valid c -> valid d -> valid e -> valid f -> valid g -> valid h ->
                has_type (TAst "Method") (fst (method_finish cx (VLoc a) (VLoc b) (VLoc c) (VLoc d) (VLoc e) (VLoc f) (VLoc g) (VLoc h) mk ds))).
      { intros a b c d e f g h mk ds Ha Hb Hc Hd He Hf Hg Hh. unfold method_finish, with_range.
        destruct (mk_range_total cx WF a b Ha Hb) as [r1 ->]. destruct (mk_range_total cx WF c d Hc Hd) as [r2 ->].
        destruct (mk_range_total cx WF e f He Hf) as [r3 ->]. destruct (mk_range_total cx WF g h Hg Hh) as [r4 ->]. exact eq_refl. }
      destruct oc as [x|]; [|apply FIN; assumption].
      change (Typing.has_type cx (TTuple [TLoc; TTok]) x) in HC. destruct x; try contradiction.
      match goal with HC : Typing.has_type _ (TTuple _) (VTuple ?l) |- _ => destruct l as [|a1 [|a2 [|a3 rr]]]; cbn in HC; try tauto end.
      destruct HC as [HT1 [HT2 _]]. destruct a1; try contradiction. destruct a2; try contradiction. cbn in HT1.
      destruct (parse_u32 s0); [apply FIN; assumption|].
      match goal with |- context [mk_range cx ?a ?b] => destruct (mk_range_total cx WF a b) as [r E]; try assumption; rewrite E end.
      apply FIN; assumption.
    - (* Arg *)
      match goal with H : Typing.has_type _ t_annots ?a |- _ => destruct (as_annots_typed _ H) as [an EA]; clear H end.
      match goal with H : Typing.has_type _ (TOpt TTok) ?o |- _ => destruct o as [| | |oo| | | | | | | | | | | | | | | | | | | | | | |]; try contradiction; rename H into HO end.
      shape. unfold act_Arg. rewrite EA.
      destruct oo as [x|]; [cbn in HO; destruct x; try contradiction|]; ranges; exact eq_refl.
    - (* Direction *)
      match goal with H : Typing.has_type _ (TOpt (TTokOf dir_col)) ?o |- _ => destruct o as [| | |oo| | | | | | | | | | | | | | | | | | | | | | |]; try contradiction; rename H into HO end.
      shape. unfold act_Direction. destruct oo as [x|]; [|exact eq_refl].
      cbn in HO. destruct x; try contradiction. apply direction_words in HO.
      destruct HO as [<-|[<-|[<-|[]]]];
        repeat match goal with |- context [str_eqb ?a ?b] => let v := eval vm_compute in (str_eqb a b) in change (str_eqb a b) with v end;
        cbv iota; ranges; exact eq_refl.
    - (* Const *)
      match goal with H : Typing.has_type _ t_annots ?a |- _ => destruct (as_annots_typed _ H) as [an EA]; clear H end.
      shape. unfold act_Const. rewrite EA. ranges. exact eq_refl.
    - (* Field *)
      match goal with H : Typing.has_type _ t_annots ?a |- _ => destruct (as_annots_typed _ H) as [an EA]; clear H end.
      match goal with H : Typing.has_type _ (TOpt TString) ?o |- _ => destruct o as [| | |oo| | | | | | | | | | | | | | | | | | | | | | |]; try contradiction; rename H into HO end.
      shape. unfold act_Field. rewrite EA.
      destruct oo as [x|]; [cbn in HO; destruct x; try contradiction|]; ranges; exact eq_refl.
    - (* EnumElement *)
      match goal with H : Typing.has_type _ (TOpt TTok) ?o |- _ => destruct o as [| | |oo| | | | | | | | | | | | | | | | | | | | | | |]; try contradiction; rename H into HO end.
      shape. unfold act_EnumElement.
      destruct oo as [x|]; [cbn in HO; destruct x; try contradiction|]; ranges; exact eq_refl.
    - shape. unfold act_TypeVoid, simple_type. ranges. exact eq_refl.
    - shape. unfold act_TypePrimitive, simple_type. ranges. exact eq_refl.
    - shape. unfold act_TypeString, simple_type. ranges. exact eq_refl.
    - shape. unfold act_TypeCharSequence, simple_type. ranges. exact eq_refl.
    - shape. unfold act_TypeArray. ranges. exact eq_refl.
    - shape. unfold act_TypeList. ranges. exact eq_refl.
    - shape. unfold act_TypeRawList. ranges. exact eq_refl.
    - shape. unfold act_TypeMap. ranges. exact eq_refl.
    - shape. unfold act_TypeRawMap. ranges. exact eq_refl.
    - shape. unfold act_TypeCustom. ranges. exact eq_refl.
    - (* AnnotationList *)
      match goal with H : Typing.has_type _ (TVec (TOpt (TAst "Annotation"))) ?a |- _ =>
        destruct a; try contradiction; apply has_type_vec in H; destruct (flatten_typed as_annot _ _ as_annot_t H) as [an EL] end.
      unfold act_AnnotationList. rewrite EL. cbn [ok fst]. apply has_type_vec. clear. induction an; constructor; [exact eq_refl|assumption].
    - (* OptAnnotation *)
      match goal with H : Typing.has_type _ (TOpt (TVec TKV)) ?o |- _ => destruct o as [| | |oo| | | | | | | | | | | | | | | | | | | | | | |]; try contradiction; rename H into HO end.
      shape. unfold act_OptAnnotation. destruct oo as [x|]; [|exact eq_refl].
      change (Typing.has_type cx (TVec TKV) x) in HO. destruct x; try contradiction. apply has_type_vec in HO.
      destruct (all_of_typed as_kv _ _ as_kv_t HO) as [kvs ->]. exact eq_refl.
    - (* AnnotationParam *)
      match goal with H : Typing.has_type _ (TOpt TTok) ?o |- _ => destruct o as [| | |oo| | | | | | | | | | | | | | | | | | | | | | |]; try contradiction; rename H into HO end.
      shape. unfold act_AnnotationParam. destruct oo as [x|]; [cbn in HO; destruct x; try contradiction|]; exact I.
    - shape. exact I.
    - exact I.
    - exact I.
    - shape. exact I.
  Qed.
End UserTyped.
