(* C04: every range of every stored tree node and of every syntax diagnostic has start <= end, and lies inside the extent
   (first token start .. last token end) of the construct it belongs to.  An invariant of the parser's stack: the symbols
   on the stack occupy consecutive, non-overlapping stretches of the text, and everything inside a symbol's value lies
   inside that symbol's stretch.  Table-specific part: a finite check (Coq computes it over the regenerated action table)
   that every wrapper action passes its arguments and the spans it computes on in text order. *)
From Coq Require Import ZArith Lia List.
From AidlV Require Import Model.LrDriver Proofs.Totality.
Import ListNotations.
Local Open Scope N_scope.

Definition off_s (r : range) : N := p_off (r_start r).
Definition off_e (r : range) : N := p_off (r_end r).
Definition rle (r : range) : Prop := off_s r <= off_e r.
Definition rin (a b : N) (r : range) : Prop := a <= off_s r /\ off_s r <= off_e r /\ off_e r <= b.

(* ---- all ranges inside a node ---- *)
Fixpoint ty_rs (t : ty) : list range :=
  match t with
  | Ty _ _ g s f => s :: f :: (fix go (l : list ty) : list range := match l with [] => [] | x :: r => ty_rs x ++ go r end) g
  end.
Lemma ty_rs_eq n k g s f : ty_rs (Ty n k g s f) = s :: f :: flat_map ty_rs g.
Proof. reflexivity. Qed.

Definition dir_rs (d : direction) : list range := match d with DIn r | DOut r | DInOut r => [r] | DUnspecified => [] end.
Definition arg_rs (a : arg) : list range := dir_rs (a_dir a) ++ ty_rs (a_ty a) ++ [a_sym a; a_full a].
Definition method_rs (m : method) : list range :=
  ty_rs (m_ret m) ++ flat_map arg_rs (m_args m) ++ [m_sym m; m_full m; m_code_range m; m_oneway_range m].
Definition const_rs (c : const) : list range := ty_rs (c_ty c) ++ [c_sym c; c_full c].
Definition field_rs (f : field) : list range := ty_rs (f_ty f) ++ [f_sym f; f_full f].
Definition ee_rs (e : enum_elem) : list range := [ee_sym e; ee_full e].
Definition ie_rs (e : iface_elem) : list range := match e with IEConst c => const_rs c | IEMethod m => method_rs m end.
Definition pe_rs (e : parc_elem) : list range := match e with PEConst c => const_rs c | PEField f => field_rs f end.
Definition interface_rs (i : interface) : list range := flat_map ie_rs (i_elems i) ++ [i_full i; i_sym i].
Definition parcelable_rs (p : parcelable) : list range := flat_map pe_rs (pc_elems p) ++ [pc_full p; pc_sym p].
Definition enum_rs (e : enum) : list range := flat_map ee_rs (e_elems e) ++ [e_full e; e_sym e].
Definition item_rs (it : item) : list range :=
  match it with ItInterface i => interface_rs i | ItParcelable p => parcelable_rs p | ItEnum e => enum_rs e end.
Definition package_rs (p : package) : list range := [pk_sym p; pk_full p].
Definition import_rs (i : import) : list range := [im_sym i; im_full i].
Definition aidl_rs (a : aidl) : list range :=
  package_rs (ai_package a) ++ flat_map import_rs (ai_imports a) ++ flat_map import_rs (ai_declared a) ++ item_rs (ai_item a).

(* ---- every node with the ranges of its subtree: (full range, name range and all descendants' ranges) ---- *)
Definition nest := (range * list range)%type.
Fixpoint ty_nests (t : ty) : list nest :=
  match t with
  | Ty _ _ g s f => (f, s :: flat_map ty_rs g) :: (fix go (l : list ty) : list nest := match l with [] => [] | x :: r => ty_nests x ++ go r end) g
  end.
Lemma ty_nests_eq n k g s f : ty_nests (Ty n k g s f) = (f, s :: flat_map ty_rs g) :: flat_map ty_nests g.
Proof. reflexivity. Qed.
Definition arg_nests (a : arg) : list nest := (a_full a, dir_rs (a_dir a) ++ ty_rs (a_ty a) ++ [a_sym a]) :: ty_nests (a_ty a).
Definition method_nests (m : method) : list nest :=
  (m_full m, ty_rs (m_ret m) ++ flat_map arg_rs (m_args m) ++ [m_sym m; m_code_range m; m_oneway_range m]) ::
  ty_nests (m_ret m) ++ flat_map arg_nests (m_args m).
Definition const_nests (c : const) : list nest := (c_full c, ty_rs (c_ty c) ++ [c_sym c]) :: ty_nests (c_ty c).
Definition field_nests (f : field) : list nest := (f_full f, ty_rs (f_ty f) ++ [f_sym f]) :: ty_nests (f_ty f).
Definition ee_nests (e : enum_elem) : list nest := [(ee_full e, [ee_sym e])].
Definition ie_nests (e : iface_elem) : list nest := match e with IEConst c => const_nests c | IEMethod m => method_nests m end.
Definition pe_nests (e : parc_elem) : list nest := match e with PEConst c => const_nests c | PEField f => field_nests f end.
Definition interface_nests (i : interface) : list nest := (i_full i, flat_map ie_rs (i_elems i) ++ [i_sym i]) :: flat_map ie_nests (i_elems i).
Definition parcelable_nests (p : parcelable) : list nest := (pc_full p, flat_map pe_rs (pc_elems p) ++ [pc_sym p]) :: flat_map pe_nests (pc_elems p).
Definition enum_nests (e : enum) : list nest := (e_full e, flat_map ee_rs (e_elems e) ++ [e_sym e]) :: flat_map ee_nests (e_elems e).
Definition item_nests (it : item) : list nest :=
  match it with ItInterface i => interface_nests i | ItParcelable p => parcelable_nests p | ItEnum e => enum_nests e end.
Definition package_nests (p : package) : list nest := [(pk_full p, [pk_sym p])].
Definition import_nests (i : import) : list nest := [(im_full i, [im_sym i])].
Definition aidl_nests (a : aidl) : list nest :=
  package_nests (ai_package a) ++ flat_map import_nests (ai_imports a) ++ flat_map import_nests (ai_declared a) ++ item_nests (ai_item a).

(* ---- siblings: the full ranges of the members of a list, in source order ---- *)
Definition ie_full (e : iface_elem) : range := match e with IEConst c => c_full c | IEMethod m => m_full m end.
Definition pe_full (e : parc_elem) : range := match e with PEConst c => c_full c | PEField f => f_full f end.
Fixpoint seq_ok (l : list range) : Prop :=
  match l with
  | r1 :: ((r2 :: _) as t) => off_e r1 <= off_s r2 /\ seq_ok t
  | _ => True
  end.
Fixpoint ty_chains (t : ty) : list (list range) :=
  match t with
  | Ty _ _ g _ _ => map ty_full g :: (fix go (l : list ty) : list (list range) := match l with [] => [] | x :: r => ty_chains x ++ go r end) g
  end.
Definition arg_chains (a : arg) : list (list range) := ty_chains (a_ty a).
Definition method_chains (m : method) : list (list range) := map a_full (m_args m) :: ty_chains (m_ret m) ++ flat_map arg_chains (m_args m).
Definition const_chains (c : const) : list (list range) := ty_chains (c_ty c).
Definition field_chains (f : field) : list (list range) := ty_chains (f_ty f).
Definition ie_chains (e : iface_elem) : list (list range) := match e with IEConst c => const_chains c | IEMethod m => method_chains m end.
Definition pe_chains (e : parc_elem) : list (list range) := match e with PEConst c => const_chains c | PEField f => field_chains f end.
Definition interface_chains (i : interface) : list (list range) := map ie_full (i_elems i) :: flat_map ie_chains (i_elems i).
Definition parcelable_chains (p : parcelable) : list (list range) := map pe_full (pc_elems p) :: flat_map pe_chains (pc_elems p).
Definition enum_chains (e : enum) : list (list range) := [map ee_full (e_elems e)].
Definition item_chains (it : item) : list (list range) :=
  match it with ItInterface i => interface_chains i | ItParcelable p => parcelable_chains p | ItEnum e => enum_chains e end.
Definition aidl_chains (a : aidl) : list (list range) :=
  map im_full (ai_imports a) :: map im_full (ai_declared a) :: item_chains (ai_item a).

(* ---- what a stack value says about positions ---- *)
Inductive fact := FRng (r : range) | FLoc (l : N) | FErr (e : perr) | FNest (n : nest) | FChain (c : list range).
Definition nf (rs : list range) (ns : list nest) (cs : list (list range)) : list fact := map FRng rs ++ map FNest ns ++ map FChain cs.

(* the full range of the node a list element holds (none for elements that are not nodes) *)
Fixpoint tops (v : sem) : list range :=
  match v with
  | VOpt (Some x) => tops x
  | VIE e => [ie_full e] | VPE e => [pe_full e] | VEnumElem e => [ee_full e] | VArg a => [a_full a] | VType t => [ty_full t]
  | VImport i => [im_full i]
  | _ => []
  end.

Fixpoint facts (v : sem) : list fact :=
  match v with
  | VLoc l => [FLoc l]
  | VOpt (Some x) => facts x
  | VVec l => FChain ((fix go (l : list sem) : list range := match l with [] => [] | x :: r => tops x ++ go r end) l) ::
              (fix go (l : list sem) : list fact := match l with [] => [] | x :: r => facts x ++ go r end) l
  | VTuple l => (fix go (l : list sem) : list fact := match l with [] => [] | x :: r => facts x ++ go r end) l
  | VErr e => [FErr e]
  | VAidl a => nf (aidl_rs a) (aidl_nests a) (aidl_chains a) | VPackage p => nf (package_rs p) (package_nests p) []
  | VImport i => nf (import_rs i) (import_nests i) []
  | VItem it => nf (item_rs it) (item_nests it) (item_chains it) | VInterface i => nf (interface_rs i) (interface_nests i) (interface_chains i)
  | VParcelable p => nf (parcelable_rs p) (parcelable_nests p) (parcelable_chains p)
  | VEnum e => nf (enum_rs e) (enum_nests e) (enum_chains e) | VMethod m => nf (method_rs m) (method_nests m) (method_chains m)
  | VArg a => nf (arg_rs a) (arg_nests a) (arg_chains a)
  | VDirection d => nf (dir_rs d) [] [] | VConst c => nf (const_rs c) (const_nests c) (const_chains c)
  | VField f => nf (field_rs f) (field_nests f) (field_chains f)
  | VEnumElem e => nf (ee_rs e) (ee_nests e) [] | VType t => nf (ty_rs t) (ty_nests t) (ty_chains t) | VIE e => nf (ie_rs e) (ie_nests e) (ie_chains e)
  | VPE e => nf (pe_rs e) (pe_nests e) (pe_chains e)
  | _ => []
  end.

Lemma facts_vec l : facts (VVec l) = FChain (flat_map tops l) :: flat_map facts l.
Proof. reflexivity. Qed.
Lemma facts_tuple l : facts (VTuple l) = flat_map facts l.
Proof. reflexivity. Qed.

Definition err_ord (e : perr) : Prop :=
  match e with EUnrecognizedToken s _ e' _ | EExtraToken s _ e' => s <= e' | _ => True end.

(* r lies inside f *)
Definition inside (f r : range) : Prop := off_s f <= off_s r /\ off_e r <= off_e f.
Definition nest_ok (n : nest) : Prop := Forall (fun r => inside (fst n) r) (snd n).
Definition fin (a b : N) (f : fact) : Prop :=
  match f with FRng r => rin a b r | FLoc l => a <= l /\ l <= b | FErr e => err_ord e | FNest n => nest_ok n | FChain c => seq_ok c end.
Definition v_in (a b : N) (v : sem) : Prop := Forall (fin a b) (facts v).

Lemma fin_weaken a b a' b' f : a' <= a -> b <= b' -> fin a b f -> fin a' b' f.
Proof. intros Ha Hb. destruct f; cbn [fin]; unfold rin; [lia|lia|auto|auto|auto]. Qed.
Lemma v_in_weaken a b a' b' v : a' <= a -> b <= b' -> v_in a b v -> v_in a' b' v.
Proof. intros Ha Hb H. unfold v_in in *. eapply Forall_impl; [|exact H]. intros f. apply fin_weaken; assumption. Qed.

Lemma Forall_FR a b l : Forall (fin a b) (map FRng l) <-> Forall (fun r => rin a b r) l.
Proof. rewrite Forall_map. reflexivity. Qed.
Lemma Forall_nf a b rs ns cs : Forall (fin a b) (nf rs ns cs) <-> Forall (fun r => rin a b r) rs /\ Forall nest_ok ns /\ Forall seq_ok cs.
Proof. unfold nf. rewrite !Forall_app, !Forall_map. reflexivity. Qed.

Definition diag_ord (d : diag) : Prop := rle (d_range d) /\ Forall rle (d_related d).

(* the values an action is applied to: they sit in consecutive stretches [a_i, b_i] inside [lo, hi] *)
Inductive vs_in : N -> N -> list sem -> Prop :=
| VI_nil lo hi : lo <= hi -> vs_in lo hi []
| VI_cons lo hi a b v vs : lo <= a -> a <= b -> v_in a b v -> vs_in b hi vs -> vs_in lo hi (v :: vs).

Lemma vs_in_le lo hi vs : vs_in lo hi vs -> lo <= hi.
Proof. induction 1; lia. Qed.

Section User.
  Variable cx : ctx.

  Definition res_in (lo hi : N) (r : res) : Prop := v_in lo hi (fst r) /\ Forall diag_ord (snd r).

  Lemma ok_in lo hi v : v_in lo hi v -> res_in lo hi (ok v).  Proof. intros H. split; [exact H|constructor]. Qed.
  Lemma bad_in lo hi : res_in lo hi bad.  Proof. split; constructor. Qed.
  Lemma panic_in lo hi : res_in lo hi panic.  Proof. split; constructor. Qed.

  Lemma mk_range_offs s e r : mk_range cx s e = Some r -> off_s r = s /\ off_e r = e.
  Proof. intros H. destruct (mk_range_sound _ _ _ _ H) as [A [B _]]. split; assumption. Qed.

  Lemma with_range_in lo hi s e k :
    (forall a b r, s = VLoc a -> e = VLoc b -> off_s r = a -> off_e r = b -> res_in lo hi (k r)) -> res_in lo hi (with_range cx s e k).
  Proof.
    intros H. unfold with_range. destruct s; try apply bad_in. destruct e; try apply bad_in.
    destruct (mk_range cx n n0) as [r|] eqn:E; [|apply panic_in]. destruct (mk_range_offs _ _ _ E). eapply H; eauto.
  Qed.
  Lemma with_doc_in lo hi p k : (forall d, res_in lo hi (k d)) -> res_in lo hi (with_doc cx p k).
  Proof. intros H. unfold with_doc. destruct p; try apply bad_in. destruct (get_javadoc (cx_src cx) n); [apply H|apply panic_in]. Qed.

  Lemma seq_cons_in r l a b a' b' : rin a b r -> Forall (fun x => rin a' b' x) l -> b <= a' -> seq_ok l -> seq_ok (r :: l).
  Proof.
    intros R F L S. destruct l as [|r2 l]; [exact I|]. cbn [seq_ok]. split; [|exact S].
    inversion F as [|? ? R2 _]; subst. unfold rin in *. lia.
  Qed.
  Lemma seq_app_in l1 : forall l2 a b a' b', Forall (fun x => rin a b x) l1 -> Forall (fun x => rin a' b' x) l2 -> b <= a' ->
    seq_ok l1 -> seq_ok l2 -> seq_ok (l1 ++ l2).
  Proof.
    induction l1 as [|r l1 IH]; intros l2 a b a' b' F1 F2 L S1 S2; [exact S2|]. cbn [app].
    inversion F1 as [|? ? R F1']; subst. destruct l1 as [|r' l1].
    - cbn [app]. eapply seq_cons_in; eauto.
    - cbn [seq_ok] in S1. destruct S1 as [S1a S1b]. cbn [app seq_ok]. split; [exact S1a|]. apply (IH l2 a b a' b'); auto.
  Qed.

  Lemma seq_tl r l : seq_ok (r :: l) -> seq_ok l.
  Proof. destruct l; cbn [seq_ok]; [auto|tauto]. Qed.
  Lemma seq_app_r l1 l2 : seq_ok (l1 ++ l2) -> seq_ok l2.
  Proof. induction l1 as [|r l1 IH]; cbn [app]; [auto|]. intros H. apply IH. exact (seq_tl _ _ H). Qed.

  (* the elements of a list value: their ranges, their nestings, and the chain of their full ranges *)
  Lemma all_of_in {X} (f : sem -> option X) (rs : X -> list range) (ns : X -> list nest) (cs : X -> list (list range)) (full : X -> range) :
    (forall v x, f v = Some x -> facts v = nf (rs x) (ns x) (cs x) /\ tops v = [full x]) ->
    forall l r a b, all_of f l = Some r -> v_in a b (VVec l) ->
      Forall (fun x => rin a b x) (flat_map rs r) /\ Forall nest_ok (flat_map ns r) /\ Forall seq_ok (flat_map cs r) /\ seq_ok (map full r).
  Proof.
    intros Hf. induction l as [|v l IH]; intros r a b H V; cbn in H; [inversion H; repeat split; constructor|].
    destruct (f v) as [x|] eqn:E; [|discriminate]. destruct (all_of f l) as [r'|] eqn:E'; [|discriminate]. inversion H; subst.
    unfold v_in in V. rewrite facts_vec in V. inversion V as [|? ? VC V']; subst. cbn [fin flat_map] in VC, V'. apply Forall_app in V' as [V1 V2].
    destruct (Hf _ _ E) as [Hf1 Hf2]. rewrite Hf1 in V1. apply Forall_nf in V1 as [V1a [V1b V1c]]. rewrite Hf2 in VC. cbn [app] in VC.
    assert (SL : seq_ok (flat_map tops l)) by exact (seq_tl _ _ VC).
    destruct (IH r' a b eq_refl ltac:(unfold v_in; rewrite facts_vec; constructor; [exact SL|exact V2])) as [I1 [I2 [I3 I4]]].
    cbn [flat_map map]. repeat split; try (apply Forall_app; split; assumption).
    assert (TM : forall l0 r0, all_of f l0 = Some r0 -> flat_map tops l0 = map full r0).
    { induction l0 as [|v0 l0 IH0]; intros r0 H0; cbn in H0; [inversion H0; reflexivity|].
      destruct (f v0) as [x0|] eqn:E0; [|discriminate]. destruct (all_of f l0) as [r0'|]; [|discriminate]. inversion H0; subst.
      cbn [flat_map map]. rewrite (proj2 (Hf _ _ E0)), (IH0 _ eq_refl). reflexivity. }
    rewrite (TM _ _ E') in VC. exact VC.
  Qed.
  Lemma flatten_in {X} (f : sem -> option X) (rs : X -> list range) (ns : X -> list nest) (cs : X -> list (list range)) (full : X -> range) :
    (forall v x, f v = Some x -> facts v = nf (rs x) (ns x) (cs x) /\ tops v = [full x]) ->
    forall l r a b, flatten_opts f l = Some r -> v_in a b (VVec l) ->
      Forall (fun x => rin a b x) (flat_map rs r) /\ Forall nest_ok (flat_map ns r) /\ Forall seq_ok (flat_map cs r) /\ seq_ok (map full r).
  Proof.
    intros Hf.
    assert (TM : forall l0 r0, flatten_opts f l0 = Some r0 -> flat_map tops l0 = map full r0).
    { induction l0 as [|v0 l0 IH0]; intros r0 H0; cbn in H0; [inversion H0; reflexivity|].
      destruct v0; try discriminate. destruct o as [x0|].
      - destruct (f x0) as [y0|] eqn:E0; [|discriminate]. destruct (flatten_opts f l0) as [r0'|]; [|discriminate]. inversion H0; subst.
        cbn [flat_map map tops]. rewrite (proj2 (Hf _ _ E0)), (IH0 _ eq_refl). reflexivity.
      - cbn [flat_map tops app]. apply IH0. exact H0. }
    induction l as [|v l IH]; intros r a b H V; pose proof (TM _ _ H) as TMH; cbn in H; [inversion H; repeat split; constructor|].
    unfold v_in in V. rewrite facts_vec in V. inversion V as [|? ? VC V']; subst. cbn [fin flat_map] in VC, V'. apply Forall_app in V' as [V1 V2].
    assert (SL : seq_ok (flat_map tops l)) by exact (seq_app_r _ _ VC).
    assert (V2' : v_in a b (VVec l)) by (unfold v_in; rewrite facts_vec; constructor; [exact SL|exact V2]).
    destruct v; try discriminate. destruct o as [x|].
    - destruct (f x) as [y|] eqn:E; [|discriminate]. destruct (flatten_opts f l) as [r'|] eqn:E'; [|discriminate]. inversion H; subst.
      cbn [facts] in V1. destruct (Hf _ _ E) as [Hf1 Hf2]. rewrite Hf1 in V1. apply Forall_nf in V1 as [V1a [V1b V1c]].
      destruct (IH r' a b eq_refl V2') as [I1 [I2 [I3 I4]]]. cbn [flat_map map]. repeat split; try (apply Forall_app; split; assumption).
      cbn [flat_map] in TMH. rewrite TMH in VC. exact VC.
    - apply (IH r a b H V2').
  Qed.

  Lemma as_ie_f v x : as_ie v = Some x -> facts v = nf (ie_rs x) (ie_nests x) (ie_chains x) /\ tops v = [ie_full x].
  Proof. destruct v; cbn; intros H; inversion H; split; reflexivity. Qed.
  Lemma as_pe_f v x : as_pe v = Some x -> facts v = nf (pe_rs x) (pe_nests x) (pe_chains x) /\ tops v = [pe_full x].
  Proof. destruct v; cbn; intros H; inversion H; split; reflexivity. Qed.
  Lemma as_ee_f v x : as_ee v = Some x -> facts v = nf (ee_rs x) (ee_nests x) [] /\ tops v = [ee_full x].
  Proof. destruct v; cbn; intros H; inversion H; split; reflexivity. Qed.
  Lemma as_arg_f v x : as_arg v = Some x -> facts v = nf (arg_rs x) (arg_nests x) (arg_chains x) /\ tops v = [a_full x].
  Proof. destruct v; cbn; intros H; inversion H; split; reflexivity. Qed.
  Lemma as_import_f v x : as_import v = Some x -> facts v = nf (import_rs x) (import_nests x) [] /\ tops v = [im_full x].
  Proof. destruct v; cbn; intros H; inversion H; split; reflexivity. Qed.

  Lemma diag_of_error_ord e d : err_ord e -> diag_of_error cx e = Some d -> diag_ord d.
  Proof.
    intros He. destruct e; cbn [diag_of_error]; intros H.
    all: match type of H with option_map _ (mk_range cx ?a ?b) = _ => destruct (mk_range cx a b) as [r|] eqn:E; [|discriminate] end;
      inversion H; subst; destruct (mk_range_offs _ _ _ E) as [A B]; split; cbn [d_range d_related]; [|constructor]; unfold rle; rewrite A, B;
      cbn [err_ord] in He; lia.
  Qed.
  Lemma act_err_in lo hi label e : v_in lo hi e -> lo <= hi -> res_in lo hi (act_err label cx e).
  Proof.
    intros V L. unfold act_err. destruct e; try apply bad_in. unfold diag_of_recovery.
    destruct (diag_of_error cx e) as [d|] eqn:E; cbn [option_map]; [|apply panic_in].
    split; [constructor|]. constructor; [|constructor].
    unfold v_in in V. cbn [facts] in V. inversion V as [|? ? F _]; subst. cbn [fin] in F.
    destruct (diag_of_error_ord _ _ F E) as [A B]. split; assumption.
  Qed.

  Lemma v_in_loc a b n : v_in a b (VLoc n) -> a <= n /\ n <= b.
  Proof. intros H. inversion H; subst. assumption. Qed.
  Lemma v_in_some a b x : v_in a b (VOpt (Some x)) -> v_in a b x.  Proof. exact (fun H => H). Qed.
  Lemma v_in_tuple_cons a b x l : v_in a b (VTuple (x :: l)) -> v_in a b x /\ v_in a b (VTuple l).
  Proof. unfold v_in. rewrite !facts_tuple. cbn [flat_map]. intros H. apply Forall_app in H. exact H. Qed.

  Lemma ty_full_in a b t : Forall (fun r => rin a b r) (ty_rs t) -> rin a b (ty_full t).
  Proof. destruct t. rewrite ty_rs_eq. intros H. inversion H as [|? ? _ H']; subst. inversion H'; subst. assumption. Qed.

  Ltac chain := repeat match goal with
                       | H : vs_in _ _ (_ :: _) |- _ => inversion H; subst; clear H
                       | H : vs_in _ _ [] |- _ => inversion H; subst; clear H
                       end.
  Ltac step :=
    first [ apply with_range_in; intros ?a ?b ?r ?Hs ?He ?Ho1 ?Ho2;
            repeat match goal with H : VLoc _ = VLoc _ |- _ => inversion H; clear H end; subst
          | apply with_doc_in; intros ?
          | apply bad_in | apply panic_in
          | match goal with |- res_in _ _ (match ?x with _ => _ end) => destruct x eqn:? end
          | match goal with |- res_in _ _ (if ?x then _ else _) => destruct x eqn:? end ].
  Ltac norm1 :=
    match goal with
    | H : v_in _ _ (VLoc _) |- _ => apply v_in_loc in H; destruct H
    | H : v_in _ _ (VTok _) |- _ => clear H
    | H : v_in _ _ (VString _) |- _ => clear H
    | H : v_in _ _ (VOpt None) |- _ => clear H
    | H : v_in _ _ (VOpt (Some _)) |- _ => apply v_in_some in H
    | H : v_in _ _ (VTuple (_ :: _)) |- _ => apply v_in_tuple_cons in H; destruct H
    | H : v_in _ _ (VTuple []) |- _ => clear H
    | H : v_in _ _ _ |- _ => unfold v_in in H; cbn [facts] in H; apply Forall_nf in H; destruct H as [? [? ?]]
    end.
  Ltac norm := repeat norm1.
  Ltac leaf := unfold inside, rin in *; lia.
  Ltac fa :=
    repeat first
      [ apply Forall_nil
      | assumption
      | apply Forall_cons; [first [leaf | assumption | solve [cbn [seq_ok map]; repeat split; leaf] | (unfold nest_ok; cbn [fst snd])]|]
      | apply Forall_app; split
      | match goal with H : Forall (fun x => rin ?a ?b x) ?l |- Forall (fun x => rin _ _ x) ?l =>
          eapply Forall_impl; [|exact H]; cbn beta; intros ? ?; leaf end
      | match goal with H : Forall (fun x => rin ?a ?b x) ?l |- Forall (fun x => inside _ x) ?l =>
          eapply Forall_impl; [|exact H]; cbn beta; intros ? ?; leaf end
      | match goal with H : Forall nest_ok ?l |- Forall nest_ok ?l => exact H end ].
  Ltac fin_ok :=
    apply ok_in; unfold v_in; cbn [facts]; try (apply Forall_nf; split; [|split]);
    repeat match goal with H : Forall (fun r => rin ?a ?b r) (ty_rs ?t) |- _ =>
             lazymatch goal with _ : rin a b (ty_full t) |- _ => fail | _ => pose proof (ty_full_in a b t H) end end;
    unfold dir_rs, arg_rs, method_rs, const_rs, field_rs, ee_rs, ie_rs, pe_rs, interface_rs, parcelable_rs, enum_rs, item_rs, package_rs,
           import_rs, aidl_rs, arg_nests, method_nests, const_nests, field_nests, ee_nests, ie_nests, pe_nests, interface_nests,
           parcelable_nests, enum_nests, item_nests, package_nests, import_nests, aidl_nests, arg_chains, method_chains, const_chains,
           field_chains, ie_chains, pe_chains, interface_chains, parcelable_chains, enum_chains, item_chains, aidl_chains in *;
    cbn [ty_rs ty_nests ty_chains a_dir a_ty a_sym a_full m_ret m_args m_sym m_full m_code_range m_oneway_range c_ty c_sym c_full f_ty f_sym f_full ee_sym ee_full
         i_elems i_full i_sym pc_elems pc_full pc_sym e_elems e_full e_sym pk_sym pk_full im_sym im_full ai_package ai_imports ai_declared ai_item
         app flat_map map] in *;
    repeat match goal with
           | H : Forall _ (_ :: _) |- _ => inversion H; subst; clear H
           | H : Forall _ (_ ++ _) |- _ => apply Forall_app in H; destruct H
           | H : Forall _ [] |- _ => clear H
           | H : nest_ok (_, _) |- _ => unfold nest_ok in H; cbn [fst snd] in H
           end;
    fa.
  Ltac vecs :=
    repeat match goal with
           | H : all_of as_import ?l = Some _, V : v_in _ _ (VVec ?l) |- _ =>
               destruct (all_of_in as_import import_rs import_nests (fun _ => []) im_full as_import_f _ _ _ _ H V) as [? [? [? ?]]]; clear H
           | H : all_of as_arg ?l = Some _, V : v_in _ _ (VVec ?l) |- _ =>
               destruct (all_of_in as_arg arg_rs arg_nests arg_chains a_full as_arg_f _ _ _ _ H V) as [? [? [? ?]]]; clear H
           | H : flatten_opts as_ie ?l = Some _, V : v_in _ _ (VVec ?l) |- _ =>
               destruct (flatten_in as_ie ie_rs ie_nests ie_chains ie_full as_ie_f _ _ _ _ H V) as [? [? [? ?]]]; clear H
           | H : flatten_opts as_pe ?l = Some _, V : v_in _ _ (VVec ?l) |- _ =>
               destruct (flatten_in as_pe pe_rs pe_nests pe_chains pe_full as_pe_f _ _ _ _ H V) as [? [? [? ?]]]; clear H
           | H : flatten_opts as_ee ?l = Some _, V : v_in _ _ (VVec ?l) |- _ =>
               destruct (flatten_in as_ee ee_rs ee_nests (fun _ => []) ee_full as_ee_f _ _ _ _ H V) as [? [? [? ?]]]; clear H
           end.
  Ltac go := repeat step; try solve [apply ok_in; apply Forall_nil]; vecs; norm; try fin_ok.

  Lemma mf_in lo hi (X : res) ds : res_in lo hi X -> Forall diag_ord ds -> res_in lo hi (let (r, _) := X in (r, ds)).
  Proof. intros [A _] D. destruct X. split; assumption. Qed.

  Theorem user_in u vs lo hi : vs_in lo hi vs -> res_in lo hi (user_fn u cx vs).
  Proof.
    intros F. pose proof (vs_in_le _ _ _ F) as LH. destruct u; cbn [user_fn];
      repeat match goal with |- res_in _ _ (match ?l with _ => _ end) => destruct l as [|? ?]; try apply bad_in end;
      chain.
    - unfold act_OptAidl. go.
    - unfold act_Package. go.
    - unfold act_Import. go.
    - unfold act_QualifiedName. go.
    - unfold act_ItemInterface. go.
    - unfold act_ItemParcelable. go.
    - unfold act_ItemEnum. go.
    - apply act_err_in; [eapply v_in_weaken; [| |eassumption]; lia|lia].
    - unfold act_Interface. go.
    - unfold act_IEMethod. go.
    - unfold act_IEConst. go.
    - apply act_err_in; [eapply v_in_weaken; [| |eassumption]; lia|lia].
    - unfold act_Parcelable. go.
    - unfold act_PEField. go.
    - unfold act_PEConst. go.
    - apply act_err_in; [eapply v_in_weaken; [| |eassumption]; lia|lia].
    - unfold act_Enum. go.
    - unfold act_SomeEnumElement. go.
    - apply act_err_in; [eapply v_in_weaken; [| |eassumption]; lia|lia].
    - (* Method *) unfold act_Method. repeat step; unfold method_finish; (apply mf_in; [go|]); try apply Forall_nil.
      constructor; [|constructor]. norm.
      match goal with H : mk_range cx _ _ = Some _ |- _ => destruct (mk_range_offs _ _ _ H) end.
      split; [|constructor]. unfold rle. cbn [d_range]. lia.
    - unfold act_Arg. go.
    - unfold act_Direction. go.
    - unfold act_Const. go.
    - unfold act_Field. go.
    - unfold act_EnumElement. go.
    - unfold act_TypeVoid, simple_type. go.
    - unfold act_TypePrimitive, simple_type. go.
    - unfold act_TypeString, simple_type. go.
    - unfold act_TypeCharSequence, simple_type. go.
    - unfold act_TypeArray. go.
    - unfold act_TypeList. go.
    - unfold act_TypeRawList. go.
    - unfold act_TypeMap. go.
    - unfold act_TypeRawMap. go.
    - unfold act_TypeCustom. go.
    - unfold act_AnnotationList. repeat step. apply ok_in. unfold v_in. rewrite facts_vec. clear.
      match goal with |- Forall _ (_ :: flat_map facts (map VAnnotation ?l)) =>
        assert (E1 : flat_map tops (map VAnnotation l) = []) by (induction l as [|x l IH]; cbn; [reflexivity|exact IH]);
        assert (E2 : flat_map facts (map VAnnotation l) = []) by (clear; induction l as [|x l IH]; cbn; [reflexivity|exact IH]);
        rewrite E1, E2 end.
      constructor; [exact I|constructor].
    - unfold act_OptAnnotation. go.
    - unfold act_AnnotationParam. go.
    - unfold act_ValueToString. go.
    - unfold act_ValueDotted. go.
  Qed.
End User.

(* ---- a frame: the symbols an action is applied to, between its lookbehind and lookahead ---- *)
Inductive ts_in : N -> N -> list triple -> Prop :=
| TI_nil lo hi : lo <= hi -> ts_in lo hi []
| TI_cons lo hi t ts : lo <= tstart t -> tstart t <= tend t -> v_in (tstart t) (tend t) (tval t) -> ts_in (tend t) hi ts ->
                       ts_in lo hi (t :: ts).

Lemma ts_in_le lo hi ts : ts_in lo hi ts -> lo <= hi.
Proof. induction 1; lia. Qed.

Lemma ts_in_weaken lo hi lo' hi' ts : ts_in lo hi ts -> lo' <= lo -> hi <= hi' -> ts_in lo' hi' ts.
Proof.
  intros H. revert lo' hi'. induction H as [lo hi L|lo hi t ts A B C D IH]; intros lo' hi' Hl Hh; [constructor; lia|].
  constructor; [lia|exact B|exact C|apply IH; lia].
Qed.

Lemma ts_in_app lo mid hi l1 l2 : ts_in lo mid l1 -> ts_in mid hi l2 -> ts_in lo hi (l1 ++ l2).
Proof.
  intros H. revert hi l2. induction H as [lo mid L|lo mid t ts A B C D IH]; intros hi l2 H2; cbn [app].
  - eapply ts_in_weaken; [exact H2|exact L|lia].
  - constructor; auto.
Qed.

Lemma ts_in_split lo hi l1 l2 : ts_in lo hi (l1 ++ l2) -> exists mid, ts_in lo mid l1 /\ ts_in mid hi l2.
Proof.
  revert lo. induction l1 as [|t l1 IH]; intros lo H; cbn [app] in H.
  - exists lo. split; [constructor; lia|exact H].
  - inversion H as [|? ? ? ? A B C D]; subst. destruct (IH _ D) as [mid [H1 H2]]. exists mid. split; [constructor; auto|exact H2].
Qed.

Lemma ts_vs lo hi ts : ts_in lo hi ts -> vs_in lo hi (map tval ts).
Proof. induction 1 as [lo hi L|lo hi t ts A B C D IH]; cbn [map]; [constructor; exact L|econstructor; eauto]. Qed.

(* positions of a frame *)
Lemma ts_in_nth lo hi ts : ts_in lo hi ts -> forall i, (i < length ts)%nat ->
  lo <= tstart (nth i ts dummy) /\ tstart (nth i ts dummy) <= tend (nth i ts dummy) /\ tend (nth i ts dummy) <= hi /\
  v_in (tstart (nth i ts dummy)) (tend (nth i ts dummy)) (tval (nth i ts dummy)).
Proof.
  induction 1 as [lo hi L|lo hi t ts A B C D IH]; intros i Hi; cbn [length] in Hi; [lia|].
  pose proof (ts_in_le _ _ _ D) as LE. destruct i as [|i]; cbn [nth]; [repeat split; auto; lia|].
  destruct (IH i ltac:(lia)) as [P [Q [R S]]]. repeat split; auto; lia.
Qed.
Lemma ts_in_nth2 lo hi ts : ts_in lo hi ts -> forall i j, (i < j)%nat -> (j < length ts)%nat ->
  tend (nth i ts dummy) <= tstart (nth j ts dummy).
Proof.
  induction 1 as [lo hi L|lo hi t ts A B C D IH]; intros i j Hij Hj; cbn [length] in Hj; [lia|].
  destruct j as [|j]; [lia|]. destruct i as [|i]; cbn [nth].
  - destruct (ts_in_nth _ _ _ D j ltac:(lia)) as [P _]. exact P.
  - apply IH; lia.
Qed.

Definition lo_of (lb : N) (args : list triple) : N := match args with [] => lb | t :: _ => tstart t end.
Definition hi_of (la : N) (args : list triple) : N := match args with [] => la | _ => tend (last args dummy) end.

(* ---- abstract positions of a frame with n arguments ---- *)
Inductive apos := PLb | PStart (i : nat) | PEnd (i : nat) | PLa.

Definition ale (p q : apos) : bool :=
  match p, q with
  | PLb, _ => true
  | _, PLa => true
  | PStart i, PStart j | PStart i, PEnd j | PEnd i, PEnd j => Nat.leb i j
  | PEnd i, PStart j => Nat.ltb i j
  | _, _ => false
  end.
Definition avalid (n : nat) (p : apos) : bool := match p with PStart i | PEnd i => Nat.ltb i n | _ => true end.

Definition cpos (lb la : N) (args : list triple) (p : apos) : N :=
  match p with PLb => lb | PLa => la | PStart i => tstart (nth i args dummy) | PEnd i => tend (nth i args dummy) end.

Lemma ale_sound lb la args p q : ts_in lb la args -> avalid (length args) p = true -> avalid (length args) q = true ->
  ale p q = true -> cpos lb la args p <= cpos lb la args q.
Proof.
  intros F Vp Vq H. pose proof (ts_in_le _ _ _ F) as LE.
  assert (N1 := ts_in_nth _ _ _ F). assert (N2 := ts_in_nth2 _ _ _ F).
  destruct p as [|i|i|], q as [|j|j|]; cbn [ale avalid cpos] in *; try discriminate; try lia;
    repeat match goal with H : Nat.ltb _ _ = true |- _ => apply Nat.ltb_lt in H | H : Nat.leb _ _ = true |- _ => apply Nat.leb_le in H end;
    try (destruct (N1 j ltac:(lia)) as [? [? [? ?]]]; lia); try (destruct (N1 i ltac:(lia)) as [? [? [? ?]]]; lia).
  - destruct (Nat.eq_dec i j) as [->|NE]; [lia|]. pose proof (N2 i j ltac:(lia) ltac:(lia)).
    destruct (N1 i ltac:(lia)) as [? [? [? ?]]]. lia.
  - destruct (Nat.eq_dec i j) as [->|NE]; [destruct (N1 j ltac:(lia)) as [? [? [? ?]]]; lia|]. pose proof (N2 i j ltac:(lia) ltac:(lia)).
    destruct (N1 i ltac:(lia)) as [? [? [? ?]]]. destruct (N1 j ltac:(lia)) as [? [? [? ?]]]. lia.
  - apply (N2 i j); lia.
  - destruct (Nat.eq_dec i j) as [->|NE]; [lia|]. pose proof (N2 i j ltac:(lia) ltac:(lia)).
    destruct (N1 j ltac:(lia)) as [? [? [? ?]]]. lia.
Qed.

(* ---- the static check of the action table: an abstract run of every reduce-level action on a frame of n symbols ---- *)
(* an argument or temp: its extent (start, end) and, when its value holds positions at all, bounds for everything inside it;
   all as positions of the outer frame *)
Definition abounds := option (apos * apos).
Record aelem := AE { ae_st : apos; ae_en : apos; ae_b : abounds }.

Definition getae (frame temps : list aelem) (r : argref) : option aelem :=
  match r with AArg i => nth_error frame i | ATemp j => nth_error temps j end.
Definition aloc (frame temps : list aelem) (lb la : apos) (l : locexp) : option apos :=
  match l with
  | LStart r => option_map ae_st (getae frame temps r)
  | LEnd r => option_map ae_en (getae frame temps r)
  | LBehind => Some lb
  | LAhead => Some la
  end.
Fixpoint all_some {A} (l : list (option A)) : option (list A) :=
  match l with
  | [] => Some []
  | Some x :: l' => match all_some l' with Some r => Some (x :: r) | None => None end
  | None :: _ => None
  end.
(* the bounds of the elements that hold positions form a chain; returns the bounds of the whole *)
Fixpoint span (acc : abounds) (l : list aelem) : option abounds :=
  match l with
  | [] => Some acc
  | e :: l' =>
      match ae_b e with
      | None => span acc l'
      | Some (lo, hi) =>
          if ale lo hi then
            match acc with
            | None => span (Some (lo, hi)) l'
            | Some (lo0, hi0) => if ale hi0 lo then span (Some (lo0, hi)) l' else None
            end
          else None
      end
  end.

Section AEval.
  Variable table : list (N * adef).

  Fixpoint asteps (call : N -> apos -> apos -> list aelem -> option abounds)
           (frame temps : list aelem) (lb la : apos) (steps : list wstep) : option (list aelem) :=
    match steps with
    | [] => Some temps
    | s :: rest =>
        match aloc frame temps lb la (ws_start s), aloc frame temps lb la (ws_end s) with
        | Some st, Some en =>
            match (match ws_args s with
                   | None => call (ws_callee s) st en []
                   | Some l => match all_some (map (getae frame temps) l) with
                               | Some es => call (ws_callee s) lb la es
                               | None => None
                               end
                   end) with
            | Some b => asteps call frame (temps ++ [AE st en b]) lb la rest
            | None => None
            end
        | _, _ => None
        end
    end.

  Fixpoint aeval (fuel : nat) (n : N) (lb la : apos) (frame : list aelem) : option abounds :=
    match fuel with
    | O => None
    | S fuel' =>
        match lookup_action n table with
        | Some (AGlue g nargs idx) =>
            if Nat.eqb (length frame) nargs then
              match all_some (map (nth_error frame) idx) with
              | Some es =>
                  match g, es with
                  | GBehind, [] => if ale lb la then Some (Some (lb, lb)) else None
                  | GAhead, [] => if ale lb la then Some (Some (la, la)) else None
                  | GNone, [] | GVecNil, [] => Some None
                  | GId, [e] | GSome, [e] | GVecOne, [e] => span None [e]
                  | GPush, [a; b] | GPushOpt, [a; b] | GTuple2, [a; b] => span None [a; b]
                  | _, _ => None
                  end
              | None => None
              end
            else None
        | Some (AUser _ nargs idx) =>
            if Nat.eqb (length frame) nargs then
              match all_some (map (nth_error frame) idx) with
              | Some es => span None es
              | None => None
              end
            else None
        | Some (AWrap w) =>
            if Nat.eqb (length frame) (w_nargs w) then
              match asteps (aeval fuel') frame [] lb la (w_steps w) with
              | Some temps =>
                  match all_some (map (getae frame temps) (w_final_args w)) with
                  | Some es => aeval fuel' (w_final w) lb la es
                  | None => None
                  end
              | None => None
              end
            else None
        | None => None
        end
    end.
End AEval.

Definition frame0 (k : nat) : list aelem := map (fun i => AE (PStart i) (PEnd i) (Some (PStart i, PEnd i))) (seq 0 k).
Definition frame_lo (n : nat) : apos := match n with O => PLb | S _ => PStart O end.
Definition frame_hi (n : nat) : apos := match n with O => PLa | S m => PEnd m end.
Definition prod_ord_g (table : list (N * adef)) (fuel : nat) (pr : nat * N * N * N) : bool :=
  let '(k, _, act, _) := pr in
  match aeval table fuel act PLb PLa (frame0 k) with
  | Some (Some (vlo, vhi)) => ale (frame_lo k) vlo && ale vhi (frame_hi k)
  | Some None => true
  | None => false
  end.

(* stated with the tables spelled out: see the remark at Proofs/Termination.v goto_checked *)
Lemma prods_ord_checked : forallb (prod_ord_g gen_actions action_fuel) gen_productions = true.
Proof. vm_compute. reflexivity. Qed.

(* ---- soundness of the abstract run ---- *)
Lemma vs_in_weaken lo hi lo' hi' vs : vs_in lo hi vs -> lo' <= lo -> hi <= hi' -> vs_in lo' hi' vs.
Proof.
  intros H. revert lo' hi'. induction H as [lo hi L|lo hi a b v vs A B C D IH]; intros lo' hi' Hl Hh; [constructor; lia|].
  econstructor; [| |exact C|apply IH; lia]; lia.
Qed.
Lemma vs_in_each lo hi vs : vs_in lo hi vs -> Forall (v_in lo hi) vs.
Proof.
  induction 1 as [lo hi L|lo hi a b v vs A B C D IH]; constructor.
  - pose proof (vs_in_le _ _ _ D). eapply v_in_weaken; [| |exact C]; lia.
  - eapply Forall_impl; [|exact IH]. intros x Hx. eapply v_in_weaken; [| |exact Hx]; lia.
Qed.
Lemma v_in_vec a b l : v_in a b (VVec l) <-> seq_ok (flat_map tops l) /\ Forall (v_in a b) l.
Proof.
  unfold v_in. rewrite facts_vec. split.
  - intros H. inversion H as [|? ? HC H']; subst. split; [exact HC|]. clear HC H.
    induction l as [|x l IH]; cbn [flat_map] in *; [constructor|]. apply Forall_app in H' as [H1 H2]. constructor; [exact H1|apply IH; exact H2].
  - intros [HC H]. constructor; [exact HC|]. clear HC. induction H as [|x l Hx _ IH]; cbn [flat_map]; [constructor|].
    apply Forall_app. split; assumption.
Qed.
Lemma v_in_tuple a b l : v_in a b (VTuple l) <-> Forall (v_in a b) l.
Proof.
  unfold v_in. rewrite facts_tuple. induction l as [|x l IH]; cbn [flat_map]; [split; constructor|].
  rewrite Forall_app. split; [intros [H1 H2]; constructor; [exact H1|apply IH; exact H2]|].
  intros H. inversion H; subst. split; [assumption|apply IH; assumption].
Qed.
Lemma v_in_bad a b : v_in a b VBad.  Proof. constructor. Qed.

(* the full range of a list element lies where the element lies *)
Lemma last2_in {A} (P : A -> Prop) l x y : Forall P (l ++ [x; y]) -> P x /\ P y.
Proof. intros H. apply Forall_app in H as [_ H]. inversion H as [|? ? Hx H']; subst. inversion H'; subst. auto. Qed.
Lemma tops_in : forall v a b, v_in a b v -> Forall (fun r => rin a b r) (tops v).
Proof.
  fix IH 1. intros v a b H. destruct v; cbn [tops]; try apply Forall_nil.
  - destruct o as [x|]; [apply IH; exact H|constructor].
  - unfold v_in in H. cbn [facts] in H. apply Forall_nf in H as [H _]. unfold import_rs in H.
    constructor; [|constructor]. inversion H as [|? ? _ H']; subst. inversion H'; subst. assumption.
  - unfold v_in in H. cbn [facts] in H. apply Forall_nf in H as [H _]. unfold arg_rs in H. rewrite app_assoc in H.
    constructor; [|constructor]. apply (last2_in _ _ _ _ H).
  - unfold v_in in H. cbn [facts] in H. apply Forall_nf in H as [H _]. unfold ee_rs in H.
    constructor; [|constructor]. inversion H as [|? ? _ H']; subst. inversion H'; subst. assumption.
  - unfold v_in in H. cbn [facts] in H. apply Forall_nf in H as [H _]. constructor; [|constructor]. apply ty_full_in. exact H.
  - unfold v_in in H. cbn [facts] in H. apply Forall_nf in H as [H _]. constructor; [|constructor].
    destruct e as [c|m]; cbn [ie_rs ie_full] in *.
    + unfold const_rs in H. apply (last2_in _ _ _ _ H).
    + unfold method_rs in H. rewrite app_assoc in H. apply Forall_app in H as [_ H].
      inversion H as [|? ? _ H']; subst. inversion H'; subst. assumption.
  - unfold v_in in H. cbn [facts] in H. apply Forall_nf in H as [H _]. constructor; [|constructor].
    destruct e as [c|f]; cbn [pe_rs pe_full] in *; [unfold const_rs in H|unfold field_rs in H]; apply (last2_in _ _ _ _ H).
Qed.
Lemma tops_small v : seq_ok (tops v).
Proof.
  revert v. fix IH 1. intros v. destruct v; cbn [tops]; try exact I. destruct o as [x|]; [apply IH|exact I].
Qed.

Lemma v_in_push lo hi a1 b1 a2 b2 v e : v_in a1 b1 v -> v_in a2 b2 e -> lo <= a1 -> b1 <= a2 -> b2 <= hi -> a1 <= b1 -> a2 <= b2 ->
  v_in lo hi (vec_push v e).
Proof.
  intros Hv He L1 L2 L3 L4 L5. destruct v; try apply v_in_bad. cbn [vec_push]. apply v_in_vec in Hv as [HC HF]. apply v_in_vec. split.
  - rewrite flat_map_app. cbn [flat_map]. rewrite app_nil_r.
    apply (seq_app_in _ _ a1 b1 a2 b2); [|apply tops_in; exact He|exact L2|exact HC|apply tops_small].
    clear -HF. induction HF as [|x l Hx _ IH]; cbn [flat_map]; [constructor|]. apply Forall_app. split; [apply tops_in; exact Hx|exact IH].
  - apply Forall_app. split.
    + eapply Forall_impl; [|exact HF]. intros x Hx. eapply v_in_weaken; [| |exact Hx]; lia.
    + constructor; [eapply v_in_weaken; [| |exact He]; lia|constructor].
Qed.
Lemma v_in_push_opt lo hi a1 b1 a2 b2 v e : v_in a1 b1 v -> v_in a2 b2 e -> lo <= a1 -> b1 <= a2 -> b2 <= hi -> a1 <= b1 -> a2 <= b2 ->
  v_in lo hi (vec_push_opt v e).
Proof.
  intros Hv He L1 L2 L3 L4 L5. destruct v; try apply v_in_bad. cbn [vec_push_opt]. destruct e; try apply v_in_bad. destruct o as [x|].
  - change (VVec (l ++ [x])) with (vec_push (VVec l) x). apply (v_in_push lo hi a1 b1 a2 b2); auto.
  - eapply v_in_weaken; [| |exact Hv]; lia.
Qed.

Section Sound.
  Variable cx : ctx.
  Variables (lb0 la0 : N) (args0 : list triple).
  Hypothesis F0 : ts_in lb0 la0 args0.
  Notation C := (cpos lb0 la0 args0).
  Definition pv (p : apos) : Prop := avalid (length args0) p = true.

  Lemma ale_C p q : pv p -> pv q -> ale p q = true -> C p <= C q.
  Proof. intros. apply ale_sound; assumption. Qed.

  Definition bnd_rel (b : abounds) (v : sem) : Prop :=
    match b with
    | Some (lo, hi) => pv lo /\ pv hi /\ C lo <= C hi /\ v_in (C lo) (C hi) v
    | None => forall x y, x <= y -> v_in x y v
    end.
  Definition erel (e : aelem) (t : triple) : Prop :=
    pv (ae_st e) /\ pv (ae_en e) /\ tstart t = C (ae_st e) /\ tend t = C (ae_en e) /\ bnd_rel (ae_b e) (tval t).
  Definition res_rel (b : abounds) (r : res) : Prop := bnd_rel b (fst r) /\ Forall diag_ord (snd r).

  Lemma bnd_bad b : (match b with Some (lo, hi) => pv lo /\ pv hi /\ C lo <= C hi | None => True end) -> bnd_rel b VBad.
  Proof. destruct b as [[lo hi]|]; cbn; [intros [A [B D]]; repeat split; auto; constructor|intros _ x y _; constructor]. Qed.

  (* spans *)
  Lemma span_some : forall l ts lo0 hi0 b, Forall2 erel l ts -> pv hi0 -> span (Some (lo0, hi0)) l = Some b ->
    exists hi, b = Some (lo0, hi) /\ pv hi /\ vs_in (C hi0) (C hi) (map tval ts).
  Proof.
    induction l as [|e l IH]; intros ts lo0 hi0 b F P H; inversion F as [|? t ? ts' R F']; subst; cbn [span] in H.
    - inversion H; subst. exists hi0. split; [reflexivity|]. split; [exact P|]. constructor. lia.
    - destruct R as [_ [_ [_ [_ R]]]]. destruct (ae_b e) as [[lo hi]|]; cbn [bnd_rel] in R.
      + destruct (ale lo hi) eqn:A1; [|discriminate]. destruct (ale hi0 lo) eqn:A2; [|discriminate].
        destruct R as [Pl [Ph [L V]]]. destruct (IH _ _ _ _ F' Ph H) as [hi' [E [P' V']]].
        exists hi'. split; [exact E|]. split; [exact P'|]. cbn [map]. econstructor; [apply (ale_C _ _ P Pl A2)|exact L|exact V|exact V'].
      + destruct (IH _ _ _ _ F' P H) as [hi' [E [P' V']]]. exists hi'. split; [exact E|]. split; [exact P'|].
        cbn [map]. econstructor; [apply N.le_refl|apply N.le_refl|apply R; lia|exact V'].
  Qed.
  Lemma span_none : forall l ts b, Forall2 erel l ts -> span None l = Some b ->
    match b with
    | Some (lo, hi) => pv lo /\ pv hi /\ vs_in (C lo) (C hi) (map tval ts)
    | None => forall x, vs_in x x (map tval ts)
    end.
  Proof.
    induction l as [|e l IH]; intros ts b F H; inversion F as [|? t ? ts' R F']; subst; cbn [span] in H.
    - inversion H; subst. intros x. constructor. lia.
    - destruct R as [_ [_ [_ [_ R]]]]. destruct (ae_b e) as [[lo hi]|]; cbn [bnd_rel] in R.
      + destruct (ale lo hi) eqn:A1; [|discriminate]. destruct R as [Pl [Ph [L V]]].
        destruct (span_some _ _ _ _ _ F' Ph H) as [hi' [E [P' V']]]. subst b. split; [exact Pl|]. split; [exact P'|].
        cbn [map]. econstructor; [apply N.le_refl|exact L|exact V|exact V'].
      + specialize (IH _ _ F' H). destruct b as [[lo hi]|].
        * destruct IH as [Pl [Ph V']]. split; [exact Pl|]. split; [exact Ph|]. cbn [map].
          econstructor; [apply N.le_refl|apply N.le_refl|apply R; lia|exact V'].
        * intros x. cbn [map]. econstructor; [apply N.le_refl|apply N.le_refl|apply R; lia|apply IH].
  Qed.

  (* a span, read as a statement about any function of the values *)
  Lemma span_use l ts b (P : N -> N -> Prop) : Forall2 erel l ts -> span None l = Some b ->
    (forall lo hi, vs_in lo hi (map tval ts) -> P lo hi) ->
    match b with Some (lo, hi) => pv lo /\ pv hi /\ C lo <= C hi /\ P (C lo) (C hi) | None => forall x y, x <= y -> P x y end.
  Proof.
    intros F H HP. pose proof (span_none _ _ _ F H) as S. destruct b as [[lo hi]|].
    - destruct S as [Pl [Ph V]]. repeat split; auto. exact (vs_in_le _ _ _ V).
    - intros x y L. apply HP. eapply vs_in_weaken; [apply (S x)|lia|exact L].
  Qed.

  Lemma all_some_F2 {A B} (R : A -> B -> Prop) (f : nat -> option A) (g : nat -> B) idx es :
    (forall i e, f i = Some e -> R e (g i)) -> all_some (map f idx) = Some es -> Forall2 R es (map g idx).
  Proof.
    intros H. revert es. induction idx as [|i idx IH]; intros es E; cbn in E; [inversion E; constructor|].
    destruct (f i) as [e|] eqn:Fi; [|discriminate]. destruct (all_some (map f idx)) as [r|]; [|discriminate].
    inversion E; subst. cbn [map]. constructor; [apply H; exact Fi|apply IH; reflexivity].
  Qed.
  Lemma all_some_F2r {A B X} (R : A -> B -> Prop) (f : X -> option A) (g : X -> B) l es :
    (forall i e, f i = Some e -> R e (g i)) -> all_some (map f l) = Some es -> Forall2 R es (map g l).
  Proof.
    intros H. revert es. induction l as [|i l IH]; intros es E; cbn in E; [inversion E; constructor|].
    destruct (f i) as [e|] eqn:Fi; [|discriminate]. destruct (all_some (map f l)) as [r|]; [|discriminate].
    inversion E; subst. cbn [map]. constructor; [apply H; exact Fi|apply IH; reflexivity].
  Qed.

  Lemma nth_erel frame args i e : Forall2 erel frame args -> nth_error frame i = Some e -> erel e (nth i args dummy).
  Proof.
    intros F. revert i. induction F as [|x t frame args R F IH]; intros i H; [destruct i; discriminate|].
    destruct i as [|i]; cbn in *; [inversion H; subst; exact R|apply IH; exact H].
  Qed.
  Lemma getae_erel frame args temps ts r e : Forall2 erel frame args -> Forall2 erel temps ts ->
    getae frame temps r = Some e -> erel e (getarg args ts r).
  Proof. intros Fa Ft H. destruct r; cbn in *; eapply nth_erel; eauto. Qed.
  Lemma aloc_sound frame args temps ts lb la l p : Forall2 erel frame args -> Forall2 erel temps ts -> pv lb -> pv la ->
    aloc frame temps lb la l = Some p -> pv p /\ evalloc args ts (C lb) (C la) l = C p.
  Proof.
    intros Fa Ft Pb Pa H. destruct l; cbn [aloc evalloc] in *.
    - destruct (getae frame temps a) as [e|] eqn:G; [|discriminate]. inversion H; subst.
      destruct (getae_erel _ _ _ _ _ _ Fa Ft G) as [P1 [P2 [E1 [E2 _]]]]. split; assumption.
    - destruct (getae frame temps a) as [e|] eqn:G; [|discriminate]. inversion H; subst.
      destruct (getae_erel _ _ _ _ _ _ Fa Ft G) as [P1 [P2 [E1 [E2 _]]]]. split; assumption.
    - inversion H; subst. auto.
    - inversion H; subst. auto.
  Qed.

  Lemma F2_length {A B} (R : A -> B -> Prop) l1 l2 : Forall2 R l1 l2 -> length l1 = length l2.
  Proof. induction 1; cbn; congruence. Qed.

  Definition afun_rel (af : apos -> apos -> list aelem -> option abounds) (f : afun) : Prop :=
    forall lb la frame args b, pv lb -> pv la -> Forall2 erel frame args -> af lb la frame = Some b ->
      res_rel b (f cx (C lb) (C la) args).

  Lemma res_bad b : (match b with Some (lo, hi) => pv lo /\ pv hi /\ C lo <= C hi | None => True end) -> res_rel b bad.
  Proof. intros H. split; [apply bnd_bad; exact H|constructor]. Qed.

  Lemma glue_rel g nargs idx lb la frame args b :
    pv lb -> pv la -> Forall2 erel frame args ->
    (if Nat.eqb (length frame) nargs then
       match all_some (map (nth_error frame) idx) with
       | Some es =>
           match g, es with
           | GBehind, [] => if ale lb la then Some (Some (lb, lb)) else None
           | GAhead, [] => if ale lb la then Some (Some (la, la)) else None
           | GNone, [] | GVecNil, [] => Some None
           | GId, [e] | GSome, [e] | GVecOne, [e] => span None [e]
           | GPush, [a; b] | GPushOpt, [a; b] | GTuple2, [a; b] => span None [a; b]
           | _, _ => None
           end
       | None => None
       end
     else None) = Some b ->
    res_rel b (if Nat.eqb (length args) nargs then (run_glue g (C lb) (C la) (vals_at args idx), []) else (VBad, [])).
  Proof.
    intros Pb Pa F H. rewrite <- (F2_length _ _ _ F). destruct (Nat.eqb (length frame) nargs); [|discriminate].
    destruct (all_some (map (nth_error frame) idx)) as [es|] eqn:E; [|discriminate].
    pose proof (all_some_F2 erel (nth_error frame) (fun i => nth i args dummy) idx es (fun i e => nth_erel _ _ i e F) E) as F2.
    assert (VA : vals_at args idx = map tval (map (fun i => nth i args dummy) idx)) by (unfold vals_at; rewrite map_map; reflexivity).
    rewrite VA. split; [|constructor]. cbn [fst]. remember (map (fun i => nth i args dummy) idx) as ts eqn:Hts. clear Hts VA E.
    destruct g; destruct es as [|e1 [|e2 [|e3 es]]]; try discriminate;
      inversion F2 as [|? t1 ? ts1 R1 F2']; subst; try (inversion F2' as [|? t2 ? ts2 R2 F2'']; subst; try (inversion F2''; subst));
      cbn [map run_glue].
    - (* GId *) pose proof (span_use _ _ _ (fun lo hi => v_in lo hi (tval t1)) F2 H) as S. cbn [map] in S.
      assert (Q : forall lo hi, vs_in lo hi [tval t1] -> v_in lo hi (tval t1)) by (intros lo hi V; apply vs_in_each in V; inversion V; assumption).
      specialize (S Q). destruct b as [[lo hi]|]; exact S.
    - (* GSome *) pose proof (span_use _ _ _ (fun lo hi => v_in lo hi (tval t1)) F2 H) as S. cbn [map] in S.
      assert (Q : forall lo hi, vs_in lo hi [tval t1] -> v_in lo hi (tval t1)) by (intros lo hi V; apply vs_in_each in V; inversion V; assumption).
      specialize (S Q). destruct b as [[lo hi]|]; exact S.
    - (* GNone *) inversion H; subst. intros x y _. constructor.
    - (* GVecNil *) inversion H; subst. intros x y _. constructor; [exact I|constructor].
    - (* GVecOne *) pose proof (span_use _ _ _ (fun lo hi => v_in lo hi (VVec [tval t1])) F2 H) as S. cbn [map] in S.
      assert (Q : forall lo hi, vs_in lo hi [tval t1] -> v_in lo hi (VVec [tval t1])) by (intros lo hi V; apply vs_in_each in V; apply v_in_vec; split; [cbn [flat_map]; rewrite app_nil_r; apply tops_small|exact V]).
      specialize (S Q). destruct b as [[lo hi]|]; exact S.
    - (* GPush *) pose proof (span_use _ _ _ (fun lo hi => v_in lo hi (vec_push (tval t1) (tval t2))) F2 H) as S. cbn [map] in S.
      assert (Q : forall lo hi, vs_in lo hi [tval t1; tval t2] -> v_in lo hi (vec_push (tval t1) (tval t2))).
      { intros lo hi V. inversion V as [|? ? a1 b1 ? ? A1 B1 C1 V']; subst. inversion V' as [|? ? a2 b2 ? ? A2 B2 C2 V'']; subst.
        inversion V''; subst. apply (v_in_push lo hi a1 b1 a2 b2); auto. }
      specialize (S Q). destruct b as [[lo hi]|]; exact S.
    - (* GPushOpt *) pose proof (span_use _ _ _ (fun lo hi => v_in lo hi (vec_push_opt (tval t1) (tval t2))) F2 H) as S. cbn [map] in S.
      assert (Q : forall lo hi, vs_in lo hi [tval t1; tval t2] -> v_in lo hi (vec_push_opt (tval t1) (tval t2))).
      { intros lo hi V. inversion V as [|? ? a1 b1 ? ? A1 B1 C1 V']; subst. inversion V' as [|? ? a2 b2 ? ? A2 B2 C2 V'']; subst.
        inversion V''; subst. apply (v_in_push_opt lo hi a1 b1 a2 b2); auto. }
      specialize (S Q). destruct b as [[lo hi]|]; exact S.
    - (* GTuple2 *) pose proof (span_use _ _ _ (fun lo hi => v_in lo hi (VTuple [tval t1; tval t2])) F2 H) as S. cbn [map] in S.
      assert (Q : forall lo hi, vs_in lo hi [tval t1; tval t2] -> v_in lo hi (VTuple [tval t1; tval t2])).
      { intros lo hi V. apply vs_in_each in V. apply v_in_tuple. exact V. }
      specialize (S Q). destruct b as [[lo hi]|]; exact S.
    - (* GBehind *) destruct (ale lb la) eqn:A; [|discriminate]. inversion H; subst. cbn [bnd_rel]. repeat split; auto; [lia|].
      constructor; [cbn [fin]; lia|constructor].
    - (* GAhead *) destruct (ale lb la) eqn:A; [|discriminate]. inversion H; subst. cbn [bnd_rel]. repeat split; auto; [lia|].
      constructor; [cbn [fin]; lia|constructor].
  Qed.

  Lemma user_rel u nargs idx lb la frame args b : pv lb -> pv la -> Forall2 erel frame args ->
    (if Nat.eqb (length frame) nargs then
       match all_some (map (nth_error frame) idx) with Some es => span None es | None => None end
     else None) = Some b ->
    res_rel b (if Nat.eqb (length args) nargs then user_fn u cx (vals_at args idx) else (VBad, [])).
  Proof.
    intros Pb Pa F H. rewrite <- (F2_length _ _ _ F). destruct (Nat.eqb (length frame) nargs); [|discriminate].
    destruct (all_some (map (nth_error frame) idx)) as [es|] eqn:E; [|discriminate].
    pose proof (all_some_F2 erel (nth_error frame) (fun i => nth i args dummy) idx es (fun i e => nth_erel _ _ i e F) E) as F2.
    assert (VA : vals_at args idx = map tval (map (fun i => nth i args dummy) idx)) by (unfold vals_at; rewrite map_map; reflexivity).
    rewrite VA. remember (map (fun i => nth i args dummy) idx) as ts eqn:Hts. clear Hts VA E.
    pose proof (span_use _ _ _ (fun lo hi => res_in lo hi (user_fn u cx (map tval ts))) F2 H (fun lo hi V => user_in cx u _ lo hi V)) as S.
    destruct b as [[lo hi]|]; unfold res_rel, bnd_rel.
    - destruct S as [Pl [Ph [L [V D]]]]. split; [repeat split; assumption|exact D].
    - split; [intros x y Lxy; exact (proj1 (S x y Lxy))|exact (proj2 (S 0 0 ltac:(lia)))].
  Qed.

  Lemma F2_app {A B} (R : A -> B -> Prop) l1 l2 m1 m2 : Forall2 R l1 l2 -> Forall2 R m1 m2 -> Forall2 R (l1 ++ m1) (l2 ++ m2).
  Proof. induction 1; cbn; [auto|constructor; auto]. Qed.

  Lemma asteps_rel (acall : N -> apos -> apos -> list aelem -> option abounds) (call : N -> afun) :
    (forall n, afun_rel (acall n) (call n)) ->
    forall steps frame args lb la atemps temps ds atemps', pv lb -> pv la -> Forall2 erel frame args -> Forall2 erel atemps temps ->
      Forall diag_ord ds -> asteps acall frame atemps lb la steps = Some atemps' ->
      Forall2 erel atemps' (fst (run_steps call cx (C lb) (C la) args temps steps ds)) /\
      Forall diag_ord (snd (run_steps call cx (C lb) (C la) args temps steps ds)).
  Proof.
    intros Hc. induction steps as [|s rest IH]; intros frame args lb la atemps temps ds atemps' Pb Pa Fa Ft Fd H; cbn [asteps run_steps] in *.
    - inversion H; subst. auto.
    - destruct (aloc frame atemps lb la (ws_start s)) as [st|] eqn:A1; [|discriminate].
      destruct (aloc frame atemps lb la (ws_end s)) as [en|] eqn:A2; [|discriminate].
      destruct (aloc_sound _ _ _ _ _ _ _ _ Fa Ft Pb Pa A1) as [Ps Es]. destruct (aloc_sound _ _ _ _ _ _ _ _ Fa Ft Pb Pa A2) as [Pe Ee].
      rewrite Es, Ee.
      match type of H with match ?X with _ => _ end = _ => destruct X as [b|] eqn:CB; [|discriminate] end.
      match goal with |- context [let '(_, _) := ?X in _] => assert (R : res_rel b X); [|destruct X as [v d]] end.
      { destruct (ws_args s) as [l|].
        - destruct (all_some (map (getae frame atemps) l)) as [es|] eqn:E; [|discriminate].
          pose proof (all_some_F2r erel (getae frame atemps) (getarg args temps) l es (fun r e => getae_erel _ _ _ _ r e Fa Ft) E) as F2.
          exact (Hc _ _ _ _ _ _ Pb Pa F2 CB).
        - exact (Hc _ _ _ _ _ _ Ps Pe (Forall2_nil _) CB). }
      destruct R as [Rv Rd]. cbn [fst snd] in Rv, Rd.
      apply (IH frame args lb la (atemps ++ [AE st en b]) (temps ++ [(C st, v, C en)]) (ds ++ d) atemps' Pb Pa Fa); [|apply Forall_app; auto|exact H].
      apply F2_app; [exact Ft|]. constructor; [|constructor]. repeat split; auto.
  Qed.

  Lemma bnd_side b v : bnd_rel b v -> match b with Some (lo, hi) => pv lo /\ pv hi /\ C lo <= C hi | None => True end.
  Proof. destruct b as [[lo hi]|]; cbn; [tauto|auto]. Qed.
  Lemma bnd_panic b : (match b with Some (lo, hi) => pv lo /\ pv hi /\ C lo <= C hi | None => True end) -> bnd_rel b VPanic.
  Proof. destruct b as [[lo hi]|]; cbn; [intros [A [B D]]; repeat split; auto; constructor|intros _ x y _; constructor]. Qed.

  Theorem aeval_rel table : forall fuel n, afun_rel (aeval table fuel n) (eval_action table fuel n).
  Proof.
    induction fuel as [|fuel IH]; intros n lb la frame args b Pb Pa F H; cbn [aeval eval_action] in *; [discriminate|].
    destruct (lookup_action n table) as [[g nargs idx|u nargs idx|w]|]; [| | |discriminate].
    - apply (glue_rel g nargs idx lb la frame args b Pb Pa F H).
    - apply (user_rel u nargs idx lb la frame args b Pb Pa F H).
    - unfold run_wrapper. rewrite <- (F2_length _ _ _ F). destruct (Nat.eqb (length frame) (w_nargs w)); [|discriminate].
      destruct (asteps (aeval table fuel) frame [] lb la (w_steps w)) as [atemps|] eqn:AS; [|discriminate].
      destruct (asteps_rel (aeval table fuel) (eval_action table fuel) IH (w_steps w) frame args lb la [] [] [] atemps Pb Pa F
                           (Forall2_nil _) (Forall_nil _) AS) as [Ft Fd].
      destruct (run_steps (eval_action table fuel) cx (C lb) (C la) args [] (w_steps w) []) as [temps ds]. cbn [fst snd] in Ft, Fd.
      destruct (all_some (map (getae frame atemps) (w_final_args w))) as [es|] eqn:E; [|discriminate].
      pose proof (all_some_F2r erel (getae frame atemps) (getarg args temps) (w_final_args w) es (fun r e => getae_erel _ _ _ _ r e F Ft) E) as F2.
      pose proof (IH (w_final w) lb la es _ b Pb Pa F2 H) as [Rv Rd].
      destruct (existsb (fun t => is_panic (tval t)) temps).
      + split; [apply bnd_panic; exact (bnd_side _ _ Rv)|exact Fd].
      + destruct (eval_action table fuel (w_final w) cx (C lb) (C la) (map (getarg args temps) (w_final_args w))) as [v d].
        split; [exact Rv|apply Forall_app; auto].
  Qed.
End Sound.

(* ---- every reduce-level action, on the symbols it pops ---- *)
Lemma last_nth {A} (l : list A) d m : length l = S m -> last l d = nth m l d.
Proof.
  revert m. induction l as [|x l IH]; intros m H; [discriminate|]. destruct l as [|y l]; [cbn in H; inversion H; reflexivity|].
  destruct m as [|m]; [cbn in H; lia|]. change (last (x :: y :: l) d) with (last (y :: l) d). cbn [nth]. apply IH. cbn in *. lia.
Qed.

Lemma lo_hi_le lb la args : ts_in lb la args -> lo_of lb args <= hi_of la args.
Proof.
  intros F. destruct args as [|t ts]; [exact (ts_in_le _ _ _ F)|].
  unfold lo_of, hi_of. rewrite (last_nth (t :: ts) dummy (length ts) eq_refl).
  change (tstart t) with (tstart (nth O (t :: ts) dummy)).
  destruct (ts_in_nth _ _ _ F O ltac:(cbn; lia)) as [_ [B0 _]].
  destruct (ts_in_nth _ _ _ F (length ts) ltac:(cbn; lia)) as [_ [B1 _]].
  destruct (Nat.eq_dec (length ts) O) as [E|NE]; [rewrite E in *; exact B0|].
  pose proof (ts_in_nth2 _ _ _ F O (length ts) ltac:(lia) ltac:(cbn; lia)) as Q. lia.
Qed.

Section Top.
  Variable cx : ctx.
  Variables (table : list (N * adef)) (fuel : nat) (prods : list (nat * N * N * N)).
  Hypothesis HC : forallb (prod_ord_g table fuel) prods = true.

  Lemma frame0_rel lb la args (F : ts_in lb la args) : Forall2 (erel lb la args) (frame0 (length args)) args.
  Proof.
    unfold frame0.
    assert (G : forall l s, (forall i, (i < length l)%nat -> erel lb la args (AE (PStart (s + i)) (PEnd (s + i)) (Some (PStart (s + i), PEnd (s + i)))) (nth i l dummy)) ->
                Forall2 (erel lb la args) (map (fun i => AE (PStart i) (PEnd i) (Some (PStart i, PEnd i))) (seq s (length l))) l).
    { induction l as [|t l IH]; intros s H; cbn [length seq map]; [constructor|]. constructor.
      - specialize (H O ltac:(cbn; lia)). rewrite Nat.add_0_r in H. exact H.
      - apply IH. intros i Hi. specialize (H (S i) ltac:(cbn; lia)). rewrite Nat.add_succ_r in H. exact H. }
    apply G. intros i Hi. cbn [Nat.add]. destruct (ts_in_nth _ _ _ F i Hi) as [A [B [D E]]].
    assert (P : avalid (length args) (PStart i) = true /\ avalid (length args) (PEnd i) = true) by (cbn; split; apply Nat.ltb_lt; exact Hi).
    destruct P as [P1 P2]. unfold erel, pv, bnd_rel. cbn [ae_st ae_en ae_b cpos]. repeat split; auto.
  Qed.

  Theorem action_ord k nt act kind lb la args :
    In (k, nt, act, kind) prods -> length args = k -> ts_in lb la args ->
    res_in (lo_of lb args) (hi_of la args) (eval_action table fuel act cx lb la args).
  Proof.
    intros HI HL F. pose proof HC as C. rewrite forallb_forall in C. specialize (C _ HI). unfold prod_ord_g in C.
    destruct (aeval table fuel act PLb PLa (frame0 k)) as [bb|] eqn:E; [|discriminate].
    subst k. pose proof (aeval_rel cx lb la args F table fuel act PLb PLa (frame0 (length args)) args bb
                                   eq_refl eq_refl (frame0_rel lb la args F) E) as [Rv Rd].
    cbn [cpos] in Rv, Rd. split; [|exact Rd]. pose proof (lo_hi_le _ _ _ F) as LH.
    destruct bb as [[vlo vhi]|]; cbn [bnd_rel] in Rv; [|apply Rv; exact LH].
    destruct Rv as [Pl [Ph [L V]]]. apply andb_prop in C as [C1 C2].
    assert (FLoc : pv args (frame_lo (length args)) /\ cpos lb la args (frame_lo (length args)) = lo_of lb args).
    { destruct args as [|t ts]; [cbn; auto|]. cbn [length frame_lo cpos lo_of nth]. split; [reflexivity|reflexivity]. }
    assert (FH : pv args (frame_hi (length args)) /\ cpos lb la args (frame_hi (length args)) = hi_of la args).
    { destruct args as [|t ts]; [cbn; auto|]. cbn [length frame_hi cpos hi_of]. split; [unfold pv; cbn [avalid length]; apply Nat.ltb_lt; lia|].
      rewrite (last_nth (t :: ts) dummy (length ts) eq_refl). reflexivity. }
    destruct FLoc as [FL1 FL2], FH as [FH1 FH2].
    pose proof (ale_sound _ _ _ _ _ F FL1 Pl C1) as Q1. pose proof (ale_sound _ _ _ _ _ F Ph FH1 C2) as Q2.
    rewrite FL2 in Q1. rewrite FH2 in Q2. eapply v_in_weaken; [exact Q1|exact Q2|exact V].
  Qed.
End Top.

(* ---- the driver ---- *)
Lemma ts_in_hd lo hi t ts : ts_in lo hi (t :: ts) -> ts_in (tstart t) hi (t :: ts).
Proof. intros H. inversion H; subst. constructor; auto. lia. Qed.
Lemma ts_in_last lo hi ts : ts_in lo hi ts -> ts <> [] -> ts_in lo (tend (last ts dummy)) ts.
Proof.
  induction 1 as [lo hi L|lo hi t ts A B C D IH]; intros NE; [contradiction|].
  destruct ts as [|u ts]; [cbn [last]; constructor; auto; constructor; lia|].
  change (last (t :: u :: ts) dummy) with (last (u :: ts) dummy). constructor; auto. apply IH. discriminate.
Qed.
Lemma ts_in_last_le lo hi ts : ts_in lo hi ts -> ts <> [] -> lo <= tend (last ts dummy) /\ tend (last ts dummy) <= hi.
Proof.
  intros H NE. destruct ts as [|t ts]; [contradiction|]. rewrite (last_nth (t :: ts) dummy (length ts) eq_refl).
  destruct (ts_in_nth _ _ _ H (length ts) ltac:(cbn; lia)) as [A [B [D _]]]. split; lia.
Qed.
Lemma last_rev_hd {A} (l : list A) x d : last (rev (x :: l)) d = x.
Proof. cbn [rev]. apply last_last. Qed.

Definition tok3 (x : N * str * N) : triple := let '(s, t, e) := x in (s, VTok t, e).

Lemma lex_next_pos tbl : forall fuel s off,
  match lex_next tbl fuel s off with
  | LTok a _ text stop _ => off <= a /\ stop = a + byte_len text
  | LInvalid loc => off <= loc
  | LEof => True
  end.
Proof.
  induction fuel as [|fuel IH]; intros s off; cbn [lex_next]; [exact I|]. destruct s as [|c s']; [exact I|].
  destruct (negb (any_match (S fuel) tbl (c :: s'))); [lia|].
  destruct (best_match (S fuel) tbl 0 (c :: s') (O, 0, false)) as [[n idx] sk]. destruct sk.
  - destruct (Nat.eqb n 0); [lia|]. specialize (IH (skipn n (c :: s')) (off + byte_len (firstn n (c :: s')))).
    destruct (lex_next tbl fuel (skipn n (c :: s')) (off + byte_len (firstn n (c :: s')))); [|exact I|lia]. destruct IH. split; [lia|assumption].
  - split; [lia|reflexivity].
Qed.

Section Drive.
  Variable cx : ctx.

  Definition len_ok (p : pst) : Prop := (length (ps_states p) <= S (length (ps_syms p)))%nat.
  Definition inv (hi : N) (p : pst) : Prop := ts_in 0 hi (rev (ps_syms p)) /\ len_ok p /\ Forall diag_ord (ps_diags p).
  Definition oinv (p : pst) (r : outcome3) : Prop :=
    Forall diag_ord (ps_diags p) /\ match r with Done v => exists hi, v_in 0 hi v | Failed e => err_ord e | _ => True end.

  Lemma inv_weaken hi hi' p : inv hi p -> hi <= hi' -> inv hi' p.
  Proof. intros [A [B D]] L. split; [eapply ts_in_weaken; [exact A|lia|exact L]|split; assumption]. Qed.

  Lemma arity_bad table fuel act lb la frame b x y args : aeval table fuel act lb la frame = Some b -> length args <> length frame ->
    eval_action table fuel act cx x y args = (VBad, []).
  Proof.
    destruct fuel as [|fuel]; cbn [aeval eval_action]; [discriminate|]. intros H NE.
    destruct (lookup_action act table) as [[g nargs idx|u nargs idx|w]|]; [| | |discriminate].
    - destruct (Nat.eqb_spec (length frame) nargs) as [E|]; [|discriminate]. destruct (Nat.eqb_spec (length args) nargs); [lia|reflexivity].
    - destruct (Nat.eqb_spec (length frame) nargs) as [E|]; [|discriminate]. destruct (Nat.eqb_spec (length args) nargs); [lia|reflexivity].
    - unfold run_wrapper. destruct (Nat.eqb_spec (length frame) (w_nargs w)) as [E|]; [|discriminate].
      destruct (Nat.eqb_spec (length args) (w_nargs w)); [lia|reflexivity].
  Qed.

  Lemma frame0_length k : length (frame0 k) = k.
  Proof. unfold frame0. rewrite map_length, seq_length. reflexivity. Qed.

  Lemma action_ord_g table fuel prods (HC : forallb (prod_ord_g table fuel) prods = true) k nt act kind lb la args :
    In (k, nt, act, kind) prods -> ts_in lb la args ->
    res_in (lo_of lb args) (hi_of la args) (eval_action table fuel act cx lb la args).
  Proof.
    intros HI F. destruct (Nat.eq_dec (length args) k) as [E|NE]; [eapply action_ord; eauto|].
    pose proof HC as C. rewrite forallb_forall in C. specialize (C _ HI). unfold prod_ord_g in C.
    destruct (aeval table fuel act PLb PLa (frame0 k)) as [bb|] eqn:A; [|discriminate].
    rewrite (arity_bad _ _ _ _ _ _ _ lb la args A); [split; constructor|]. rewrite frame0_length. exact NE.
  Qed.
  Lemma action_ord' k nt act kind lb la args : In (k, nt, act, kind) gen_productions -> ts_in lb la args ->
    res_in (lo_of lb args) (hi_of la args) (gen_action act cx lb la args).
  Proof. exact (action_ord_g gen_actions action_fuel gen_productions prods_ord_checked k nt act kind lb la args). Qed.

  Lemma reduce_idx_ok_row : forallb (fun row => forallb (fun a => Z.leb 0 a || Nat.ltb (N.to_nat (Z.to_N (- (a + 1)))) (length gen_productions)) row) gen_action_rows = true.
  Proof. vm_compute. reflexivity. Qed.
  Lemma reduce_idx_ok_eof : forallb (fun a => Z.leb 0 a || Nat.ltb (N.to_nat (Z.to_N (- (a + 1)))) (length gen_productions)) gen_eof_action = true.
  Proof. vm_compute. reflexivity. Qed.

  Lemma reduce_in_a a r : (Z.leb 0 a || Nat.ltb (N.to_nat (Z.to_N (- (a + 1)))) (length gen_productions)) = true -> as_reduce a = Some r ->
    In (production r) gen_productions.
  Proof.
    intros C H. unfold as_reduce in H. destruct (Z.ltb a 0) eqn:L; [|discriminate]. inversion H; subst. apply Z.ltb_lt in L.
    apply orb_prop in C as [C|C]; [apply Z.leb_le in C; lia|]. apply Nat.ltb_lt in C. unfold production. apply nth_In. exact C.
  Qed.
  Lemma reduce_in s col r : as_reduce (action_at s col) = Some r -> In (production r) gen_productions.
  Proof.
    intros H. pose proof reduce_idx_ok_row as C. rewrite forallb_forall in C. unfold action_at in H.
    destruct (nth_in_or_default (N.to_nat s) gen_action_rows []) as [IR|IR].
    - specialize (C _ IR). rewrite forallb_forall in C. destruct (nth_in_or_default col (nth (N.to_nat s) gen_action_rows []) 0%Z) as [I|I].
      + exact (reduce_in_a _ _ (C _ I) H).
      + rewrite I in H. discriminate.
    - rewrite IR in H. destruct col; discriminate.
  Qed.
  Lemma reduce_in_eof s r : as_reduce (eof_action_at s) = Some r -> In (production r) gen_productions.
  Proof.
    intros H. pose proof reduce_idx_ok_eof as C. rewrite forallb_forall in C. unfold eof_action_at in H.
    destruct (nth_in_or_default (N.to_nat s) gen_eof_action 0%Z) as [I|I]; [exact (reduce_in_a _ _ (C _ I) H)|rewrite I in H; discriminate].
  Qed.

  (* a reduction keeps the stack in text order; la = the start of the lookahead the stack is sorted up to *)
  Lemma reduce_ord p idx la hi : inv hi p -> In (production idx) gen_productions ->
    match la with Some l => l = hi | None => True end ->
    match reduce cx p idx la with
    | RCont p' => inv hi p'
    | RAccept p' v => Forall diag_ord (ps_diags p') /\ v_in 0 hi v
    | RPanic p' => Forall diag_ord (ps_diags p')
    end.
  Proof.
    intros [HS [HL HD]] HI Hla. unfold reduce. destruct (production idx) as [[[k nt] act] kind] eqn:P.
    set (popped := rev (firstn k (ps_syms p))). set (syms' := skipn k (ps_syms p)).
    assert (SP : rev (ps_syms p) = rev syms' ++ popped).
    { unfold syms', popped. rewrite <- rev_app_distr, firstn_skipn. reflexivity. }
    rewrite SP in HS. destruct (ts_in_split _ _ _ _ HS) as [mid [H1 H2]].
    set (start := match popped with t :: _ => tstart t | [] => match la with Some l => l | None => match ps_syms p with t :: _ => tend t | [] => 0 end end end).
    set (stop := match popped with [] => start | _ => tend (last popped (0, VBad, 0)) end).
    (* the frame of the action, and where the new symbol goes *)
    assert (FRM : ts_in start stop popped /\ ts_in 0 start (rev syms') /\ stop <= hi).
    { destruct popped as [|t ts] eqn:EP.
      - assert (SY : syms' = ps_syms p).
        { unfold syms'. unfold popped in EP. apply (f_equal (@rev _)) in EP. rewrite rev_involutive in EP. cbn in EP.
          rewrite <- (firstn_skipn k (ps_syms p)) at 2. rewrite EP. reflexivity. }
        rewrite app_nil_r in HS. rewrite SY in *. unfold stop. destruct la as [l|].
        + subst l. unfold start. split; [constructor; lia|]. split; [exact HS|lia].
        + unfold start. destruct (ps_syms p) as [|t0 s0] eqn:ES.
          * split; [constructor; lia|]. split; [constructor; lia|]. apply (ts_in_le _ _ _ HS).
          * assert (NE : rev (t0 :: s0) <> []) by (cbn; destruct (rev s0); discriminate).
            pose proof (ts_in_last _ _ _ HS NE) as T. pose proof (ts_in_last_le _ _ _ HS NE) as [_ T2].
            rewrite last_rev_hd in T, T2. split; [constructor; lia|]. split; [exact T|exact T2].
      - assert (NE : t :: ts <> []) by discriminate. unfold start, stop. change (0, VBad, 0) with dummy.
        pose proof (ts_in_last_le _ _ _ H2 NE) as [_ T2]. split; [eapply ts_in_hd; apply (ts_in_last _ _ _ H2 NE)|]. split; [|exact T2].
        inversion H2; subst. eapply ts_in_weaken; [exact H1|lia|assumption]. }
    destruct FRM as [F1 [F2 F3]].
    pose proof (action_ord' k nt act kind start stop popped HI F1) as R.
    assert (LO : lo_of start popped = start) by (unfold start; destruct popped; reflexivity).
    assert (HI' : hi_of stop popped = stop) by (unfold stop; destruct popped; reflexivity).
    rewrite LO, HI' in R. fold popped. fold start. fold stop.
    destruct (gen_action act cx start stop popped) as [v ds]. destruct R as [Rv Rd]. cbn [fst snd] in Rv, Rd.
    assert (Fd' : Forall diag_ord (ps_diags p ++ ds)) by (apply Forall_app; auto).
    assert (SS : start <= stop) by (exact (ts_in_le _ _ _ F1)).
    assert (RA : v_in 0 hi v) by (eapply v_in_weaken; [| |exact Rv]; lia).
    assert (NEW : forall st, (length st <= S (S (length syms')))%nat ->
              inv hi (PSt st ((start, v, stop) :: syms') (ps_last p) (ps_rest p) (ps_off p) (ps_diags p ++ ds))).
    { intros st Hst. split; [|split; [unfold len_ok; cbn [ps_states ps_syms length]; lia|exact Fd']].
      cbn [ps_syms rev]. eapply ts_in_app; [exact F2|]. constructor; unfold tstart, tend, tval; cbn [fst snd]; [lia|exact SS|exact Rv|constructor; exact F3]. }
    assert (LEN : (length (gen_goto (hd 0%N (skipn k (ps_states p))) nt :: skipn k (ps_states p)) <= S (S (length syms')))%nat).
    { cbn [length]. unfold syms'. rewrite !skipn_length. unfold len_ok in HL. lia. }
    destruct v; first [exact Fd' | (destruct (N.eqb kind 2); [split; [exact Fd'|exact RA]|apply NEW; exact LEN])].
  Qed.

  Definition same_stack (p p' : pst) : Prop :=
    ps_states p' = ps_states p /\ ps_syms p' = ps_syms p /\ ps_diags p' = ps_diags p.

  Lemma same_inv hi p p' : same_stack p p' -> inv hi p -> inv hi p'.
  Proof. intros [A [B D]] [H1 [H2 H3]]. unfold inv, len_ok. rewrite A, B, D. auto. Qed.

  Lemma next_tok_ord p :
    match next_tok p with
    | Found p' s text e col => same_stack p p' /\ ps_off p <= s /\ s <= e /\ ps_off p' = e
    | AtEof p' => same_stack p p'
    | Stop p' r => same_stack p p' /\ match r with Failed e => err_ord e | Done _ => False | _ => True end
    end.
  Proof.
    unfold next_tok. pose proof (lex_next_pos gen_lex_table (S (length (ps_rest p))) (ps_rest p) (ps_off p)) as L.
    fold (lex1 (ps_rest p) (ps_off p)) in L. destruct (lex1 (ps_rest p) (ps_off p)) as [s idx text e rest| |loc].
    - destruct L as [L1 L2]. destruct (gen_token_to_integer idx); cbn [ps_off]; unfold same_stack; cbn [ps_states ps_syms ps_diags].
      + repeat split; auto; lia.
      + repeat split; auto. cbn [unrecognized err_ord]. lia.
    - unfold same_stack. cbn. auto.
    - unfold same_stack. cbn. auto.
  Qed.

  Lemma error_reductions_ord la hi : match la with Some l => l = hi | None => True end -> forall fuel p, inv hi p ->
    match error_reductions cx fuel p la with
    | RCont p' => inv hi p' /\ ps_off p' = ps_off p
    | RAccept p' v => Forall diag_ord (ps_diags p') /\ v_in 0 hi v
    | RPanic p' => Forall diag_ord (ps_diags p')
    end.
  Proof.
    intros Hla. induction fuel as [|fuel IH]; intros p Hp; cbn [error_reductions]; [auto|].
    destruct (as_reduce (error_action_at (top_state p))) as [r|] eqn:E; [|auto].
    pose proof (reduce_ord p r la hi Hp (reduce_in _ _ _ E) Hla) as R.
    assert (O : match reduce cx p r la with RCont p' => ps_off p' = ps_off p | _ => True end).
    { unfold reduce. destruct (production r) as [[[k nt] a] kind]. cbv zeta.
      match goal with |- context [gen_action a cx ?x ?y ?z] => destruct (gen_action a cx x y z) as [v ds] end.
      destruct v; try exact I; destruct (N.eqb kind 2); try exact I; reflexivity. }
    destruct (reduce cx p r la) as [p'|p' v|p']; [|exact R|exact R].
    specialize (IH p' R). destruct (error_reductions cx fuel p' la); [|exact IH|exact IH]. destruct IH as [A B]. split; [exact A|congruence].
  Qed.

  Lemma nth_error_skipn {A} (l : list A) n : nth_error l n = match skipn n l with x :: _ => Some x | [] => None end.
  Proof. revert l. induction n as [|n IH]; intros [|x l]; cbn; auto. Qed.
  Lemma nth_error_last {A} (l : list A) d : l <> [] -> nth_error l (length l - 1) = Some (last l d).
  Proof.
    induction l as [|x l IH]; intros NE; [contradiction|]. destruct l as [|y l]; [reflexivity|].
    change (last (x :: y :: l) d) with (last (y :: l) d). rewrite <- IH by discriminate. cbn [length]. replace (S (S (length l)) - 1)%nat with (S (S (length l) - 1)) by lia. reflexivity.
  Qed.

  Lemma last_app' {A} (l1 l2 : list A) d : l2 <> [] -> last (l1 ++ l2) d = last l2 d.
  Proof.
    induction l1 as [|x l1 IH]; intros NE; [reflexivity|]. cbn [app]. specialize (IH NE).
    destruct (l1 ++ l2) eqn:E; [apply app_eq_nil in E; tauto|]. exact IH.
  Qed.

  Lemma hd_rev_last (l m : list triple) : l <> [] ->
    match rev l ++ m with t0 :: _ => tend t0 | [] => 0 end = tend (last l dummy).
  Proof. intros NE. destruct l as [|x l _] using rev_ind; [contradiction|]. rewrite rev_app_distr, last_last. reflexivity. Qed.

  Definition la_chain (hi0 : N) (p : pst) (la : option (N * str * N * nat)) (dropped : list (N * str * N)) : Prop :=
    match la with
    | Some (s, _, e, _) => ts_in hi0 s (map tok3 dropped) /\ s <= e /\ e <= ps_off p
    | None => exists c, ts_in hi0 c (map tok3 dropped)
    end.

  (* the symbol that error recovery pushes *)
  Lemma recovery_symbol p hi0 top error la dropped sl es :
    inv hi0 p -> err_ord error -> (top < length (ps_states p))%nat -> sl = length (ps_states p) -> la_chain hi0 p la dropped ->
    let syms_bf := rev (ps_syms p) in
    let start := match nth_error syms_bf top with
                 | Some t => tstart t
                 | None => match dropped with
                           | d :: _ => fst (fst d)
                           | [] => if Nat.ltb 0 top then match nth_error syms_bf (top - 1) with Some t => tend t | None => 0 end else 0
                           end
                 end in
    let stop := match rev dropped with
                | d :: _ => snd d
                | [] => if Nat.ltb top (sl - 1)
                        then match ps_syms p with t :: _ => tend t | [] => 0 end
                        else match la with Some (s, _, _, _) => s | None => start end
                end in
    let p' := PSt (es :: rev (firstn (top + 1) (rev (ps_states p)))) ((start, VErr error, stop) :: rev (firstn top syms_bf))
                  (ps_last p) (ps_rest p) (ps_off p) (ps_diags p) in
    match la with Some (s, _, _, _) => inv s p' | None => exists hi, inv hi p' end.
  Proof.
    intros [HS [HL HD]] He Htop Hsl HC syms_bf start stop p'.
    assert (LB : length syms_bf = length (ps_syms p)) by (unfold syms_bf; apply rev_length).
    assert (TN : (top <= length syms_bf)%nat) by (unfold len_ok in HL; lia).
    set (kept := firstn top syms_bf) in *. set (rest := skipn top syms_bf).
    assert (KR : syms_bf = kept ++ rest) by (unfold kept, rest; symmetry; apply firstn_skipn).
    fold syms_bf in HS. pose proof HS as HS0. rewrite KR in HS. destruct (ts_in_split _ _ _ _ HS) as [mid [H1 H2]].
    pose proof (ts_in_le _ _ _ H2) as MH.
    (* the dropped tokens *)
    assert (DR : exists c, ts_in hi0 c (map tok3 dropped) /\ match la with Some (s, _, _, _) => c = s | None => True end).
    { destruct la as [[[[s t] e] col]|]; cbn [la_chain] in HC; [exists s; tauto|destruct HC as [c HC]; exists c; auto]. }
    destruct DR as [c [DC Dc]]. pose proof (ts_in_le _ _ _ DC) as HC0.
    (* the three obligations *)
    assert (OB : ts_in 0 start kept /\ start <= stop /\ (match la with Some (s, _, _, _) => stop <= s | None => True end)).
    { unfold stop, start. rewrite nth_error_skipn. fold rest. destruct rest as [|t rest'] eqn:ER.
      - (* nothing popped: top = length *)
        assert (TE : top = length syms_bf).
        { assert (L : length rest = O) by (rewrite ER; reflexivity). unfold rest in L. rewrite skipn_length in L. lia. }
        assert (KS : kept = syms_bf) by (rewrite KR, app_nil_r; reflexivity).
        assert (NB : Nat.ltb top (sl - 1) = false) by (apply Nat.ltb_ge; unfold len_ok in HL; lia).
        rewrite NB. destruct dropped as [|d dropped'] eqn:ED.
        + cbn [rev]. assert (ST : ts_in 0 (if Nat.ltb 0 top then match nth_error syms_bf (top - 1) with Some t => tend t | None => 0 end else 0) kept /\
                                   (if Nat.ltb 0 top then match nth_error syms_bf (top - 1) with Some t => tend t | None => 0 end else 0) <= hi0).
          { destruct (Nat.ltb_spec 0 top) as [T0|T0].
            - assert (NE : syms_bf <> []) by (intros E0; rewrite E0 in TE; cbn in TE; lia).
              rewrite TE, (nth_error_last syms_bf dummy NE). rewrite KS.
              split; [apply (ts_in_last _ _ _ HS0 NE)|apply (ts_in_last_le _ _ _ HS0 NE)].
            - assert (K0 : kept = []) by (unfold kept; replace top with O by lia; reflexivity). rewrite K0. split; [constructor; lia|lia]. }
          destruct ST as [ST1 ST2]. split; [exact ST1|]. destruct la as [[[[s t] e] col]|]; cbn [la_chain] in HC; subst; [|split; [apply N.le_refl|exact I]].
          split; lia.
        + (* dropped tokens: from the first one's start to the last one's end *)
          assert (NE : map tok3 (d :: dropped') <> []) by discriminate.
          pose proof (lo_hi_le _ _ _ DC) as LH. pose proof (ts_in_last_le _ _ _ DC NE) as [_ LE].
          assert (LS : tend (last (map tok3 (d :: dropped')) dummy) = snd (last (d :: dropped') (0, [], 0))).
          { generalize (d :: dropped'). intros l. induction l as [|x l IH]; [reflexivity|]. destruct l as [|y l]; [destruct x as [[? ?] ?]; reflexivity|].
            change (last (map tok3 (x :: y :: l)) dummy) with (last (map tok3 (y :: l)) dummy). rewrite IH. reflexivity. }
          assert (RL : match rev (d :: dropped') with x :: _ => snd x | [] => 0 end = snd (last (d :: dropped') (0, [], 0))).
          { generalize (d :: dropped') (@eq_refl _ (d :: dropped')). intros l _. destruct l as [|x l] using rev_ind; [reflexivity|].
            rewrite rev_app_distr, last_last. reflexivity. }
          destruct (rev (d :: dropped')) as [|x xs] eqn:RV; [apply (f_equal (@length _)) in RV; rewrite rev_length in RV; discriminate|].
          destruct d as [[ds dt] de]. cbn [lo_of hi_of map tok3 tstart fst] in LH. cbn [fst].
          change ((ds, VTok dt, de) :: map tok3 dropped') with (map tok3 ((ds, dt, de) :: dropped')) in LH.
          rewrite LS in LH, LE. rewrite <- RL in LH, LE.
          inversion DC as [|? ? ? ? D1 D2 D3 D4]; subst. cbn [tok3 tstart fst] in D1.
          split; [rewrite KS; eapply ts_in_weaken; [exact HS0|lia|lia]|]. split; [exact LH|].
          destruct la as [[[[s t] e] col]|]; [subst c; exact LE|exact I].
      - (* the lowest popped symbol is t *)
        assert (TS : ts_in 0 (tstart t) kept) by (inversion H2; subst; eapply ts_in_weaken; [exact H1|lia|assumption]).
        split; [exact TS|].
        assert (NE : t :: rest' <> []) by discriminate.
        pose proof (lo_hi_le _ _ _ H2) as LH. cbn [lo_of hi_of] in LH. pose proof (ts_in_last_le _ _ _ H2 NE) as [_ LE].
        assert (HDS : match ps_syms p with t0 :: _ => tend t0 | [] => 0 end = tend (last (t :: rest') dummy)).
        { assert (PS : ps_syms p = rev syms_bf) by (unfold syms_bf; rewrite rev_involutive; reflexivity).
          rewrite PS, KR, rev_app_distr. apply hd_rev_last. discriminate. }
        destruct (rev dropped) as [|x xs] eqn:RV.
        + assert (ED : dropped = []) by (apply (f_equal (@rev _)) in RV; rewrite rev_involutive in RV; exact RV). subst dropped.
          cbn [map] in DC. destruct (Nat.ltb top (sl - 1)).
          * rewrite HDS. split; [exact LH|]. destruct la as [[[[s t1] e] col]|]; [subst c; lia|exact I].
          * destruct la as [[[[s t1] e] col]|]; [subst c; split; lia|split; [lia|exact I]].
        + assert (NE2 : map tok3 dropped <> []) by (destruct dropped; [discriminate|discriminate]).
          pose proof (ts_in_last_le _ _ _ DC NE2) as [LE1 LE2].
          assert (LS : tend (last (map tok3 dropped) dummy) = snd x).
          { assert (ED : dropped = rev xs ++ [x]) by (apply (f_equal (@rev _)) in RV; rewrite rev_involutive in RV; exact RV).
            rewrite ED, map_app. cbn [map]. rewrite last_last. destruct x as [[? ?] ?]. reflexivity. }
          rewrite LS in LE1, LE2. split; [lia|]. destruct la as [[[[s t1] e] col]|]; [subst c; exact LE2|exact I]. }
    destruct OB as [O1 [O2 O3]].
    assert (MK : forall hi', stop <= hi' -> inv hi' p').
    { intros hi' Hh. unfold p'. split; [|split; [|exact HD]].
      - cbn [ps_syms rev]. rewrite rev_involutive. fold kept. eapply ts_in_app; [exact O1|].
        constructor; unfold tstart, tend, tval; cbn [fst snd]; [lia|exact O2|constructor; [exact He|constructor]|constructor; exact Hh].
      - unfold len_ok. cbn [ps_states ps_syms length]. rewrite !rev_length, !firstn_length, rev_length.
        assert (LK : length kept = top) by (unfold kept; rewrite firstn_length; lia). fold syms_bf. fold kept. lia. }
    destruct la as [[[[s t] e] col]|]; [apply MK; exact O3|exists stop; apply MK; lia].
  Qed.

  Definition rinv (r : recovered) : Prop :=
    match r with
    | RecFound p' s _ e _ => inv s p' /\ s <= e /\ e <= ps_off p'
    | RecEof p' => exists hi, inv hi p'
    | RecStop p' r => oinv p' r
    end.

  Lemma ts_in_snoc lo hi hi' ts t : ts_in lo hi ts -> hi <= tstart t -> tstart t <= tend t -> v_in (tstart t) (tend t) (tval t) -> tend t <= hi' ->
    ts_in lo hi' (ts ++ [t]).
  Proof. intros H A B C D. eapply ts_in_app; [exact H|]. constructor; auto. constructor. exact D. Qed.

  Lemma find_recover_top col : forall states top, find_recover states col = Some top -> (top < length states)%nat.
  Proof.
    induction states as [|st below IH]; intros top H; cbn [find_recover] in H; [discriminate|]. cbn [length].
    destruct (as_shift (error_action_at st)) as [es|].
    - destruct (accepts accept_fuel (es :: st :: below) col); [inversion H; lia|specialize (IH _ H); lia].
    - specialize (IH _ H). lia.
  Qed.

  Lemma recover_loop_ord error sl hi0 : err_ord error -> forall fuel p la dropped,
    inv hi0 p -> sl = length (ps_states p) -> la_chain hi0 p la dropped -> rinv (recover_loop fuel p error la dropped sl).
  Proof.
    intros He. induction fuel as [|fuel IH]; intros p la dropped Hp Hsl HC; cbn [recover_loop]; [split; [apply Hp|exact I]|].
    destruct (find_recover (ps_states p) (option_map (fun x => snd x) la)) as [top|] eqn:FRC.
    - pose proof (find_recover_top _ _ _ FRC) as Htop.
      match goal with |- context [as_shift ?x] => destruct (as_shift x) as [es|] end; [|split; [apply Hp|exact I]].
      pose proof (recovery_symbol p hi0 top error la dropped sl es Hp He Htop Hsl HC) as RS. cbv zeta in RS.
      destruct la as [[[[s t] e] col]|]; cbn [rinv].
      + destruct HC as [_ [HC2 HC3]]. split; [exact RS|]. cbn [ps_off]. split; assumption.
      + exact RS.
    - destruct la as [[[[s t] e] col]|]; [|split; [apply Hp|exact He]].
      destruct HC as [HC1 [HC2 HC3]].
      pose proof (next_tok_ord p) as NT. destruct (next_tok p) as [p' s' t' e' col'|p'|p' r].
      + destruct NT as [SS [N1 [N2 N3]]]. apply IH; [exact (same_inv _ _ _ SS Hp)|destruct SS as [SS1 _]; congruence|].
        cbn [la_chain]. split; [|split; [exact N2|lia]]. rewrite map_app. cbn [map tok3].
        apply (ts_in_snoc _ s _ _ (s, VTok t, e)); auto; unfold tstart, tend, tval; cbn [fst snd]; try lia. constructor.
      + apply IH; [exact (same_inv _ _ _ NT Hp)|destruct NT as [SS1 _]; congruence|].
        cbn [la_chain]. exists e. rewrite map_app. cbn [map tok3].
        apply (ts_in_snoc _ s _ _ (s, VTok t, e)); auto; unfold tstart, tend, tval; cbn [fst snd]; try lia. constructor.
      + destruct NT as [SS NR]. split; [destruct SS as [_ [_ SD]]; rewrite SD; apply Hp|].
        destruct r; try exact I; [contradiction|exact NR].
  Qed.

  Lemma error_recovery_ord p la hi0 :
    inv hi0 p ->
    match la with Some (s, _, e, _) => s = hi0 /\ s <= e /\ e <= ps_off p | None => True end ->
    rinv (error_recovery cx p la).
  Proof.
    intros Hp Hla. unfold error_recovery.
    assert (He : err_ord (unrecognized p (option_map (fun x => let '(s, t, e, _) := x in (s, t, e)) la))).
    { destruct la as [[[[s t] e] col]|]; cbn; [tauto|exact I]. }
    assert (Ho : match option_map (fun x : N * str * N * nat => let '(s, _, _, _) := x in s) la with Some l => l = hi0 | None => True end).
    { destruct la as [[[[s t] e] col]|]; cbn; [tauto|exact I]. }
    pose proof (error_reductions_ord _ hi0 Ho reduce_fuel p Hp) as R.
    destruct (error_reductions cx reduce_fuel p _) as [p'|p' v|p']; cbn [rinv].
    - destruct R as [Hp' Eo]. apply (recover_loop_ord _ _ hi0 He); [exact Hp'|reflexivity|].
      destruct la as [[[[s t] e] col]|]; cbn [la_chain map]; [|exists hi0; constructor; lia].
      destruct Hla as [A [B D]]. subst s. split; [constructor; lia|]. split; [exact B|rewrite Eo; exact D].
    - split; [apply R|]. exists hi0. apply R.
    - split; [exact R|exact I].
  Qed.

  Lemma parse_eof_ord : forall fuel p, (exists hi, inv hi p) -> oinv (fst (parse_eof cx fuel p)) (snd (parse_eof cx fuel p)).
  Proof.
    induction fuel as [|fuel IH]; intros p [hi Hp]; cbn [parse_eof]; [split; [apply Hp|exact I]|].
    destruct (as_reduce (eof_action_at (top_state p))) as [r|] eqn:E.
    - pose proof (reduce_ord p r None hi Hp (reduce_in_eof _ _ E) I) as R.
      destruct (reduce cx p r None) as [p'|p' v|p']; [apply IH; exists hi; exact R|split; [apply R|exists hi; apply R]|split; [exact R|exact I]].
    - pose proof (error_recovery_ord p None hi Hp I) as R.
      destruct (error_recovery cx p None) as [p' ? ? ? ?|p'|p' r]; cbn [rinv fst snd] in *; [split; [apply R|exact I]|apply IH; exact R|exact R].
  Qed.

  Definition winv (x : pst * option outcome3 * bool) : Prop :=
    match x with
    | (p', Some r, _) => oinv p' r
    | (p', None, true) => inv (ps_off p') p'
    | (p', None, false) => exists hi, inv hi p'
    end.

  Lemma with_lookahead_ord : forall fuel p s text e col, inv s p -> s <= e -> e <= ps_off p ->
    winv (with_lookahead cx fuel p s text e col).
  Proof.
    induction fuel as [|fuel IH]; intros p s text e col Hp L1 L2; cbn [with_lookahead]; [split; [apply Hp|exact I]|].
    destruct (as_shift (action_at (top_state p) col)) as [target|].
    - cbn [winv ps_off]. destruct Hp as [HS [HL HD]]. split; [|split; [|exact HD]].
      + cbn [ps_syms rev]. apply (ts_in_snoc _ s _ _ (s, VTok text, e)); auto; unfold tstart, tend, tval; cbn [fst snd]; try lia. constructor.
      + unfold len_ok in *. cbn [ps_states ps_syms length]. lia.
    - destruct (as_reduce (action_at (top_state p) col)) as [r|] eqn:E.
      + pose proof (reduce_ord p r (Some s) s Hp (reduce_in _ _ _ E) eq_refl) as R.
        assert (O : match reduce cx p r (Some s) with RCont p' => ps_off p' = ps_off p | _ => True end).
        { unfold reduce. destruct (production r) as [[[k nt] a] kind]. cbv zeta.
          match goal with |- context [gen_action a cx ?x ?y ?z] => destruct (gen_action a cx x y z) as [v ds] end.
          destruct v; try exact I; destruct (N.eqb kind 2); try exact I; reflexivity. }
        destruct (reduce cx p r (Some s)) as [p'|p' v|p'].
        * apply IH; [exact R|exact L1|rewrite O; exact L2].
        * cbn [winv]. split; [apply R|]. cbn [err_ord]. exact L1.
        * cbn [winv]. split; [exact R|exact I].
      + pose proof (error_recovery_ord p (Some (s, text, e, col)) s Hp (conj eq_refl (conj L1 L2))) as R.
        destruct (error_recovery cx p (Some (s, text, e, col))) as [p' s' t' e' col'|p'|p' r]; cbn [rinv winv] in *.
        * destruct R as [A [B D]]. apply IH; assumption.
        * exact R.
        * exact R.
  Qed.

  Lemma parse_loop_ord : forall fuel p, inv (ps_off p) p -> oinv (fst (parse_loop cx fuel p)) (snd (parse_loop cx fuel p)).
  Proof.
    induction fuel as [|fuel IH]; intros p Hp; cbn [parse_loop]; [split; [apply Hp|exact I]|].
    pose proof (next_tok_ord p) as NT. destruct (next_tok p) as [p' s t e col|p'|p' r].
    - destruct NT as [SS [N1 [N2 N3]]].
      assert (Hp' : inv s p') by (apply (same_inv _ _ _ SS); eapply inv_weaken; [exact Hp|exact N1]).
      pose proof (with_lookahead_ord reduce_fuel p' s t e col Hp' N2 ltac:(rewrite N3; lia)) as W.
      destruct (with_lookahead cx reduce_fuel p' s t e col) as [[p'' [r|]] b]; cbn [winv fst snd] in *; [exact W|].
      destruct b; [apply IH; exact W|apply parse_eof_ord; exact W].
    - apply parse_eof_ord. exists (ps_off p). exact (same_inv _ _ _ NT Hp).
    - destruct NT as [SS NR]. cbn [fst snd]. split; [destruct SS as [_ [_ SD]]; rewrite SD; apply Hp|].
      destruct r; try exact I; [contradiction|exact NR].
  Qed.
End Drive.

(* every range of everything add_content stores has start <= end, every node's full range contains its name range and every
   range of its descendants, and the full ranges of siblings (imports, declarations, members, arguments, type parameters)
   follow one another without overlap *)
Theorem add_content_ordered cx id fr : add_content cx id = Added fr ->
  Forall diag_ord (fr_diags fr) /\
  (forall a, fr_ast fr = Some a -> Forall rle (aidl_rs a) /\ Forall nest_ok (aidl_nests a) /\ Forall seq_ok (aidl_chains a)).
Proof.
  unfold add_content, parse.
  assert (I0 : inv 0 (PSt [0%N] [] 0%N (cx_src cx) 0%N [])).
  { split; [constructor; lia|]. split; [unfold len_ok; cbn; lia|constructor]. }
  pose proof (parse_loop_ord cx (S (length (cx_src cx))) (PSt [0%N] [] 0%N (cx_src cx) 0%N []) I0) as O.
  destruct (parse_loop cx (S (length (cx_src cx))) (PSt [0%N] [] 0%N (cx_src cx) 0%N [])) as [p r]. cbn [fst snd] in O.
  destruct O as [Fd Ov]. destruct r as [v|e| |]; try discriminate.
  - destruct v; try discriminate. destruct o as [x|].
    + destruct x; try discriminate. intros H; inversion H; subst. split; [exact Fd|]. cbn [fr_ast]. intros a0 E; inversion E; subst.
      destruct Ov as [hi V]. unfold v_in in V. cbn [facts] in V. apply Forall_nf in V as [V1 V2]. split; [|exact V2].
      eapply Forall_impl; [|exact V1]. intros r0 [_ [R _]]. exact R.
    + intros H; inversion H; subst. split; [exact Fd|]. cbn. discriminate.
  - destruct (diag_of_error cx e) as [d|] eqn:E; [|discriminate]. intros H; inversion H; subst. split; [|cbn; discriminate].
    cbn [fr_diags]. apply Forall_app. split; [exact Fd|]. constructor; [eapply diag_of_error_ord; eauto|constructor].
Qed.
