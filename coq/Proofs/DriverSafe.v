(* The table-driven parser never panics and only ever hands well-typed values to the grammar's actions:
   the stack invariant of Proofs/StackInv.v is preserved by shifts, reductions and error recovery. *)
From Coq Require Import ZArith.
From AidlV Require Import Model.LrDriver Proofs.Totality Proofs.Typing Proofs.Ainfer Proofs.UserTyped Proofs.Automaton
  Proofs.StackInv Proofs.LexerSafe Proofs.Keywords.

(* ---- what the finite table checks say about a single table entry ---- *)
Lemma rows_len : length gen_action_rows = gen_nstates.  Proof. vm_compute. reflexivity. Qed.
Lemma eof_len : length gen_eof_action = gen_nstates.  Proof. vm_compute. reflexivity. Qed.

Lemma in_all_states s : (N.to_nat s < gen_nstates)%nat -> In s all_states.
Proof. intros H. unfold all_states. rewrite <- (N2Nat.id s). apply in_map. apply in_seq. lia. Qed.

Lemma action_state s col : action_at s col <> 0%Z -> In s all_states.
Proof.
  intros H. apply in_all_states. rewrite <- rows_len.
  destruct (Nat.lt_ge_cases (N.to_nat s) (length gen_action_rows)) as [|G]; [assumption|exfalso].
  apply H. unfold action_at. rewrite (nth_overflow gen_action_rows [] G). destruct col; reflexivity.
Qed.
Lemma eof_action_state s : eof_action_at s <> 0%Z -> In s all_states.
Proof.
  intros H. apply in_all_states. rewrite <- eof_len.
  destruct (Nat.lt_ge_cases (N.to_nat s) (length gen_eof_action)) as [|G]; [assumption|exfalso].
  apply H. unfold eof_action_at. apply nth_overflow. exact G.
Qed.

Lemma as_reduce_nz a r : as_reduce a = Some r -> a <> 0%Z.
Proof. unfold as_reduce. destruct (Z.ltb_spec a 0); [lia|discriminate]. Qed.
Lemma as_shift_nz a r : as_shift a = Some r -> a <> 0%Z.
Proof. unfold as_shift. destruct (Z.ltb_spec 0 a); [lia|discriminate]. Qed.

Lemma reduce_legit s col r : (col < gen_ncols)%nat -> as_reduce (action_at s col) = Some r -> reduce_ok s r = true.
Proof.
  intros Hc H. pose proof (action_state s col (as_reduce_nz _ _ H)) as Hs.
  pose proof reduces_checked as C. unfold check_reduces in C. rewrite forallb_forall in C. specialize (C s Hs).
  rewrite forallb_forall in C. apply C. apply nodup_In. unfold reduces_of. apply in_or_app. left.
  apply in_flat_map. exists col. split; [apply in_seq; lia|]. rewrite H. left. reflexivity.
Qed.
Lemma reduce_legit_eof s r : as_reduce (eof_action_at s) = Some r -> reduce_ok s r = true.
Proof.
  intros H. pose proof (eof_action_state s (as_reduce_nz _ _ H)) as Hs.
  pose proof reduces_checked as C. unfold check_reduces in C. rewrite forallb_forall in C. specialize (C s Hs).
  rewrite forallb_forall in C. apply C. apply nodup_In. unfold reduces_of. apply in_or_app. right. rewrite H. left. reflexivity.
Qed.
Lemma shift_legit s col t : (col < gen_ncols)%nat -> as_shift (action_at s col) = Some t ->
  acc t = Some (col_sym col) /\ In s (preds t).
Proof.
  intros Hc H. pose proof (action_state s col (as_shift_nz _ _ H)) as Hs.
  pose proof shifts_checked as C. unfold check_shifts in C. rewrite forallb_forall in C. specialize (C s Hs).
  rewrite forallb_forall in C. specialize (C col). unfold shift_ok in C. rewrite H in C.
  assert (I : In col all_cols) by (apply in_seq; lia). specialize (C I). apply andb_true_iff in C as [A B].
  split; [|apply mem_N_In; exact B].
  unfold ogsym_eqb in A. destruct (acc t) as [Z|]; [|discriminate]. apply gsym_eqb_eq in A. subst. reflexivity.
Qed.

Lemma prod_is_typed p : (N.to_nat p < length gen_productions)%nat -> prod_typed p = true.
Proof.
  intros H. pose proof typed_checked as C. unfold check_typed in C. rewrite forallb_forall in C. apply C.
  rewrite <- (N2Nat.id p). apply in_map. apply in_seq. lia.
Qed.

Lemma nth_skipn_hd {A} k (l : list A) d : nth k l d = hd d (skipn k l).
Proof. revert l. induction k as [|k IH]; intros [|a l]; cbn; auto. Qed.

Section Safe.
  Variable cx : ctx.
  Hypothesis WF : length (cx_lc cx) = S (length (cx_src cx)).
  Notation valid := (valid cx).
  Notation typed_triple := (typed_triple cx).
  Notation stack_ok := (stack_ok cx).
  Notation has_type := (has_type cx).

  Definition accept_type : vty := TLoud (TAst "Aidl").
  (* the level of a parser state: has an Error been pushed? *)
  Definition lvl (p : pst) : bool := errb (ps_diags p).

  Lemma stack_syms_valid l states syms : stack_ok l states syms -> Forall (fun x => valid (tstart x) /\ valid (tend x)) syms.
  Proof. induction 1 as [|s' X t st x syms H IH HA HP [V1 [V2 _]]]; constructor; auto. Qed.

  (* the action of a legitimate reduction gets arguments of the types it expects and returns the type of its nonterminal *)
  Lemma action_typed l states syms p k nt act kind lb la :
    stack_ok l states syms -> reduce_ok (hd 0%N states) p = true -> production p = (k, nt, act, kind) -> valid lb -> valid la ->
    has_type (l || errb (snd (gen_action act cx lb la (rev (firstn k syms)))))
             (if N.eqb kind 2 then accept_type else nt_type nt) (fst (gen_action act cx lb la (rev (firstn k syms)))).
  Proof.
    intros HS HR HP Hlb Hla. destruct (popped_typed cx WF l _ _ _ _ _ _ _ HS HR HP) as [_ F].
    pose proof (prod_is_typed p (reduce_ok_range cx WF _ _ HR)) as T. unfold prod_typed in T. rewrite HP in T.
    destruct (ainfer user_sig gen_actions action_fuel act (map sym_type (rhs_of p))) as [t|] eqn:E; [|discriminate].
    eapply sub_sound; [exact T|].
    exact (ainfer_sound cx user_sig gen_actions (user_typed cx WF) action_fuel act l _ t lb la _ E Hlb Hla F).
  Qed.

  Lemma stack_push l states syms s' X x :
    stack_ok l states syms -> acc s' = Some X -> In (hd 0%N states) (preds s') -> typed_triple l (sym_type X) x ->
    stack_ok l (s' :: states) (x :: syms).
  Proof. intros H A P T. inversion H; subst; cbn [hd] in P; econstructor; eauto. Qed.

  Definition lexer_ok (p : pst) : Prop := ps_rest p = [] \/ at_offset cx (ps_rest p) (ps_off p).
  Definition pst_ok (p : pst) : Prop := stack_ok (lvl p) (ps_states p) (ps_syms p) /\ valid (ps_last p) /\ lexer_ok p.

  Definition same_lexer (p p' : pst) : Prop := ps_last p' = ps_last p /\ ps_rest p' = ps_rest p /\ ps_off p' = ps_off p.

  Definition ola_ok (la : option N) : Prop := match la with Some l => valid l | None => True end.

  Lemma last_in {A} (l : list A) d : l <> [] -> In (last l d) l.
  Proof.
    induction l as [|u l IH]; intros Hn; [contradiction|]. destruct l as [|w l]; [left; reflexivity|].
    right. apply IH. discriminate.
  Qed.

  Theorem reduce_safe p idx la :
    pst_ok p -> reduce_ok (top_state p) idx = true -> ola_ok la ->
    match reduce cx p idx la with
    | RCont p' => pst_ok p' /\ same_lexer p p'
    | RAccept p' v => has_type (lvl p') accept_type v
    | RPanic _ => False
    end.
  Proof.
    intros [HS [HL HX]] HR Hla. unfold reduce. destruct (production idx) as [[[k nt] act] kind] eqn:HP.
    destruct (popped_typed cx WF _ _ _ _ _ _ _ _ HS HR HP) as [Hk F].
    pose proof (stack_syms_valid _ _ _ HS) as SV.
    set (popped := rev (firstn k (ps_syms p))) in *.
    assert (PV : Forall (fun x => valid (tstart x) /\ valid (tend x)) popped).
    { clear -F. induction F as [|t x ts xs [V1 [V2 _]] F' IH]; constructor; auto. }
    set (start := match popped with t :: _ => tstart t | [] => _ end).
    assert (Vstart : valid start).
    { unfold start. destruct popped as [|t0 ?]; [|inversion PV; tauto].
      destruct la as [l|]; [exact Hla|]. destruct (ps_syms p) as [|t1 ?]; [apply valid_zero|inversion SV; tauto]. }
    set (stop := match popped with [] => start | _ => tend (last popped (0%N, VBad, 0%N)) end).
    assert (Vstop : valid stop).
    { unfold stop. destruct popped as [|t0 l0] eqn:EP; [exact Vstart|].
      assert (I : In (last (t0 :: l0) (0%N, VBad, 0%N)) (t0 :: l0)) by (apply last_in; discriminate).
      rewrite Forall_forall in PV. apply PV in I. tauto. }
    pose proof (action_typed _ _ _ _ _ _ _ _ start stop HS HR HP Vstart Vstop) as T. fold popped in T.
    destruct (gen_action act cx start stop popped) as [v ds]. cbn [fst snd] in T.
    assert (NP : v <> VPanic) by (intros ->; eapply has_type_not_panic; exact T).
    assert (LV : forall a b c d e, lvl (PSt a b c d e (ps_diags p ++ ds)) = lvl p || errb ds) by (intros; unfold lvl; cbn; apply errb_app).
    destruct (N.eqb_spec kind 2) as [->|Hkind].
    - destruct v; first [rewrite LV; exact T|exfalso; apply NP; reflexivity].
    - assert (C : pst_ok (PSt (gen_goto (hd 0%N (skipn k (ps_states p))) nt :: skipn k (ps_states p))
                              ((start, v, stop) :: skipn k (ps_syms p)) (ps_last p) (ps_rest p) (ps_off p) (ps_diags p ++ ds))
                 /\ same_lexer p (PSt (gen_goto (hd 0%N (skipn k (ps_states p))) nt :: skipn k (ps_states p))
                              ((start, v, stop) :: skipn k (ps_syms p)) (ps_last p) (ps_rest p) (ps_off p) (ps_diags p ++ ds))).
      { split; [|repeat split]. split; [|split; [exact HL|exact HX]]. rewrite LV. cbn [ps_states ps_syms].
        pose proof (stack_pop cx WF _ k _ _ HS Hk) as HS'.
        destruct (reduce_ok_spec _ _ _ _ _ _ HR HP) as [_ [_ G]]. specialize (G Hkind).
        pose proof (stack_back cx WF _ _ _ HS k Hk) as B. rewrite nth_skipn_hd in B.
        destruct (G _ B) as [A P].
        apply (stack_push _ _ _ _ (SNT nt)); [apply stack_ok_lift; exact HS'|exact A|exact P|]. repeat split; assumption. }
      destruct v; first [exact C|exfalso; apply NP; reflexivity].
  Qed.

  (* ---- tokens ---- *)
  Definition tok_ok (s : N) (text : str) (e : N) (col : nat) : Prop :=
    valid s /\ valid e /\ (col < gen_ncols - 1)%nat /\ token_lang (N.of_nat col) text.
  Definition same_stack (p p' : pst) : Prop := ps_states p' = ps_states p /\ ps_syms p' = ps_syms p.
  Definition out_ok (p : pst) (r : outcome3) : Prop :=
    match r with Done v => has_type (lvl p) accept_type v | Failed e => err_ok cx e | Panicked => False | OutOfFuel => True end.

  Lemma next_tok_safe p : pst_ok p ->
    match next_tok p with
    | Found p' s text e col => pst_ok p' /\ same_stack p p' /\ tok_ok s text e col
    | AtEof p' => pst_ok p' /\ same_stack p p'
    | Stop p' r => out_ok p' r
    end.
  Proof.
    intros [HS [HL HX]]. unfold next_tok. destruct HX as [E|HA].
    - rewrite E. unfold lex1. cbn [length lex_next]. split; [|split; reflexivity].
      split; [exact HS|]. split; [exact HL|left; reflexivity].
    - pose proof (lex1_ok cx _ _ HA) as L.
      destruct (lex1 (ps_rest p) (ps_off p)) as [a idx text stop rest| |loc] eqn:LX; cbn [lexed_ok] in L.
      + destruct L as [Va [Vs [Hrest [j [r [sk [fuel [Ei [Hn M]]]]]]]]].
        destruct (gen_token_to_integer idx) as [col|] eqn:G.
        * split; [split; [exact HS|split; [exact Vs|right; exact Hrest]]|]. split; [split; reflexivity|].
          split; [exact Va|]. split; [exact Vs|].
          assert (Hj : (j < length gen_lex_table)%nat) by (apply nth_error_Some; congruence).
          subst idx. split.
          -- pose proof misc_checked as C. unfold check_misc in C. apply andb_true_iff in C as [_ C].
             rewrite forallb_forall in C. assert (I : In j (seq 0 (length gen_lex_table))) by (apply in_seq; lia).
             specialize (C j I). rewrite G in C. apply N.ltb_lt in C. lia.
          -- rewrite N2Nat.id. split; [exists j, r, sk, rest, fuel; auto|].
             intros ->. exact (ident_token_ok _ _ _ _ _ _ _ LX Hj G).
        * cbn. split; assumption.
      + split; [|split; reflexivity]. split; [exact HS|]. split; [exact HL|left; reflexivity].
      + exact L.
  Qed.

  (* ---- error recovery ---- *)
  Lemma err_col : (gen_ncols - 1 < gen_ncols)%nat.  Proof. unfold gen_ncols. lia. Qed.

  Lemma same_lexer_trans p q r : same_lexer p q -> same_lexer q r -> same_lexer p r.
  Proof. unfold same_lexer. intros [A [B C]] [D [E F]]. repeat split; congruence. Qed.

  Lemma error_reductions_safe la : ola_ok la -> forall fuel p, pst_ok p ->
    match error_reductions cx fuel p la with
    | RCont p' => pst_ok p' /\ same_lexer p p'
    | RAccept p' v => has_type (lvl p') accept_type v
    | RPanic _ => False
    end.
  Proof.
    intros Hla. induction fuel as [|fuel IH]; intros p Hp; cbn [error_reductions]; [split; [exact Hp|repeat split]|].
    destruct (as_reduce (error_action_at (top_state p))) as [r|] eqn:E; [|split; [exact Hp|repeat split]].
    pose proof (reduce_safe p r la Hp (reduce_legit _ _ _ err_col E) Hla) as R.
    destruct (reduce cx p r la) as [p'| |]; try exact R. destruct R as [Hp' SL].
    specialize (IH p' Hp'). destruct (error_reductions cx fuel p' la) as [p''| |]; try exact IH.
    destruct IH as [Hp'' SL']. split; [exact Hp''|]. eapply same_lexer_trans; eauto.
  Qed.

  Lemma find_recover_spec col : forall states top, find_recover states col = Some top ->
    exists above st below es, states = above ++ st :: below /\ top = length below /\ as_shift (error_action_at st) = Some es.
  Proof.
    induction states as [|st below IH]; intros top H; cbn [find_recover] in H; [discriminate|].
    assert (R : find_recover below col = Some top -> exists above st0 below0 es,
                st :: below = above ++ st0 :: below0 /\ top = length below0 /\ as_shift (error_action_at st0) = Some es).
    { intros H'. destruct (IH _ H') as [ab [s0 [bl [es [E1 [E2 E3]]]]]]. exists (st :: ab), s0, bl, es. rewrite E1. auto. }
    destruct (as_shift (error_action_at st)) as [es|] eqn:E; [|auto].
    destruct (accepts accept_fuel (es :: st :: below) col); [|auto].
    inversion H; subst. exists [], st, below, es. auto.
  Qed.

  Definition la_ok (la : option (N * str * N * nat)) : Prop :=
    match la with Some (s, t, e, col) => tok_ok s t e col | None => True end.
  Definition dropped_ok (d : list (N * str * N)) : Prop := Forall (fun x => valid (fst (fst x)) /\ valid (snd x)) d.

  Definition rec_ok (r : recovered) : Prop :=
    match r with
    | RecFound p' s t e col => pst_ok p' /\ tok_ok s t e col
    | RecEof p' => pst_ok p'
    | RecStop p' r => out_ok p' r
    end.

  Lemma rev_firstn_rev {A} n (l : list A) : rev (firstn n (rev l)) = skipn (length l - n) l.
  Proof. rewrite firstn_rev, rev_involutive. reflexivity. Qed.

  Lemma skipn_app_exact {A} (a b : list A) : skipn (length a) (a ++ b) = b.
  Proof. induction a; cbn; auto. Qed.

  Lemma recover_loop_safe error states_len : err_ok cx error -> forall fuel p la dropped,
    pst_ok p -> la_ok la -> dropped_ok dropped -> rec_ok (recover_loop fuel p error la dropped states_len).
  Proof.
    intros He. induction fuel as [|fuel IH]; intros p la dropped Hp Hla Hd; cbn [recover_loop]; [exact I|].
    destruct (find_recover (ps_states p) (option_map (fun x => snd x) la)) as [top|] eqn:FR.
    - destruct (find_recover_spec _ _ _ FR) as [above [st [below [es [E1 [E2 E3]]]]]].
      destruct Hp as [HS [HL HX]]. pose proof (stack_syms_valid _ _ _ HS) as SV.
      pose proof (stack_len cx _ _ _ HS) as LEN.
      assert (LS : length (ps_states p) = (length above + S top)%nat) by (rewrite E1, app_length; cbn; lia).
      rewrite !rev_firstn_rev.
      replace (length (ps_states p) - (top + 1))%nat with (length above) by lia.
      replace (length (ps_syms p) - top)%nat with (length above) by lia.
      assert (SK : skipn (length above) (ps_states p) = st :: below) by (rewrite E1; apply skipn_app_exact).
      rewrite SK. cbn [hd]. rewrite E3.
      set (start := match nth_error (rev (ps_syms p)) top with Some t => tstart t | None => _ end).
      assert (Vstart : valid start).
      { unfold start. destruct (nth_error (rev (ps_syms p)) top) as [t|] eqn:N1.
        - apply nth_error_In, in_rev in N1. rewrite Forall_forall in SV. apply SV in N1. tauto.
        - destruct dropped as [|d ?]; [|inversion Hd; tauto].
          destruct (Nat.ltb 0 top); [|apply valid_zero].
          destruct (nth_error (rev (ps_syms p)) (top - 1)) as [t|] eqn:N2; [|apply valid_zero].
          apply nth_error_In, in_rev in N2. rewrite Forall_forall in SV. apply SV in N2. tauto. }
      set (stop := match rev dropped with d :: _ => snd d | [] => _ end).
      assert (Vstop : valid stop).
      { unfold stop. destruct (rev dropped) as [|d ?] eqn:RD.
        - destruct (Nat.ltb top (states_len - 1)).
          + destruct (ps_syms p) as [|t ?]; [apply valid_zero|inversion SV; tauto].
          + destruct la as [[[[s ?] ?] ?]|]; [destruct Hla; assumption|exact Vstart].
        - assert (I : In d dropped) by (apply in_rev; rewrite RD; left; reflexivity).
          unfold dropped_ok in Hd. rewrite Forall_forall in Hd. apply Hd in I. tauto. }
      assert (Hk : (length above <= length (ps_syms p))%nat) by lia.
      pose proof (stack_pop cx WF _ _ _ _ HS Hk) as HS'. rewrite SK in HS'.
      destruct (shift_legit _ _ _ err_col E3) as [A P].
      assert (NP : pst_ok (PSt (es :: st :: below) ((start, VErr error, stop) :: skipn (length above) (ps_syms p))
                               (ps_last p) (ps_rest p) (ps_off p) (ps_diags p))).
      { split; [|split; [exact HL|exact HX]]. change (stack_ok (lvl p) (es :: st :: below) ((start, VErr error, stop) :: skipn (length above) (ps_syms p))).
        apply (stack_push _ _ _ _ SErr); [exact HS'|exact A|exact P|]. repeat split; assumption. }
      destruct la as [[[[s t] e] col]|]; cbn [rec_ok]; [split; [exact NP|exact Hla]|exact NP].
    - destruct la as [[[[s t] e] col]|]; [|exact He].
      assert (Hd' : dropped_ok (dropped ++ [(s, t, e)])).
      { apply Forall_app. split; [exact Hd|]. constructor; [|constructor]. destruct Hla as [V1 [V2 _]]. auto. }
      pose proof (next_tok_safe p Hp) as NT.
      destruct (next_tok p) as [p' s' t' e' col'|p'|p' r].
      + destruct NT as [Hp' [_ Ht]]. apply IH; auto.
      + destruct NT as [Hp' _]. apply IH; auto. exact I.
      + exact NT.
  Qed.

  Lemma recover_loop_eof error states_len : forall fuel p dropped,
    match recover_loop fuel p error None dropped states_len with RecFound _ _ _ _ _ => False | _ => True end.
  Proof.
    destruct fuel as [|fuel]; intros p dropped; cbn [recover_loop option_map]; [exact I|].
    destruct (find_recover (ps_states p) None); [|exact I].
    match goal with |- context [as_shift ?x] => destruct (as_shift x) end; exact I.
  Qed.

  Lemma error_recovery_safe p la : pst_ok p -> la_ok la -> rec_ok (error_recovery cx p la).
  Proof.
    intros Hp Hla. unfold error_recovery.
    assert (He : err_ok cx (unrecognized p (option_map (fun x => let '(s, t, e, _) := x in (s, t, e)) la))).
    { destruct la as [[[[s t] e] col]|]; cbn; [destruct Hla as [V1 [V2 _]]; auto|destruct Hp as [_ [HL _]]; exact HL]. }
    assert (Ho : ola_ok (option_map (fun x => let '(s, _, _, _) := x in s) la)).
    { destruct la as [[[[s t] e] col]|]; cbn; [destruct Hla; assumption|exact I]. }
    pose proof (error_reductions_safe _ Ho reduce_fuel p Hp) as R.
    destruct (error_reductions cx reduce_fuel p _) as [p'|p' v|p']; cbn [rec_ok out_ok]; [|exact R|exact R].
    destruct R as [Hp' _]. apply recover_loop_safe; auto. constructor.
  Qed.

  Lemma error_recovery_eof p :
    match error_recovery cx p None with RecFound _ _ _ _ _ => False | _ => True end.
  Proof.
    unfold error_recovery. cbn [option_map].
    destruct (error_reductions cx reduce_fuel p None); try exact I. apply recover_loop_eof.
  Qed.

  (* ---- the main loops ---- *)
  Lemma parse_eof_safe : forall fuel p, pst_ok p -> out_ok (fst (parse_eof cx fuel p)) (snd (parse_eof cx fuel p)).
  Proof.
    induction fuel as [|fuel IH]; intros p Hp; cbn [parse_eof]; [exact I|].
    destruct (as_reduce (eof_action_at (top_state p))) as [r|] eqn:E.
    - pose proof (reduce_safe p r None Hp (reduce_legit_eof _ _ E) I) as R.
      destruct (reduce cx p r None) as [p'|p' v|p']; [apply IH; tauto|exact R|exact R].
    - pose proof (error_recovery_safe p None Hp I) as R. pose proof (error_recovery_eof p) as R2.
      destruct (error_recovery cx p None) as [p' ? ? ? ?|p'|p' r]; [contradiction|apply IH; exact R|exact R].
  Qed.

  Definition wl_ok (x : pst * option outcome3 * bool) : Prop :=
    match x with (p', Some r, _) => out_ok p' r | (p', None, _) => pst_ok p' end.

  Lemma with_lookahead_safe : forall fuel p s text e col,
    pst_ok p -> tok_ok s text e col -> wl_ok (with_lookahead cx fuel p s text e col).
  Proof.
    induction fuel as [|fuel IH]; intros p s text e col Hp Ht; cbn [with_lookahead]; [exact I|].
    assert (Hc : (col < gen_ncols)%nat) by (destruct Ht as [_ [_ [H _]]]; lia).
    destruct (as_shift (action_at (top_state p) col)) as [target|] eqn:ES.
    - cbn [wl_ok]. destruct Hp as [HS [HL HX]]. split; [|split; [exact HL|exact HX]].
      change (stack_ok (lvl p) (target :: ps_states p) ((s, VTok text, e) :: ps_syms p)).
      destruct (shift_legit _ _ _ Hc ES) as [A P]. destruct Ht as [V1 [V2 [Hlt TL]]].
      assert (CS : col_sym col = ST (N.of_nat col)).
      { unfold col_sym. destruct (Nat.eqb_spec col (gen_ncols - 1)); [lia|reflexivity]. }
      rewrite CS in A. apply (stack_push _ _ _ _ (ST (N.of_nat col))); [exact HS|exact A|exact P|].
      split; [exact V1|split; [exact V2|exact TL]].
    - destruct (as_reduce (action_at (top_state p) col)) as [r|] eqn:ER.
      + assert (Hs : ola_ok (Some s)) by (destruct Ht; assumption).
        pose proof (reduce_safe p r (Some s) Hp (reduce_legit _ _ _ Hc ER) Hs) as R.
        destruct (reduce cx p r (Some s)) as [p'|p' v|p']; [apply IH; tauto| |exact R].
        cbn. destruct Ht as [V1 [V2 _]]. auto.
      + pose proof (error_recovery_safe p (Some (s, text, e, col)) Hp Ht) as R.
        destruct (error_recovery cx p (Some (s, text, e, col))) as [p' s' t' e' col'|p'|p' r]; cbn [rec_ok] in R.
        * apply IH; tauto.
        * exact R.
        * exact R.
  Qed.

  Lemma parse_loop_safe : forall fuel p, pst_ok p -> out_ok (fst (parse_loop cx fuel p)) (snd (parse_loop cx fuel p)).
  Proof.
    induction fuel as [|fuel IH]; intros p Hp; cbn [parse_loop]; [exact I|].
    pose proof (next_tok_safe p Hp) as NT.
    destruct (next_tok p) as [p' s t e col|p'|p' r].
    - destruct NT as [Hp' [_ Ht]]. pose proof (with_lookahead_safe reduce_fuel p' s t e col Hp' Ht) as W.
      destruct (with_lookahead cx reduce_fuel p' s t e col) as [[p'' [r|]] b]; cbn [wl_ok] in W; [exact W|].
      destruct b; [apply IH; exact W|apply parse_eof_safe; exact W].
    - apply parse_eof_safe. tauto.
    - exact NT.
  Qed.

  Theorem parse_safe : out_ok (fst (parse cx)) (snd (parse cx)).
  Proof.
    unfold parse. apply parse_loop_safe. split; [constructor|]. split; [apply valid_zero|].
    right. exists []. split; reflexivity.
  Qed.

  Lemma accept_shape l v : has_type l accept_type v ->
    (v = VOpt None /\ l = true) \/ exists a, v = VOpt (Some (VAidl a)) /\ aidl_ok a.
  Proof.
    destruct v; cbn; try contradiction. destruct o as [x|]; [|auto]. intros [H Nm]. right.
    destruct x; cbn in H; try contradiction; try discriminate. eauto.
  Qed.

  (* add_content neither panics nor meets an ill-typed value *)
  Theorem add_content_safe id : (exists fr, add_content cx id = Added fr) \/ add_content cx id = AddFuel.
  Proof.
    unfold add_content. pose proof parse_safe as S. destruct (parse cx) as [p r]. cbn [fst snd] in S.
    destruct r as [v|e| |]; cbn [out_ok] in S.
    - destruct (accept_shape _ v S) as [[-> _]|[a [-> _]]]; left; eauto.
    - left. assert (D : exists d, diag_of_error cx e = Some d).
      { destruct e as [l|l ex|a t b ex|a t b]; cbn [err_ok] in S; cbn [diag_of_error].
        - destruct (mk_range_total cx WF l l S S) as [r ->]. cbn. eauto.
        - destruct (mk_range_total cx WF l l S S) as [r ->]. cbn. eauto.
        - destruct S as [S1 S2]. destruct (mk_range_total cx WF a b S1 S2) as [r ->]. cbn. eauto.
        - destruct S as [S1 S2]. destruct (mk_range_total cx WF a b S1 S2) as [r ->]. cbn. eauto. }
      destruct D as [d ->]. eauto.
    - contradiction.
    - right. reflexivity.
  Qed.

  (* ... no user-chosen identifier of a stored tree is a keyword or a reserved word *)
  Theorem add_content_names id fr a : add_content cx id = Added fr -> fr_ast fr = Some a -> aidl_ok a.
  Proof.
    unfold add_content. pose proof parse_safe as S. destruct (parse cx) as [p r]. cbn [fst snd] in S.
    destruct r as [v|e| |]; cbn [out_ok] in S; try discriminate.
    - destruct (accept_shape _ v S) as [[-> _]|[a' [-> Hok]]]; intros H; inversion H; subst; cbn; intros E; inversion E; subst. exact Hok.
    - destruct (diag_of_error cx e); intros H; inversion H; subst. cbn. discriminate.
  Qed.

  (* ... and failure is never silent: a stored result without a tree carries an Error *)
  Theorem add_content_loud id fr : add_content cx id = Added fr -> fr_ast fr = None ->
    exists d, In d (fr_diags fr) /\ d_kind d = DError.
  Proof.
    intros H HN. pose proof parse_safe as S. destruct (parse cx) as [p r] eqn:EP. cbn [fst snd] in S.
    destruct r as [v|e| |]; cbn [out_ok] in S.
    - unfold add_content in H. rewrite EP in H.
      destruct (accept_shape _ v S) as [[-> L]|[a' [-> _]]]; inversion H; subst; [|discriminate HN].
      cbn. apply errb_spec. exact L.
    - exact (proj2 (add_content_failed_has_error cx id fr p e EP H)).
    - contradiction.
    - unfold add_content in H. rewrite EP in H. discriminate.
  Qed.
End Safe.
