From AidlV Require Import Model.Diag.

Lemma firstn_remove {A} (l : list A) x y :
  firstn (length l) (l ++ [x; y]) ++ [y] = remove_nth (length l) (l ++ [x; y]).
Proof. induction l as [|a l IH]; cbn; [reflexivity|]. f_equal. exact IH. Qed.

Lemma last_snoc2 {A} (l : list A) x y d : last (l ++ [x; y]) d = y.
Proof. induction l as [|a l IH]; cbn; [reflexivity|]. rewrite IH. destruct (l ++ [x; y]) eqn:E; [destruct l; discriminate|reflexivity]. Qed.

Lemma split_last2 {A} (v : list A) : (3 <= length v)%nat -> exists l x y, v = l ++ [x; y] /\ l <> [].
Proof.
  intros H. destruct (rev v) as [|y [|x r]] eqn:E.
  - apply (f_equal (@length A)) in E. rewrite rev_length in E. cbn in E. lia.
  - apply (f_equal (@length A)) in E. rewrite rev_length in E. cbn in E. lia.
  - exists (rev r), x, y. split.
    + rewrite <- (rev_involutive v), E. cbn. rewrite <- app_assoc. reflexivity.
    + intros R. apply (f_equal (@length A)) in E. rewrite rev_length in E. cbn in E.
      apply (f_equal (@length A)) in R. rewrite rev_length in R. cbn in R. lia.
Qed.

(* the formatter interpolates everything except v[len-2] once there are three or more names *)
Theorem fmt_names_known v : (3 <= length v)%nat -> fmt_names v = remove_nth (length v - 2) v.
Proof.
  intros H. destruct (split_last2 v H) as [l [x [y [-> Hl]]]].
  unfold fmt_names. destruct l as [|a l]; [contradiction|].
  destruct ((a :: l) ++ [x; y]) as [|b [|c [|d r]]] eqn:E;
    try (apply (f_equal (@length str)) in E; rewrite app_length in E; cbn in E; lia).
  assert (L : (length ((a :: l) ++ [x; y]) - 2 = length (a :: l))%nat) by (rewrite app_length; cbn; lia).
  rewrite <- E. rewrite L, last_snoc2. apply firstn_remove.
Qed.

Theorem fmt_names_small v : (length v < 3)%nat -> fmt_names v = v.
Proof. destruct v as [|a [|b [|c r]]]; cbn; intros H; try reflexivity. lia. Qed.

Lemma firstn_incl {A} n (l : list A) x : In x (firstn n l) -> In x l.
Proof. revert l. induction n as [|n IH]; intros [|a l]; cbn; try tauto. intros [->|H]; auto. Qed.

Theorem fmt_names_incl v : incl (fmt_names v) v.
Proof.
  destruct v as [|a [|b [|c r]]]; try (intros x Hx; exact Hx).
  unfold fmt_names. intros x Hx. apply in_app_or in Hx as [Hx | Hx].
  - eapply firstn_incl; exact Hx.
  - destruct Hx as [<-|[]]. 
    assert (L : forall (l : list str) d, l <> [] -> In (last l d) l).
    { induction l as [|u l IH]; intros d Hn; [contradiction|]. destruct l as [|w l]; [left; reflexivity|].
      right. apply IH. discriminate. }
    apply L. discriminate.
Qed.

(* what is dropped is a genuine element whenever the names are pairwise distinct *)
Theorem fmt_names_drops v : (3 <= length v)%nat -> length (fmt_names v) = (length v - 1)%nat.
Proof.
  intros H. destruct (split_last2 v H) as [l [x [y [-> Hl]]]].
  rewrite fmt_names_known by exact H.
  assert (L : (length (l ++ [x; y]) - 2 = length l)%nat) by (rewrite app_length; cbn; lia).
  rewrite L. rewrite ?app_length. cbn [length].
  replace (length l + 2 - 1)%nat with (S (length l)) by lia.
  clear. induction l as [|a l IH]; cbn; [reflexivity|]. rewrite IH. reflexivity.
Qed.

(* the rendered text is built from exactly those names *)
Theorem expected_token_str_names v :
  (3 <= length v)%nat ->
  expected_token_str v =
  lit "Expected one of " ++ join_with (lit ", ") (removelast (fmt_names v)) ++ lit " or " ++ last (fmt_names v) [].
Proof.
  destruct v as [|a [|b [|c r]]]; cbn [length]; try lia. intros _.
  unfold expected_token_str, fmt_names. rewrite removelast_last, last_last. reflexivity.
Qed.

Theorem expected_token_str_small a b :
  (expected_token_str [] = []) /\ (expected_token_str [a] = lit "Expected " ++ a) /\
  expected_token_str [a; b] = lit "Expected " ++ a ++ lit " or " ++ b.
Proof. repeat split. Qed.
