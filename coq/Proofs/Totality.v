(* pieces of C01 / C03 / C04 that hold of the models by construction *)
From AidlV Require Import Spec.Master Proofs.Master Proofs.Pipeline Model.LrDriver.

(* one result per held file, each tagged with its own id, in the same order *)
Lemma validate_one_id env fr r : validate_one env fr = Ok r -> fr_id r = fr_id fr.
Proof.
  unfold validate_one. destruct (fr_ast fr) as [a|]; [|intros H; inversion H; reflexivity].
  destruct (validate_file env a (fr_diags fr)) as [[a' ds]|]; intros H; inversion H; reflexivity.
Qed.

Theorem validate_ids files r : validate files = Ok r -> map fr_id r = map fr_id files.
Proof.
  unfold validate. generalize (collect_item_keys files) as env. intros env. revert r.
  induction files as [|fr l IH]; cbn [map sequence]; intros r H; [inversion H; reflexivity|].
  destruct (validate_one env fr) as [x|] eqn:E; [|discriminate].
  destruct (sequence (map (validate_one env) l)) as [rest|] eqn:E2; [|discriminate].
  inversion H; subst. cbn [map]. rewrite (validate_one_id _ _ _ E), (IH rest eq_refl). reflexivity.
Qed.

(* validation never drops a diagnostic it was given *)
Theorem validation_keeps defined a ds0 a' ds d :
  validate_file defined a ds0 = Ok (a', ds) -> In d ds0 -> In d ds.
Proof.
  intros H Hin. apply validate_file_shape in H as [dc [dm [_ [_ [_ ->]]]]].
  eapply Permutation_in; [symmetry; apply sort_perm|]. apply in_or_app. left. exact Hin.
Qed.

(* a fatal parse error always leaves an Error diagnostic behind (and no tree) *)
Lemma diag_of_error_is_error cx e d : diag_of_error cx e = Some d -> d_kind d = DError.
Proof.
  destruct e; cbn; intros H;
    match goal with H : option_map _ ?x = Some _ |- _ => destruct x; inversion H; reflexivity end.
Qed.

Theorem add_content_failed_has_error cx id fr p e :
  parse cx = (p, Failed e) -> add_content cx id = Added fr ->
  fr_ast fr = None /\ exists d, In d (fr_diags fr) /\ d_kind d = DError.
Proof.
  unfold add_content. intros P. rewrite P.
  destruct (diag_of_error cx e) as [d|] eqn:E; [|discriminate].
  intros H; inversion H; subst. cbn. split; [reflexivity|].
  exists d. split; [apply in_or_app; right; left; reflexivity|eapply diag_of_error_is_error; exact E].
Qed.

(* ---- positions: Position::new through the lookup ---- *)
Lemma char_index_app pre post idx :
  char_index (pre ++ post) (byte_len pre) idx = Some (idx + length pre)%nat.
Proof.
  revert idx. induction pre as [|c pre IH]; intros idx; cbn [app byte_len length].
  - destruct post; cbn; f_equal; lia.
  - unfold char_index; fold char_index.
    assert (L : (1 <= utf8_len c)%N) by (unfold utf8_len; repeat destruct (N.ltb _ _); lia).
    replace (N.eqb (utf8_len c + byte_len pre) 0) with false by (symmetry; apply N.eqb_neq; lia).
    replace (N.ltb (utf8_len c + byte_len pre) (utf8_len c)) with false by (symmetry; apply N.ltb_ge; lia).
    replace (utf8_len c + byte_len pre - utf8_len c)%N with (byte_len pre) by lia.
    rewrite IH. f_equal. lia.
Qed.

(* a position that the model reports is a character boundary of the text, and carries the lookup's line/column *)
Theorem mk_pos_sound cx off p :
  mk_pos cx off = Some p ->
  p_off p = off /\ exists i, char_index (cx_src cx) off O = Some i /\ nth_error (cx_lc cx) i = Some (p_line p, p_col p).
Proof.
  unfold mk_pos. destruct (char_index (cx_src cx) off O) as [i|] eqn:E; [|discriminate].
  destruct (nth_error (cx_lc cx) i) as [[l c]|] eqn:E2; [|discriminate].
  intros H; inversion H; subst. cbn. split; [reflexivity|]. exists i. auto.
Qed.

Lemma char_index_bound s : forall off idx i, char_index s off idx = Some i -> (off <= byte_len s)%N /\ (i <= idx + length s)%nat.
Proof.
  induction s as [|c s IH]; intros off idx i; unfold char_index; fold char_index.
  - destruct (N.eqb_spec off 0) as [E0|E0]; [intros Hx; inversion Hx; subst; cbn; lia|discriminate].
  - destruct (N.eqb_spec off 0) as [E0|E0]; [intros Hx; inversion Hx; subst; cbn; lia|].
    destruct (N.ltb_spec off (utf8_len c)) as [E1|E1]; [discriminate|].
    intros Hx. apply IH in Hx. cbn [byte_len length]. lia.
Qed.

Theorem mk_range_sound cx s e r :
  mk_range cx s e = Some r ->
  p_off (r_start r) = s /\ p_off (r_end r) = e /\ (s <= byte_len (cx_src cx))%N /\ (e <= byte_len (cx_src cx))%N.
Proof.
  unfold mk_range. destruct (mk_pos cx s) as [p1|] eqn:E1; [|discriminate].
  destruct (mk_pos cx e) as [p2|] eqn:E2; [|discriminate].
  intros H; inversion H; subst. cbn.
  apply mk_pos_sound in E1 as [A1 [i1 [C1 _]]]. apply mk_pos_sound in E2 as [A2 [i2 [C2 _]]].
  apply char_index_bound in C1, C2. repeat split; try assumption; lia.
Qed.
