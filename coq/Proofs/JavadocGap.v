(* C18: the doc comment is found across a gap of blanks AND ordinary comments (block comments that are not doc comments,
   line comments), as the statement says: "separated only by whitespace and ordinary comments" *)
From AidlV Require Import Model.Javadoc Proofs.Totality Proofs.Javadoc.

Inductive gap_ok : str -> Prop :=
| GO_nil : gap_ok []
| GO_blank c g : blank c -> gap_ok g -> gap_ok (c :: g)
| GO_block b g : ~ In slash b -> (match b with c :: _ => c <> star | [] => True end) -> gap_ok g ->
                 gap_ok ([slash; star] ++ b ++ closer ++ g)             (* /* b */ *)
| GO_line t g : ~ In slash t -> ~ In 10%N t -> gap_ok g -> gap_ok ([slash; slash] ++ t ++ [10%N] ++ g).   (* // t \n *)

Lemma byte_len_rev s : byte_len (rev s) = byte_len s.
Proof. induction s as [|c s IH]; [reflexivity|]. cbn [rev]. rewrite byte_len_app, IH. cbn [byte_len]. lia. Qed.

(* a line comment, read backwards from its end, from either of the two states the scanner can be in there *)
Lemma scan_line_rev r : ~ In slash r -> ~ In 10%N r -> forall st, st = FIdle \/ st = FLineOrElse -> forall tail pos endp,
  scan (r ++ slash :: slash :: tail) st pos endp = scan tail FIdle (pos + byte_len r + 2) endp.
Proof.
  induction r as [|c r IH]; intros Hs Hn st Hst tail pos endp.
  - cbn [app byte_len]. destruct Hst as [-> | ->]; cbn [scan]; unfold slash; rewrite ?N.eqb_refl; cbn [scan];
      rewrite ?N.eqb_refl; cbn; f_equal; lia.
  - assert (C1 : N.eqb c slash = false) by (apply N.eqb_neq; intros E; apply Hs; left; exact E).
    assert (C2 : N.eqb c 10 = false) by (apply N.eqb_neq; intros E; apply Hn; left; exact E).
    assert (Hs' : ~ In slash r) by (intros H; apply Hs; right; exact H).
    assert (Hn' : ~ In 10%N r) by (intros H; apply Hn; right; exact H).
    cbn [app byte_len]. destruct Hst as [-> | ->]; cbn [scan]; rewrite C1, ?C2.
    + match goal with |- (if ?b then _ else _) = _ => destruct b end; (rewrite IH by auto); f_equal; lia.
    + rewrite IH by auto. f_equal. lia.
Qed.

(* an ordinary block comment, read backwards: back in Idle, the recorded end position overwritten *)
Lemma scan_block b : ~ In slash b -> (match b with c :: _ => c <> star | [] => True end) -> forall tail pos endp,
  exists endp', scan (rev ([slash; star] ++ b ++ closer) ++ tail) FIdle pos endp =
                scan tail FIdle (pos + byte_len ([slash; star] ++ b ++ closer)) endp'.
Proof.
  intros Hns Hst tail pos endp. rewrite !rev_app_distr, <- !app_assoc.
  cbn [closer rev app scan]. unfold slash at 1. rewrite N.eqb_refl. cbn [scan]. rewrite N.eqb_refl.
  assert (BODY : forall tail pos endp, scan (rev b ++ tail) FInside pos endp = scan tail FInside (pos + byte_len b) endp).
  { destruct b as [|c b'].
    - intros; cbn. f_equal. lia.
    - intros. apply scan_body; [exact Hst|exact Hns|left; reflexivity]. }
  rewrite BODY. cbn [scan]. rewrite N.eqb_refl. cbn [scan].
  assert (E : N.eqb slash star = false) by reflexivity. rewrite E, N.eqb_refl.
  eexists. f_equal. cbn [byte_len]. rewrite byte_len_app. cbn [byte_len closer]. lia.
Qed.

Lemma scan_gap g : gap_ok g -> forall tail pos endp,
  exists endp', scan (rev g ++ tail) FIdle pos endp = scan tail FIdle (pos + byte_len g) endp'.
Proof.
  induction 1 as [|c g Hc Hg IH|b g Hb1 Hb2 Hg IH|t g Ht1 Ht2 Hg IH]; intros tail pos endp.
  - exists endp. cbn. f_equal. lia.
  - cbn [rev]. rewrite <- app_assoc. destruct (IH ([c] ++ tail) pos endp) as [e1 E1]. rewrite E1.
    pose proof (scan_blank [c] (Forall_cons _ Hc (Forall_nil _)) tail (pos + byte_len g) e1) as B. cbn [rev app] in B.
    exists e1. cbn [app]. rewrite B. f_equal. cbn [byte_len]. lia.
  - replace ([slash; star] ++ b ++ closer ++ g) with (([slash; star] ++ b ++ closer) ++ g) by (rewrite <- !app_assoc; reflexivity).
    rewrite rev_app_distr, <- app_assoc. destruct (IH (rev ([slash; star] ++ b ++ closer) ++ tail) pos endp) as [e1 E1]. rewrite E1.
    destruct (scan_block b Hb1 Hb2 tail (pos + byte_len g) e1) as [e2 E2]. exists e2. rewrite E2. f_equal. rewrite (byte_len_app ([slash; star] ++ b ++ closer) g). lia.
  - replace ([slash; slash] ++ t ++ [10%N] ++ g) with (([slash; slash] ++ t ++ [10%N]) ++ g) by (rewrite <- !app_assoc; reflexivity).
    rewrite rev_app_distr, <- app_assoc. destruct (IH (rev ([slash; slash] ++ t ++ [10%N]) ++ tail) pos endp) as [e1 E1]. rewrite E1.
    exists e1. rewrite !rev_app_distr, <- !app_assoc. cbn [rev app]. 
    (* the newline is a blank *)
    pose proof (scan_blank [10%N] (Forall_cons _ (or_intror (or_introl eq_refl)) (Forall_nil _))
                           (rev t ++ slash :: slash :: tail) (pos + byte_len g) e1) as B. cbn [rev app] in B. rewrite B.
    assert (R1 : ~ In slash (rev t)) by (intros H; apply Ht1; apply in_rev; exact H).
    assert (R2 : ~ In 10%N (rev t)) by (intros H; apply Ht2; apply in_rev; exact H).
    rewrite (scan_line_rev (rev t) R1 R2 FIdle (or_introl eq_refl)). f_equal.
    rewrite byte_len_rev. cbn [byte_len]. rewrite byte_len_app. cbn [byte_len]. change (utf8_len slash) with 1%N. lia.
Qed.

Lemma scan_doc_gap pre body gap :
  doc_body body -> gap_ok gap ->
  scan (rev (pre ++ opener ++ body ++ closer ++ gap)) FIdle 0 None =
  (Some (byte_len gap + 2 + byte_len body)%N, Some (byte_len gap + 2)%N).
Proof.
  intros [Hns Hst] Hg.
  rewrite !rev_app_distr. rewrite <- !app_assoc.
  destruct (scan_gap gap Hg (rev closer ++ rev body ++ rev opener ++ rev pre) 0%N None) as [e1 E1]. rewrite E1.
  cbn [closer rev app scan]. unfold slash at 1. rewrite N.eqb_refl. cbn [scan]. rewrite N.eqb_refl.
  assert (BODY : forall tail pos endp,
            scan (rev body ++ tail) FInside pos endp = scan tail FInside (pos + byte_len body) endp).
  { destruct body as [|c b].
    - intros; cbn. f_equal. lia.
    - intros. apply scan_body; [exact Hst|exact Hns|left; reflexivity]. }
  rewrite BODY. cbn -[N.add N.sub byte_len].
  f_equal; f_equal; lia.
Qed.

Theorem find_content_string_doc_gap pre body gap :
  doc_body body -> gap_ok gap ->
  find_content_string (pre ++ opener ++ body ++ closer ++ gap) = Some (Some body).
Proof.
  intros Hb Hg. unfold find_content_string. rewrite (scan_doc_gap pre body gap Hb Hg).
  set (input := pre ++ opener ++ body ++ closer ++ gap).
  assert (L : byte_len input = (byte_len pre + 3 + byte_len body + 2 + byte_len gap)%N).
  { unfold input. rewrite !byte_len_app, len_opener, len_closer. lia. }
  rewrite L.
  replace (byte_len pre + 3 + byte_len body + 2 + byte_len gap - (byte_len gap + 2 + byte_len body))%N
    with (byte_len (pre ++ opener)) by (rewrite byte_len_app, len_opener; lia).
  replace (byte_len pre + 3 + byte_len body + 2 + byte_len gap - (byte_len gap + 2))%N
    with (byte_len ((pre ++ opener) ++ body)) by (rewrite !byte_len_app, len_opener; lia).
  unfold input. replace (pre ++ opener ++ body ++ closer ++ gap) with ((pre ++ opener) ++ body ++ (closer ++ gap))
    by (rewrite <- !app_assoc; reflexivity).
  rewrite slice_middle. reflexivity.
Qed.

Theorem get_javadoc_doc_gap pre body gap rest :
  doc_body body -> gap_ok gap ->
  get_javadoc ((pre ++ opener ++ body ++ closer ++ gap) ++ rest) (byte_len (pre ++ opener ++ body ++ closer ++ gap))
  = Some (Some (parse_javadoc body)).
Proof.
  intros Hb Hg. unfold get_javadoc. rewrite char_index_app. cbn [Nat.add].
  rewrite firstn_app, firstn_all, Nat.sub_diag. cbn [firstn]. rewrite app_nil_r.
  rewrite (find_content_string_doc_gap pre body gap Hb Hg). reflexivity.
Qed.
