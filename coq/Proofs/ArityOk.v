(* C01, end to end: the trees the parser builds are "grammar-shaped" (Array has one parameter, List zero or one, Map zero
   or two, at every depth) -- the hypothesis under which validation is total (Proofs/Master.v: validate_file_total). *)
From Coq Require Import ZArith.
From AidlV Require Import Model.LrDriver Spec.Master Proofs.Totality Proofs.Master Proofs.StackProp.

Definition tys_ar (l : list ty) : Prop := forallb wf_arity l = true.
Definition ie_ar (e : iface_elem) : Prop := tys_ar (top_types_ie e).
Definition pe_ar (e : parc_elem) : Prop := tys_ar (top_types_pe e).
Definition item_ar (it : item) : Prop :=
  match it with ItInterface i => Forall ie_ar (i_elems i) | ItParcelable p => Forall pe_ar (pc_elems p) | ItEnum _ => True end.

Fixpoint va_ok (v : sem) : Prop :=
  match v with
  | VOpt (Some x) => va_ok x
  | VVec l | VTuple l => (fix all (l : list sem) : Prop := match l with [] => True | x :: r => va_ok x /\ all r end) l
  | VType t => wf_arity t = true
  | VArg a => wf_arity (a_ty a) = true
  | VMethod m => ie_ar (IEMethod m) | VConst c => wf_arity (c_ty c) = true | VField f => wf_arity (f_ty f) = true
  | VIE e => ie_ar e | VPE e => pe_ar e
  | VInterface i => Forall ie_ar (i_elems i) | VParcelable p => Forall pe_ar (pc_elems p)
  | VItem it => item_ar it | VAidl a => item_ar (ai_item a)
  | _ => True
  end.

Lemma va_vec l : va_ok (VVec l) <-> Forall va_ok l.
Proof.
  cbn. induction l as [|x l IH]; [split; intros; constructor|]. split.
  - intros [H1 H2]. constructor; [exact H1|apply IH; exact H2].
  - intros H. inversion H; subst. split; [assumption|apply IH; assumption].
Qed.

Lemma forallb_flat_map {A B} (f : B -> bool) (g : A -> list B) l : forallb f (flat_map g l) = forallb (fun x => forallb f (g x)) l.
Proof. induction l as [|a l IH]; [reflexivity|]. cbn. rewrite forallb_app, IH. reflexivity. Qed.

Lemma item_ar_wf it : item_ar it -> wf_item it = true.
Proof.
  unfold wf_item. destruct it as [i|p|e]; cbn; intros H; [| |reflexivity]; rewrite forallb_flat_map; apply forallb_forall; intros x Hx;
    rewrite Forall_forall in H; exact (H x Hx).
Qed.

Section Ar.
  Variable cx : ctx.

  Lemma with_range_ar s e k : (forall r, va_ok (fst (k r))) -> va_ok (fst (with_range cx s e k)).
  Proof. intros H. unfold with_range. destruct s; try exact I. destruct e; try exact I. destruct (mk_range cx n n0); [apply H|exact I]. Qed.
  Lemma with_doc_ar p k : (forall d, va_ok (fst (k d))) -> va_ok (fst (with_doc cx p k)).
  Proof. intros H. unfold with_doc. destruct p; try exact I. destruct (get_javadoc (cx_src cx) n); [apply H|exact I]. Qed.

  Lemma all_of_ar {X} (f : sem -> option X) (Q : X -> Prop) :
    (forall v x, f v = Some x -> va_ok v -> Q x) -> forall l r, all_of f l = Some r -> Forall va_ok l -> Forall Q r.
  Proof.
    intros Hf. induction l as [|v l IH]; intros r H F; cbn in H; [inversion H; constructor|].
    destruct (f v) as [x|] eqn:E; [|discriminate]. destruct (all_of f l) as [r'|]; [|discriminate]. inversion H; subst.
    inversion F; subst. constructor; [eapply Hf; eauto|apply IH; auto].
  Qed.
  Lemma flatten_ar {X} (f : sem -> option X) (Q : X -> Prop) :
    (forall v x, f v = Some x -> va_ok v -> Q x) -> forall l r, flatten_opts f l = Some r -> Forall va_ok l -> Forall Q r.
  Proof.
    intros Hf. induction l as [|v l IH]; intros r H F; cbn in H; [inversion H; constructor|].
    inversion F as [|? ? Fv Fl]; subst. destruct v; try discriminate. destruct o as [x|].
    - destruct (f x) as [y|] eqn:E; [|discriminate]. destruct (flatten_opts f l) as [r'|]; [|discriminate]. inversion H; subst.
      constructor; [eapply Hf; eauto|apply IH; auto].
    - apply IH; auto.
  Qed.
  Lemma as_ie_ar v x : as_ie v = Some x -> va_ok v -> ie_ar x.  Proof. destruct v; cbn; intros H; inversion H; subst; auto. Qed.
  Lemma as_pe_ar v x : as_pe v = Some x -> va_ok v -> pe_ar x.  Proof. destruct v; cbn; intros H; inversion H; subst; auto. Qed.
  Lemma as_arg_ar v x : as_arg v = Some x -> va_ok v -> wf_arity (a_ty x) = true.  Proof. destruct v; cbn; intros H; inversion H; subst; auto. Qed.

  Ltac step :=
    first [ apply with_range_ar; intros ?
          | apply with_doc_ar; intros ?
          | match goal with |- va_ok (fst (match ?x with _ => _ end)) => destruct x eqn:? end
          | match goal with |- va_ok (fst (if ?x then _ else _)) => destruct x eqn:? end ].
  Ltac args := repeat match goal with H : Forall va_ok (_ :: _) |- _ => inversion H; subst; clear H end.

  Lemma method_finish_ar a b c d e f g h mk ds :
    (forall r1 r2 r3 r4, ie_ar (IEMethod (mk r1 r2 r3 r4))) -> va_ok (fst (method_finish cx a b c d e f g h mk ds)).
  Proof.
    intros Hmk. unfold method_finish.
    assert (R : va_ok (fst (with_range cx a b (fun fr => with_range cx c d (fun sr => with_range cx e f (fun cr =>
                  with_range cx g h (fun owr => ok (VMethod (mk sr fr cr owr))))))))).
    { repeat step. cbn. apply Hmk. }
    destruct (with_range cx a b _) as [r x]. exact R.
  Qed.

  Theorem user_ar u vs : Forall va_ok vs -> va_ok (fst (user_fn u cx vs)).
  Proof.
    intros F. destruct u; cbn [user_fn];
      repeat match goal with |- va_ok (fst (match ?l with _ => _ end)) => destruct l as [|? ?]; try exact I end;
      args; try exact I.
    - unfold act_OptAidl. repeat step; try exact I. cbn in *. assumption.
    - unfold act_Package. repeat step; exact I.
    - unfold act_Import. repeat step; exact I.
    - unfold act_QualifiedName. repeat step; exact I.
    - unfold act_ItemInterface. repeat step; try exact I. cbn in *. assumption.
    - unfold act_ItemParcelable. repeat step; try exact I. cbn in *. assumption.
    - unfold act_ItemEnum. repeat step; exact I.
    - unfold act_ErrItem, act_err. repeat step; exact I.
    - unfold act_Interface. repeat step; try exact I. cbn.
      repeat match goal with H : va_ok (VVec _) |- _ => apply va_vec in H end. eapply flatten_ar; eauto. exact as_ie_ar.
    - unfold act_IEMethod. repeat step; try exact I. cbn in *. assumption.
    - unfold act_IEConst. repeat step; try exact I. cbn in *. unfold ie_ar, tys_ar. cbn. rewrite andb_true_r. assumption.
    - unfold act_ErrIE, act_err. repeat step; exact I.
    - unfold act_Parcelable. repeat step; try exact I. cbn.
      repeat match goal with H : va_ok (VVec _) |- _ => apply va_vec in H end. eapply flatten_ar; eauto. exact as_pe_ar.
    - unfold act_PEField. repeat step; try exact I. cbn in *. unfold pe_ar, tys_ar. cbn. rewrite andb_true_r. assumption.
    - unfold act_PEConst. repeat step; try exact I. cbn in *. unfold pe_ar, tys_ar. cbn. rewrite andb_true_r. assumption.
    - unfold act_ErrPE, act_err. repeat step; exact I.
    - unfold act_Enum. repeat step; exact I.
    - unfold act_SomeEnumElement. repeat step; exact I.
    - unfold act_ErrEE, act_err. repeat step; exact I.
    - (* Method *) unfold act_Method.
      repeat match goal with
             | |- va_ok (fst (with_doc _ _ _)) => fail 1
             | _ => step
             end; try exact I.
      apply with_doc_ar. intros doc.
      repeat match goal with H : va_ok (VVec _) |- _ => apply va_vec in H end.
      assert (AL : Forall (fun a => wf_arity (a_ty a) = true) l1) by (eapply all_of_ar; eauto; exact as_arg_ar).
      assert (MK : forall code r1 r2 r3 r4, ie_ar (IEMethod (Method b s14 t l1 l code doc r1 r2 r3 r4))).
      { intros. unfold ie_ar, tys_ar. cbn [top_types_ie m_ret m_args forallb]. subst. cbn in *.
        apply andb_true_iff. split; [assumption|]. rewrite forallb_forall. intros x Hx. apply in_map_iff in Hx as [y [<- Hy]].
        rewrite Forall_forall in AL. exact (AL y Hy). }
      repeat match goal with
             | |- va_ok (fst (method_finish _ _ _ _ _ _ _ _ _ _ _)) => fail 1
             | _ => step
             end; try exact I; apply method_finish_ar; intros; apply MK.
    - unfold act_Arg. repeat step; try exact I; cbn in *; assumption.
    - unfold act_Direction. repeat step; exact I.
    - unfold act_Const. repeat step; try exact I. cbn in *. assumption.
    - unfold act_Field. repeat step; try exact I; cbn in *; assumption.
    - unfold act_EnumElement. repeat step; exact I.
    - unfold act_TypeVoid, simple_type. repeat step; try exact I. reflexivity.
    - unfold act_TypePrimitive, simple_type. repeat step; try exact I. reflexivity.
    - unfold act_TypeString, simple_type. repeat step; try exact I. reflexivity.
    - unfold act_TypeCharSequence, simple_type. repeat step; try exact I. reflexivity.
    - unfold act_TypeArray. repeat step; try exact I. cbn in *. rewrite andb_true_r. assumption.
    - unfold act_TypeList. repeat step; try exact I. cbn in *. rewrite andb_true_r. assumption.
    - unfold act_TypeRawList. repeat step; try exact I. reflexivity.
    - unfold act_TypeMap. repeat step; try exact I. cbn in *. rewrite andb_true_r. apply andb_true_iff. split; assumption.
    - unfold act_TypeRawMap. repeat step; try exact I. reflexivity.
    - unfold act_TypeCustom. repeat step; try exact I. reflexivity.
    - unfold act_AnnotationList. repeat step; try exact I. cbn [ok fst]. apply va_vec. clear. induction l0; constructor; [exact I|assumption].
    - unfold act_OptAnnotation. repeat step; exact I.
    - unfold act_AnnotationParam. repeat step; exact I.
    - unfold act_ValueToString. repeat step; exact I.
    - unfold act_ValueDotted. repeat step; exact I.
  Qed.

  (* the tree add_content stores is grammar-shaped ... *)
  Theorem add_content_wf id fr a : add_content cx id = Added fr -> fr_ast fr = Some a -> wf_item (ai_item a) = true.
  Proof.
    intros H E. apply item_ar_wf.
    apply (add_content_P cx va_ok (fun _ => I) (fun _ => I) (fun _ => I) I I I (fun x => conj (fun h => h) (fun h => h)) va_vec va_vec user_ar id fr a H E).
  Qed.

  (* ... so validating it cannot panic *)
  Theorem parsed_tree_validates id fr a defined ds0 : add_content cx id = Added fr -> fr_ast fr = Some a ->
    exists r, validate_file defined a ds0 = Ok r.
  Proof. intros H E. apply validate_file_total. eapply add_content_wf; eauto. Qed.
End Ar.
