From AidlV Require Import Model.Serde.

(* ---------------- generic: fields, skipping, defaults ---------------- *)
Definition names_of (l : list sfield) : list str := map (fun f => lit (fst (fst f))) l.

Fixpoint nodupb (l : list str) : bool :=
  match l with [] => true | x :: l' => negb (mem_str x l') && nodupb l' end.
Lemma nodupb_NoDup l : nodupb l = true -> NoDup l.
Proof.
  induction l as [|x l IH]; cbn; intros H; [constructor|]. apply andb_true_iff in H as [H1 H2].
  constructor; [|auto]. intros Hin. apply mem_str_In in Hin. rewrite Hin in H1. discriminate.
Qed.

Lemma lookf_absent n l : ~ In (lit n) (names_of l) -> lookf (lit n) (fields_of l) = None.
Proof.
  unfold fields_of, names_of. induction l as [|[[n2 v2] sk2] l IH]; cbn [map filter fst snd]; intros Hn; [reflexivity|].
  assert (Hne : lit n <> lit n2) by (intros E2; apply Hn; left; symmetry; exact E2).
  assert (Hn' : ~ In (lit n) (map (fun f : sfield => lit (fst (fst f))) l)) by (intros H; apply Hn; right; exact H).
  destruct sk2; cbn [negb map lookf fst snd]; [apply IH; exact Hn'|].
  apply str_eqb_neq in Hne. rewrite Hne. apply IH; exact Hn'.
Qed.

Lemma lookf_fields n v sk l :
  NoDup (names_of l) -> In (n, v, sk) l ->
  lookf (lit n) (fields_of l) = if sk then None else Some v.
Proof.
  induction l as [|[[n' v'] sk'] l IH]; intros Hnd Hin; [contradiction|].
  unfold names_of in Hnd. cbn [map fst snd] in Hnd. inversion Hnd as [|? ? Hn Hd]; subst.
  destruct Hin as [E | Hin].
  - inversion E; subst. unfold fields_of. cbn [filter snd]. destruct sk; cbn [negb map lookf fst snd].
    + apply lookf_absent. exact Hn.
    + rewrite str_eqb_refl. reflexivity.
  - assert (Hne : lit n <> lit n').
    { intros E. apply Hn. rewrite <- E. apply (in_map (fun f : sfield => lit (fst (fst f))) l (n, v, sk)). exact Hin. }
    unfold fields_of. cbn [filter snd]. destruct sk'; cbn [negb map lookf fst snd]; [apply IH; assumption|].
    apply str_eqb_neq in Hne. rewrite Hne. apply IH; assumption.
Qed.

(* the heart of C19: a field comes back, whether it was written or skipped *)
Theorem getf_mkf {T} (sp : fspec) (c : codec T) (v : T) (l : list sfield) :
  NoDup (names_of l) -> In (mkf sp c v) l -> codec_ok c -> consistent sp c ->
  getf sp c (fields_of l) = Some v.
Proof.
  intros Hnd Hin Hok Hcons. unfold getf, mkf in *. rewrite (lookf_fields _ _ _ _ Hnd Hin).
  destruct (skips c (fs_skip sp) v) eqn:E; [apply Hcons; exact E|apply Hok].
Qed.

(* ---------------- codecs ---------------- *)
Lemma ok_bool : codec_ok cd_bool.  Proof. intros v; reflexivity. Qed.
Lemma ok_nat : codec_ok cd_nat.  Proof. intros v; reflexivity. Qed.
Lemma ok_str : codec_ok cd_str.  Proof. intros v; reflexivity. Qed.
Lemma ok_option {T} (c : codec T) : codec_ok c -> codec_ok (cd_option c).
Proof. intros H [x|]; cbn; [rewrite H|]; reflexivity. Qed.
Lemma dec_all_map {T} (c : codec T) l : (forall x, In x l -> dec c (enc c x) = Some x) -> dec_all (dec c) (map (enc c) l) = Some l.
Proof. induction l as [|x l IH]; cbn; intros H; [reflexivity|]. rewrite H by auto. cbn. rewrite IH by auto. reflexivity. Qed.
Lemma ok_vec {T} (c : codec T) : codec_ok c -> codec_ok (cd_vec c).
Proof. intros H l. cbn. apply dec_all_map. intros; apply H. Qed.
Lemma ok_kvs : codec_ok cd_kvs.
Proof.
  intros l. cbn. induction l as [|[k [v|]] l IH]; cbn; [reflexivity| |]; rewrite IH; reflexivity.
Qed.
Lemma ok_line_col : codec_ok cd_line_col.  Proof. intros [a b]; reflexivity. Qed.

(* consistency of the skip / default pairs that occur *)
Lemma cons_never {T} sp (c : codec T) : fs_skip sp = SkNever -> (forall v, skips c SkNever v = false) -> consistent sp c.
Proof. intros E H v Hs. rewrite E, H in Hs. discriminate. Qed.
Lemma cons_vec {T} sp (c : codec T) : fs_default sp = DfDefault -> consistent sp (cd_vec c).
Proof. intros E v Hs. rewrite E. cbn in *. destruct (fs_skip sp); try discriminate. destruct v; [reflexivity|discriminate]. Qed.
Lemma cons_option {T} sp (c : codec T) : consistent sp (cd_option c).
Proof. intros v Hs. cbn in *. destruct (fs_skip sp); try discriminate. destruct v; [discriminate|reflexivity]. Qed.
Lemma cons_kvs sp : fs_default sp = DfDefault -> consistent sp cd_kvs.
Proof. intros E v Hs. rewrite E. cbn in *. destruct (fs_skip sp); try discriminate. destruct v; [reflexivity|discriminate]. Qed.
Lemma cons_direction sp : fs_default sp = DfDefault -> consistent sp cd_direction.
Proof. intros E v Hs. rewrite E. cbn in *. destruct (fs_skip sp); try discriminate. destruct v; try discriminate. reflexivity. Qed.
(* bool skipped when true: the missing-field value must be true (this is what the pinned tree got wrong) *)
Lemma cons_bool_true sp : fs_skip sp = SkBoolIsTrue -> fs_default sp = DfTrue -> consistent sp cd_bool.
Proof. intros E1 E2 v Hs. rewrite E1 in Hs. rewrite E2. cbn in *. subst. reflexivity. Qed.
Lemma cons_noskip {T} sp (c : codec T) : (forall k v, skips c k v = false) -> consistent sp c.
Proof. intros H v Hs. rewrite H in Hs. discriminate. Qed.

Ltac solve_side :=
  match goal with
  | |- NoDup _ => apply nodupb_NoDup; vm_compute; reflexivity
  | |- In _ _ => repeat (first [left; reflexivity | right])
  | |- consistent _ (cd_vec _) => apply cons_vec; reflexivity
  | |- consistent _ (cd_option _) => apply cons_option
  | |- consistent _ cd_ostr => apply cons_option
  | |- consistent _ cd_annots => apply cons_vec; reflexivity
  | |- consistent _ cd_kvs => apply cons_kvs; reflexivity
  | |- consistent _ cd_direction => apply cons_direction; reflexivity
  | |- consistent _ cd_bool => first [apply cons_bool_true; reflexivity | apply cons_never; [reflexivity|intros; reflexivity]]
  | |- consistent _ _ => apply cons_never; [reflexivity|intros; reflexivity]
  | |- consistent _ _ => apply cons_noskip; intros; reflexivity
  end.

(* one field of a struct: rewrite its getf with getf_mkf; `ok` proves codec_ok of the field's codec *)
Ltac field ok := erewrite getf_mkf; [cbn [obind] | solve_side | solve_side | ok | solve_side].

Lemma ok_pos : codec_ok cd_pos.
Proof.
  intros [o l c]. cbn [enc dec cd_pos]. unfold ser_pos, de_pos, ser_struct.
  field ltac:(apply ok_nat). field ltac:(apply ok_line_col). reflexivity.
Qed.

Lemma ok_range : codec_ok cd_range.
Proof.
  intros [s e]. cbn [enc dec cd_range]. unfold ser_range, de_range, ser_struct.
  field ltac:(apply ok_pos). field ltac:(apply ok_pos). reflexivity.
Qed.

Lemma rt_rkind k : de_rkind (ser_rkind k) = Some k.  Proof. destruct k; reflexivity. Qed.
Lemma rt_akind k : de_akind (ser_akind k) = Some k.  Proof. destruct k; reflexivity. Qed.
Lemma ok_tkind : codec_ok cd_tkind.
Proof.
  intros k. cbn [enc dec cd_tkind]. destruct k as [| | | | | | |a|key k|]; try reflexivity.
  - change (de_tkind (ser_tkind (KAndroid a))) with (do a' <- de_akind (ser_akind a); Some (KAndroid a')).
    rewrite rt_akind. reflexivity.
  - change (de_tkind (ser_tkind (KResolved key k))) with (do k' <- de_rkind (ser_rkind k); Some (KResolved key k')).
    rewrite rt_rkind. reflexivity.
Qed.
Lemma ok_direction : codec_ok cd_direction.
Proof.
  pose proof ok_range as R. unfold codec_ok in R. cbn [enc dec cd_range] in R.
  intros d. cbn [enc dec cd_direction]. destruct d as [r|r|r|]; try reflexivity.
  - change (de_direction (ser_direction (DIn r))) with (do r' <- de_range (ser_range r); Some (DIn r')). rewrite R. reflexivity.
  - change (de_direction (ser_direction (DOut r))) with (do r' <- de_range (ser_range r); Some (DOut r')). rewrite R. reflexivity.
  - change (de_direction (ser_direction (DInOut r))) with (do r' <- de_range (ser_range r); Some (DInOut r')). rewrite R. reflexivity.
Qed.

(* ---------------- Type: by induction on the nested tree, with enough fuel ---------------- *)
Lemma ty_roundtrip t : forall fuel, (ty_depth t <= fuel)%nat -> de_ty fuel (ser_ty t) = Some t.
Proof.
  induction t as [n k g s f IH] using ty_ind'. intros fuel Hd.
  destruct fuel as [|fuel]; [cbn in Hd; lia|].
  cbn [ty_depth] in Hd.
  set (gs := (fix go (l : list ty) : list sval := match l with [] => [] | x :: l' => ser_ty x :: go l' end) g).
  assert (GS : dec_all (de_ty fuel) gs = Some g).
  { subst gs. revert Hd. generalize fuel. clear fuel.
    induction g as [|x g IHg]; intros fuel Hd; [reflexivity|].
    inversion IH as [|? ? Hx Hg]; subst. cbn [dec_all].
    assert (D1 : (ty_depth x <= fuel)%nat) by (cbn in Hd; lia).
    rewrite (Hx fuel D1). cbn [obind].
    rewrite (IHg Hg fuel); [reflexivity|]. cbn in Hd. cbn. lia. }
  cbn [ser_ty de_ty]. fold gs. unfold ser_struct.
  field ltac:(apply ok_str). field ltac:(apply ok_tkind).
  (* the generic_types field, written by hand in ser_ty *)
  unfold getf at 1.
  erewrite (lookf_fields (fs_name sp_ty_generics) (VSeq gs)); [|solve_side|solve_side].
  assert (SKIP : (match fs_skip sp_ty_generics with SkVecIsEmpty => is_empty g | _ => false end) = is_empty g) by reflexivity.
  rewrite SKIP. destruct g as [|g0 g']; cbn [is_empty].
  - cbn [missing obind]. field ltac:(apply ok_range). field ltac:(apply ok_range). reflexivity.
  - cbn [dec]. rewrite GS. cbn [obind]. field ltac:(apply ok_range). field ltac:(apply ok_range). reflexivity.
Qed.

Lemma ok_ty d t : (ty_depth t <= d)%nat -> dec (cd_ty d) (enc (cd_ty d) t) = Some t.
Proof. intros H. cbn. apply ty_roundtrip. exact H. Qed.

(* a codec restricted to the values it is used on *)
Definition ok_on {T} (c : codec T) (P : T -> Prop) : Prop := forall v, P v -> dec c (enc c v) = Some v.

Theorem getf_mkf_on {T} (P : T -> Prop) (sp : fspec) (c : codec T) (v : T) (l : list sfield) :
  NoDup (names_of l) -> In (mkf sp c v) l -> ok_on c P -> P v -> consistent sp c ->
  getf sp c (fields_of l) = Some v.
Proof.
  intros Hnd Hin Hok Hp Hcons. unfold getf, mkf in *. rewrite (lookf_fields _ _ _ _ Hnd Hin).
  destruct (skips c (fs_skip sp) v) eqn:E; [apply Hcons; exact E|apply Hok; exact Hp].
Qed.

Lemma ok_annot : codec_ok cd_annot.
Proof.
  intros [n k]. cbn [enc dec cd_annot]. unfold ser_annot, de_annot, ser_struct.
  field ltac:(apply ok_str). field ltac:(apply ok_kvs). reflexivity.
Qed.
Lemma ok_annots : codec_ok cd_annots.  Proof. apply ok_vec, ok_annot. Qed.
Lemma ok_ostr : codec_ok cd_ostr.  Proof. apply ok_option, ok_str. Qed.

Lemma rt_vec_on {T} (c : codec T) (P : T -> Prop) l : ok_on c P -> Forall P l -> dec (cd_vec c) (enc (cd_vec c) l) = Some l.
Proof. intros H F. cbn. apply dec_all_map. intros x Hx. apply H. eapply Forall_forall in F; eauto. Qed.

Section Depth.
  Variable d : nat.
  Definition fits (t : ty) : Prop := (ty_depth t <= d)%nat.

  Ltac field_ty := erewrite (getf_mkf_on fits); [cbn [obind] | solve_side | solve_side | (intros ? ?; apply ok_ty; assumption) | assumption | solve_side].

  Lemma rt_arg a : fits (a_ty a) -> de_arg d (ser_arg d a) = Some a.
  Proof.
    intros F. destruct a as [x1 x2 x3 x4 x5 x6 x7]. cbn [a_ty] in F. unfold ser_arg, de_arg, ser_struct.
    cbn [a_dir a_name a_ty a_annots a_doc a_sym a_full].
    field ltac:(apply ok_direction). field ltac:(apply ok_ostr). field_ty. field ltac:(apply ok_annots).
    field ltac:(apply ok_ostr). field ltac:(apply ok_range). field ltac:(apply ok_range). reflexivity.
  Qed.

  Definition args_fit (l : list arg) : Prop := Forall (fun a => fits (a_ty a)) l.
  Lemma rt_args l : args_fit l -> dec (cd_vec (cd_arg d)) (enc (cd_vec (cd_arg d)) l) = Some l.
  Proof. intros H. apply (rt_vec_on (cd_arg d) (fun a => fits (a_ty a))); [intros a Ha; apply rt_arg; exact Ha | exact H]. Qed.

  Lemma rt_method m : fits (m_ret m) -> args_fit (m_args m) -> de_method d (ser_method d m) = Some m.
  Proof.
    intros F A. destruct m as [x1 x2 x3 x4 x5 x6 x7 x8 x9 x10 x11]. cbn [m_ret m_args] in *.
    unfold ser_method, de_method, ser_struct.
    cbn [m_oneway m_name m_ret m_args m_annots m_code m_doc m_sym m_full m_code_range m_oneway_range].
    field ltac:(apply ok_bool). field ltac:(apply ok_str). field_ty.
    erewrite (getf_mkf_on args_fit); [cbn [obind] | solve_side | solve_side | (intros ? ?; apply rt_args; assumption) | assumption | solve_side].
    field ltac:(apply ok_annots). field ltac:(apply ok_option, ok_nat). field ltac:(apply ok_ostr).
    field ltac:(apply ok_range). field ltac:(apply ok_range). field ltac:(apply ok_range). field ltac:(apply ok_range).
    reflexivity.
  Qed.

  Lemma rt_const c : fits (c_ty c) -> de_const d (ser_const d c) = Some c.
  Proof.
    intros F. destruct c as [x1 x2 x3 x4 x5 x6 x7]. cbn [c_ty] in F. unfold ser_const, de_const, ser_struct.
    cbn [c_name c_ty c_value c_annots c_doc c_sym c_full].
    field ltac:(apply ok_str). field_ty. field ltac:(apply ok_str). field ltac:(apply ok_annots).
    field ltac:(apply ok_ostr). field ltac:(apply ok_range). field ltac:(apply ok_range). reflexivity.
  Qed.

  Lemma rt_field x : fits (f_ty x) -> de_field d (ser_field d x) = Some x.
  Proof.
    intros F. destruct x as [x1 x2 x3 x4 x5 x6 x7]. cbn [f_ty] in F. unfold ser_field, de_field, ser_struct.
    cbn [f_name f_ty f_value f_annots f_doc f_sym f_full].
    field ltac:(apply ok_str). field_ty. field ltac:(apply ok_ostr). field ltac:(apply ok_annots).
    field ltac:(apply ok_ostr). field ltac:(apply ok_range). field ltac:(apply ok_range). reflexivity.
  Qed.

  Lemma ok_enum_elem : codec_ok (cd_enum_elem).
  Proof.
    intros [x1 x2 x3 x4 x5]. cbn [enc dec cd_enum_elem]. unfold ser_enum_elem, de_enum_elem, ser_struct.
    cbn [ee_name ee_value ee_doc ee_sym ee_full].
    field ltac:(apply ok_str). field ltac:(apply ok_ostr). field ltac:(apply ok_ostr).
    field ltac:(apply ok_range). field ltac:(apply ok_range). reflexivity.
  Qed.

  Definition ie_fits (e : iface_elem) : Prop :=
    match e with IEConst c => fits (c_ty c) | IEMethod m => fits (m_ret m) /\ args_fit (m_args m) end.
  Definition pe_fits (e : parc_elem) : Prop :=
    match e with PEConst c => fits (c_ty c) | PEField x => fits (f_ty x) end.

  Lemma rt_ie e : ie_fits e -> de_ie d (ser_ie d e) = Some e.
  Proof.
    destruct e as [c|m]; cbn [ie_fits]; intros F.
    - change (de_ie d (ser_ie d (IEConst c))) with (do c' <- de_const d (ser_const d c); Some (IEConst c')).
      rewrite rt_const by exact F. reflexivity.
    - change (de_ie d (ser_ie d (IEMethod m))) with (do m' <- de_method d (ser_method d m); Some (IEMethod m')).
      destruct F as [F1 F2]. rewrite rt_method by assumption. reflexivity.
  Qed.
  Lemma rt_pe e : pe_fits e -> de_pe d (ser_pe d e) = Some e.
  Proof.
    destruct e as [c|x]; cbn [pe_fits]; intros F.
    - change (de_pe d (ser_pe d (PEConst c))) with (do c' <- de_const d (ser_const d c); Some (PEConst c')).
      rewrite rt_const by exact F. reflexivity.
    - change (de_pe d (ser_pe d (PEField x))) with (do x' <- de_field d (ser_field d x); Some (PEField x')).
      rewrite rt_field by exact F. reflexivity.
  Qed.

  Definition item_fits (it : item) : Prop :=
    match it with
    | ItInterface i => Forall ie_fits (i_elems i)
    | ItParcelable p => Forall pe_fits (pc_elems p)
    | ItEnum _ => True
    end.

  Lemma rt_item it : item_fits it -> de_item d (ser_item d it) = Some it.
  Proof.
    destruct it as [i|p|e]; cbn [item_fits]; intros F.
    - change (de_item d (ser_item d (ItInterface i))) with (do i' <- de_interface d (ser_interface d i); Some (ItInterface i')).
      assert (R : de_interface d (ser_interface d i) = Some i).
      { destruct i as [x1 x2 x3 x4 x5 x6 x7]. cbn [i_elems] in F. unfold ser_interface, de_interface, ser_struct.
        cbn [i_oneway i_name i_elems i_annots i_doc i_full i_sym].
        field ltac:(apply ok_bool). field ltac:(apply ok_str).
        erewrite (getf_mkf_on (Forall ie_fits)); [cbn [obind] | solve_side | solve_side
          | (intros ? ?; apply (rt_vec_on (cd_ie d) ie_fits); [intros ? ?; apply rt_ie; assumption|assumption]) | assumption | solve_side].
        field ltac:(apply ok_annots). field ltac:(apply ok_ostr). field ltac:(apply ok_range). field ltac:(apply ok_range).
        reflexivity. }
      rewrite R. reflexivity.
    - change (de_item d (ser_item d (ItParcelable p))) with (do p' <- de_parcelable d (ser_parcelable d p); Some (ItParcelable p')).
      assert (R : de_parcelable d (ser_parcelable d p) = Some p).
      { destruct p as [x1 x2 x3 x4 x5 x6]. cbn [pc_elems] in F. unfold ser_parcelable, de_parcelable, ser_struct.
        cbn [pc_name pc_elems pc_annots pc_doc pc_full pc_sym].
        field ltac:(apply ok_str).
        erewrite (getf_mkf_on (Forall pe_fits)); [cbn [obind] | solve_side | solve_side
          | (intros ? ?; apply (rt_vec_on (cd_pe d) pe_fits); [intros ? ?; apply rt_pe; assumption|assumption]) | assumption | solve_side].
        field ltac:(apply ok_annots). field ltac:(apply ok_ostr). field ltac:(apply ok_range). field ltac:(apply ok_range).
        reflexivity. }
      rewrite R. reflexivity.
    - change (de_item d (ser_item d (ItEnum e))) with (do e' <- de_enum (ser_enum e); Some (ItEnum e')).
      assert (R : de_enum (ser_enum e) = Some e).
      { destruct e as [x1 x2 x3 x4 x5 x6]. unfold ser_enum, de_enum, ser_struct.
        cbn [e_name e_elems e_annots e_doc e_full e_sym].
        field ltac:(apply ok_str). field ltac:(apply ok_vec, ok_enum_elem).
        field ltac:(apply ok_annots). field ltac:(apply ok_ostr). field ltac:(apply ok_range). field ltac:(apply ok_range).
        reflexivity. }
      rewrite R. reflexivity.
  Qed.

  Lemma ok_package : codec_ok cd_package.
  Proof.
    intros [x1 x2 x3]. cbn [enc dec cd_package]. unfold ser_package, de_package, ser_struct. cbn [pk_name pk_sym pk_full].
    field ltac:(apply ok_str). field ltac:(apply ok_range). field ltac:(apply ok_range). reflexivity.
  Qed.
  Lemma ok_import : codec_ok cd_import.
  Proof.
    intros [x1 x2 x3 x4]. cbn [enc dec cd_import]. unfold ser_import, de_import, ser_struct. cbn [im_path im_name im_sym im_full].
    field ltac:(apply ok_str). field ltac:(apply ok_str). field ltac:(apply ok_range). field ltac:(apply ok_range). reflexivity.
  Qed.

  Theorem rt_aidl a : item_fits (ai_item a) -> de_aidl d (ser_aidl d a) = Some a.
  Proof.
    intros F. destruct a as [x1 x2 x3 x4]. cbn [ai_item] in F. unfold ser_aidl, de_aidl, ser_struct.
    cbn [ai_package ai_imports ai_declared ai_item].
    field ltac:(apply ok_package). field ltac:(apply ok_vec, ok_import). field ltac:(apply ok_vec, ok_import).
    erewrite (getf_mkf_on item_fits); [cbn [obind] | solve_side | solve_side | (intros ? ?; apply rt_item; assumption) | assumption | solve_side].
    reflexivity.
  Qed.
End Depth.

(* ---------------- every tree fits the fuel computed from it ---------------- *)
Lemma max_bound l t : In t l -> (ty_depth t <= fold_right Nat.max O (map ty_depth l))%nat.
Proof. induction l as [|x l IH]; cbn; intros H; [contradiction|]. destruct H as [->|H]; [lia|]. specialize (IH H). lia. Qed.

Lemma fits_all a : item_fits (aidl_depth a) (ai_item a).
Proof.
  unfold aidl_depth, item_fits. destruct (ai_item a) as [i|p|e]; [| |exact I].
  - apply Forall_forall. intros el Hel. unfold ie_fits, fits, args_fit.
    set (L := flat_map _ (i_elems i)).
    assert (S : forall t, In t (match el with IEMethod m => m_ret m :: map a_ty (m_args m) | IEConst c => [c_ty c] end) -> In t L).
    { intros t Ht. unfold L. apply in_flat_map. exists el. split; assumption. }
    destruct el as [c|m].
    + apply max_bound, S. left; reflexivity.
    + split; [apply max_bound, S; left; reflexivity|].
      apply Forall_forall. intros x Hx. apply max_bound, S. right. apply in_map. exact Hx.
  - apply Forall_forall. intros el Hel. unfold pe_fits, fits.
    set (L := flat_map _ (pc_elems p)).
    assert (S : forall t, In t (match el with PEField x => [f_ty x] | PEConst c => [c_ty c] end) -> In t L).
    { intros t Ht. unfold L. apply in_flat_map. exists el. split; assumption. }
    destruct el as [c|x]; apply max_bound, S; left; reflexivity.
Qed.

Theorem roundtrip_ok a : roundtrip a = Some a.
Proof. unfold roundtrip. apply rt_aidl. apply fits_all. Qed.

(* the shape the model assumes: the Rust structs still have exactly these fields, in this order *)
Lemma shape_ok :
  map fs_rust fs_Aidl = ["package"; "imports"; "declared_parcelables"; "item"]%string /\
  map fs_rust fs_Method = ["oneway"; "name"; "return_type"; "args"; "annotations"; "transact_code"; "doc";
                           "symbol_range"; "full_range"; "transact_code_range"; "oneway_range"]%string /\
  map fs_rust fs_Arg = ["direction"; "name"; "arg_type"; "annotations"; "doc"; "symbol_range"; "full_range"]%string /\
  map fs_rust fs_Type = ["name"; "kind"; "generic_types"; "symbol_range"; "full_range"]%string /\
  map fs_rust fs_Const = ["name"; "const_type"; "value"; "annotations"; "doc"; "symbol_range"; "full_range"]%string /\
  map fs_rust fs_Field = ["name"; "field_type"; "value"; "annotations"; "doc"; "symbol_range"; "full_range"]%string /\
  map fs_rust fs_EnumElement = ["name"; "value"; "doc"; "symbol_range"; "full_range"]%string /\
  map fs_rust fs_Interface = ["oneway"; "name"; "elements"; "annotations"; "doc"; "full_range"; "symbol_range"]%string /\
  map fs_rust fs_Parcelable = ["name"; "elements"; "annotations"; "doc"; "full_range"; "symbol_range"]%string /\
  map fs_rust fs_Enum = ["name"; "elements"; "annotations"; "doc"; "full_range"; "symbol_range"]%string /\
  map fs_rust fs_Annotation = ["name"; "key_values"]%string /\
  map fs_rust fs_Package = ["name"; "symbol_range"; "full_range"]%string /\
  map fs_rust fs_Import = ["path"; "name"; "symbol_range"; "full_range"]%string /\
  map fs_rust fs_Range = ["start"; "end"]%string /\ map fs_rust fs_Position = ["offset"; "line_col"]%string /\
  map vs_rust vs_TypeKind = ["Primitive"; "Void"; "Array"; "Map"; "List"; "String"; "CharSequence"; "AndroidType";
                             "ResolvedItem"; "Unresolved"]%string /\
  map vs_rust vs_Item = ["Interface"; "Parcelable"; "Enum"]%string /\
  map vs_rust vs_Direction = ["In"; "Out"; "InOut"; "Unspecified"]%string.
Proof. repeat split. Qed.
