From AidlV Require Import Model.ParserState.

Section Proofs.
  Variable parse : str -> str -> file_result.
  Variable fs : str -> option str.
  Notation concretise := (concretise parse).

  Lemma put_concretise id c a : put id (parse id c) (concretise a) = concretise (put id c a).
  Proof.
    unfold ParserState.concretise.
    induction a as [|[k v] a IH]; cbn [map put fst snd]; [reflexivity|].
    destruct (str_eqb id k); cbn [map fst snd]; [reflexivity|]. rewrite IH. reflexivity.
  Qed.

  Lemma del_concretise id a : del id (concretise a) = concretise (del id a).
  Proof.
    unfold del, ParserState.concretise. induction a as [|[k v] a IH]; cbn [map filter fst snd]; [reflexivity|].
    destruct (str_eqb id k); cbn [negb map fst snd]; rewrite IH; reflexivity.
  Qed.

  (* every step commutes with the abstraction *)
  Lemma step_refines a o : fst (step parse fs (concretise a) o) = concretise (astep fs a o).
  Proof.
    destruct o as [id c|id| |p]; cbn [step astep fst].
    - apply put_concretise.
    - apply del_concretise.
    - reflexivity.
    - destruct (fs p); cbn [fst]; [apply put_concretise|reflexivity].
  Qed.

  Theorem run_refines ops : run parse fs ops = concretise (arun fs ops).
  Proof.
    unfold run, arun.
    assert (G : forall a, fold_left (fun s o => fst (step parse fs s o)) ops (concretise a)
                          = concretise (fold_left (astep fs) ops a)).
    { induction ops as [|o ops IH]; intros a; cbn [fold_left]; [reflexivity|]. rewrite step_refines. apply IH. }
    apply (G []).
  Qed.

  (* keys stay unique *)
  Lemma put_keys {V} id (v : V) l : NoDup (map fst l) -> NoDup (map fst (put id v l)) /\
                                    (forall k, In k (map fst (put id v l)) <-> k = id \/ In k (map fst l)).
  Proof.
    induction l as [|[k w] l IH]; cbn; intros H.
    - split; [repeat constructor; auto|]. intros k. intuition (subst; auto).
    - inversion H as [|? ? Hn Hd]; subst. destruct (str_eqb id k) eqn:E; cbn.
      + apply str_eqb_eq in E. subst k. split; [constructor; assumption|]. intros k. intuition (subst; auto).
      + destruct (IH Hd) as [IH1 IH2]. split.
        * constructor; [|exact IH1]. rewrite IH2. intros [-> | Hin]; [|contradiction].
          rewrite str_eqb_refl in E. discriminate.
        * intros k'. rewrite IH2. intuition (subst; auto).
  Qed.

  Lemma del_keys {V} id (l : list (str * V)) : NoDup (map fst l) -> NoDup (map fst (del id l)).
  Proof.
    unfold del. induction l as [|[k w] l IH]; cbn; intros H; [constructor|].
    inversion H as [|? ? Hn Hd]; subst. destruct (str_eqb id k); cbn; [auto|].
    constructor; [|auto]. intros Hin. apply Hn. clear -Hin.
    induction l as [|[k' w'] l IH]; cbn in *; [contradiction|].
    destruct (str_eqb id k'); cbn in *; [right; auto|]. destruct Hin; [left; auto|right; auto].
  Qed.

  Lemma arun_nodup ops : NoDup (map fst (arun fs ops)).
  Proof.
    unfold arun.
    assert (G : forall a, NoDup (map fst a) -> NoDup (map fst (fold_left (astep fs) ops a))).
    { induction ops as [|o ops IH]; intros a H; cbn [fold_left]; [exact H|]. apply IH.
      destruct o as [id c|id| |p]; cbn [astep]; auto.
      - apply put_keys; exact H.
      - apply del_keys; exact H.
      - destruct (fs p); [apply put_keys; exact H|exact H]. }
    apply G. constructor.
  Qed.

  (* a fresh parser fed the surviving pairs reaches exactly the same state *)
  Lemma fresh_spec a : NoDup (map fst a) -> fresh parse a = concretise a.
  Proof.
    unfold fresh.
    assert (G : forall pre, NoDup (map fst (pre ++ a)) ->
              fold_left (fun s kc => put (fst kc) (parse (fst kc) (snd kc)) s) a (concretise pre) = concretise (pre ++ a)).
    { induction a as [|[k c] a IH]; intros pre H; cbn [fold_left]; [rewrite app_nil_r; reflexivity|].
      cbn [fst snd]. rewrite put_concretise.
      assert (P : put k c pre = pre ++ [(k, c)]).
      { assert (Hn : ~ In k (map fst pre)).
        { rewrite map_app in H. cbn in H. apply NoDup_remove_2 in H. intros Hin. apply H. apply in_or_app; auto. }
        clear -Hn. induction pre as [|[k' c'] pre IH]; cbn; [reflexivity|].
        destruct (str_eqb k k') eqn:E.
        - apply str_eqb_eq in E. subst. exfalso. apply Hn. left; reflexivity.
        - rewrite IH; [reflexivity|]. intros Hin. apply Hn. right; exact Hin. }
      rewrite P. replace (pre ++ (k, c) :: a) with ((pre ++ [(k, c)]) ++ a) by (rewrite <- app_assoc; reflexivity).
      apply IH. rewrite <- app_assoc. exact H. }
    intros H. apply (G [] H).
  Qed.

  (* C12: after any history the parser is in the state of a fresh parser holding the surviving contents,
     so validation returns the same thing *)
  Theorem history_independence ops :
    run parse fs ops = fresh parse (arun fs ops) /\
    validate_state (run parse fs ops) = validate_state (fresh parse (arun fs ops)).
  Proof.
    assert (E : run parse fs ops = fresh parse (arun fs ops)).
    { rewrite run_refines, fresh_spec; [reflexivity|apply arun_nodup]. }
    split; [exact E|rewrite E; reflexivity].
  Qed.

  (* validating never changes the state; a failed file load changes nothing and reports an I/O error;
     a successful one is add_content of the file's text under its path *)
  Theorem validate_pure s : fst (step parse fs s OValidate) = s.
  Proof. reflexivity. Qed.
  Theorem add_file_failed s p : fs p = None -> step parse fs s (OAddFile p) = (s, RIoError).
  Proof. intros H. cbn. rewrite H. reflexivity. Qed.
  Theorem add_file_ok s p c : fs p = Some c -> step parse fs s (OAddFile p) = step parse fs s (OAdd p c).
  Proof. intros H. cbn. rewrite H. reflexivity. Qed.

  (* removed ids are absent; a replaced id holds its latest content; other slots are untouched *)
  Lemma assoc_put {V} k id (v : V) l : assoc k (put id v l) = if str_eqb k id then Some v else assoc k l.
  Proof.
    induction l as [|[k' w] l IH]; cbn.
    - destruct (str_eqb k id); reflexivity.
    - destruct (str_eqb id k') eqn:E; cbn.
      + apply str_eqb_eq in E. subst k'. destruct (str_eqb k id); reflexivity.
      + destruct (str_eqb k k') eqn:E2.
        * destruct (str_eqb k id) eqn:E3; [|reflexivity]. apply str_eqb_eq in E2, E3. subst.
          rewrite str_eqb_refl in E. discriminate.
        * exact IH.
  Qed.
  Lemma assoc_del {V} k id (l : list (str * V)) : assoc k (del id l) = if str_eqb k id then None else assoc k l.
  Proof.
    unfold del. induction l as [|[k' w] l IH]; cbn.
    - destruct (str_eqb k id); reflexivity.
    - destruct (str_eqb id k') eqn:E; cbn.
      + apply str_eqb_eq in E. subst k'. rewrite IH. destruct (str_eqb k id); reflexivity.
      + rewrite IH. destruct (str_eqb k k') eqn:E2; [|reflexivity].
        destruct (str_eqb k id) eqn:E3; [|reflexivity]. apply str_eqb_eq in E2, E3. subst.
        rewrite str_eqb_refl in E. discriminate.
  Qed.
End Proofs.
