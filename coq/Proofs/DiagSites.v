(* C04, last clause: every diagnostic that validation adds sits on a range of a node of the file's tree (the name range of an
   import, declaration, type at any depth, method, the transact-code / oneway-keyword / direction range of a method or
   argument, the full range of a declaration), and so do its related ranges. *)
From Coq Require Import ZArith.
From AidlV Require Import Spec.Master Proofs.Master Proofs.Scoping.

Definition msites (m : method) : list range :=
  [m_sym m; m_code_range m; m_oneway_range m; ty_sym (m_ret m)] ++ map dir_range (m_args m).
Definition item_sym (it : item) : range :=
  match it with ItInterface i => i_sym i | ItParcelable p => pc_sym p | ItEnum e => e_sym e end.
Definition sites (a : aidl) : list range :=
  map im_sym (ai_imports a) ++ map im_sym (ai_declared a) ++ map im_full (ai_declared a) ++
  map ty_sym (all_types_pre (ai_item a)) ++ flat_map msites (methods_of (ai_item a)) ++ [item_sym (ai_item a)].

Definition dok (R : list range) (d : diag) : Prop := In (d_range d) R /\ Forall (fun r => In r R) (d_related d).

Lemma dok_incl R R' d : incl R R' -> dok R d -> dok R' d.
Proof. intros I [A B]. split; [apply I; exact A|]. eapply Forall_impl; [|exact B]. intros r Hr. apply I. exact Hr. Qed.

(* ---- resolution and propagation keep every range ---- *)
Lemma mu_ty_sym f t : ty_sym (map_unresolved f t) = ty_sym t.
Proof. destruct t; reflexivity. Qed.

Lemma types_pre_mu f t : map ty_sym (types_of_ty_pre (map_unresolved f t)) = map ty_sym (types_of_ty_pre t).
Proof.
  induction t as [n k g s fu IH] using ty_ind'. cbn [map_unresolved types_of_ty_pre map ty_sym]. f_equal.
  induction IH as [|x g Hx Hg IHg]; [reflexivity|]. cbn. rewrite !map_app, Hx. f_equal. exact IHg.
Qed.

Lemma mu_dir_range f x : dir_range (mu_arg f x) = dir_range x.
Proof. unfold dir_range, mu_arg. cbn. destruct (a_dir x); try reflexivity. rewrite mu_ty_sym. reflexivity. Qed.

Lemma msites_mu f m : msites (mu_method f m) = msites m.
Proof.
  unfold msites, mu_method. cbn. rewrite mu_ty_sym. do 4 f_equal. rewrite map_map. apply map_ext. intros x. apply mu_dir_range.
Qed.
Lemma msites_set b m : msites (set_oneway b m) = msites m.  Proof. reflexivity. Qed.

Lemma methods_final f it :
  map msites (methods_of (propagate (mu_item f it))) = map msites (methods_of it).
Proof.
  destruct it as [i|p|e]; try reflexivity. cbn [mu_item propagate methods_of i_elems i_oneway].
  induction (i_elems i) as [|e l IH]; [reflexivity|]. cbn [map flat_map]. rewrite !map_app, IH. f_equal.
  destruct e; [reflexivity|]. cbn [mu_ie propagate_ie map flat_map app]. rewrite msites_set, msites_mu. reflexivity.
Qed.
Lemma methods_resolved f it : map msites (methods_of (mu_item f it)) = map msites (methods_of it).
Proof.
  destruct it as [i|p|e]; try reflexivity. cbn [mu_item methods_of i_elems].
  induction (i_elems i) as [|e l IH]; [reflexivity|]. cbn [map flat_map]. rewrite !map_app, IH. f_equal.
  destruct e; [reflexivity|]. cbn [mu_ie map flat_map app]. rewrite msites_mu. reflexivity.
Qed.

Lemma top_types_mu f it : top_types (mu_item f it) = map (map_unresolved f) (top_types it).
Proof.
  destruct it as [i|p|e]; try reflexivity; cbn [mu_item top_types i_elems pc_elems].
  - induction (i_elems i) as [|e l IH]; [reflexivity|]. cbn [map flat_map]. rewrite map_app, IH. f_equal.
    destruct e; cbn; [reflexivity|]. f_equal. rewrite !map_map. reflexivity.
  - induction (pc_elems p) as [|e l IH]; [reflexivity|]. cbn [map flat_map]. rewrite map_app, IH. f_equal. destruct e; reflexivity.
Qed.

Lemma all_types_pre_mu f it : map ty_sym (all_types_pre (mu_item f it)) = map ty_sym (all_types_pre it).
Proof.
  unfold all_types_pre. rewrite top_types_mu. induction (top_types it) as [|t l IH]; [reflexivity|].
  cbn [map flat_map]. rewrite !map_app, types_pre_mu, IH. reflexivity.
Qed.

(* ---- the per-rule specifications put their diagnostics on these ranges ---- *)
Lemma container_sites t : forall d, In d (spec_container_ty t) -> In (d_range d) (map ty_sym (types_of_ty_pre t)) /\ d_related d = [].
Proof.
  induction t as [n k g s fu IH] using ty_ind'. intros d Hd.
  assert (OWN : forall d, In d (spec_own (Ty n k g s fu)) -> In (d_range d) (map ty_sym (types_of_ty_pre (Ty n k g s fu))) /\ d_related d = []).
  { intros d0 H0. unfold spec_own in H0. cbn [ty_kind ty_generics] in H0.
    assert (E : forall e, In e g -> In (ty_sym e) (map ty_sym (types_of_ty_pre (Ty n k g s fu)))).
    { intros e He. cbn [types_of_ty_pre map]. right. clear -He. induction g as [|x g IHg]; [contradiction|].
      rewrite map_app. apply in_or_app. destruct He as [->|He]; [left; destruct e; cbn; left; reflexivity|right; apply IHg; exact He]. }
    assert (SELF : In s (map ty_sym (types_of_ty_pre (Ty n k g s fu)))) by (cbn; left; reflexivity).
    unfold spec_array_elem, spec_list_elem, spec_map_key, spec_map_value, elem_diag, raw_list_diag, raw_map_diag, mk_diag in H0.
    destruct k; try contradiction; destruct g as [|e1 [|e2 g']]; try contradiction;
      repeat match goal with
             | H : In _ (_ ++ _) |- _ => apply in_app_or in H as [H|H]
             | H : In _ (match ?x with _ => _ end) |- _ => destruct x
             | H : In _ (if ?x then _ else _) |- _ => destruct x
             | H : In _ [] |- _ => contradiction
             | H : In _ [_] |- _ => destruct H as [<-|[]]
             end; cbn [d_range d_related ty_sym]; (split; [|reflexivity]);
      first [exact SELF | apply E; left; reflexivity | apply E; right; left; reflexivity]. }
  assert (SUB : forall d, In d ((fix go (l : list ty) : list diag := match l with [] => [] | x :: l' => spec_container_ty x ++ go l' end) g) ->
                          In (d_range d) (map ty_sym (types_of_ty_pre (Ty n k g s fu))) /\ d_related d = []).
  { intros d0 H0. cbn [types_of_ty_pre map]. clear OWN Hd.
    induction IH as [|x g Hx Hg IHg]; [contradiction|]. apply in_app_or in H0 as [H0|H0].
    - destruct (Hx d0 H0) as [A B]. split; [|exact B]. right. rewrite map_app. apply in_or_app. left. exact A.
    - destruct (IHg H0) as [A B]. split; [|exact B]. destruct A as [A|A]; [left; exact A|right; rewrite map_app; apply in_or_app; right; exact A]. }
  cbn [spec_container_ty] in Hd. destruct k; apply in_app_or in Hd as [Hd|Hd]; auto.
Qed.

Lemma find_in {A} (f : A -> bool) l x : find f l = Some x -> In x l.
Proof. intros H. apply find_some in H. tauto. Qed.

Lemma imports_sites used defined all : forall l pre, incl pre all -> incl l all ->
  Forall (dok (map im_sym all)) (spec_imports_from used defined pre l).
Proof.
  induction l as [|i l IH]; intros pre Hp Hl; [constructor|]. cbn [spec_imports_from]. apply Forall_app. split.
  - assert (Ii : In (im_sym i) (map im_sym all)) by (apply in_map; apply Hl; left; reflexivity).
    unfold spec_import. destruct (find (same_qname (import_qname i)) pre) as [first|] eqn:E.
    + constructor; [|constructor]. split; [exact Ii|]. constructor; [|constructor]. apply in_map. apply Hp. eapply find_in; eauto.
    + destruct (negb (resolvable defined (import_qname i))); [constructor; [split; [exact Ii|constructor]|constructor]|].
      destruct (negb (mem_str (import_qname i) used)); [constructor; [split; [exact Ii|constructor]|constructor]|constructor].
  - apply IH; [|intros x Hx; apply Hl; right; exact Hx]. intros x Hx. apply in_app_or in Hx as [Hx|[<-|[]]]; [apply Hp; exact Hx|apply Hl; left; reflexivity].
Qed.

Lemma first_imports_incl : forall l pre, incl (first_imports_from pre l) l.
Proof.
  induction l as [|i l IH]; intros pre x Hx; [exact Hx|]. cbn [first_imports_from] in Hx. apply in_app_or in Hx as [Hx|Hx].
  - destruct (is_some (find (same_qname (import_qname i)) pre)); [contradiction|]. destruct Hx as [<-|[]]. left. reflexivity.
  - right. exact (IH _ _ Hx).
Qed.

Lemma declared_sites used firsts imps decl : incl firsts imps -> forall l pre, incl pre decl -> incl l decl ->
  Forall (dok (map im_sym imps ++ map im_sym decl ++ map im_full decl)) (spec_declared_from used firsts pre l).
Proof.
  intros Hf. induction l as [|p l IH]; intros pre Hp Hl; [constructor|]. cbn [spec_declared_from]. apply Forall_app. split.
  - assert (Ip : In (im_sym p) (map im_sym imps ++ map im_sym decl ++ map im_full decl)).
    { apply in_or_app. right. apply in_or_app. left. apply in_map. apply Hl. left. reflexivity. }
    assert (Ifu : In (im_full p) (map im_sym imps ++ map im_sym decl ++ map im_full decl)).
    { apply in_or_app. right. apply in_or_app. right. apply in_map. apply Hl. left. reflexivity. }
    unfold spec_declared_one. destruct (conflicting_import firsts p) as [c|] eqn:EC.
    + constructor; [|constructor]. split; [exact Ip|]. constructor; [|constructor]. apply in_or_app. left. apply in_map. apply Hf.
      unfold conflicting_import in EC. apply min_import_in in EC. apply filter_In in EC. tauto.
    + destruct (find (same_qname (import_qname p)) (accepted firsts pre)) as [first|] eqn:EF.
      * constructor; [|constructor]. split; [exact Ip|]. constructor; [|constructor]. apply in_or_app. right. apply in_or_app. left.
        apply in_map. apply Hp. apply find_in in EF. unfold accepted in EF. apply filter_In in EF. tauto.
      * destruct (negb (mem_str (import_qname p) used)); (constructor; [split; [first [exact Ip|exact Ifu]|constructor]|constructor]).
  - apply IH; [|intros x Hx; apply Hl; right; exact Hx]. intros x Hx. apply in_app_or in Hx as [Hx|[<-|[]]]; [apply Hp; exact Hx|apply Hl; left; reflexivity].
Qed.

Lemma check_method_sites m : Forall (dok (msites m)) (check_method m).
Proof.
  unfold check_method. apply Forall_app. split.
  - destruct (m_oneway m && negb (is_void (ty_kind (m_ret m)))); [|constructor]. constructor; [|constructor].
    split; [cbn; tauto|constructor].
  - apply Forall_forall. intros d Hd. apply in_flat_map in Hd as [x [Hx Hd]].
    assert (R : In (dir_range x) (msites m)) by (unfold msites; apply in_or_app; right; apply in_map; exact Hx).
    unfold check_arg in Hd. apply in_app_or in Hd as [Hd|Hd].
    + destruct (gen_requirement (cat (ty_kind (a_ty x))));
        repeat match goal with H : In _ (if ?b then _ else _) |- _ => destruct b end;
        try contradiction; destruct Hd as [<-|[]]; (split; [exact R|constructor]).
    + destruct (m_oneway m && (is_out (a_dir x) || is_inout (a_dir x))); [|contradiction]. destruct Hd as [<-|[]]. split; [exact R|constructor].
Qed.

Lemma spec_method_sites pre m : Forall (dok (msites m ++ flat_map msites pre)) (spec_method pre m).
Proof.
  assert (SELF1 : In (m_sym m) (msites m ++ flat_map msites pre)) by (apply in_or_app; left; cbn; tauto).
  assert (SELF2 : In (m_code_range m) (msites m ++ flat_map msites pre)) by (apply in_or_app; left; cbn; tauto).
  assert (PRE : forall o, In o pre -> In (m_sym o) (msites m ++ flat_map msites pre) /\ In (m_code_range o) (msites m ++ flat_map msites pre)).
  { intros o Ho. split; apply in_or_app; right; apply in_flat_map; exists o; (split; [exact Ho|cbn; tauto]). }
  assert (DN : forall l, incl (distinct_named l) l).
  { induction l as [|x l IH]; [intros y []|]. cbn [distinct_named]. intros y [<-|Hy]; [left; reflexivity|].
    right. apply IH. apply filter_In in Hy. tauto. }
  unfold spec_method. destruct (find (same_name (m_name m)) pre) as [first|] eqn:E.
  - constructor; [|constructor]. split; [exact SELF1|]. constructor; [|constructor]. apply PRE. eapply find_in; eauto.
  - apply Forall_app. split.
    + assert (MX : forall f, Forall (dok (msites m ++ flat_map msites pre))
                              (match find f (distinct_named pre) with Some o => [mixed_diag m o] | None => [] end)).
      { intros f. destruct (find f (distinct_named pre)) as [o|] eqn:EO; constructor; [|constructor].
        split; [exact SELF2|]. constructor; [|constructor]. apply PRE. apply DN. eapply find_in; eauto. }
      destruct (has_code m && existsb no_code (distinct_named pre) && negb (existsb has_code (distinct_named pre))); [apply MX|].
      destruct (no_code m && existsb has_code (distinct_named pre) && negb (existsb no_code (distinct_named pre))); [apply MX|constructor].
    + destruct (m_code m) as [c|]; [|constructor]. destruct (find (same_code c) (distinct_named pre)) as [o|] eqn:EO; constructor; [|constructor].
      split; [exact SELF2|]. constructor; [|constructor]. apply PRE. apply DN. eapply find_in; eauto.
Qed.

Lemma spec_methods_sites : forall l pre, Forall (dok (flat_map msites (pre ++ l))) (spec_methods_from pre l).
Proof.
  induction l as [|m l IH]; intros pre; [constructor|]. cbn [spec_methods_from].
  assert (I1 : incl (msites m) (flat_map msites (pre ++ m :: l))).
  { intros r Hr. apply in_flat_map. exists m. split; [apply in_or_app; right; left; reflexivity|exact Hr]. }
  assert (I2 : incl (msites m ++ flat_map msites pre) (flat_map msites (pre ++ m :: l))).
  { intros r Hr. apply in_app_or in Hr as [Hr|Hr]; [apply I1; exact Hr|]. apply in_flat_map in Hr as [o [Ho Hr]].
    apply in_flat_map. exists o. split; [apply in_or_app; left; exact Ho|exact Hr]. }
  apply Forall_app. split; [apply Forall_app; split|].
  - eapply Forall_impl; [|apply check_method_sites]. intros d. apply dok_incl. exact I1.
  - eapply Forall_impl; [|apply spec_method_sites]. intros d. apply dok_incl. exact I2.
  - specialize (IH (pre ++ [m])). rewrite <- app_assoc in IH. exact IH.
Qed.

Lemma redundant_sites f it : Forall (dok (flat_map msites (methods_of it) ++ [item_sym it])) (spec_redundant (mu_item f it)).
Proof.
  pose proof (methods_resolved f it) as MR.
  destruct it as [i|p|e]; cbn [mu_item spec_redundant i_oneway]; try constructor.
  destruct (i_oneway i); [|constructor]. apply Forall_forall. intros d Hd. apply in_flat_map in Hd as [m [Hm Hd]].
  destruct (m_oneway m); [|contradiction]. destruct Hd as [<-|[]].
  assert (IM : In (m_oneway_range m) (flat_map msites (methods_of (ItInterface i)))).
  { rewrite flat_map_concat_map, <- MR, <- flat_map_concat_map. apply in_flat_map. exists m. split; [exact Hm|cbn; tauto]. }
  split; cbn [d_range d_related redundant_diag mk_diag i_sym].
  - apply in_or_app. left. exact IM.
  - constructor; [|constructor]. apply in_or_app. right. left. reflexivity.
Qed.

(* ---- everything validation adds ---- *)
Theorem added_sites defined a : Forall (dok (sites a)) (sp_added defined a).
Proof.
  unfold sp_added, sites.
  set (R := map im_sym (ai_imports a) ++ map im_sym (ai_declared a) ++ map im_full (ai_declared a) ++
            map ty_sym (all_types_pre (ai_item a)) ++ flat_map msites (methods_of (ai_item a)) ++ [item_sym (ai_item a)]).
  assert (MS : forall f, flat_map msites (methods_of (propagate (mu_item f (ai_item a)))) = flat_map msites (methods_of (ai_item a))).
  { intros f. rewrite !flat_map_concat_map, methods_final. reflexivity. }
  assert (MR : forall f, flat_map msites (methods_of (mu_item f (ai_item a))) = flat_map msites (methods_of (ai_item a))).
  { intros f. rewrite !flat_map_concat_map, methods_resolved. reflexivity. }
  apply Forall_app; split; [|apply Forall_app; split; [|apply Forall_app; split; [|apply Forall_app; split; [|apply Forall_app; split]]]].
  - (* unknown types *)
    unfold sp_unknown. apply Forall_forall. intros d Hd. apply in_flat_map in Hd as [t [Ht Hd]]. unfold spec_unknown in Hd.
    destruct (ty_kind t); try contradiction. destruct (sp_f defined a (ty_name t)); [contradiction|]. destruct Hd as [<-|[]].
    split; cbn [d_range d_related unknown_type_diag mk_diag]; [|constructor]. unfold R. do 3 (apply in_or_app; right). apply in_or_app. left. apply in_map. exact Ht.
  - eapply Forall_impl; [|apply (imports_sites (sp_used defined a) defined (ai_imports a) (ai_imports a) []); [intros x []|apply incl_refl]].
    intros d. apply dok_incl. intros r Hr. unfold R. apply in_or_app. left. exact Hr.
  - eapply Forall_impl; [|apply (declared_sites (sp_used defined a) (sp_import_firsts a) (ai_imports a) (ai_declared a)
                                   (first_imports_incl _ _) (ai_declared a) []); [intros x []|apply incl_refl]].
    intros d. apply dok_incl. intros r Hr. unfold R. apply in_app_or in Hr as [Hr|Hr]; [apply in_or_app; left; exact Hr|]. apply in_or_app; right.
    apply in_app_or in Hr as [Hr|Hr]; [apply in_or_app; left; exact Hr|]. apply in_or_app; right. apply in_or_app; left. exact Hr.
  - (* containers *)
    unfold sp_containers, sp_resolved_item. apply Forall_forall. intros d Hd. apply in_flat_map in Hd as [t [Ht Hd]].
    destruct (container_sites t d Hd) as [A B]. split; [|rewrite B; constructor].
    unfold R. do 3 (apply in_or_app; right). apply in_or_app. left.
    rewrite <- (all_types_pre_mu (sp_f defined a)). unfold all_types_pre. rewrite flat_map_concat_map, concat_map, map_map.
    apply in_concat. exists (map ty_sym (types_of_ty_pre t)). split; [apply in_map_iff; exists t; auto|exact A].
  - (* redundant oneway *)
    unfold sp_redundant, sp_resolved_item.
    eapply Forall_impl; [|apply (redundant_sites (sp_f defined a) (ai_item a))].
    intros d. apply dok_incl. intros r Hr. unfold R. do 4 (apply in_or_app; right). exact Hr.
  - (* methods *)
    unfold sp_methods, spec_methods, sp_final_item, sp_resolved_item.
    eapply Forall_impl; [|apply (spec_methods_sites (methods_of (propagate (mu_item (sp_f defined a) (ai_item a)))) [])].
    intros d. apply dok_incl. cbn [app]. rewrite MS. intros r Hr. unfold R. do 4 (apply in_or_app; right). apply in_or_app. left. exact Hr.
Qed.

(* for the result of validate_file: everything that was not there before sits on a node of the tree *)
Theorem validation_diag_sites defined a ds0 a' ds d :
  wf_item (ai_item a) = true -> validate_file defined a ds0 = Ok (a', ds) -> In d ds ->
  In d ds0 \/ dok (sites a) d.
Proof.
  intros W H Hd. destruct (validate_file_perm _ _ _ _ _ W H) as [_ [P _]].
  apply (Permutation_in _ P) in Hd. apply in_app_or in Hd as [Hd|Hd]; [left; exact Hd|right].
  pose proof (added_sites defined a) as F. rewrite Forall_forall in F. exact (F d Hd).
Qed.
