(* find_content_string never panics: whenever the back-scan reports a comment, its two positions delimit
   a stretch  pre "/**" mid sfx  of the input, so the slice is well-defined and is exactly `mid`. *)
From AidlV Require Import Model.Javadoc Proofs.Totality Proofs.Javadoc.

Definition state_inv (st : fstate) (endp : option N) (done : str) : Prop :=
  match st with
  | FInside => exists mid sfx, done = mid ++ sfx /\ endp = Some (byte_len sfx)
  | FBeforeBeginStar => exists mid sfx, done = star :: mid ++ sfx /\ endp = Some (byte_len sfx)
  | FBeforeBeginStarStar => exists mid sfx, done = star :: star :: mid ++ sfx /\ endp = Some (byte_len sfx)
  | _ => True
  end.

Lemma scan_inv rv : forall st pos endp done,
  pos = byte_len done -> state_inv st endp done ->
  forall sp ep, scan rv st pos endp = (Some sp, Some ep) ->
  exists pre mid sfx, rev rv ++ done = pre ++ opener ++ mid ++ sfx /\ sp = byte_len (mid ++ sfx) /\ ep = byte_len sfx.
Proof.
  induction rv as [|c rv IH]; intros st pos endp done Hpos Hinv sp ep H; [cbn in H; discriminate|].
  cbn [rev]. rewrite <- app_assoc. cbn [app].
  assert (Hpos' : (pos + utf8_len c)%N = byte_len (c :: done)) by (cbn [byte_len]; lia).
  cbn [scan] in H.
  destruct st.
  - (* FIdle *)
    destruct (N.eqb c slash); [(refine (IH _ _ _ _ Hpos' _ _ _ H); exact I)|].
    destruct (negb (N.eqb c 32) && negb (N.eqb c 10) && negb (N.eqb c 13) && negb (N.eqb c 9));
      ((refine (IH _ _ _ _ Hpos' _ _ _ H); exact I)).
  - (* FLineOrElse *)
    destruct (N.eqb c slash); [(refine (IH _ _ _ _ Hpos' _ _ _ H); exact I)|].
    destruct (N.eqb c 10); [discriminate|]. (refine (IH _ _ _ _ Hpos' _ _ _ H); exact I).
  - (* FLineOrElseBeforeSlash *)
    destruct (N.eqb c slash); [(refine (IH _ _ _ _ Hpos' _ _ _ H); exact I)|discriminate].
  - (* FBeforeEndSlash *)
    destruct (N.eqb c star) eqn:E.
    + apply N.eqb_eq in E. subst c. refine (IH _ _ _ _ Hpos' _ _ _ H).
      exists [], (star :: done). split; [reflexivity|]. rewrite Hpos'. reflexivity.
    + (refine (IH _ _ _ _ Hpos' _ _ _ H); exact I).
  - (* FInside *)
    destruct Hinv as [mid [sfx [-> ->]]].
    destruct (N.eqb c star) eqn:E.
    + apply N.eqb_eq in E. subst c. refine (IH _ _ _ _ Hpos' _ _ _ H). exists mid, sfx. split; reflexivity.
    + refine (IH _ _ _ _ Hpos' _ _ _ H). exists (c :: mid), sfx. split; reflexivity.
  - (* FBeforeBeginStar *)
    destruct Hinv as [mid [sfx [-> ->]]].
    destruct (N.eqb c star) eqn:E.
    + apply N.eqb_eq in E. subst c. refine (IH _ _ _ _ Hpos' _ _ _ H). exists mid, sfx. split; reflexivity.
    + destruct (N.eqb c slash); [(refine (IH _ _ _ _ Hpos' _ _ _ H); exact I)|].
      refine (IH _ _ _ _ Hpos' _ _ _ H). exists (c :: star :: mid), sfx. split; reflexivity.
  - (* FBeforeBeginStarStar *)
    destruct Hinv as [mid [sfx [-> ->]]].
    destruct (N.eqb c slash) eqn:E.
    + apply N.eqb_eq in E. subst c. inversion H; subst. exists (rev rv), mid, sfx.
      split; [reflexivity|]. split; [|reflexivity].
      cbn [byte_len]. replace (utf8_len slash) with 1%N by reflexivity. replace (utf8_len star) with 1%N by reflexivity. lia.
    + refine (IH _ _ _ _ Hpos' _ _ _ H). exists (c :: star :: star :: mid), sfx. split; reflexivity.
Qed.

Theorem find_content_string_total input :
  find_content_string input = Some None \/
  exists pre mid sfx, input = pre ++ opener ++ mid ++ sfx /\ find_content_string input = Some (Some mid).
Proof.
  unfold find_content_string.
  destruct (scan (rev input) FIdle 0 None) as [[sp|] [ep|]] eqn:S; auto.
  right. destruct (scan_inv (rev input) FIdle 0 None [] eq_refl I sp ep S) as [pre [mid [sfx [E [-> ->]]]]].
  rewrite rev_involutive, app_nil_r in E. exists pre, mid, sfx. split; [exact E|].
  rewrite E. rewrite !byte_len_app, len_opener.
  replace (byte_len pre + (3 + (byte_len mid + byte_len sfx)) - (byte_len mid + byte_len sfx))%N
    with (byte_len (pre ++ opener)) by (rewrite byte_len_app, len_opener; lia).
  replace (byte_len pre + (3 + (byte_len mid + byte_len sfx)) - byte_len sfx)%N
    with (byte_len ((pre ++ opener) ++ mid)) by (rewrite !byte_len_app, len_opener; lia).
  replace (pre ++ opener ++ mid ++ sfx) with ((pre ++ opener) ++ mid ++ sfx) by (rewrite <- !app_assoc; reflexivity).
  rewrite slice_middle. reflexivity.
Qed.

Corollary get_javadoc_total src pos i : char_index src pos O = Some i -> exists d, get_javadoc src pos = Some d.
Proof.
  intros H. unfold get_javadoc. rewrite H.
  destruct (find_content_string_total (firstn i src)) as [-> | [pre [mid [sfx [_ ->]]]]]; eexists; reflexivity.
Qed.
