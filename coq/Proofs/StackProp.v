(* A generic invariant of the values on the parser's stack: any property of values that tokens, locations and errors have,
   that is compatible with Option / Vec / tuple, and that every user action preserves, holds of the tree add_content stores.
   No typing is needed (an action applied to an ill-shaped value returns VBad, which has the property by assumption). *)
From Coq Require Import ZArith.
From AidlV Require Import Model.LrDriver Proofs.Totality.

Section StackProp.
  Variable cx : ctx.
  Variable P : sem -> Prop.
  Hypothesis P_tok : forall s, P (VTok s).
  Hypothesis P_loc : forall n, P (VLoc n).
  Hypothesis P_err : forall e, P (VErr e).
  Hypothesis P_bad : P VBad.
  Hypothesis P_panic : P VPanic.
  Hypothesis P_none : P (VOpt None).
  Hypothesis P_some : forall x, P (VOpt (Some x)) <-> P x.
  Hypothesis P_vec : forall l, P (VVec l) <-> Forall P l.
  Hypothesis P_tuple : forall l, P (VTuple l) <-> Forall P l.
  Hypothesis P_user : forall u vs, Forall P vs -> P (fst (user_fn u cx vs)).

  Definition tp (x : triple) : Prop := P (tval x).

  Lemma glue_P g lb la vs : Forall P vs -> P (run_glue g lb la vs).
  Proof.
    intros F. destruct g; destruct vs as [|a [|b [|c r]]]; cbn [run_glue]; auto;
      repeat match goal with H : Forall _ (_ :: _) |- _ => inversion H; subst; clear H end; auto.
    - apply P_some. assumption.
    - apply P_vec. constructor.
    - apply P_vec. constructor; [assumption|constructor].
    - unfold vec_push. destruct a; auto. apply P_vec. apply Forall_app. split; [apply P_vec; assumption|constructor; [assumption|constructor]].
    - unfold vec_push_opt. destruct a; auto. destruct b; auto. destruct o; [|assumption].
      apply P_vec. apply Forall_app. split; [apply P_vec; assumption|constructor; [apply P_some; assumption|constructor]].
    - apply P_tuple. constructor; [assumption|constructor; [assumption|constructor]].
  Qed.

  Lemma nth_tp l i : Forall tp l -> tp (nth i l dummy).
  Proof. intros F. revert i. induction F as [|x l Hx F IH]; intros [|i]; cbn; auto; exact P_bad. Qed.
  Lemma getargs_tp args temps l : Forall tp args -> Forall tp temps -> Forall tp (map (getarg args temps) l).
  Proof. intros Fa Ft. induction l as [|r l IH]; constructor; [destruct r; cbn; apply nth_tp; assumption|assumption]. Qed.
  Lemma vals_at_P args idx : Forall tp args -> Forall P (vals_at args idx).
  Proof. intros F. unfold vals_at. induction idx; constructor; [apply (nth_tp args a F)|assumption]. Qed.

  Definition afun_P (f : afun) : Prop := forall lb la args, Forall tp args -> P (fst (f cx lb la args)).

  Lemma run_steps_P (call : N -> afun) : (forall n, afun_P (call n)) ->
    forall steps lb la args temps ds, Forall tp args -> Forall tp temps -> Forall tp (fst (run_steps call cx lb la args temps steps ds)).
  Proof.
    intros Hc. induction steps as [|s rest IH]; intros lb la args temps ds Fa Ft; cbn [run_steps]; [auto|].
    assert (R : P (fst (match ws_args s with
                        | None => call (ws_callee s) cx (evalloc args temps lb la (ws_start s)) (evalloc args temps lb la (ws_end s)) []
                        | Some l => call (ws_callee s) cx lb la (map (getarg args temps) l) end))).
    { destruct (ws_args s); apply Hc; [apply getargs_tp; assumption|constructor]. }
    destruct (match ws_args s with None => _ | Some l => _ end) as [v d]. cbn [fst] in R.
    apply IH; [assumption|]. apply Forall_app. split; [assumption|constructor; [exact R|constructor]].
  Qed.

  Lemma run_wrapper_P (call : N -> afun) w : (forall n, afun_P (call n)) -> afun_P (run_wrapper call w).
  Proof.
    intros Hc lb la args Fa. unfold run_wrapper. destruct (Nat.eqb (length args) (w_nargs w)); [|exact P_bad].
    pose proof (run_steps_P call Hc (w_steps w) lb la args [] [] Fa (Forall_nil _)) as Ft.
    destruct (run_steps call cx lb la args [] (w_steps w) []) as [temps ds]. cbn [fst] in Ft.
    destruct (existsb (fun t => is_panic (tval t)) temps); [exact P_panic|].
    pose proof (Hc (w_final w) lb la _ (getargs_tp args temps (w_final_args w) Fa Ft)) as R.
    destruct (call (w_final w) cx lb la (map (getarg args temps) (w_final_args w))) as [v d]. exact R.
  Qed.

  Theorem eval_P table fuel : forall n, afun_P (eval_action table fuel n).
  Proof.
    induction fuel as [|fuel IH]; intros n lb la args Fa; cbn [eval_action]; [exact P_bad|].
    destruct (lookup_action n table) as [[g nargs idx|u nargs idx|w]|]; [| | |exact P_bad].
    - destruct (Nat.eqb (length args) nargs); [|exact P_bad]. apply glue_P. apply vals_at_P. assumption.
    - destruct (Nat.eqb (length args) nargs); [|exact P_bad]. apply P_user. apply vals_at_P. assumption.
    - apply run_wrapper_P; [exact IH|assumption].
  Qed.

  (* ---- the driver ---- *)
  Definition sinv (p : pst) : Prop := Forall tp (ps_syms p).
  Definition soinv (o : outcome3) : Prop := match o with Done v => P v | _ => True end.

  Lemma Forall_firstn' {A} (Q : A -> Prop) n l : Forall Q l -> Forall Q (firstn n l).
  Proof. revert l. induction n; intros l F; [constructor|]. destruct F; cbn; constructor; auto. Qed.
  Lemma Forall_skipn' {A} (Q : A -> Prop) n l : Forall Q l -> Forall Q (skipn n l).
  Proof. revert l. induction n; intros l F; [exact F|]. destruct F; cbn; auto. Qed.

  Lemma reduce_sinv p idx la : sinv p ->
    match reduce cx p idx la with RCont p' => sinv p' | RAccept p' v => P v | RPanic _ => True end.
  Proof.
    intros Fs. unfold reduce. destruct (production idx) as [[[k nt] act] kind].
    match goal with |- context [gen_action act cx ?a ?b ?c] => pose proof (eval_P gen_actions action_fuel act a b c) as R end.
    match type of R with ?H -> _ => assert (HH : H) by (apply Forall_rev; apply Forall_firstn'; exact Fs); specialize (R HH) end.
    unfold gen_action in *. destruct (eval_action gen_actions action_fuel act cx _ _ _) as [v ds]. cbn [fst] in R.
    destruct v; try exact I; (destruct (N.eqb kind 2); [exact R|unfold sinv; cbn [ps_syms]; constructor; [exact R|apply Forall_skipn'; exact Fs]]).
  Qed.

  Lemma error_reductions_sinv la : forall fuel p, sinv p ->
    match error_reductions cx fuel p la with RCont p' => sinv p' | RAccept p' v => P v | RPanic _ => True end.
  Proof.
    induction fuel as [|fuel IH]; intros p Hp; cbn [error_reductions]; [exact Hp|].
    destruct (as_reduce (error_action_at (top_state p))) as [r|]; [|exact Hp].
    pose proof (reduce_sinv p r la Hp) as R. destruct (reduce cx p r la) as [p'|p' v|p']; [apply IH; exact R|exact R|exact I].
  Qed.

  Lemma next_tok_sinv p : sinv p ->
    match next_tok p with Found p' _ _ _ _ => sinv p' | AtEof p' => sinv p' | Stop p' r => soinv r end.
  Proof.
    intros Hp. unfold next_tok. destruct (lex1 (ps_rest p) (ps_off p)); [|exact Hp|exact I].
    destruct (gen_token_to_integer idx); [exact Hp|exact I].
  Qed.

  Definition srinv (r : recovered) : Prop :=
    match r with RecFound p' _ _ _ _ => sinv p' | RecEof p' => sinv p' | RecStop _ o => soinv o end.

  Lemma recover_loop_sinv error n : forall fuel p la dropped, sinv p -> srinv (recover_loop fuel p error la dropped n).
  Proof.
    induction fuel as [|fuel IH]; intros p la dropped Hp; cbn [recover_loop]; [exact I|].
    destruct (find_recover (ps_states p) (option_map (fun x => snd x) la)) as [top|].
    - match goal with |- context [as_shift ?x] => destruct (as_shift x) as [es|] end; [|exact I].
      assert (Q : forall a b c, sinv (PSt a ((b, VErr error, c) :: rev (firstn top (rev (ps_syms p)))) (ps_last p) (ps_rest p) (ps_off p) (ps_diags p))).
      { intros. unfold sinv. cbn [ps_syms]. constructor; [apply P_err|].
        apply Forall_rev. apply Forall_firstn'. apply Forall_rev. exact Hp. }
      destruct la as [[[[s t] e] col]|]; apply Q.
    - destruct la as [[[[s t] e] col]|]; [|exact I].
      pose proof (next_tok_sinv p Hp) as N. destruct (next_tok p) as [p' ? ? ? ?|p'|p' r]; [apply IH; exact N|apply IH; exact N|exact N].
  Qed.

  Lemma error_recovery_sinv p la : sinv p -> srinv (error_recovery cx p la).
  Proof.
    intros Hp. unfold error_recovery.
    match goal with |- context [error_reductions cx reduce_fuel p ?l] => pose proof (error_reductions_sinv l reduce_fuel p Hp) as R;
      destruct (error_reductions cx reduce_fuel p l) as [p'|p' v|p'] end; [apply recover_loop_sinv; exact R|exact R|exact I].
  Qed.

  Lemma parse_eof_sinv : forall fuel p, sinv p -> soinv (snd (parse_eof cx fuel p)).
  Proof.
    induction fuel as [|fuel IH]; intros p Hp; cbn [parse_eof]; [exact I|].
    destruct (as_reduce (eof_action_at (top_state p))) as [r|].
    - pose proof (reduce_sinv p r None Hp) as R. destruct (reduce cx p r None) as [p'|p' v|p']; [apply IH; exact R|exact R|exact I].
    - pose proof (error_recovery_sinv p None Hp) as R.
      destruct (error_recovery cx p None) as [p' ? ? ? ?|p'|p' r]; [exact I|apply IH; exact R|exact R].
  Qed.

  Definition swinv (x : pst * option outcome3 * bool) : Prop :=
    match x with (p', Some r, _) => soinv r | (p', None, _) => sinv p' end.

  Lemma with_lookahead_sinv : forall fuel p s text e col, sinv p -> swinv (with_lookahead cx fuel p s text e col).
  Proof.
    induction fuel as [|fuel IH]; intros p s text e col Hp; cbn [with_lookahead]; [exact I|].
    destruct (as_shift (action_at (top_state p) col)) as [target|].
    - unfold swinv, sinv. cbn [ps_syms]. constructor; [apply P_tok|exact Hp].
    - destruct (as_reduce (action_at (top_state p) col)) as [r|].
      + pose proof (reduce_sinv p r (Some s) Hp) as R.
        destruct (reduce cx p r (Some s)) as [p'|p' v|p']; [apply IH; exact R|exact I|exact I].
      + pose proof (error_recovery_sinv p (Some (s, text, e, col)) Hp) as R.
        destruct (error_recovery cx p (Some (s, text, e, col))) as [p' ? ? ? ?|p'|p' r]; [apply IH; exact R|exact R|exact R].
  Qed.

  Lemma parse_loop_sinv : forall fuel p, sinv p -> soinv (snd (parse_loop cx fuel p)).
  Proof.
    induction fuel as [|fuel IH]; intros p Hp; cbn [parse_loop]; [exact I|].
    pose proof (next_tok_sinv p Hp) as N. destruct (next_tok p) as [p' s t e col|p'|p' r]; [|apply parse_eof_sinv; exact N|exact N].
    pose proof (with_lookahead_sinv reduce_fuel p' s t e col N) as W.
    destruct (with_lookahead cx reduce_fuel p' s t e col) as [[p'' [r|]] b]; cbn [swinv] in W; [exact W|].
    destruct b; [apply IH; exact W|apply parse_eof_sinv; exact W].
  Qed.

  Theorem add_content_P id fr a : add_content cx id = Added fr -> fr_ast fr = Some a -> P (VAidl a).
  Proof.
    unfold add_content, parse.
    pose proof (parse_loop_sinv (S (length (cx_src cx))) (PSt [0%N] [] 0%N (cx_src cx) 0%N []) (Forall_nil _)) as O.
    destruct (parse_loop cx (S (length (cx_src cx))) (PSt [0%N] [] 0%N (cx_src cx) 0%N [])) as [p r]. cbn [snd] in O.
    destruct r as [v|e| |]; try discriminate.
    - destruct v; try discriminate. destruct o as [x|].
      + destruct x; try discriminate. intros H; inversion H; subst. cbn. intros E; inversion E; subst. apply P_some. exact O.
      + intros H; inversion H; subst. cbn. discriminate.
    - destruct (diag_of_error cx e); [|discriminate]. intros H; inversion H; subst. cbn. discriminate.
  Qed.
End StackProp.
