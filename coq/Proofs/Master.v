From AidlV Require Import Spec.Master Proofs.Pipeline Proofs.Scoping Proofs.Elements Proofs.Oneway Proofs.Methods.

Section Item.
  Variables (imports declared : list str) (defined : env).
  Let f := resolve_name imports declared defined.

  Lemma resolve_args_spec l :
    resolve_args imports declared defined l =
    (map (mu_arg f) l, flat_map (fun a => flat_map (spec_unknown f) (types_of_ty_pre (a_ty a))) l).
  Proof.
    induction l as [|a l IH]; [reflexivity|]. cbn [resolve_args map flat_map].
    unfold resolve_arg. rewrite resolve_ty_spec, IH. reflexivity.
  Qed.

  Lemma map_acc_spec {A} (g : A -> A * list diag) (h : A -> A) (d : A -> list diag) l :
    (forall x, g x = (h x, d x)) -> map_acc g l = (map h l, flat_map d l).
  Proof. intros H. induction l as [|x l IH]; [reflexivity|]. cbn. rewrite H, IH. reflexivity. Qed.

  Lemma flat_map_map {A B C} (g : A -> B) (h : B -> list C) l : flat_map h (map g l) = flat_map (fun x => h (g x)) l.
  Proof. induction l as [|x l IH]; cbn; [reflexivity|]. rewrite IH. reflexivity. Qed.

  Lemma resolve_ie_spec e :
    resolve_ie imports declared defined e =
    (mu_ie f e, flat_map (fun t => flat_map (spec_unknown f) (types_of_ty_pre t)) (top_types_ie e)).
  Proof.
    destruct e as [c|m]; cbn [resolve_ie mu_ie top_types_ie flat_map].
    - unfold resolve_const. rewrite resolve_ty_spec, app_nil_r. reflexivity.
    - unfold resolve_method. rewrite resolve_ty_spec, resolve_args_spec, flat_map_map. reflexivity.
  Qed.

  Lemma resolve_pe_spec e :
    resolve_pe imports declared defined e =
    (mu_pe f e, flat_map (fun t => flat_map (spec_unknown f) (types_of_ty_pre t)) (top_types_pe e)).
  Proof.
    destruct e as [c|x]; cbn [resolve_pe mu_pe top_types_pe flat_map].
    - unfold resolve_const. rewrite resolve_ty_spec, app_nil_r. reflexivity.
    - unfold resolve_field. rewrite resolve_ty_spec, app_nil_r. reflexivity.
  Qed.

  Lemma flat_map_flat_map {A B C} (g : A -> list B) (h : B -> list C) l :
    flat_map h (flat_map g l) = flat_map (fun x => flat_map h (g x)) l.
  Proof. induction l as [|x l IH]; cbn; [reflexivity|]. rewrite flat_map_app, IH. reflexivity. Qed.

  Theorem resolve_item_spec it :
    resolve_item imports declared defined it =
    (mu_item f it, flat_map (spec_unknown f) (all_types_pre it)).
  Proof.
    unfold all_types_pre. rewrite flat_map_flat_map.
    destruct it as [i|p|e]; cbn [resolve_item mu_item top_types]; [| |reflexivity].
    - rewrite (map_acc_spec _ _ _ _ resolve_ie_spec). rewrite flat_map_flat_map. reflexivity.
    - rewrite (map_acc_spec _ _ _ _ resolve_pe_spec). rewrite flat_map_flat_map. reflexivity.
  Qed.

  (* arities survive resolution *)
  Lemma wf_ie l :
    forallb wf_arity (flat_map top_types_ie l) = true ->
    forallb wf_arity (flat_map top_types_ie (map (mu_ie f) l)) = true.
  Proof.
    unfold f. induction l as [|x l IH]; [reflexivity|]. cbn [map flat_map]. rewrite !forallb_app.
    intros H. apply andb_true_iff in H as [Hx Hl]. rewrite (IH Hl), andb_true_r. clear IH Hl.
    destruct x as [c|m]; cbn [mu_ie top_types_ie mu_const mu_method c_ty m_ret m_args forallb] in *.
    - rewrite andb_true_r in *. apply map_unresolved_wf. exact Hx.
    - apply andb_true_iff in Hx as [Hr Ha]. rewrite (map_unresolved_wf _ _ _ _ Hr). cbn [andb].
      rewrite map_map. induction (m_args m) as [|y ys IHy]; [reflexivity|].
      cbn [map forallb a_ty mu_arg] in *. apply andb_true_iff in Ha as [H1 H2].
      rewrite (map_unresolved_wf _ _ _ _ H1), (IHy H2). reflexivity.
  Qed.

  Lemma wf_pe l :
    forallb wf_arity (flat_map top_types_pe l) = true ->
    forallb wf_arity (flat_map top_types_pe (map (mu_pe f) l)) = true.
  Proof.
    unfold f. induction l as [|x l IH]; [reflexivity|]. cbn [map flat_map]. rewrite !forallb_app.
    intros H. apply andb_true_iff in H as [Hx Hl]. rewrite (IH Hl), andb_true_r. clear IH Hl.
    destruct x as [c|x]; cbn [mu_pe top_types_pe mu_const mu_field c_ty f_ty forallb] in *;
      rewrite andb_true_r in *; apply map_unresolved_wf; exact Hx.
  Qed.

  Lemma mu_item_wf it : wf_item it = true -> wf_item (mu_item f it) = true.
  Proof.
    unfold wf_item. destruct it as [i|p|e]; cbn [mu_item top_types i_elems pc_elems]; [apply wf_ie|apply wf_pe|auto].
  Qed.
End Item.

Lemma mu_item_ext f g it : (forall n, f n = g n) -> mu_item f it = mu_item g it.
Proof.
  intros H.
  assert (T : forall t, map_unresolved f t = map_unresolved g t).
  { induction t as [n k gs s fu IH] using ty_ind'. cbn [map_unresolved]. rewrite H. f_equal.
    induction gs as [|x gs IHg]; [reflexivity|]. inversion IH; subst. f_equal; auto. }
  assert (A : forall a, mu_arg f a = mu_arg g a) by (intros a; unfold mu_arg; rewrite T; reflexivity).
  assert (C : forall c, mu_const f c = mu_const g c) by (intros c; unfold mu_const; rewrite T; reflexivity).
  destruct it as [i|p|e]; cbn [mu_item]; [| |reflexivity]; do 2 f_equal; apply map_ext; intros e.
  - destruct e as [c|m]; cbn; [rewrite C; reflexivity|]. unfold mu_method. rewrite T. do 2 f_equal.
    apply map_ext; exact A.
  - destruct e as [c|x]; cbn; [rewrite C; reflexivity|]. unfold mu_field. rewrite T. reflexivity.
Qed.

Lemma spec_unknown_ext f g t : (forall n, f n = g n) -> spec_unknown f t = spec_unknown g t.
Proof. intros H. unfold spec_unknown. rewrite H. reflexivity. Qed.

(* ---- the master theorem: model of validate_file = specification, for grammar-shaped trees ---- *)
Theorem validate_file_spec defined a ds0 :
  wf_item (ai_item a) = true ->
  validate_file defined a ds0 = Ok (sp_tree defined a, sort_diags (ds0 ++ (
      sp_unknown defined a ++ ph_d_imports defined a ++ ph_d_declared defined a ++
      sp_containers defined a ++ sp_redundant defined a ++ sp_methods defined a))).
Proof.
  intros W. unfold validate_file.
  rewrite resolve_item_spec.
  set (f := resolve_name (map import_qname (ai_imports a)) (map import_qname (ai_declared a)) defined).
  assert (F : forall n, f n = sp_f defined a n) by (intros n; apply resolve_name_spec).
  assert (IT : mu_item f (ai_item a) = sp_resolved_item defined a) by (apply mu_item_ext; exact F).
  rewrite IT.
  assert (UNK : flat_map (spec_unknown f) (all_types_pre (ai_item a)) = sp_unknown defined a).
  { unfold sp_unknown. apply flat_map_ext. intros t. apply spec_unknown_ext. exact F. }
  rewrite UNK.
  assert (PI : check_imports (ai_imports a) (resolved_set (sp_resolved_item defined a)) defined
               = (ph_d_imports defined a, ph_import_firsts defined a)).
  { unfold ph_d_imports, ph_import_firsts, ph_resolved, ph_resolved_item, ph_imports, ph_declared.
    rewrite resolve_item_spec. cbn [fst]. fold f. rewrite IT. apply surjective_pairing. }
  rewrite PI.
  assert (W' : wf_item (sp_resolved_item defined a) = true).
  { rewrite <- IT. apply mu_item_wf. exact W. }
  rewrite (check_containers_spec _ W').
  rewrite set_up_oneway_spec.
  unfold check_methods. rewrite check_methods_spec.
  unfold sp_tree, sp_final_item, sp_containers, sp_redundant, sp_methods, sp_final_item.
  unfold ph_d_declared, ph_resolved, ph_resolved_item, ph_imports, ph_declared.
  rewrite resolve_item_spec. cbn [fst]. fold f. rewrite IT.
  reflexivity.
Qed.

(* with the import/declaration passes replaced by their specifications (a permutation) *)
Theorem validate_file_perm defined a ds0 a' ds :
  wf_item (ai_item a) = true ->
  validate_file defined a ds0 = Ok (a', ds) ->
  a' = sp_tree defined a /\ Permutation ds (ds0 ++ sp_added defined a) /\ Sorted le_start ds.
Proof.
  intros W H. rewrite (validate_file_spec _ _ _ W) in H. inversion H; subst. clear H.
  split; [reflexivity|]. split; [|apply sort_sorted].
  rewrite sort_perm. apply Permutation_app_head. unfold sp_added.
  apply Permutation_app_head.
  assert (FI : ph_import_firsts defined a = sp_import_firsts a /\
               Permutation (ph_d_imports defined a) (sp_imports defined a)).
  { unfold ph_import_firsts, ph_d_imports, sp_import_firsts, sp_imports.
    assert (R : ph_resolved defined a = sp_used defined a).
    { unfold ph_resolved, sp_used, ph_resolved_item, ph_imports, ph_declared. rewrite resolve_item_spec. cbn [fst].
      f_equal. apply mu_item_ext. intros n. apply resolve_name_spec. }
    rewrite R. destruct (check_imports_spec (ai_imports a) (sp_used defined a) defined) as [A B]. split; assumption. }
  destruct FI as [FI PI].
  apply Permutation_app; [exact PI|].
  apply Permutation_app; [|reflexivity].
  unfold ph_d_declared, sp_declared. rewrite FI.
  assert (R : ph_resolved defined a = sp_used defined a).
  { unfold ph_resolved, sp_used, ph_resolved_item, ph_imports, ph_declared. rewrite resolve_item_spec. cbn [fst].
    f_equal. apply mu_item_ext. intros n. apply resolve_name_spec. }
  rewrite R. apply check_declared_spec.
Qed.

(* grammar-shaped trees never make validation panic (index / unreachable! / unwrap) *)
Corollary validate_file_total defined a ds0 :
  wf_item (ai_item a) = true -> exists r, validate_file defined a ds0 = Ok r.
Proof. intros W. eexists. apply validate_file_spec. exact W. Qed.
