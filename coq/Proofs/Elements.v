From AidlV Require Import Spec.Elements.

Theorem array_table c : gen_array c = array_rule c.  Proof. destruct c; reflexivity. Qed.
Theorem list_table c : gen_list_ok c = list_ok c.  Proof. destruct c; reflexivity. Qed.
Theorem mapval_table c : gen_mapval_ok c = mapval_ok c.  Proof. destruct c; reflexivity. Qed.
Theorem mapkey_table c n : gen_mapkey_ok c n = mapkey_ok c n.  Proof. destruct c; reflexivity. Qed.

Lemma concat_opt_app {A} (l1 l2 : list (option (list A))) :
  concat_opt (l1 ++ l2) =
  match concat_opt l1, concat_opt l2 with Some a, Some b => Some (a ++ b) | _, _ => None end.
Proof.
  induction l1 as [|x l1 IH]; cbn.
  - destruct (concat_opt l2); reflexivity.
  - destruct x as [x|]; [|reflexivity]. rewrite IH.
    destruct (concat_opt l1), (concat_opt l2); try reflexivity. rewrite app_assoc. reflexivity.
Qed.

Lemma check_container_own t :
  (match ty_kind t, ty_generics t with
   | KArray, [_] | KList, ([] | [_]) | KMap, ([] | [_; _]) => true
   | (KArray | KList | KMap), _ => false
   | _, _ => true
   end) = true ->
  check_container t = Some (spec_own t).
Proof.
  unfold check_container, spec_own, check_array_element, check_list_element, check_map_key, check_map_value,
    spec_array_elem, spec_list_elem, spec_map_key, spec_map_value, raw_list_diag, raw_map_diag.
  destruct (ty_kind t); destruct (ty_generics t) as [|e [|e2 [|e3 r]]]; intros H; try discriminate H;
    rewrite ?array_table, ?list_table, ?mapval_table, ?mapkey_table; reflexivity.
Qed.

Lemma types_container_spec t :
  wf_arity t = true ->
  concat_opt (map check_container (types_of_ty t)) = Some (spec_container_ty t).
Proof.
  induction t as [n k g s f IH] using ty_ind'. intros W.
  cbn [wf_arity] in W. apply andb_true_iff in W as [Wk Wg].
  assert (SUB : concat_opt (map check_container
                   ((fix go (l : list ty) : list ty :=
                       match l with [] => [] | x :: l' => types_of_ty x ++ go l' end) g))
                = Some ((fix go (l : list ty) : list diag :=
                           match l with [] => [] | x :: l' => spec_container_ty x ++ go l' end) g)).
  { clear Wk. induction g as [|x g IHg]; [reflexivity|].
    apply andb_true_iff in Wg as [Wx Wg]. inversion IH as [|? ? Hx Hg]; subst.
    rewrite map_app, concat_opt_app, (Hx Wx), (IHg Hg Wg). reflexivity. }
  assert (OWN : check_container (Ty n k g s f) = Some (spec_own (Ty n k g s f))).
  { apply check_container_own. cbn [ty_kind ty_generics].
    destruct k; destruct g as [|e [|e2 [|e3 r]]]; try reflexivity; try discriminate Wk. }
  cbn [types_of_ty spec_container_ty].
  destruct k; cbn [map]; rewrite ?map_app, ?concat_opt_app; cbn [map concat_opt]; rewrite ?SUB, ?OWN;
    rewrite ?app_nil_r; reflexivity.
Qed.

Theorem check_containers_spec it :
  forallb wf_arity (top_types it) = true ->
  check_containers it = Some (flat_map spec_container_ty (top_types it)).
Proof.
  unfold check_containers, all_types. induction (top_types it) as [|t l IH]; intros W; [reflexivity|].
  cbn in W. apply andb_true_iff in W as [Wt Wl].
  cbn [flat_map]. rewrite map_app, concat_opt_app, (types_container_spec t Wt), (IH Wl). reflexivity.
Qed.
