(* Erasure of everything the layout can influence -- locations, ranges, documentation -- from stack values and trees.
   Two values are "the same up to layout" when their erasures are equal. *)
From AidlV Require Import Model.Wrappers.

Definition p0 : pos := Pos 0 0 0.
Definition r0 : range := Rng p0 p0.

Fixpoint erase_ty (t : ty) : ty :=
  match t with Ty n k g _ _ => Ty n k (map erase_ty g) r0 r0 end.
Definition erase_dir (d : direction) : direction :=
  match d with DIn _ => DIn r0 | DOut _ => DOut r0 | DInOut _ => DInOut r0 | DUnspecified => DUnspecified end.
Definition erase_arg (a : arg) : arg :=
  Arg (erase_dir (a_dir a)) (a_name a) (erase_ty (a_ty a)) (a_annots a) None r0 r0.
Definition erase_method (m : method) : method :=
  Method (m_oneway m) (m_name m) (erase_ty (m_ret m)) (map erase_arg (m_args m)) (m_annots m) (m_code m) None r0 r0 r0 r0.
Definition erase_const (c : const) : const := Const (c_name c) (erase_ty (c_ty c)) (c_value c) (c_annots c) None r0 r0.
Definition erase_field (f : field) : field := Field (f_name f) (erase_ty (f_ty f)) (f_value f) (f_annots f) None r0 r0.
Definition erase_ee (e : enum_elem) : enum_elem := EnumElem (ee_name e) (ee_value e) None r0 r0.
Definition erase_ie (e : iface_elem) : iface_elem :=
  match e with IEConst c => IEConst (erase_const c) | IEMethod m => IEMethod (erase_method m) end.
Definition erase_pe (e : parc_elem) : parc_elem :=
  match e with PEConst c => PEConst (erase_const c) | PEField f => PEField (erase_field f) end.
Definition erase_interface (i : interface) : interface :=
  Interface (i_oneway i) (i_name i) (map erase_ie (i_elems i)) (i_annots i) None r0 r0.
Definition erase_parcelable (p : parcelable) : parcelable :=
  Parcelable (pc_name p) (map erase_pe (pc_elems p)) (pc_annots p) None r0 r0.
Definition erase_enum (e : enum) : enum := Enum (e_name e) (map erase_ee (e_elems e)) (e_annots e) None r0 r0.
Definition erase_item (it : item) : item :=
  match it with
  | ItInterface i => ItInterface (erase_interface i)
  | ItParcelable p => ItParcelable (erase_parcelable p)
  | ItEnum e => ItEnum (erase_enum e)
  end.
Definition erase_package (p : package) : package := Package (pk_name p) r0 r0.
Definition erase_import (i : import) : import := Import (im_path i) (im_name i) r0 r0.
Definition erase_aidl (a : aidl) : aidl :=
  Aidl (erase_package (ai_package a)) (map erase_import (ai_imports a)) (map erase_import (ai_declared a)) (erase_item (ai_item a)).

Definition erase_err (e : perr) : perr :=
  match e with
  | EInvalidToken _ => EInvalidToken 0
  | EUnrecognizedEOF _ ex => EUnrecognizedEOF 0 ex
  | EUnrecognizedToken _ t _ ex => EUnrecognizedToken 0 t 0 ex
  | EExtraToken _ t _ => EExtraToken 0 t 0
  end.

Fixpoint erase (v : sem) : sem :=
  match v with
  | VTok s => VTok s | VLoc _ => VLoc 0 | VString s => VString s
  | VOpt o => VOpt (option_map erase o) | VVec l => VVec (map erase l) | VTuple l => VTuple (map erase l)
  | VErr e => VErr (erase_err e)
  | VPackage p => VPackage (erase_package p) | VImport i => VImport (erase_import i) | VItem it => VItem (erase_item it)
  | VAidl a => VAidl (erase_aidl a)
  | VInterface i => VInterface (erase_interface i) | VParcelable p => VParcelable (erase_parcelable p) | VEnum e => VEnum (erase_enum e)
  | VMethod m => VMethod (erase_method m) | VArg a => VArg (erase_arg a) | VDirection d => VDirection (erase_dir d)
  | VConst c => VConst (erase_const c) | VField f => VField (erase_field f)
  | VEnumElem e => VEnumElem (erase_ee e) | VType t => VType (erase_ty t) | VAnnotation a => VAnnotation a
  | VIE e => VIE (erase_ie e) | VPE e => VPE (erase_pe e) | VKV kv => VKV kv
  | VBad => VBad | VPanic => VPanic
  end.

Definition sim (a b : sem) : Prop := erase a = erase b.
Definition sim_triple (x y : triple) : Prop := sim (tval x) (tval y).
