(* A typing discipline for the values on the parser's symbol stack.  `has_type t v` also says that every location
   inside v is a character boundary of the source, so a well-typed value is neither VBad nor VPanic and every
   Position::new on its locations succeeds. *)
From AidlV Require Import Model.Wrappers Model.Lexer Proofs.Totality.
From AidlV Require Export Proofs.Words.

Section Typing.
  Variable cx : ctx.
  (* the level: has an Error diagnostic been pushed yet?  Only then may a TLoud option be None. *)
  Variable loud : bool.

  Definition valid (off : N) : Prop := exists pre post, cx_src cx = pre ++ post /\ byte_len pre = off.

  Definition err_ok (e : perr) : Prop :=
    match e with
    | EInvalidToken l | EUnrecognizedEOF l _ => valid l
    | EUnrecognizedToken s _ e _ | EExtraToken s _ e => valid s /\ valid e
    end.

  (* which texts a token of terminal column c can have: some regex of the lexer table that maps to c matched exactly it *)
  Definition token_lang (c : N) (text : str) : Prop :=
    (exists idx r sk rest fuel,
      nth_error gen_lex_table idx = Some (r, sk) /\ gen_token_to_integer (N.of_nat idx) = Some c /\
      match_len_fuel fuel r (text ++ rest) = Some (length text)) /\
    (* the longest-match rule with its tie-break: an IDENT is never a keyword or reserved word (Proofs/Keywords.v) *)
    (c = ident_col -> ident_ok text).

  Definition ast_shape (name : string) (v : sem) : Prop :=
    match v with
    | VAidl _ => name = "Aidl"%string | VPackage _ => name = "Package"%string | VImport _ => name = "Import"%string
    | VItem _ => name = "Item"%string | VInterface _ => name = "Interface"%string | VParcelable _ => name = "Parcelable"%string
    | VEnum _ => name = "Enum"%string | VMethod _ => name = "Method"%string | VArg _ => name = "Arg"%string
    | VDirection _ => name = "Direction"%string | VConst _ => name = "Const"%string | VField _ => name = "Field"%string
    | VEnumElem _ => name = "EnumElement"%string | VType _ => name = "Type"%string | VAnnotation _ => name = "Annotation"%string
    | VIE _ => name = "InterfaceElement"%string | VPE _ => name = "ParcelableElement"%string
    | _ => False
    end.

  Fixpoint has_type (t : vty) (v : sem) {struct t} : Prop :=
    match t with
    | TTok => match v with VTok _ => True | _ => False end
    | TTokOf c => match v with VTok s => token_lang c s | _ => False end
    | TLoc => match v with VLoc n => valid n | _ => False end
    | TString => match v with VString _ => True | _ => False end
    | TQName => match v with VString s => qualified_ok s | _ => False end
    | TErr => match v with VErr e => err_ok e | _ => False end
    | TOpt t' => match v with VOpt None => True | VOpt (Some x) => has_type t' x | _ => False end
    | TLoud t' => match v with VOpt None => loud = true | VOpt (Some x) => has_type t' x | _ => False end
    | TVec t' =>
        match v with
        | VVec l => (fix all (l : list sem) : Prop := match l with [] => True | x :: r => has_type t' x /\ all r end) l
        | _ => False
        end
    | TTuple ts =>
        match v with
        | VTuple l =>
            (fix all2 (ts : list vty) (l : list sem) : Prop :=
               match ts, l with
               | [], [] => True
               | t1 :: ts', x :: l' => has_type t1 x /\ all2 ts' l'
               | _, _ => False
               end) ts l
        | _ => False
        end
    | TAst name => ast_shape name v /\ sem_names_ok v
    | TKV => match v with VKV kv => ident_ok (fst kv) | _ => False end
    | TBot => False
    end.

  Definition all_typed (t : vty) (l : list sem) : Prop := Forall (has_type t) l.

  Lemma has_type_vec t l : has_type (TVec t) (VVec l) <-> Forall (has_type t) l.
  Proof.
    cbn. induction l as [|x l IH]; [split; intros; constructor|].
    split.
    - intros [H1 H2]. constructor; [exact H1|apply IH; exact H2].
    - intros H. inversion H; subst. split; [assumption|apply IH; assumption].
  Qed.

  Lemma has_type_not_bad t : ~ has_type t VBad.
  Proof. destruct t; cbn; try tauto. Qed.
  Lemma has_type_not_panic t : ~ has_type t VPanic.
  Proof. destruct t; cbn; try tauto. Qed.

  (* ---- subtyping ---- *)
  Fixpoint sub (a b : vty) {struct a} : bool :=
    match a, b with
    | TBot, _ => true
    | TTok, TTok | TLoc, TLoc | TString, TString | TErr, TErr | TQName, TQName | TQName, TString => true
    | TTokOf c, TTok => true
    | TTokOf c, TTokOf c' => N.eqb c c'
    | TOpt x, TOpt y | TVec x, TVec y | TLoud x, TLoud y | TLoud x, TOpt y => sub x y
    | TTuple xs, TTuple ys =>
        (fix go (xs ys : list vty) : bool :=
           match xs, ys with
           | [], [] => true
           | x :: xs', y :: ys' => sub x y && go xs' ys'
           | _, _ => false
           end) xs ys
    | TAst n, TAst m => String.eqb n m
    | TKV, TKV => true
    | _, _ => false
    end.

  Lemma sub_sound a : forall b v, sub a b = true -> has_type a v -> has_type b v.
  Proof.
    induction a as [| c | | | | | a IH | a IH | a IH | xs IH | n | |] using vty_ind'; intros b v Hs Ht.
    - destruct b; cbn in Hs; try discriminate. exact Ht.
    - destruct b; cbn in Hs; try discriminate.
      + destruct v; cbn in *; auto.
      + apply N.eqb_eq in Hs. subst. exact Ht.
    - destruct b; cbn in Hs; try discriminate. exact Ht.
    - destruct b; cbn in Hs; try discriminate. exact Ht.
    - destruct b; cbn in Hs; try discriminate; [destruct v; cbn in *; auto|exact Ht].
    - destruct b; cbn in Hs; try discriminate. exact Ht.
    - destruct b; cbn in Hs; try discriminate.
      destruct v; cbn in *; auto. destruct o; auto.
    - destruct b; cbn in Hs; try discriminate.
      + destruct v; cbn in *; auto. destruct o; auto.
      + destruct v; cbn in *; auto. destruct o; auto.
    - destruct b; cbn in Hs; try discriminate.
      destruct v; try contradiction. apply has_type_vec. apply has_type_vec in Ht.
      induction Ht; constructor; auto.
    - destruct b as [| | | | | | | | |ys| | |]; cbn in Hs; try discriminate.
      destruct v; try contradiction.
      cbn in Ht |- *. revert ys l Hs Ht. induction IH as [|x xs Hx Hxs IHxs]; intros ys l Hs Ht.
      + destruct ys; [|discriminate]. exact Ht.
      + destruct ys as [|y ys]; [discriminate|]. apply andb_true_iff in Hs as [S1 S2].
        destruct l as [|z l]; [contradiction|]. destruct Ht as [T1 T2]. split; [apply Hx with (b := y); assumption|].
        apply IHxs; assumption.
    - destruct b; cbn in Hs; try discriminate. apply String.eqb_eq in Hs. subst. exact Ht.
    - destruct b; cbn in Hs; try discriminate. exact Ht.
    - destruct v; contradiction.
  Qed.

  (* ---- positions on valid offsets always exist ---- *)
  Hypothesis WF : length (cx_lc cx) = S (length (cx_src cx)).

  Lemma mk_pos_total off : valid off -> exists p, mk_pos cx off = Some p.
  Proof.
    intros [pre [post [E L]]]. unfold mk_pos. rewrite E, <- L, char_index_app. cbn [Nat.add].
    destruct (nth_error (cx_lc cx) (length pre)) as [[l c]|] eqn:N; [eexists; reflexivity|].
    apply nth_error_None in N. rewrite WF, E, app_length in N. lia.
  Qed.

  Lemma mk_range_total s e : valid s -> valid e -> exists r, mk_range cx s e = Some r.
  Proof.
    intros Hs He. unfold mk_range. destruct (mk_pos_total s Hs) as [p1 ->]. destruct (mk_pos_total e He) as [p2 ->].
    eexists; reflexivity.
  Qed.

  Lemma valid_zero : valid 0.
  Proof. exists [], (cx_src cx). split; reflexivity. Qed.

  Lemma valid_char_index off : valid off -> exists i, char_index (cx_src cx) off O = Some i.
  Proof. intros [pre [post [E L]]]. rewrite E, <- L, char_index_app. eexists; reflexivity. Qed.

  Definition typed_triple (t : vty) (x : triple) : Prop := valid (tstart x) /\ valid (tend x) /\ has_type t (tval x).
End Typing.

(* has an Error been pushed? *)
Definition is_error (d : diag) : bool := match d_kind d with DError => true | DWarning => false end.
Definition errb (ds : list diag) : bool := existsb is_error ds.
Lemma errb_app a b : errb (a ++ b) = errb a || errb b.
Proof. apply existsb_app. Qed.
Lemma errb_spec ds : errb ds = true -> exists d, In d ds /\ d_kind d = DError.
Proof. intros H. apply existsb_exists in H as [d [I E]]. exists d. split; [exact I|]. unfold is_error in E. destruct (d_kind d); [reflexivity|discriminate]. Qed.

(* raising the level keeps every typing *)
Lemma has_type_lift cx l l' t : forall v, has_type cx l t v -> has_type cx (l || l') t v.
Proof.
  induction t as [| c | | | | | a IH | a IH | a IH | xs IH | n | |] using vty_ind'; intros v H; try exact H.
  - destruct v; try contradiction. destruct o as [x|]; [apply IH; exact H|exact I].
  - destruct v; try contradiction. destruct o as [x|]; [apply IH; exact H|]. cbn in H |- *. subst. reflexivity.
  - destruct v; try contradiction. apply has_type_vec. apply has_type_vec in H. induction H; constructor; auto.
  - destruct v; try contradiction. cbn in H |- *. revert l0 H. induction IH as [|x xs Hx Hxs IHxs]; intros l0 H; [exact H|].
    destruct l0 as [|z l0]; [contradiction|]. destruct H as [H1 H2]. split; [apply Hx; exact H1|apply IHxs; exact H2].
Qed.

Lemma has_type_lift_eq cx l l2 t v : (l = true -> l2 = true) -> has_type cx l t v -> has_type cx l2 t v.
Proof.
  intros Hl H. destruct l.
  - rewrite (Hl eq_refl). exact H.
  - apply (has_type_lift cx false l2). exact H.
Qed.

Lemma typed_triple_lift cx l l' t x : typed_triple cx l t x -> typed_triple cx (l || l') t x.
Proof. intros [A [B C]]. split; [exact A|split; [exact B|apply has_type_lift; exact C]]. Qed.


Lemma Forall2_typed_lift cx l l' tys xs : Forall2 (typed_triple cx l) tys xs -> Forall2 (typed_triple cx (l || l')) tys xs.
Proof. induction 1; constructor; [apply typed_triple_lift; assumption|assumption]. Qed.
