(* C06 -- imports and forward declarations get exactly the diagnostics they deserve.  Statements only. *)
From AidlV Require Import Spec.Master Proofs.Scoping Proofs.Master.

(* the two passes over the imports emit a permutation of the per-import specification (Spec/Scoping.v:
   spec_import: repeat of an earlier import -> Error pointing to the first; else unresolved; else unused; else
   nothing), and hand the non-repeated imports, in order, to the declaration check *)
Theorem C06_imports : forall imports used defined,
  snd (check_imports imports used defined) = first_imports_from [] imports /\
  Permutation (fst (check_imports imports used defined)) (spec_imports_from used defined [] imports).
Proof. exact check_imports_spec. Qed.
Print Assumptions C06_imports.

(* forward declarations: conflict with an import of the same simple name, else repeat of an accepted
   declaration, else unused / used -- exactly one diagnostic each *)
Theorem C06_declared : forall declared import_firsts used,
  Permutation (check_declared declared import_firsts used) (spec_declared_from used import_firsts [] declared).
Proof. exact check_declared_spec. Qed.
Print Assumptions C06_declared.

Theorem C06_exactly_one_per_declaration : forall used firsts pre p,
  length (spec_declared_one used firsts pre p) = 1%nat.
Proof.
  intros. unfold spec_declared_one.
  destruct (conflicting_import firsts p); [reflexivity|].
  destruct (find _ _); [reflexivity|]. destruct (negb _); reflexivity.
Qed.
Theorem C06_at_most_one_per_import : forall used defined pre i,
  (length (spec_import used defined pre i) <= 1)%nat.
Proof.
  intros. unfold spec_import. destruct (find _ _); [cbn; lia|].
  destruct (negb (resolvable _ _)); [cbn; lia|]. destruct (negb (mem_str _ _)); cbn; lia.
Qed.

(* "used" means: some type node of the file, at any nesting depth, resolves to that key *)
Theorem C06_used : forall it q,
  mem_str q (resolved_set it) = existsb (fun t => mem_str q (resolved_key (ty_kind t))) (all_types_pre it).
Proof. exact used_iff. Qed.

(* the conflicting import that is named has the declaration's simple name, and one is named whenever one exists *)
Theorem C06_conflict_sound : forall firsts p c,
  conflicting_import firsts p = Some c -> In c firsts /\ im_name c = im_name p.
Proof. exact conflicting_import_sound. Qed.
Theorem C06_conflict_complete : forall firsts p c,
  In c firsts -> im_name c = im_name p -> conflicting_import firsts p <> None.
Proof. exact conflicting_import_complete. Qed.

(* whole file: these lists are what validate_file adds (see C05_file for the full statement) *)
Theorem C06_file : forall defined a ds0 a' ds,
  wf_item (ai_item a) = true ->
  validate_file defined a ds0 = Ok (a', ds) ->
  Permutation ds (ds0 ++ sp_unknown defined a ++ sp_imports defined a ++ sp_declared defined a ++
                  sp_containers defined a ++ sp_redundant defined a ++ sp_methods defined a).
Proof. intros defined a ds0 a' ds W H. destruct (validate_file_perm _ _ _ _ _ W H) as [_ [P _]]. exact P. Qed.
Print Assumptions C06_file.
Print Assumptions C06_exactly_one_per_declaration.
Print Assumptions C06_used.

Example C06_example :
  let r n := Rng (Pos n 1 1) (Pos (n + 1) 1 2) in
  let im (p n : string) k := Import (lit p) (lit n) (r k) (r k) in
  let imports := [im "q" "Foo" 1; im "q" "Foo" 2; im "q" "Nope" 3; im "q" "Bar" 4; im "q" "Used" 5]%string in
  let defined := [(lit "q.Foo", RParcelable); (lit "q.Bar", REnum); (lit "q.Used", REnum)] in
  List.map (fun d => (d_ctx d, p_off (r_start (d_range d))))
           (spec_imports_from [lit "q.Used"; lit "q.Foo"] defined [] imports) =
  [(Some (lit "duplicated import"), 2); (Some (lit "unresolved import"), 3); (Some (lit "unused import"), 4)].
Proof. vm_compute. reflexivity. Qed.
