(* C16 -- pointing at a name finds the symbol that carries it.  Statements only. *)
From AidlV Require Import Spec.Nodes Proofs.Traverse.

(* the range test is containment in the lexicographic order on (line, column), inclusive at both ends *)
Theorem C16_contains : forall r line col,
  range_contains r line col = true <->
  lc_le (p_line (r_start r)) (p_col (r_start r)) line col /\ lc_le line col (p_line (r_end r)) (p_col (r_end r)).
Proof. exact range_contains_lex. Qed.
Print Assumptions C16_contains.

(* the lookup returns the first symbol of the level, in traversal order, whose range contains the position,
   and nothing if there is none *)
Theorem C16_lookup : forall flt a line col,
  find_symbol_at flt a line col = find (fun s => range_contains (sym_range s) line col) (symbols flt a).
Proof. exact find_at_spec. Qed.
Print Assumptions C16_lookup.

(* consequently: every symbol of the level is found (itself or an earlier one covering the position) from
   any position inside its name range *)
Theorem C16_found : forall flt a s line col,
  In s (symbols flt a) -> range_contains (sym_range s) line col = true ->
  exists s', find_symbol_at flt a line col = Some s' /\ range_contains (sym_range s') line col = true.
Proof.
  intros flt a s line col Hin Hc. rewrite find_at_spec.
  destruct (find (fun s0 => range_contains (sym_range s0) line col) (symbols flt a)) as [s'|] eqn:F.
  - exists s'. split; [reflexivity|]. apply find_some in F. tauto.
  - exfalso. eapply find_none in F; [|exact Hin]. cbn in F. congruence.
Qed.
Theorem C16_none : forall flt a line col,
  (forall s, In s (symbols flt a) -> range_contains (sym_range s) line col = false) ->
  find_symbol_at flt a line col = None.
Proof.
  intros flt a line col H. rewrite find_at_spec.
  destruct (find _ _) as [s'|] eqn:F; [|reflexivity]. apply find_some in F as [Hin Hc]. rewrite H in Hc by exact Hin. discriminate.
Qed.
Print Assumptions C16_found.
Print Assumptions C16_none.

Example C16_example :
  let r := Rng (Pos 10 2 3) (Pos 14 2 7) in
  (range_contains r 2 3, range_contains r 2 7, range_contains r 2 8, range_contains r 2 2, range_contains r 1 5, range_contains r 3 1)
  = (true, true, false, false, false, false).
Proof. reflexivity. Qed.
