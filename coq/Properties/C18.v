(* C18 -- documentation is taken from the directly preceding doc comment, verbatim.  Statements only.
   PARTIAL: the locator is proved for a doc comment separated from its construct by blanks (space, tab, CR, LF) and ordinary
   comments (block comments that are not doc comments, line comments) -- the statement's "separated only by whitespace and
   ordinary comments" (C18_locate_gap, C18_attach_gap); the normaliser (paragraph / line / tag structure) is covered by the
   exact correspondence javadoc-model = implementation (its regular expressions are regenerated from src/javadoc.rs) and by
   the generator-based oracle, not by theorems. *)
From AidlV Require Import Model.Javadoc Proofs.Javadoc Proofs.JavadocGap.

(* for ANY text before, any comment text without '/' that does not start with '*' (any Unicode content), and any
   blank gap: the scanner returns exactly the comment's text, code point for code point *)
Theorem C18_locate : forall pre body gap,
  doc_body body -> Forall blank gap ->
  find_content_string (pre ++ opener ++ body ++ closer ++ gap) = Some (Some body).
Proof. exact find_content_string_doc. Qed.
Print Assumptions C18_locate.

Theorem C18_attach : forall pre body gap rest,
  doc_body body -> Forall blank gap ->
  get_javadoc ((pre ++ opener ++ body ++ closer ++ gap) ++ rest) (byte_len (pre ++ opener ++ body ++ closer ++ gap))
  = Some (Some (parse_javadoc body)).
Proof. exact get_javadoc_doc. Qed.
Print Assumptions C18_attach.

(* the same across any gap made of blanks, ordinary block comments /* b */ (b without '/', not starting with '*', possibly
   empty: /**/ is an ordinary comment) and line comments // t (t without '/' and newline) *)
Theorem C18_locate_gap : forall pre body gap,
  doc_body body -> gap_ok gap ->
  find_content_string (pre ++ opener ++ body ++ closer ++ gap) = Some (Some body).
Proof. exact find_content_string_doc_gap. Qed.
Print Assumptions C18_locate_gap.

Theorem C18_attach_gap : forall pre body gap rest,
  doc_body body -> gap_ok gap ->
  get_javadoc ((pre ++ opener ++ body ++ closer ++ gap) ++ rest) (byte_len (pre ++ opener ++ body ++ closer ++ gap))
  = Some (Some (parse_javadoc body)).
Proof. exact get_javadoc_doc_gap. Qed.
Print Assumptions C18_attach_gap.

Example C18_ex_gap : gap_ok (lit " /* x */
  // note
  /**/ ").
Proof.
  vm_compute.
  Ltac blanks := repeat (apply GO_blank; [first [left; reflexivity | right; left; reflexivity | right; right; left; reflexivity
                                               | right; right; right; reflexivity]|]).
  Ltac notin := cbn; intros H; repeat (destruct H as [H|H]; [discriminate H|]); exact H.
  blanks. apply (GO_block [32; 120; 32]%N); [notin|discriminate|].
  blanks. apply (GO_line [32; 110; 111; 116; 101]%N); [notin|notin|].
  blanks. apply (GO_block []); [intros []|exact I|].
  blanks. constructor.
Qed.

(* a construct preceded (after blanks) by something that is not a comment has no documentation:
   here for a first line `pre c gap` without '/' and newline *)
Theorem C18_none_partial : forall pre c gap,
  c <> slash -> ~ blank c -> c <> 10 -> Forall blank gap -> ~ In 10 pre -> ~ In slash pre ->
  find_content_string (pre ++ c :: gap) = Some None.
Proof.
  intros. unfold find_content_string. rewrite scan_other_line by assumption. reflexivity.
Qed.
Print Assumptions C18_none_partial.

Example C18_example :
  get_javadoc (lit "package p; /** Gr" ++ [246; 223] ++ lit "e */  interface I {}") 27 = Some (Some (lit "Gr" ++ [246; 223] ++ lit "e")).
Proof. vm_compute. reflexivity. Qed.
