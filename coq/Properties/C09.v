(* C09 -- duplicate method names, duplicate and mixed transact codes.  Statements only. *)
From AidlV Require Import Spec.Methods Proofs.Methods.

(* the loop of check_methods (hash maps, "first method with/without id" options) emits, for every
   method sequence, exactly the prefix-based specification, in order; it never hits an unwrap on None *)
Theorem C09_methods : forall ms, methods_loop ms_init ms = Some (spec_methods ms).
Proof. exact check_methods_spec. Qed.
Check C09_methods : forall ms, methods_loop ms_init ms = Some (spec_methods ms).
Print Assumptions C09_methods.

(* unique names and either no codes or unique codes everywhere: none of the three diagnostics *)
Theorem C09_clean : forall ms,
  NoDup (map m_name ms) -> codes_ok ms -> spec_c09_from [] ms = [].
Proof. exact spec_c09_clean. Qed.
Print Assumptions C09_clean.

(* non-vacuity: a sequence exercising all three rules (names a a b c; codes 1, -, 1, 1) *)
Example C09_example :
  let r := Rng (Pos 0 1 1) (Pos 1 1 2) in
  let t := Ty (lit "void") KVoid [] r r in
  let m n c o := Method false (lit n) t [] [] c None (Rng (Pos o 1 1) (Pos o 1 1)) r (Rng (Pos (o + 100) 1 1) (Pos (o + 100) 1 1)) r in
  List.map (fun d => (d_ctx d, p_off (r_start (d_range d)), List.map (fun r => p_off (r_start r)) (d_related d)))
      (spec_c09_from [] [m "a"%string (Some 1) 1; m "a"%string None 2; m "b"%string None 3; m "c"%string (Some 1) 4])
  = [ (Some (lit "duplicated method name"), 2, [1]);
      (None, 103, [101]);
      (Some (lit "duplicated import"), 104, [101]) ].
Proof. vm_compute. reflexivity. Qed.
