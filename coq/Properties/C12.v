(* C12 -- results depend only on the surviving contents, not on the edit history.  Statements only.
   `parse` (what add_content stores for an id and a text) and `fs` (the file system) are arbitrary. *)
From AidlV Require Import Model.ParserState Proofs.ParserState.

(* after ANY sequence of add / replace / remove / validate / add_file(ok | failing), the parser is in exactly the
   state of a fresh parser that was given only the surviving (id, latest content) pairs -- hence validate()
   returns what that fresh parser would return *)
Theorem C12_history : forall parse fs ops,
  run parse fs ops = fresh parse (arun fs ops) /\
  validate_state (run parse fs ops) = validate_state (fresh parse (arun fs ops)).
Proof. exact history_independence. Qed.
Print Assumptions C12_history.

(* the abstract state is a map: removed ids are absent, a replaced id has its latest content, others are untouched *)
Theorem C12_put : forall (k id c : str) (a : astate), assoc k (put id c a) = if str_eqb k id then Some c else assoc k a.
Proof. intros; apply assoc_put. Qed.
Theorem C12_del : forall (k id : str) (a : astate), assoc k (del id a) = if str_eqb k id then None else assoc k a.
Proof. intros; apply assoc_del. Qed.
Print Assumptions C12_put.
Print Assumptions C12_del.

Theorem C12_validate_pure : forall parse fs s, fst (step parse fs s OValidate) = s.
Proof. exact validate_pure. Qed.
Theorem C12_add_file_failed : forall parse fs s p, fs p = None -> step parse fs s (OAddFile p) = (s, RIoError).
Proof. exact add_file_failed. Qed.
Theorem C12_add_file_ok : forall parse fs s p c, fs p = Some c -> step parse fs s (OAddFile p) = step parse fs s (OAdd p c).
Proof. exact add_file_ok. Qed.
Print Assumptions C12_add_file_ok.

Example C12_example :
  let parse (id c : str) := FR id None [] in
  let fs (p : str) := if str_eqb p (lit "x") then Some (lit "text") else None in
  let ops := [OAdd (lit "a") (lit "1"); OAddFile (lit "x"); OAdd (lit "a") (lit "2"); OValidate;
              OAddFile (lit "missing"); ORemove (lit "x"); ORemove (lit "zz")] in
  arun fs ops = [(lit "a", lit "2")] /\ List.map fst (run parse fs ops) = [lit "a"].
Proof. vm_compute. split; reflexivity. Qed.
