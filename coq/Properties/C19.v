(* C19 -- serialising a tree and reading it back gives an equal tree.  Statements only.
   Level: serde's data model (structs as name->value maps with skip_serializing_if / default, externally tagged
   enums), driven by the attribute tables regenerated from src/ast.rs; the RON text layer is not modelled. *)
From AidlV Require Import Model.Serde Proofs.Serde.

(* the generic law behind every field: a field whose skip predicate agrees with its missing-field default comes
   back, written or skipped *)
Theorem C19_field : forall T (sp : fspec) (c : codec T) (v : T) (l : list sfield),
  NoDup (names_of l) -> In (mkf sp c v) l -> codec_ok c -> consistent sp c -> getf sp c (fields_of l) = Some v.
Proof. intros; apply getf_mkf; assumption. Qed.
Print Assumptions C19_field.

(* every tree, with any members, kinds, directions, flags, annotations, documentation and values *)
Theorem C19_roundtrip : forall a : aidl, roundtrip a = Some a.
Proof. exact roundtrip_ok. Qed.
Print Assumptions C19_roundtrip.

(* the regenerated attribute tables still describe the structs the model was written for *)
Theorem C19_shape :
  map fs_rust fs_Method = ["oneway"; "name"; "return_type"; "args"; "annotations"; "transact_code"; "doc";
                           "symbol_range"; "full_range"; "transact_code_range"; "oneway_range"]%string /\
  map fs_rust fs_Type = ["name"; "kind"; "generic_types"; "symbol_range"; "full_range"]%string.
Proof. split; apply shape_ok. Qed.

(* non-vacuity: a oneway method (the flag is omitted from the output) comes back oneway *)
Example C19_example :
  let r := Rng (Pos 0 1 1) (Pos 1 1 2) in
  let m := Method true (lit "f") (Ty (lit "void") KVoid [] r r) [] [] None None r r r r in
  (lookf (lit "oneway") (match ser_method 1 m with VStruct f => f | _ => [] end), de_method 1 (ser_method 1 m)) = (None, Some m).
Proof. vm_compute. reflexivity. Qed.
