(* C13 -- a file's result depends only on its own text and the kinds of what it imports.  Statements only. *)
From AidlV Require Import Spec.Master Proofs.Locality.

(* the environment is consulted only at the qualified names of the file's own imports *)
Theorem C13_local : forall e e' a ds0,
  agree_on (map import_qname (ai_imports a)) e e' -> validate_file e a ds0 = validate_file e' a ds0.
Proof. exact validate_file_local. Qed.
Print Assumptions C13_local.

(* project level: any other set of files that registers the same (key, kind) facts for the imported keys *)
Theorem C13_project : forall files files' fr a,
  fr_ast fr = Some a ->
  (forall k, In k (map import_qname (ai_imports a)) ->
             assoc k (collect_item_keys files) = assoc k (collect_item_keys files')) ->
  validate_one (collect_item_keys files) fr = validate_one (collect_item_keys files') fr.
Proof.
  intros files files' fr a Ha H. unfold validate_one. rewrite Ha.
  rewrite (validate_file_local (collect_item_keys files) (collect_item_keys files')); [reflexivity|exact H].
Qed.
Print Assumptions C13_project.

(* negative control: changing the kind of an imported key does change the result (an enum argument needs no
   direction, a parcelable one does) *)
Example C13_control :
  let r n := Rng (Pos n 1 1) (Pos (n + 1) 1 2) in
  let t := Ty (lit "Foo") KUnresolved [] (r 5) (r 5) in
  let m := Method false (lit "f") (Ty (lit "void") KVoid [] (r 3) (r 3))
                  [Arg DUnspecified None t [] None (r 6) (r 6)] [] None None (r 4) (r 3) (r 7) (r 3) in
  let a := Aidl (Package (lit "p") (r 0) (r 0)) [Import (lit "q") (lit "Foo") (r 1) (r 1)] []
                (ItInterface (Interface false (lit "I") [IEMethod m] [] None (r 2) (r 2))) in
  match validate_file [(lit "q.Foo", REnum)] a [], validate_file [(lit "q.Foo", RParcelable)] a [] with
  | Ok (_, d1), Ok (_, d2) => (length d1, length d2) = (0%nat, 1%nat)
  | _, _ => False
  end.
Proof. vm_compute. reflexivity. Qed.
