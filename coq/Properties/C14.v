(* C14 -- a malformed member costs only itself.  Statements only.
   PARTIAL.  Proved (for every text and the regenerated tables): whenever the parser had to recover -- and it has to as soon as
   the token sequence of the text is not derivable from the start symbol, which is what a malformed member makes it -- the
   stored result carries at least one Error (C14_malformed_is_reported: the clause "at least one Error is reported"), and
   recovery never panics and always leaves well-typed siblings on the stack (C01_parse_partial).
   Not proved: that the tree still contains every well-formed sibling, and that every syntax Error lies inside the member's
   extent; these are decided by the garbage-member oracle on the implementation and by the exact correspondence of the
   implementation with the table-driven model (which reproduces lalrpop's recovery, dropped tokens included). *)
From AidlV Require Import Model.LrDriver Proofs.Typing Proofs.DriverSafe Proofs.Grammar.

Theorem C14_malformed_is_reported : forall cx, length (cx_lc cx) = S (length (cx_src cx)) ->
  forall id fr, add_content cx id = Added fr ->
  (forall l, lexes_to_eof (cx_src cx, 0%N) l -> ~ der start_sym l) ->
  exists d, In d (fr_diags fr) /\ d_kind d = DError.
Proof. exact malformed_is_loud. Qed.
Print Assumptions C14_malformed_is_reported.

(* once recovery has left its mark -- an error symbol on the stack or an Error pushed -- every later Done outcome has an Error *)
Theorem C14_recovery_is_never_silent : forall cx, length (cx_lc cx) = S (length (cx_src cx)) ->
  forall fuel p, pst_ok cx p -> J p -> fin_J (parse_loop cx fuel p).
Proof. exact parse_loop_J. Qed.
Print Assumptions C14_recovery_is_never_silent.

(* non-vacuity: a garbage member between two good ones; the tree survives with both siblings and an Error is reported *)
Example C14_ex :
  let src := lit "package p; interface I { void a(); int String x ( ; void b(); }" in
  let cx := Ctx src (map (fun i => (1, N.of_nat i + 1)%N) (seq 0 (S (length src)))) in
  exists a d ds, add_content cx (lit "f") = Added (FR (lit "f") (Some a) (d :: ds)) /\ d_kind d = DError /\
                 match ai_item a with ItInterface i => map (fun e => match e with IEMethod m => m_name m | IEConst c => c_name c end) (i_elems i) = [lit "a"; lit "b"] | _ => False end.
Proof. vm_compute. do 3 eexists. split; [reflexivity|split; reflexivity]. Qed.

(* KNOWN FINDING (known_findings.txt): the full statement is false of the model, and of the code, for one class of inputs.  In an
   enum body the members' terminator is the comma, and the comma is also the separator of annotation parameters; a malformed
   member that opens an annotation parenthesis without closing it -- `@X ( B ,` -- therefore does not end at its terminator as
   far as the parser is concerned: the following elements are read as annotation parameters, the error is only met at the
   closing brace, and recovery drops everything since the annotation.  Witness: the elements C and D are lost and the Error
   sits on `}` (offset 37), outside the malformed member (offsets 23..31). *)
Definition elem_names (a : aidl) : list str :=
  match ai_item a with ItEnum e => map ee_name (e_elems e) | _ => [] end.
Example C14_known :
  let with_bad := lit "package p; enum E { A, @X ( B, C, D, }" in
  let without := lit "package p; enum E { A, C, D, }" in
  let cx s := Ctx s (map (fun i => (1, N.of_nat i + 1)%N) (seq 0 (S (length s)))) in
  (exists a, add_content (cx without) (lit "f") = Added (FR (lit "f") (Some a) []) /\ elem_names a = [lit "A"; lit "C"; lit "D"]) /\
  (exists a d, add_content (cx with_bad) (lit "f") = Added (FR (lit "f") (Some a) [d]) /\ elem_names a = [lit "A"] /\
               d_kind d = DError /\ p_off (r_start (d_range d)) = 37%N).
Proof. vm_compute. split; [eexists; split; reflexivity|do 2 eexists; repeat split; reflexivity]. Qed.
